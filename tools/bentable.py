#!/usr/bin/env python3
"""Rewrites section 10.7 of DESIGN.md from /verif/benign/*/meta.json."""
import glob
import json
import os

ROOT = os.path.dirname(os.path.dirname(os.path.abspath(__file__)))
rows = []
quiet = alarms = 0
for d in sorted(glob.glob(os.path.join(ROOT, "benign", "*"))):
    try:
        m = json.load(open(os.path.join(d, "meta.json")))
    except Exception:
        continue
    am = m.get("agent_meta") if isinstance(m.get("agent_meta"), dict) else {}
    kind = str(am.get("kind", ""))
    summ = " ".join(str(am.get("summary", "")).split())[:260]
    if "check_exit" not in m:
        res = "not run (%s)" % str(m.get("note", ""))[:80]
    elif m["check_exit"] == 0:
        res = "quiet"
        quiet += 1
    else:
        res = "ALARM: " + "; ".join(m.get("check_output", []))[:160]
        alarms += 1
    if m.get("resolution"):
        res += " -- " + m["resolution"]
    rows.append("| %s | %s | %s | %s |" % (os.path.basename(d), kind, summ.replace("|", "/"), res.replace("|", "/")))
HEAD = open(os.path.join(ROOT, "tools", "bentable_head.md")).read()
table = (HEAD + "\n| Change | Kind | What | Quick check (as committed now) |\n|--------|------|------|-------------------------------|\n" + "\n".join(rows) + "\n")
p = os.path.join(ROOT, "DESIGN.md")
s = open(p).read()
i = s.find("### 10.7 ")
if i < 0:
    s = s.rstrip("\n") + "\n\n" + table
else:
    j = s.find("### 10.8 ", i)
    s = s[:i] + table + ("\n" + s[j:] if j >= 0 else "")
open(p, "w").write(s)
print("rows:", len(rows), "quiet:", quiet, "alarms:", alarms)
