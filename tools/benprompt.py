"""Prompt for an independent sub-agent that produces HARMLESS changes (the
property still holds) to measure false alarms.  usage: benprompt.py PID [start-index]
(start-index 4 = second round: worktree /tmp/ben4-<pid>, files b4..b6)"""
import json
import sys

pid = sys.argv[1]
for l in open('/verif/properties.jsonl'):
    p = json.loads(l)
    if p['id'] == pid:
        break
start = int(sys.argv[2]) if len(sys.argv) > 2 else 1
wt = ('/tmp/ben-' if start == 1 else '/tmp/ben%d-' % start) + pid.lower()
idx = '%d..%d' % (start, start + 2)
print(f'''You are helping to measure how many FALSE ALARMS a verification tool raises on harmless code changes. You work ONLY inside the git worktree {wt} (a scratch checkout of the repository knz/shakespeare: a Go CLI that parses a theatre-themed DSL, compiles it into timed scenes, runs shell commands as actors and audits their output with temporal-predicate state machines). Do not read or touch anything under /verif or /repo; do not use the network (there is none). Per shell call: `export GOFLAGS=-mod=mod GOPROXY=off GOSUMDB=off GOTOOLCHAIN=local`. The two git-ignored generated files pkg/cmd needs (pkg/cmd/version.go, pkg/cmd/report_html.go) already exist in your worktree (untracked; leave them). go.mod says go 1.12 (no generics, no 0o literals). Tests: `go test -vet=off -count=1 ./pkg/crdb/...` is the project's reference suite (all of it passes except 3 known always-failing tests: TestDefaultCallResolver, TestFatalStacktraceStderr, TestRedirectStderr); `go test -vet=off -count=1 ./pkg/cmd/` also exists: note which of its tests fail BEFORE your change (several do, on the unchanged tree) — your change must not make any additional test of either suite fail. The build tag `verif` guards instrumentation files named verif_*.go: leave them alone, but your change must still compile with `go build -tags verif ./pkg/...` (do not rename or change the signature of anything those files use unless you must; if you must, say so).

The property (id {p['id']}): "{p['title']}"
Statement: {p['statement']}
It must hold: {p['quantifier']['text']}
Code anchors: {json.dumps(p['anchors']['files'])}; mechanisms: {json.dumps(p['anchors']['mechanism'])}

Your task: produce THREE different, realistic source changes in or right next to the anchored non-test code under which this property STILL HOLDS for every input — the kind of change a maintainer makes every week:
 1. a pure refactoring of the code that implements the property (extract/inline a function, rename locals, restructure a loop or a switch, replace a data structure by an equivalent one, reorder independent statements), 5-40 changed lines;
 2. a change of behaviour that the property does not speak about, in the same functions (e.g. the wording of a log/narration/diagnostic message, an additional debug message, a different internal buffer size or capacity, an extra field, a different but equally valid order where the property leaves order free) — read the property statement closely and stay strictly outside of what it constrains;
 3. a well-meant optimisation or robustness improvement in the same code that is actually correct (early exit that is really equivalent, caching that is really transparent, an extra nil/empty guard that cannot change any result).
Each change must compile, keep every existing test result unchanged, and you must be able to argue in 3-6 sentences why the property holds exactly as before for every input/schedule/history it quantifies over. Be careful: a "harmless" change that actually alters behaviour the property constrains is useless here. Where the property text mentions specific output (a message, a file, a value), that output must stay byte-identical.

Deliver, under {wt}/BEN/, for i in {idx} (change 1 of the list above is b{start}, change 2 is b{start+1}, change 3 is b{start+2}): `b<i>.diff` (output of `git diff` for that change alone, relative to the unchanged tree, not including the generated files), and `b<i>.json` with fields: property, kind (refactor | unconstrained-behaviour | optimisation), summary (what is changed), why_property_still_holds, existing_tests (exact commands you ran and that no additional test fails). After producing each diff, restore the tree (`git checkout -- .`) and verify the diff applies cleanly with `git apply --check`. At the end the worktree must contain no source modification apart from the BEN/ directory. Reply with a short summary of the three changes.

Never run `git stash` (the stash is shared with the main repository).''')
