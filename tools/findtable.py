#!/usr/bin/env python3
"""Rewrites section 10.2 of DESIGN.md from KNOWN_FINDINGS.json."""
import json
import os

ROOT = os.path.dirname(os.path.dirname(os.path.abspath(__file__)))
k = json.load(open(os.path.join(ROOT, "KNOWN_FINDINGS.json")))["findings"]
fixed = [e for e in k if e["kind"] == "fixed"]
known = [e for e in k if e["kind"] == "known"]
out = ["### 10.2 Defects found on the pinned tree and what was done\n",
       "Generated from `KNOWN_FINDINGS.json` (`tools/findtable.py`).  Fixed by minimal `fix:`",
       "commits in /repo, each replayed through its check before and after; a `fixed`",
       "entry suppresses nothing (the check reports the violation again if it returns):\n",
       "| Property | Commit | Signature | Defect |", "|----------|--------|-----------|--------|"]
for e in fixed:
    what = e["what"]
    if what.startswith("fixed: "):
        what = what.split(" ", 3)[-1] if what.count(" ") >= 3 else what
    out.append("| %s | %s | `%s` | %s |" % (e["property"], e.get("commit", ""), e["signature"], what.replace("|", "/")))
out += ["", "Recorded, not repaired (`kind: known`; the check prints `KNOWN-FINDING:` for exactly",
        "that signature, exits 0, and still reports any other violation of the property):\n",
        "| Property | Signature | What fails |", "|----------|-----------|------------|"]
for e in known:
    out.append("| %s | `%s` | %s |" % (e["property"], e["signature"], e["what"].replace("|", "/")))
out += ["", "Why the known ones are not repaired: C17 `attempt-after-close-following-reset` is the",
        "documented upstream behaviour of Reset; C07 `running-action-or-cleanup-not-interruptible`",
        "needs a restructuring of runActorCommandWithConsumer (process management, ~15 lines):",
        "not small and safe; C16's header ambiguity would change the log format; C11's nil",
        "counting matches the manual; C12's upload quoting and the C10 reload shapes are",
        "marginal paths whose repair touches many print sites (C10: the printer would have to",
        "emit clauses in definition order).\n", ""]
p = os.path.join(ROOT, "DESIGN.md")
s = open(p).read()
i = s.index("### 10.2 Defects found")
j = s.index("### 10.3 Departures")
s = s[:i] + "\n".join(out) + s[j:]
open(p, "w").write(s)
print("fixed:", len(fixed), "known:", len(known))
