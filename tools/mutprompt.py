import json,sys
pid=sys.argv[1]
import glob, os
known=[]
for d in sorted(glob.glob('/verif/seeded/%s-*' % pid)):
    try:
        m=json.load(open(os.path.join(d,'meta.json')))
        am=m.get('agent_meta') if isinstance(m.get('agent_meta'),dict) else {}
        known.append(' '.join(str(am.get('summary','')).split())[:300])
    except Exception:
        pass
suffix = sys.argv[2] if len(sys.argv) > 2 else ''
for l in open('/verif/properties.jsonl'):
    p=json.loads(l)
    if p['id']==pid:
        break
wt='/tmp/mut-'+pid.lower()+suffix
print(f'''You are testing how robust a Go project is against subtle regressions. You work ONLY inside the git worktree {wt} (a scratch checkout of the repository knz/shakespeare: a Go CLI that parses a theatre-themed DSL, compiles it into timed scenes, runs shell commands as actors and audits their output with temporal-predicate state machines). Do not read or touch anything under /verif or /repo; do not use the network (there is none). Per shell call: `export GOFLAGS=-mod=mod GOPROXY=off GOSUMDB=off GOTOOLCHAIN=local`. The two git-ignored generated files pkg/cmd needs (pkg/cmd/version.go, pkg/cmd/report_html.go) already exist in your worktree (untracked; leave them). go.mod says go 1.12 (no generics, no 0o literals). Tests: `go test -vet=off -count=1 ./pkg/crdb/...` is the project's reference suite (all of it passes except 3 known always-failing tests: TestDefaultCallResolver, TestFatalStacktraceStderr, TestRedirectStderr); `go test -vet=off -count=1 ./pkg/cmd/` also exists: note which of its tests fail BEFORE your change (several do, on the unchanged tree) — your change must not make any additional test of either suite fail.

The property you are attacking (id {p['id']}): "{p['title']}"
Statement: {p['statement']}
It must hold: {p['quantifier']['text']}
Code anchors: {json.dumps(p['anchors']['files'])}; mechanisms: {json.dumps(p['anchors']['mechanism'])}

Your task: produce THREE different, realistic, small source changes (each independent of the others; think "plausible refactoring slip or well-meant optimisation", 1-15 changed lines each, in the anchored non-test code) that each BREAK this property while the code still compiles and no additional existing test fails. Prefer changes that need something specific to manifest — a particular multi-step sequence of operations, an unusual but legal input, a particular interleaving or timing, a boundary value, or two cooperating sites that each look fine alone — not ones that any ordinary use would expose at once. For each change write a demonstration (a Go test file or small Go program inside the worktree, or a shell script running the built binary `go build -o /tmp/{pid.lower()}-shk . `) that FAILS with the change applied and PASSES on the unchanged tree; keep demonstrations deterministic.

Deliver, under {wt}/MUT/, for i in 1..3: `m<i>.diff` (output of `git diff` for that change alone, relative to the unchanged tree, NOT including the demonstration or the generated files), `m<i>_demo/` (the demonstration files + a `run.sh` that exits 0 when the property holds and non-zero when it is broken, runnable from the worktree root), `m<i>.json` with fields: property, summary (what is changed), needs (what is required for the breakage to manifest), existing_tests (exact commands you ran and that no additional test fails), demo (how to run it). After producing each diff, restore the tree (`git checkout -- .`) and verify the diff applies cleanly with `git apply`. At the end the worktree must contain no source modification apart from the MUT/ directory. Reply with a short summary of the three changes.''')
if known:
    print("\nChanges of this kind that are ALREADY KNOWN — produce three that are DIFFERENT in location and mechanism from all of these (do not vary them slightly):")
    for k in known:
        print(" - " + k)
print("\nNever run `git stash` (the stash is shared with the main repository).")
