#!/usr/bin/env python3
"""Run a property's quick check against HARMLESS changes produced by an
independent sub-agent (tools/benprompt.py) to measure false alarms.

usage: bentest.py [-j N] PID[:idx] ...     (worktree /tmp/ben-<pid>, BEN/b<i>.diff)

For each change: (1) in the scratch worktree the set of failing existing tests
is unchanged and `go build -tags verif ./pkg/...` works; (2) the diff is applied
to a PRIVATE COPY of /repo and ./check runs against it (VERIF_REPO); (3) the
result is stored under /verif/benign/<PID>-b<i>/ (patch.diff, meta.json).
A check that exits non-zero here is a FALSE ALARM candidate: read the agent's
argument and the check output, then either make the check compare only what the
property constrains, or conclude that the change is not harmless after all."""
import concurrent.futures
import json
import os
import re
import shutil
import subprocess
import sys
import tempfile

ROOT = os.path.dirname(os.path.dirname(os.path.abspath(__file__)))
ENV = dict(os.environ, GOFLAGS="-mod=mod", GOPROXY="off", GOSUMDB="off", GOTOOLCHAIN="local")


def sh(cmd, cwd=ROOT, env=ENV, timeout=3600):
    p = subprocess.run(cmd, cwd=cwd, shell=True, env=env, stdout=subprocess.PIPE, stderr=subprocess.STDOUT, text=True,
                       errors="replace", timeout=timeout)
    return p.returncode, p.stdout


def failing_tests(wt):
    out = ""
    for pkg in ("./pkg/crdb/...", "./pkg/cmd/"):
        rc, o = sh("go test -vet=off -count=1 %s 2>&1" % pkg, wt)
        out += o
    fails = set(re.findall(r"^\s*--- FAIL: (\S+)", out, re.M))
    build = "[build failed]" in out or "cannot find package" in out
    return fails, build


BASE = {}


def wt_of(pid, idx):
    """round 1 (b1..b3) lives in /tmp/ben-<pid>, round 2 (b4..b6) in /tmp/ben4-<pid>"""
    return ("/tmp/ben-" if int(idx) <= 3 else "/tmp/ben4-") + pid.lower()


def one(spec):
    pid, idx = spec
    wt = wt_of(pid, idx)
    diff = os.path.join(wt, "BEN", "b%s.diff" % idx)
    name = "%s-b%s" % (pid, idx)
    if not os.path.exists(diff):
        return name, "no diff"
    meta = {"property": pid, "source": "independent sub-agent asked for a harmless change (property text + scratch worktree only)"}
    try:
        meta["agent_meta"] = json.load(open(os.path.join(wt, "BEN", "b%s.json" % idx)))
    except Exception as e:  # noqa
        meta["agent_meta"] = "unreadable: %s" % e
    copy = tempfile.mkdtemp(prefix="shk-benrepo-")
    try:
        sh("rsync -a --exclude .git --exclude BEN %s/ %s/" % (wt, copy))
        sh("git -C /repo archive HEAD | tar -x -C %s" % copy)
        rc, o = sh("git apply %s" % diff, cwd=copy)
        if rc != 0:
            # /repo moved since the change was written: apply what still applies
            rc2, o2 = sh("patch -p1 -F 3 --no-backup-if-mismatch -r /dev/null < %s" % diff, cwd=copy)
            meta["applied_partially"] = "git apply failed (%s); patch -F3: %s" % (o.strip()[:120], " ".join(o2.split())[-300:])
            if "succeeded" not in o2 and "patching file" not in o2:
                return name, "diff does not apply: " + o.strip()[:200]
        fails, build = failing_tests(copy)
        rcb, ob = sh("go build -tags verif ./pkg/... 2>&1", copy)
        meta["existing_tests_unchanged"] = (fails == BASE["fails"]) and not build
        meta["builds_with_verif_tag"] = rcb == 0
        if not meta["existing_tests_unchanged"] or rcb != 0:
            meta["note"] = "rejected: tests %s, verif build rc=%d %s" % (sorted(fails ^ BASE["fails"]), rcb, ob[-300:])
            res = "REJECTED (" + meta["note"][:150] + ")"
        else:
            rc, o = sh("./check %s --tier quick" % pid, env=dict(ENV, VERIF_REPO=copy, VERIF_OUT=copy + "-out"))
            lines = [l for l in o.split("\n") if l.startswith(("VIOLATION", "OK ", "KNOWN-FINDING"))]
            meta.update({"check_exit": rc, "check_output": lines, "false_alarm_candidate": rc != 0})
            res = ("ALARM " + " | ".join(lines)[:300]) if rc != 0 else "quiet"
            if rc != 0:
                rp = [l.split("replay=")[1].split()[0] for l in lines if "replay=" in l]
                for r in rp[:1]:
                    try:
                        meta["replay_excerpt"] = open(os.path.join(ROOT, r) if not r.startswith("/") else r).read()[:3000]
                    except Exception:
                        pass
    finally:
        shutil.rmtree(copy, ignore_errors=True)
        shutil.rmtree(copy + "-out", ignore_errors=True)
    d = os.path.join(ROOT, "benign", name)
    os.makedirs(d, exist_ok=True)
    shutil.copy(diff, os.path.join(d, "patch.diff"))
    json.dump(meta, open(os.path.join(d, "meta.json"), "w"), indent=1)
    return name, res


def main():
    args = sys.argv[1:]
    j = 2
    if args and args[0] == "-j":
        j = int(args[1])
        args = args[2:]
    specs = []
    for a in args:
        if ":" in a:
            p, i = a.split(":")
            specs.append((p, i))
        else:
            specs += [(a, str(i)) for i in (1, 2, 3)]
    base = tempfile.mkdtemp(prefix="shk-benbase-")
    try:
        wt = wt_of(*specs[0])
        sh("rsync -a --exclude .git --exclude BEN %s/ %s/" % (wt, base))
        sh("git -C /repo archive HEAD | tar -x -C %s" % base)
        BASE["fails"], _ = failing_tests(base)
    finally:
        shutil.rmtree(base, ignore_errors=True)
    print("baseline failing tests:", sorted(BASE["fails"]), flush=True)
    with concurrent.futures.ThreadPoolExecutor(max_workers=j) as ex:
        for n, r in ex.map(one, specs):
            print(n, r, flush=True)


if __name__ == "__main__":
    main()
