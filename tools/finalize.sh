#!/bin/bash
# Final pass: clean rebuild of the Coq library, independent re-check, forbidden-command grep,
# all 20 quick checks against /repo itself (evidence regenerated), schema validation, tables.
cd /verif || exit 1
export GOFLAGS=-mod=mod GOPROXY=off GOSUMDB=off GOTOOLCHAIN=local
set -u
echo "== /repo must be clean"; git -C /repo status --short | grep -v '^??' && { echo "tracked modifications in /repo"; exit 1; }
echo "== clean rebuild"
find coq/theories coq/gen -name '*.vo' -o -name '*.glob' -o -name '*.vok' -o -name '*.vos' -o -name '*.aux' | xargs -r rm -f
python3 -c "import vlib,sys; ok,out=vlib.coq_make(); print(out[-400:]); sys.exit(0 if ok else 1)" || { echo "coq build failed"; exit 1; }
echo "== forbidden commands"; python3 -c "import vlib; h=vlib.grep_forbidden(); print(h); import sys; sys.exit(1 if h else 0)" || exit 1
grep -rn 'Admitted\|admit\.\|Axiom \|Parameter \|Conjecture \|Unset Guard\|bypass_check\|type-in-type\|impredicative-set' coq/theories --include='*.v' | grep -v '(\*' | head
if [ "${FINAL_COQCHK:-0}" = 1 ]; then
  echo "== coqchk (all property modules)"
  mods=$(for n in 01 02 03 04 05 06 07 08 09 10 11 12 13 14 15 16 17 18 19 20; do echo -n "Shk.Properties.C$n "; done)
  (cd coq && timeout 7200 coqchk -silent -o -Q theories Shk $mods 2>&1 | tail -25) | tee /verif/.cache/coqchk-all.txt
fi
echo "== quick checks"
fail=0
for p in C01 C02 C03 C04 C05 C06 C07 C08 C09 C10 C11 C12 C13 C14 C15 C16 C17 C18 C19 C20; do
  rm -f evidence/$p.json
  out=$(./check $p --tier quick 2>&1 | grep -E '^(OK|VIOLATION|KNOWN-FINDING)' | tr '\n' ' ')
  echo "$p: $out"
  case "$out" in *VIOLATION*) fail=1;; esac
  [ -f evidence/$p.json ] || { echo "$p: no evidence"; fail=1; }
done
echo "== schema"
python3-vt - <<'PY'
import json, glob, jsonschema
s = json.load(open('/root/.vp/EVIDENCE.schema.json'))
for f in sorted(glob.glob('/verif/evidence/*.json')):
    jsonschema.validate(json.load(open(f)), s)
m = json.load(open('/verif/MANIFEST.json')); jsonschema.validate(m, json.load(open('/root/.vp/MANIFEST.schema.json')))
print('evidence + manifest valid', len(m['checks']))
PY
python3 mkmanifest.py; python3 tools/findtable.py | tail -1; python3 tools/seedtable.py; python3 tools/bentable.py
exit $fail
