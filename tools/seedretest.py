#!/usr/bin/env python3
"""Re-run the property's quick check against kept seeded changes and update
their meta.json.  Each change is applied to a PRIVATE COPY of /repo's working
tree and the check is pointed at it with VERIF_REPO (so /repo is not touched
and several can run in parallel).

usage: seedretest.py [-j N] [<seed-dir-name> ...]   (default: all seeds)"""
import concurrent.futures
import glob
import json
import os
import shutil
import subprocess
import sys
import tempfile

ROOT = os.path.dirname(os.path.dirname(os.path.abspath(__file__)))


def sh(cmd, cwd=ROOT, env=None, timeout=3600):
    p = subprocess.run(cmd, cwd=cwd, shell=True, env=env, stdout=subprocess.PIPE, stderr=subprocess.STDOUT, text=True,
                       errors="replace", timeout=timeout)
    return p.returncode, p.stdout


def one(n):
    d = os.path.join(ROOT, "seeded", n)
    pid = n.split("-")[0]
    meta = json.load(open(os.path.join(d, "meta.json")))
    copy = tempfile.mkdtemp(prefix="shk-seedrepo-")
    try:
        sh("rsync -a --exclude .git /repo/ %s/" % copy)
        # start from HEAD's content for tracked files (ignore others' transient edits)
        sh("git -C /repo archive HEAD | tar -x -C %s" % copy)
        rc, o = sh("git apply %s" % os.path.join(d, "patch.diff"), cwd=copy)
        if rc != 0:
            meta["applies_to_repo"] = False
            json.dump(meta, open(os.path.join(d, "meta.json"), "w"), indent=1)
            return n, "patch does not apply any more: " + o.strip()[:200]
        env = dict(os.environ, VERIF_REPO=copy, VERIF_OUT=copy + "-out")
        rc, o = sh("./check %s --tier quick" % pid, env=env)
    finally:
        shutil.rmtree(copy, ignore_errors=True)
        shutil.rmtree(copy + "-out", ignore_errors=True)
    lines = [l for l in o.split("\n") if l.startswith(("VIOLATION", "OK ", "KNOWN-FINDING"))]
    meta.update({"check_exit": rc, "check_output": lines, "detected": rc != 0, "applies_to_repo": True,
                 "detected_with_failing_input": any(l.startswith("VIOLATION") and "no-failing-input-found" not in l for l in lines)})
    json.dump(meta, open(os.path.join(d, "meta.json"), "w"), indent=1)
    return n, ("detected" if rc != 0 else "NOT DETECTED") + (" (failing input)" if meta["detected_with_failing_input"] else "")


def main():
    args = sys.argv[1:]
    j = 3
    if args and args[0] == "-j":
        j = int(args[1])
        args = args[2:]
    names = args or [os.path.basename(d) for d in sorted(glob.glob(os.path.join(ROOT, "seeded", "*")))]
    with concurrent.futures.ThreadPoolExecutor(max_workers=j) as ex:
        for n, r in ex.map(one, names):
            print(n, r, flush=True)


if __name__ == "__main__":
    main()
