#!/usr/bin/env python3
"""Re-run the property's quick check against kept seeded changes and update
their meta.json.  usage: seedretest.py [<seed-dir-name> ...]  (default: all)"""
import glob
import json
import os
import subprocess
import sys

ROOT = os.path.dirname(os.path.dirname(os.path.abspath(__file__)))


def sh(cmd, timeout=3000):
    p = subprocess.run(cmd, cwd=ROOT, shell=True, stdout=subprocess.PIPE, stderr=subprocess.STDOUT, text=True,
                       errors="replace", timeout=timeout)
    return p.returncode, p.stdout


names = sys.argv[1:] or [os.path.basename(d) for d in sorted(glob.glob(os.path.join(ROOT, "seeded", "*")))]
for n in names:
    d = os.path.join(ROOT, "seeded", n)
    pid = n.split("-")[0]
    meta = json.load(open(os.path.join(d, "meta.json")))
    rc, o = sh("git -C /repo status --short | grep -v '^??'")
    if o.strip():
        print(n, "skipped: /repo has local modifications:", o.strip())
        continue
    rc, o = sh("git -C /repo apply %s" % os.path.join(d, "patch.diff"))
    if rc != 0:
        print(n, "patch does not apply any more:", o.strip()[:200])
        meta["applies_to_repo"] = False
        json.dump(meta, open(os.path.join(d, "meta.json"), "w"), indent=1)
        continue
    try:
        rc, o = sh("./check %s --tier quick" % pid)
    finally:
        sh("git -C /repo apply -R %s" % os.path.join(d, "patch.diff"))
    lines = [l for l in o.split("\n") if l.startswith(("VIOLATION", "OK ", "KNOWN-FINDING"))]
    meta.update({"check_exit": rc, "check_output": lines, "detected": rc != 0,
                 "detected_with_failing_input": any(l.startswith("VIOLATION") and "no-failing-input-found" not in l for l in lines)})
    json.dump(meta, open(os.path.join(d, "meta.json"), "w"), indent=1)
    print(n, "detected" if rc != 0 else "NOT DETECTED", "(failing input)" if meta["detected_with_failing_input"] else "")
