#!/usr/bin/env python3
"""Confirm a seeded change produced by an independent sub-agent and run the
property's check against it.

usage: seedtest.py <PID> <worktree> <m-index> [--keep]

1. in the scratch worktree: demo passes on the unchanged tree, fails with the
   diff; the set of failing existing tests is unchanged by the diff;
2. apply the diff to /repo's working tree, run ./check <PID> --tier quick,
   undo it (git checkout -- .);
3. with --keep: store patch, demo and meta.json under /verif/seeded/<PID>-m<i>/.
"""
import json
import os
import re
import shutil
import subprocess
import sys

ENV = dict(os.environ, GOFLAGS="-mod=mod", GOPROXY="off", GOSUMDB="off", GOTOOLCHAIN="local")


def sh(cmd, cwd, timeout=1500):
    p = subprocess.run(cmd, cwd=cwd, shell=True, env=ENV, stdout=subprocess.PIPE, stderr=subprocess.STDOUT,
                       text=True, errors="replace", timeout=timeout)
    return p.returncode, p.stdout


def failing_tests(wt):
    out = ""
    for pkg in ("./pkg/crdb/...", "./pkg/cmd/"):
        rc, o = sh("go test -vet=off -count=1 %s 2>&1" % pkg, wt)
        out += o
    fails = set(re.findall(r"^\s*--- FAIL: (\S+)", out, re.M))
    build = "[build failed]" in out or "cannot find package" in out
    return fails, build, out


def main():
    pid, wt, idx = sys.argv[1], sys.argv[2], sys.argv[3]
    keep = "--keep" in sys.argv
    tag = "m"
    for a in sys.argv:
        if a.startswith("--tag="):
            tag = a.split("=", 1)[1]
    diff = os.path.join(wt, "MUT", "m%s.diff" % idx)
    demo = "bash MUT/m%s_demo/run.sh" % idx
    meta = {"property": pid, "source": "independent sub-agent given only the property text and a scratch worktree"}
    try:
        meta["agent_meta"] = json.load(open(os.path.join(wt, "MUT", "m%s.json" % idx)))
    except Exception as e:  # noqa
        meta["agent_meta"] = "unreadable: %s" % e
    sh("git checkout -- .", wt)
    rc0, o0 = sh(demo, wt)
    base_fail, base_build, _ = failing_tests(wt)
    rc, o = sh("git apply %s" % diff, wt)
    if rc != 0:
        print("diff does not apply in worktree:", o)
        return 2
    rc1, o1 = sh(demo, wt)
    mut_fail, mut_build, mo = failing_tests(wt)
    sh("git checkout -- .", wt)
    meta["demo_unchanged_exit"] = rc0
    meta["demo_with_change_exit"] = rc1
    meta["existing_tests_failing_unchanged"] = sorted(base_fail)
    meta["existing_tests_failing_with_change"] = sorted(mut_fail)
    meta["build_broken_with_change"] = mut_build and not base_build
    confirmed = rc0 == 0 and rc1 != 0 and mut_fail <= base_fail and not meta["build_broken_with_change"]
    meta["confirmed"] = confirmed
    print("demo unchanged=%s with-change=%s; extra failing tests: %s; confirmed=%s" %
          (rc0, rc1, sorted(mut_fail - base_fail), confirmed))
    # run the check against /repo with the change applied
    private = "--private" in sys.argv
    if private:
        # while other sessions run clean-tree checks against /repo: apply the change to a
        # private copy of /repo's tree and point the check at it (VERIF_REPO)
        import tempfile
        copy = tempfile.mkdtemp(prefix="shk-seedrepo-")
        try:
            sh("rsync -a --exclude .git /repo/ %s/" % copy, "/verif")
            sh("git -C /repo archive HEAD | tar -x -C %s" % copy, "/verif")
            rc, o = sh("git apply %s" % diff, copy)
            if rc != 0:
                print("diff does not apply to the copy of /repo:", o)
                meta["applies_to_repo"] = False
                return 2
            rc, o = sh("VERIF_REPO=%s VERIF_OUT=%s-out ./check %s --tier quick" % (copy, copy, pid), "/verif", timeout=3000)
        finally:
            shutil.rmtree(copy, ignore_errors=True)
            shutil.rmtree(copy + "-out", ignore_errors=True)
    else:
        rc, o = sh("git -C /repo apply %s" % diff, "/verif")
        if rc != 0:
            print("diff does not apply to /repo:", o)
            meta["applies_to_repo"] = False
            return 2
        try:
            rc, o = sh("VERIF_OUT=/tmp/verif-seed-out ./check %s --tier quick" % pid, "/verif", timeout=3000)
        finally:
            sh("git -C /repo checkout -- .", "/verif")
    lines = [l for l in o.split("\n") if l.startswith(("VIOLATION", "OK ", "KNOWN-FINDING"))]
    meta["check_exit"] = rc
    meta["check_output"] = lines
    meta["detected"] = rc != 0
    meta["detected_with_failing_input"] = any(l.startswith("VIOLATION") and "no-failing-input-found" not in l for l in lines)
    meta["ran"] = ["%s (worktree, unchanged and with the change)" % demo,
                   "go test -vet=off -count=1 ./pkg/crdb/... ./pkg/cmd/ (worktree, both)",
                   ("patch.diff applied to a private copy of /repo's tree; VERIF_REPO=<copy> ./check %s --tier quick" % pid) if private else
                   ("git -C /repo apply patch.diff; ./check %s --tier quick; git -C /repo checkout -- ." % pid)]
    print("check exit=%s" % rc)
    for l in lines:
        print("  " + l)
    if keep and confirmed:
        d = os.path.join("/verif/seeded", "%s-%s%s" % (pid, tag, idx))
        shutil.rmtree(d, ignore_errors=True)
        os.makedirs(d)
        shutil.copy(diff, os.path.join(d, "patch.diff"))
        shutil.copytree(os.path.join(wt, "MUT", "m%s_demo" % idx), os.path.join(d, "demo"))
        with open(os.path.join(d, "meta.json"), "w") as f:
            json.dump(meta, f, indent=1)
        print("kept in", d)
    return 0


if __name__ == "__main__":
    sys.exit(main())
