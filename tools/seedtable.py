#!/usr/bin/env python3
"""Rewrites section 10.6 of DESIGN.md from /verif/seeded/*/meta.json."""
import glob
import json
import os
import re

ROOT = os.path.dirname(os.path.dirname(os.path.abspath(__file__)))
rows = []
for d in sorted(glob.glob(os.path.join(ROOT, "seeded", "*"))):
    try:
        m = json.load(open(os.path.join(d, "meta.json")))
    except Exception:
        continue
    am = m.get("agent_meta") if isinstance(m.get("agent_meta"), dict) else {}
    summ = " ".join(str(am.get("summary", "")).split())[:230]
    needs = " ".join(str(am.get("needs", "")).split())[:200]
    det = "not detected"
    if m.get("judged"):
        det = "quiet, rightly: " + " ".join(str(m["judged"]).split())[:160]
    if m.get("thorough_only") and not m.get("detected"):
        det = "quick: not detected; thorough: " + " ".join(str(m["thorough_only"]).split())[:200]
    if m.get("detected") and not m.get("judged"):
        det = "VIOLATION with failing input" if m.get("detected_with_failing_input") else "VIOLATION no-failing-input-found"
    rows.append("| %s | %s | %s | %s |" % (os.path.basename(d), summ.replace("|", "/"), needs.replace("|", "/"), det))
table = ("### 10.6 Seeded changes\n\n"
         "Written by independent sub-agents that saw only the property text and a scratch\n"
         "worktree; each confirmed by `tools/seedtest.py` (demonstration passes on the\n"
         "unchanged tree and fails with the change; no additional existing test fails) and\n"
         "then run against the property's quick check (`git -C /repo apply`, `./check`,\n"
         "`git -C /repo checkout -- .`).  Result = the quick check as committed now.\n\n"
         "| Seed | Change | Needs | Quick check |\n|------|--------|-------|-------------|\n" + "\n".join(rows) + "\n")
p = os.path.join(ROOT, "DESIGN.md")
s = open(p).read()
i = s.index("### 10.6 Seeded changes")
j = s.find("### 10.7 ", i)
s = s[:i] + table + ("\n" + s[j:] if j >= 0 else "")
open(p, "w").write(s)
print("rows:", len(rows))
