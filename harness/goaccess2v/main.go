// goaccess2v regenerates coq/gen/AccessSites.v from the source of pkg/cmd:
//
//   - every read and write (assignment, op=, ++/--, append, index write,
//     delete, composite-literal key, sync/atomic call, flag binding) of a
//     tracked field, with the function (or function literal) that contains it;
//   - the static call graph between the functions of the package (function
//     literals called or deferred on the spot are callees of their parent;
//     literals handed to runWorker / runAsyncTask / go are separate roots);
//   - the synchronisation skeleton of conduct / start* / runScene /
//     manageSpotlights / runForAllActors / runConduct / run / the spotlight
//     consumer hand-off, as a list of facts.
//
// It type-checks the package with go/types (source importer, offline) and
// refuses (exit 3) on any use of a tracked field it does not understand: its
// address taken outside sync/atomic and pflag calls and outside a composite
// literal that stores it in a struct field (which then becomes an alias that
// may only be dereferenced), an aggregate tracked field passed to a function
// or copied into a variable or into a field (e.g. of a message sent to another
// component; fmt / log calls format synchronously and are reads), a tracked
// struct copied by value, an unkeyed
// literal of a tracked struct, a tracked field that no longer has any site.
// Fields of the message types the components send each other are handled
// separately (see msgStructs).  Package-level variable initialisers and init()
// are walked as the node "<init>"; the functions that are used as values or
// started with `go` are listed (escaping), so that the Coq side may let an
// unclassified function inherit the components of its callers.
//
// usage: goaccess2v <dir of pkg/cmd>   (run with the module root as cwd)
package main

import (
	"fmt"
	"go/ast"
	"go/importer"
	"go/parser"
	"go/token"
	"go/types"
	"os"
	"path/filepath"
	"sort"
	"strings"
)

const pkgPath = "github.com/knz/shakespeare/pkg/cmd"

// the shared cells (struct.field); keep in sync with Model/Access.v [cells]
// (the generated file carries the list and the Coq check compares them)
var tracked = []string{
	"app.minTime", "app.maxTime", "app.startTime", "app.terminalWidth",
	"auditionResults.moodPeriods", "auditionResults.actChanges", "auditionResults.numRepeats",
	"actor.hasData", "observer.hasData", "collectedSignal.hasData", "auditor.hasData",
	"sink.lastVal",
	"collectorState.errors", "collectorState.badCounts", "collectorState.goodCounts",
	"auditionState.curMood", "auditionState.curMoodStart", "auditionState.curVals",
	"auditor.name", "config.dataDir", "actor.workDir",
	"workerRegistry.mu.workers", "workerRegistry.mu.numWorkers",
}

// the messages the components hand to each other over channels: once built
// (composite literal) their fields may be assigned only by the component that
// produces them, before the send; receivers only read.  The translator emits
// every assignment / ++ / address-taking of such a field, every slice or map
// field handed to package sort, to copy (as destination), append or delete,
// and every overwrite of a whole message, as a write site with
// synchronisation "Msg"; the Coq
// check requires the enclosing function to run in a producer of the message.
var msgStructs = map[string]bool{
	"moodChange": true, "actChange": true, "sigEvent": true, "auditableValue": true,
	"observation": true, "actionReport": true, "auditionReport": true,
}

// structs that own tracked cells: may not be copied by value
var trackedStructs = map[string]bool{}
var trackedSet = map[string]bool{}

func fail(fset *token.FileSet, pos token.Pos, format string, args ...interface{}) {
	where := ""
	if fset != nil && pos.IsValid() {
		p := fset.Position(pos)
		where = fmt.Sprintf("%s:%d: ", filepath.Base(p.Filename), p.Line)
	}
	fmt.Fprintf(os.Stderr, "goaccess2v: %s"+format+"\n", append([]interface{}{where}, args...)...)
	os.Exit(3)
}

type site struct {
	cell, kind, sync, fn, pos string
}

type tr struct {
	fset     *token.FileSet
	info     *types.Info
	sites    []site
	calls    map[[2]string]bool
	lits     map[string]string // function literal -> kind
	alias    map[string]string // struct.field holding the address of a cell -> cell
	pend     []pendingAlias
	skel     []string
	escaping []string
	locked   map[string]string // function name -> <x> when the body starts with <x>.Lock(); defer <x>.Unlock()
	curExpr  string            // text of the selector being classified
}

type pendingAlias struct {
	sel   *ast.SelectorExpr
	stack []ast.Node
	fn    string
}

func namedOf(t types.Type) *types.Named {
	if p, ok := t.(*types.Pointer); ok {
		t = p.Elem()
	}
	n, _ := t.(*types.Named)
	return n
}

// fieldName gives "Struct.field" for a field selection (with the path through
// anonymous struct fields: workerRegistry.mu.workers).
func (t *tr) fieldName(sel *ast.SelectorExpr) string {
	s, ok := t.info.Selections[sel]
	if !ok || s.Kind() != types.FieldVal {
		return ""
	}
	if n := namedOf(s.Recv()); n != nil {
		if n.Obj().Pkg() == nil || n.Obj().Pkg().Path() != pkgPath {
			return ""
		}
		return n.Obj().Name() + "." + sel.Sel.Name
	}
	if inner, ok := sel.X.(*ast.SelectorExpr); ok {
		if p := t.fieldName(inner); p != "" {
			return p + "." + sel.Sel.Name
		}
	}
	return ""
}

// isValue: the type is copied by value, so using an expression of that type
// is a read of the cell (maps, slices, pointers, channels, functions and
// interfaces would create an alias instead).
func isValue(ty types.Type) bool {
	if ty == nil {
		return false
	}
	switch ty.Underlying().(type) {
	case *types.Basic, *types.Struct, *types.Array:
		return true
	}
	return false
}

func (t *tr) pos(p token.Pos) string {
	q := t.fset.Position(p)
	return fmt.Sprintf("%s:%d", filepath.Base(q.Filename), q.Line)
}

func (t *tr) add(cell, kind, sync, fn string, p token.Pos) {
	// under the registry mutex: the function locks <x> first thing and the
	// access goes through <x> (r.mu.workers with r or r.mu locked)
	if lx := t.locked[fn]; sync == "Plain" && lx != "" && strings.HasPrefix(cell, "workerRegistry.") && strings.HasPrefix(t.curExpr, lx+".") {
		sync = "Locked"
	}
	t.sites = append(t.sites, site{cell, kind, sync, fn, t.pos(p)})
}

// calleeName resolves a call to a function/method of this package.
func (t *tr) calleeName(call *ast.CallExpr) string {
	switch f := call.Fun.(type) {
	case *ast.Ident:
		if fn, ok := t.info.Uses[f].(*types.Func); ok && fn.Pkg() != nil && fn.Pkg().Path() == pkgPath {
			return fn.Name()
		}
	case *ast.SelectorExpr:
		if s, ok := t.info.Selections[f]; ok && s.Kind() == types.MethodVal {
			fn := s.Obj().(*types.Func)
			if fn.Pkg() == nil || fn.Pkg().Path() != pkgPath {
				return ""
			}
			recv := fn.Type().(*types.Signature).Recv().Type()
			if n := namedOf(recv); n != nil {
				if _, isIface := n.Underlying().(*types.Interface); isIface {
					// the only implementation of the package's interfaces in a
					// real play is *app
					return "app." + fn.Name()
				}
				return n.Obj().Name() + "." + fn.Name()
			}
			return "app." + fn.Name()
		}
	}
	return ""
}

func (t *tr) isBuiltin(call *ast.CallExpr) string {
	if id, ok := call.Fun.(*ast.Ident); ok {
		if _, ok := t.info.Uses[id].(*types.Builtin); ok {
			return id.Name
		}
	}
	return ""
}

func (t *tr) isConversion(call *ast.CallExpr) bool {
	tv, ok := t.info.Types[call.Fun]
	return ok && tv.IsType()
}

// pkgCall: the call is <pkg>.<name>(...) for an imported package; returns the
// package path and the function name.
func (t *tr) pkgCall(call *ast.CallExpr) (string, string) {
	if sel, ok := call.Fun.(*ast.SelectorExpr); ok {
		if id, ok := sel.X.(*ast.Ident); ok {
			if pn, ok := t.info.Uses[id].(*types.PkgName); ok {
				return pn.Imported().Path(), sel.Sel.Name
			}
		}
	}
	return "", ""
}

// formatCall: a call of package fmt or of the log package (functions and
// logger methods): the arguments are formatted before the call returns, in the
// calling goroutine — a read of an aggregate, not an alias.
func (t *tr) formatCall(call *ast.CallExpr) bool {
	path, _ := t.pkgCall(call)
	if path == "" {
		if sel, ok := call.Fun.(*ast.SelectorExpr); ok {
			if s, ok := t.info.Selections[sel]; ok && s.Kind() == types.MethodVal && s.Obj().Pkg() != nil {
				path = s.Obj().Pkg().Path()
			}
		}
	}
	return path == "fmt" || strings.HasSuffix(path, "/pkg/crdb/log")
}

// classify one occurrence of a tracked cell: expr is the selector (or the
// dereference of an alias field); stack is the chain of ancestors.
func (t *tr) classify(cell string, expr ast.Expr, stack []ast.Node, fn string) {
	t.curExpr = types.ExprString(expr)
	// climb through parentheses and index expressions
	e := expr
	i := len(stack) - 1
	indexed := false
climb:
	for i >= 0 {
		switch p := stack[i].(type) {
		case *ast.ParenExpr:
			e = p
			i--
			continue
		case *ast.IndexExpr:
			if p.X == e {
				e = p
				indexed = true
				i--
				continue
			}
		}
		break climb
	}
	var parent ast.Node
	if i >= 0 {
		parent = stack[i]
	}
	ety := t.info.Types[e].Type
	switch p := parent.(type) {
	case *ast.AssignStmt:
		for _, l := range p.Lhs {
			if l == e {
				t.add(cell, "W", "Plain", fn, expr.Pos())
				return
			}
		}
	case *ast.IncDecStmt:
		t.add(cell, "W", "Plain", fn, expr.Pos())
		return
	case *ast.UnaryExpr:
		if p.Op == token.AND {
			if indexed {
				fail(t.fset, expr.Pos(), "address of an element of tracked field %s", cell)
			}
			var gp ast.Node
			if i >= 1 {
				gp = stack[i-1]
			}
			if call, ok := gp.(*ast.CallExpr); ok && len(call.Args) > 0 && call.Args[0] == p {
				path, name := t.pkgCall(call)
				// flag binding: pflag.XxxVar(&cfg.f, ...) stores into the field
				// when the command line is parsed, in the same function
				if strings.HasSuffix(path, "/pflag") {
					t.add(cell, "W", "Plain", fn, expr.Pos())
					return
				}
				if path == "sync/atomic" {
					k := "W"
					if strings.HasPrefix(name, "Load") {
						k = "R"
					}
					t.add(cell, k, "Atomic", fn, expr.Pos())
					return
				}
			}
			if kv, ok := gp.(*ast.KeyValueExpr); ok && kv.Value == p {
				if kid, ok := kv.Key.(*ast.Ident); ok {
					if v, ok := t.info.Uses[kid].(*types.Var); ok && v.IsField() && i >= 2 {
						if cl, ok := stack[i-2].(*ast.CompositeLit); ok {
							if n := namedOf(t.info.Types[cl].Type); n != nil {
								t.alias[n.Obj().Name()+"."+kid.Name] = cell
								return
							}
						}
					}
				}
			}
			fail(t.fset, expr.Pos(), "address of tracked field %s taken in a way the translator does not understand", cell)
		}
	case *ast.CallExpr:
		isArg := false
		for _, a := range p.Args {
			if a == e {
				isArg = true
			}
		}
		if isArg {
			if b := t.isBuiltin(p); b != "" {
				switch {
				case b == "delete" && p.Args[0] == e:
					t.add(cell, "W", "Plain", fn, expr.Pos())
				case b == "copy" && p.Args[0] == e:
					t.add(cell, "W", "Plain", fn, expr.Pos())
				default:
					t.add(cell, "R", "Plain", fn, expr.Pos())
				}
				return
			}
			if t.isConversion(p) || isValue(ety) || t.formatCall(p) {
				t.add(cell, "R", "Plain", fn, expr.Pos())
				return
			}
			fail(t.fset, expr.Pos(), "tracked field %s (an aggregate) is passed to a function", cell)
		}
	case *ast.RangeStmt:
		if p.X == e {
			t.add(cell, "R", "Plain", fn, expr.Pos())
			return
		}
	case *ast.SelectorExpr:
		// a field or method of the value (of an element) of the cell
		if p.X == e {
			t.add(cell, "R", "Plain", fn, expr.Pos())
			return
		}
	case *ast.BinaryExpr:
		if p.Op == token.EQL || p.Op == token.NEQ {
			t.add(cell, "R", "Plain", fn, expr.Pos())
			return
		}
	}
	if isValue(ety) || indexed {
		// the value, or one element, is read
		t.add(cell, "R", "Plain", fn, expr.Pos())
		return
	}
	fail(t.fset, expr.Pos(), "tracked field %s (an aggregate) is used as a value (aliased) in a way the translator does not understand", cell)
}

// msgWrite records a selector of a message field when it is written: the left
// side of an assignment (also through an index), ++/--, or its address taken.
func (t *tr) msgWrite(cell string, expr ast.Expr, stack []ast.Node, fn string) {
	var e ast.Expr = expr
	i := len(stack) - 1
climb:
	for i >= 0 {
		switch p := stack[i].(type) {
		case *ast.ParenExpr:
			e = p
			i--
			continue
		case *ast.IndexExpr:
			if p.X == e {
				e = p
				i--
				continue
			}
		}
		break climb
	}
	if i < 0 {
		return
	}
	written := false
	switch p := stack[i].(type) {
	case *ast.AssignStmt:
		for _, l := range p.Lhs {
			if l == e {
				written = true
			}
		}
	case *ast.IncDecStmt:
		written = true
	case *ast.UnaryExpr:
		written = p.Op == token.AND
	case *ast.CallExpr:
		// a slice / map field handed to something that writes through it:
		// package sort (sort.Slice, sort.Sort, ...), copy's destination,
		// append's first argument (may write in place), delete
		for k, a := range p.Args {
			if a != e {
				continue
			}
			if path, _ := t.pkgCall(p); path == "sort" {
				written = true
			}
			if b := t.isBuiltin(p); k == 0 && (b == "copy" || b == "append" || b == "delete") {
				written = true
			}
		}
	}
	if written {
		t.sites = append(t.sites, site{cell, "W", "Msg", fn, t.pos(expr.Pos())})
	}
}

func recvName(fd *ast.FuncDecl) string {
	name := fd.Name.Name
	if fd.Recv != nil && len(fd.Recv.List) > 0 {
		ty := fd.Recv.List[0].Type
		if st, ok := ty.(*ast.StarExpr); ok {
			ty = st.X
		}
		if id, ok := ty.(*ast.Ident); ok {
			name = id.Name + "." + name
		}
	}
	return name
}

func callIs(call *ast.CallExpr, names ...string) string {
	var n string
	switch f := call.Fun.(type) {
	case *ast.Ident:
		n = f.Name
	case *ast.SelectorExpr:
		n = f.Sel.Name
	}
	for _, x := range names {
		if x == n {
			return n
		}
	}
	return ""
}

// lockedPrefix: the body starts with `<x>.Lock()` and `defer <x>.Unlock()`,
// where <x> is the method's receiver or a field path of it (r, r.mu); returns
// the text of <x> ("" if the body does not start that way).
func lockedPrefix(fd *ast.FuncDecl) string {
	if fd.Body == nil || len(fd.Body.List) < 2 || fd.Recv == nil || len(fd.Recv.List) != 1 || len(fd.Recv.List[0].Names) != 1 {
		return ""
	}
	es, ok := fd.Body.List[0].(*ast.ExprStmt)
	if !ok {
		return ""
	}
	c1, ok := es.X.(*ast.CallExpr)
	if !ok || callIs(c1, "Lock") == "" {
		return ""
	}
	ds, ok := fd.Body.List[1].(*ast.DeferStmt)
	if !ok || callIs(ds.Call, "Unlock") == "" {
		return ""
	}
	r1, ok1 := c1.Fun.(*ast.SelectorExpr)
	r2, ok2 := ds.Call.Fun.(*ast.SelectorExpr)
	if !ok1 || !ok2 {
		return ""
	}
	x1, x2 := types.ExprString(r1.X), types.ExprString(r2.X)
	recv := fd.Recv.List[0].Names[0].Name
	if x1 != x2 || (x1 != recv && !strings.HasPrefix(x1, recv+".")) {
		return ""
	}
	return x1
}

// initNode names what runs before main: package-level variable initialisers
// and init() functions.
const initNode = "<init>"

func (t *tr) walkFunc(fd *ast.FuncDecl) {
	top := recvName(fd)
	if fd.Recv == nil && fd.Name.Name == "init" {
		top = initNode
	}
	if lx := lockedPrefix(fd); lx != "" {
		t.locked[top] = lx
	}
	// phases of the two functions that span several components: conduct
	// (before the audition is started / while the workers run / after
	// wgcol.Wait()) and run (before / during / after runConduct)
	phaseOf := func(p token.Pos) string { return "" }
	phased := top == "app.conduct" || top == "config.run"
	if phased {
		var midStart, postStart token.Pos
		for _, st := range fd.Body.List {
			found := ""
			ast.Inspect(st, func(n ast.Node) bool {
				if _, ok := n.(*ast.FuncLit); ok {
					return false
				}
				if c, ok := n.(*ast.CallExpr); ok {
					if top == "app.conduct" && callIs(c, "startAudition") != "" {
						found = "start"
					}
					if top == "config.run" && callIs(c, "runConduct") != "" {
						found = "both"
					}
					if top == "app.conduct" && callIs(c, "Wait") != "" {
						if s, ok := c.Fun.(*ast.SelectorExpr); ok {
							if id, ok := s.X.(*ast.Ident); ok && id.Name == "wgcol" {
								if _, ok := st.(*ast.ExprStmt); ok {
									found = "end"
								}
							}
						}
					}
				}
				return true
			})
			if (found == "start" || found == "both") && midStart == 0 {
				midStart = st.Pos()
			}
			if found == "end" || found == "both" {
				postStart = st.End()
			}
		}
		if midStart == 0 || postStart == 0 {
			fail(t.fset, fd.Pos(), "%s: cannot find the statements that delimit its phases", top)
		}
		phaseOf = func(p token.Pos) string {
			switch {
			case p < midStart:
				return "@pre"
			case p >= postStart:
				return "@post"
			}
			return "@mid"
		}
	}
	nlit := map[string]int{}
	fnStack := []string{top}
	var stack []ast.Node
	cur := func(p token.Pos) string {
		f := fnStack[len(fnStack)-1]
		if len(fnStack) == 1 {
			return f + phaseOf(p)
		}
		return f
	}
	ast.Inspect(fd.Body, func(n ast.Node) bool {
		if n == nil {
			last := stack[len(stack)-1]
			stack = stack[:len(stack)-1]
			if _, ok := last.(*ast.FuncLit); ok {
				fnStack = fnStack[:len(fnStack)-1]
			}
			return true
		}
		switch x := n.(type) {
		case *ast.FuncLit:
			kind := "value"
			if len(stack) > 0 {
				switch p := stack[len(stack)-1].(type) {
				case *ast.CallExpr:
					if p.Fun == x {
						kind = "inline"
						if len(stack) > 1 {
							if _, ok := stack[len(stack)-2].(*ast.GoStmt); ok {
								kind = "spawn"
							}
							if _, ok := stack[len(stack)-2].(*ast.DeferStmt); ok {
								kind = "deferred"
							}
						}
					} else if callIs(p, "runWorker", "runAsyncTask", "RunWorker", "RunAsyncTask", "RunTask") != "" {
						kind = "spawn"
					}
				}
			}
			// literals are numbered per kind, in source order within the
			// declared function: adding a deferred closure does not rename
			// the spawned ones
			nlit[kind]++
			name := fmt.Sprintf("%s$%s%d", top, kind, nlit[kind])
			t.lits[name] = kind
			if kind == "inline" {
				t.calls[[2]string{cur(x.Pos()), name}] = true
			}
			if kind == "deferred" {
				// runs when the enclosing function returns
				from := cur(x.Pos())
				if phased && len(fnStack) == 1 {
					from = top + "@post"
				}
				t.calls[[2]string{from, name}] = true
			}
			stack = append(stack, n)
			fnStack = append(fnStack, name)
			return true
		case *ast.CallExpr:
			if c := t.calleeName(x); c != "" {
				t.calls[[2]string{cur(x.Pos()), c}] = true
			}
		case *ast.SelectorExpr:
			name := t.fieldName(x)
			if name != "" {
				if trackedSet[name] {
					t.classify(name, x, stack, cur(x.Pos()))
				} else if msgStructs[name[:strings.Index(name, ".")]] {
					t.msgWrite(name, x, stack, cur(x.Pos()))
				} else {
					// possibly an alias field: decided once all literals are seen
					t.pend = append(t.pend, pendingAlias{x, append([]ast.Node(nil), stack...), cur(x.Pos())})
				}
			}
		case *ast.AssignStmt:
			// a whole message overwritten through a pointer or a field
			if x.Tok != token.DEFINE {
				for _, l := range x.Lhs {
					if _, isIdent := l.(*ast.Ident); isIdent {
						continue // a local variable of message type being (re)built
					}
					if tv, ok := t.info.Types[l]; ok && tv.Type != nil {
						if nm, ok := tv.Type.(*types.Named); ok && nm.Obj().Pkg() != nil && nm.Obj().Pkg().Path() == pkgPath && msgStructs[nm.Obj().Name()] {
							t.sites = append(t.sites, site{nm.Obj().Name() + ".*", "W", "Msg", cur(x.Pos()), t.pos(l.Pos())})
						}
					}
				}
			}
		case *ast.CompositeLit:
			if n := namedOf(t.info.Types[x].Type); n != nil && n.Obj().Pkg() != nil && n.Obj().Pkg().Path() == pkgPath {
				sname := n.Obj().Name()
				if trackedStructs[sname] {
					for _, el := range x.Elts {
						kv, ok := el.(*ast.KeyValueExpr)
						if !ok {
							fail(t.fset, x.Pos(), "unkeyed literal of tracked struct %s", sname)
						}
						if kid, ok := kv.Key.(*ast.Ident); ok && trackedSet[sname+"."+kid.Name] {
							t.add(sname+"."+kid.Name, "W", "Plain", cur(x.Pos()), kid.Pos())
						}
					}
				}
			}
		}
		// copies of tracked structs by value
		if e, ok := n.(ast.Expr); ok {
			if tv, ok := t.info.Types[e]; ok && tv.Type != nil && !tv.IsType() {
				if nm, ok := tv.Type.(*types.Named); ok && nm.Obj().Pkg() != nil && nm.Obj().Pkg().Path() == pkgPath && trackedStructs[nm.Obj().Name()] {
					okUse := false
					switch e.(type) {
					case *ast.CompositeLit, *ast.CallExpr:
						okUse = true
					}
					if len(stack) > 0 {
						switch p := stack[len(stack)-1].(type) {
						case *ast.SelectorExpr:
							okUse = okUse || p.X == e
						case *ast.UnaryExpr:
							okUse = okUse || p.Op == token.AND
						case *ast.ReturnStmt:
							okUse = true // a locally built value being returned
						case *ast.ParenExpr:
							okUse = true
						}
					}
					if !okUse {
						fail(t.fset, e.Pos(), "tracked struct %s is copied by value", nm.Obj().Name())
					}
				}
			}
		}
		stack = append(stack, n)
		return true
	})
}

func (t *tr) resolveAliases() {
	for _, p := range t.pend {
		name := t.fieldName(p.sel)
		cell, ok := t.alias[name]
		if !ok {
			continue
		}
		if len(p.stack) == 0 {
			fail(t.fset, p.sel.Pos(), "alias %s of %s used without dereference", name, cell)
		}
		st, ok := p.stack[len(p.stack)-1].(*ast.StarExpr)
		if !ok {
			fail(t.fset, p.sel.Pos(), "alias %s of %s used without dereference", name, cell)
		}
		t.classify(cell, st, p.stack[:len(p.stack)-1], p.fn)
	}
}

// findEscaping lists the functions of the package that are used other than
// by calling them on the spot: as a function value (stored, passed, method
// value) or as the operand of a go statement.  Such a function may run in a
// goroutine other than its callers', so its classification is never inherited.
func (t *tr) findEscaping(files []*ast.File) {
	esc := map[string]bool{}
	nameOf := func(obj types.Object) string {
		fn, ok := obj.(*types.Func)
		if !ok || fn.Pkg() == nil || fn.Pkg().Path() != pkgPath {
			return ""
		}
		if recv := fn.Type().(*types.Signature).Recv(); recv != nil {
			if n := namedOf(recv.Type()); n != nil {
				if _, isIface := n.Underlying().(*types.Interface); isIface {
					return "app." + fn.Name()
				}
				return n.Obj().Name() + "." + fn.Name()
			}
			return "app." + fn.Name()
		}
		return fn.Name()
	}
	for _, f := range files {
		var stack []ast.Node
		ast.Inspect(f, func(n ast.Node) bool {
			if n == nil {
				stack = stack[:len(stack)-1]
				return true
			}
			var obj types.Object
			var e ast.Expr
			switch x := n.(type) {
			case *ast.Ident:
				obj, e = t.info.Uses[x], x
				// the Sel of a selector is handled with the selector
				if len(stack) > 0 {
					if p, ok := stack[len(stack)-1].(*ast.SelectorExpr); ok && p.Sel == x {
						obj = nil
					}
				}
			case *ast.SelectorExpr:
				obj, e = t.info.Uses[x.Sel], x
			}
			if obj != nil {
				if name := nameOf(obj); name != "" {
					called := false
					if len(stack) > 0 {
						if c, ok := stack[len(stack)-1].(*ast.CallExpr); ok && c.Fun == e {
							called = true
							if len(stack) > 1 {
								if _, ok := stack[len(stack)-2].(*ast.GoStmt); ok {
									called = false
								}
							}
						}
					}
					if !called {
						esc[name] = true
					}
				}
			}
			stack = append(stack, n)
			return true
		})
	}
	for n := range esc {
		t.escaping = append(t.escaping, n)
	}
	sort.Strings(t.escaping)
}

// ---------------------------------------------------------------------------
// skeleton facts

func findFunc(files []*ast.File, name string) *ast.FuncDecl {
	for _, f := range files {
		for _, d := range f.Decls {
			if fd, ok := d.(*ast.FuncDecl); ok && fd.Body != nil && recvName(fd) == name {
				return fd
			}
		}
	}
	return nil
}

func identName(e ast.Expr) string {
	switch x := e.(type) {
	case *ast.Ident:
		return x.Name
	case *ast.UnaryExpr:
		return identName(x.X)
	case *ast.SelectorExpr:
		return x.Sel.Name
	}
	return "?"
}

// simple statements of a block, in order (if-statements contribute their init)
func simpleParts(st ast.Stmt) []ast.Node {
	switch x := st.(type) {
	case *ast.ExprStmt, *ast.AssignStmt, *ast.DeclStmt:
		return []ast.Node{x}
	case *ast.IfStmt:
		if x.Init != nil {
			return []ast.Node{x.Init}
		}
	}
	return nil
}

func inspectNoLit(n ast.Node, f func(ast.Node)) {
	ast.Inspect(n, func(m ast.Node) bool {
		if _, ok := m.(*ast.FuncLit); ok {
			return false
		}
		if m != nil {
			f(m)
		}
		return true
	})
}

func (t *tr) skelConduct(files []*ast.File) {
	fd := findFunc(files, "app.conduct")
	if fd == nil {
		t.skel = append(t.skel, "conduct: ?")
		return
	}
	var ev []string
	for _, st := range fd.Body.List {
		for _, part := range simpleParts(st) {
			inspectNoLit(part, func(n ast.Node) {
				switch x := n.(type) {
				case *ast.CallExpr:
					if c := callIs(x, "openDoors", "runCleanup", "makeTheater"); c != "" {
						ev = append(ev, "call "+c)
					}
					if c := callIs(x, "startAudition", "startCollector", "startSpotlights", "startPrompter"); c != "" && len(x.Args) == 2 {
						ev = append(ev, "call "+c+"("+identName(x.Args[1])+")")
					}
					if callIs(x, "Wait") != "" {
						if s, ok := x.Fun.(*ast.SelectorExpr); ok {
							if tv, ok := t.info.Types[s.X]; ok && tv.Type.String() == "sync.WaitGroup" {
								ev = append(ev, "wait "+identName(s.X))
							}
						}
					}
				case *ast.UnaryExpr:
					if x.Op == token.ARROW {
						ev = append(ev, "recv "+identName(x.X))
					}
				}
			})
		}
	}
	t.skel = append(t.skel, "conduct: "+strings.Join(ev, "; "))
}

// hasCallOn: n contains (outside literals when noLit) a call x.<method>() with
// x an identifier named recv.
func hasCallOn(n ast.Node, recv, method string, noLit bool) bool {
	found := false
	ast.Inspect(n, func(m ast.Node) bool {
		if _, ok := m.(*ast.FuncLit); ok && noLit {
			return false
		}
		if c, ok := m.(*ast.CallExpr); ok {
			if s, ok := c.Fun.(*ast.SelectorExpr); ok && s.Sel.Name == method {
				if id, ok := s.X.(*ast.Ident); ok && id.Name == recv {
					found = true
				}
			}
		}
		return true
	})
	return found
}

// spawnPattern: in a block, `wg.Add(1)` is followed by a statement that calls
// one of spawners with a literal whose first statement is a defer that calls
// wg.Done(); searched recursively in nested blocks.
func spawnPattern(b *ast.BlockStmt, wg string, spawners []string) string {
	res := ""
	var visit func(list []ast.Stmt)
	visit = func(list []ast.Stmt) {
		added := false
		for _, st := range list {
			if es, ok := st.(*ast.ExprStmt); ok {
				if c, ok := es.X.(*ast.CallExpr); ok && hasCallOn(c, wg, "Add", true) {
					added = true
					continue
				}
			}
			if added {
				ast.Inspect(st, func(m ast.Node) bool {
					c, ok := m.(*ast.CallExpr)
					if !ok {
						return true
					}
					sp := callIs(c, spawners...)
					if sp == "" {
						return true
					}
					for _, a := range c.Args {
						fl, ok := a.(*ast.FuncLit)
						if !ok || len(fl.Body.List) == 0 {
							continue
						}
						if ds, ok := fl.Body.List[0].(*ast.DeferStmt); ok && hasCallOn(ds, wg, "Done", false) {
							res = "Add; " + sp + "{defer Done}"
						}
					}
					return false
				})
			}
			switch x := st.(type) {
			case *ast.ForStmt:
				visit(x.Body.List)
			case *ast.RangeStmt:
				visit(x.Body.List)
			case *ast.IfStmt:
				visit(x.Body.List)
			case *ast.BlockStmt:
				visit(x.List)
			}
		}
	}
	visit(b.List)
	return res
}

func (t *tr) skelStart(files []*ast.File, name string) {
	short := name[strings.Index(name, ".")+1:]
	fd := findFunc(files, name)
	if fd == nil {
		t.skel = append(t.skel, short+": ?")
		return
	}
	// the *sync.WaitGroup parameter
	wg := ""
	for _, p := range fd.Type.Params.List {
		if tv, ok := t.info.Types[p.Type]; ok && tv.Type.String() == "*sync.WaitGroup" && len(p.Names) == 1 {
			wg = p.Names[0].Name
		}
	}
	pat := spawnPattern(fd.Body, wg, []string{"runWorker"})
	if wg == "" || pat == "" {
		pat = "?"
	}
	t.skel = append(t.skel, short+": "+pat)
}

func (t *tr) skelJoin(files []*ast.File, name string, spawners []string) {
	short := name[strings.Index(name, ".")+1:]
	fd := findFunc(files, name)
	if fd == nil {
		t.skel = append(t.skel, short+": ?")
		return
	}
	// a local `var wg sync.WaitGroup`
	wg := ""
	inspectNoLit(fd.Body, func(n ast.Node) {
		if vs, ok := n.(*ast.ValueSpec); ok && len(vs.Names) == 1 && vs.Type != nil {
			if tv, ok := t.info.Types[vs.Type]; ok && tv.Type.String() == "sync.WaitGroup" {
				wg = vs.Names[0].Name
			}
		}
	})
	deferWait := false
	for _, st := range fd.Body.List {
		if ds, ok := st.(*ast.DeferStmt); ok && hasCallOn(ds, wg, "Wait", false) {
			deferWait = true
		}
	}
	pat := spawnPattern(fd.Body, wg, spawners)
	if wg == "" || !deferWait || pat == "" {
		t.skel = append(t.skel, short+": ?")
		return
	}
	t.skel = append(t.skel, short+": defer Wait; "+pat)
}

func (t *tr) skelRunConduct(files []*ast.File) {
	fd := findFunc(files, "app.runConduct")
	ok1, ok2, ok3 := false, false, false
	if fd != nil {
		ast.Inspect(fd.Body, func(n ast.Node) bool {
			c, ok := n.(*ast.CallExpr)
			if !ok || callIs(c, "runWorker") == "" {
				return true
			}
			for _, a := range c.Args {
				fl, ok := a.(*ast.FuncLit)
				if !ok {
					continue
				}
				for _, st := range fl.Body.List {
					if ds, ok := st.(*ast.DeferStmt); ok {
						ast.Inspect(ds, func(m ast.Node) bool {
							if cc, ok := m.(*ast.CallExpr); ok && callIs(cc, "close") != "" && len(cc.Args) == 1 && identName(cc.Args[0]) == "errChan" {
								ok2 = true
							}
							return true
						})
					}
					if ss, ok := st.(*ast.SendStmt); ok && identName(ss.Chan) == "errChan" {
						ast.Inspect(ss.Value, func(m ast.Node) bool {
							if cc, ok := m.(*ast.CallExpr); ok && callIs(cc, "conduct") != "" {
								ok1 = true
							}
							return true
						})
					}
				}
			}
			return true
		})
		if n := len(fd.Body.List); n > 0 {
			if rs, ok := fd.Body.List[n-1].(*ast.ReturnStmt); ok {
				ast.Inspect(rs, func(m ast.Node) bool {
					if u, ok := m.(*ast.UnaryExpr); ok && u.Op == token.ARROW && identName(u.X) == "errChan" {
						ok3 = true
					}
					return true
				})
			}
		}
	}
	if ok1 && ok2 && ok3 {
		t.skel = append(t.skel, "runConduct: worker{send errChan conduct; defer close errChan}; return recv errChan")
	} else {
		t.skel = append(t.skel, "runConduct: ?")
	}
}

func (t *tr) skelRun(files []*ast.File) {
	fd := findFunc(files, "config.run")
	var order []string
	if fd != nil {
		for _, st := range fd.Body.List {
			var parts []ast.Node
			parts = append(parts, simpleParts(st)...)
			if is, ok := st.(*ast.IfStmt); ok {
				for _, s2 := range is.Body.List {
					parts = append(parts, simpleParts(s2)...)
				}
			}
			for _, p := range parts {
				inspectNoLit(p, func(n ast.Node) {
					if c, ok := n.(*ast.CallExpr); ok {
						if x := callIs(c, "prepareDirs", "newApp", "runConduct", "assemble", "plot"); x != "" {
							order = append(order, x)
						}
					}
				})
			}
		}
	}
	t.skel = append(t.skel, "run: "+strings.Join(order, " < "))
}

// skelCloses lists every close(<channel>) of the package with the declared
// function it occurs in: a channel with several senders (auditCh: prompter
// and spotlights; collCh: prompter and audition) must never be closed, the
// others only by their single sender.
func (t *tr) skelCloses(files []*ast.File) {
	var all []string
	for _, f := range files {
		for _, d := range f.Decls {
			fd, ok := d.(*ast.FuncDecl)
			if !ok || fd.Body == nil {
				continue
			}
			ast.Inspect(fd.Body, func(n ast.Node) bool {
				if c, ok := n.(*ast.CallExpr); ok && t.isBuiltin(c) == "close" && len(c.Args) == 1 {
					all = append(all, recvName(fd)+":"+identName(c.Args[0]))
				}
				return true
			})
		}
	}
	sort.Strings(all)
	t.skel = append(t.skel, "closes: "+strings.Join(all, "; "))
}

// skelSenders lists, per channel field of the theater, the declared functions
// that send on it.
func (t *tr) skelSenders(files []*ast.File) {
	by := map[string]map[string]bool{}
	for _, f := range files {
		for _, d := range f.Decls {
			fd, ok := d.(*ast.FuncDecl)
			if !ok || fd.Body == nil {
				continue
			}
			ast.Inspect(fd.Body, func(n ast.Node) bool {
				if ss, ok := n.(*ast.SendStmt); ok {
					ch := identName(ss.Chan)
					if ch == "auditCh" || ch == "collCh" || ch == "termCh" {
						if by[ch] == nil {
							by[ch] = map[string]bool{}
						}
						by[ch][recvName(fd)] = true
					}
				}
				return true
			})
		}
	}
	var chans []string
	for ch := range by {
		chans = append(chans, ch)
	}
	sort.Strings(chans)
	var parts []string
	for _, ch := range chans {
		var fs []string
		for f := range by[ch] {
			fs = append(fs, f)
		}
		sort.Strings(fs)
		parts = append(parts, ch+" <- "+strings.Join(fs, ", "))
	}
	t.skel = append(t.skel, "senders: "+strings.Join(parts, "; "))
}

// holdsLock: the type is, embeds or has a field (at any depth, by value) of
// type sync.Mutex / sync.RWMutex / syncutil.Mutex / syncutil.RWMutex.
func holdsLock(ty types.Type, depth int) bool {
	if depth > 6 || ty == nil {
		return false
	}
	if n, ok := ty.(*types.Named); ok {
		if o := n.Obj(); o.Pkg() != nil && (o.Name() == "Mutex" || o.Name() == "RWMutex") &&
			(o.Pkg().Path() == "sync" || strings.HasSuffix(o.Pkg().Path(), "/syncutil")) {
			return true
		}
	}
	if st, ok := ty.Underlying().(*types.Struct); ok {
		for i := 0; i < st.NumFields(); i++ {
			if holdsLock(st.Field(i).Type(), depth+1) {
				return true
			}
		}
	}
	return false
}

// skelLockCopies lists the methods declared with a VALUE receiver on a type
// that holds a mutex: they lock a copy of it.
func (t *tr) skelLockCopies(files []*ast.File) {
	var all []string
	for _, f := range files {
		for _, d := range f.Decls {
			fd, ok := d.(*ast.FuncDecl)
			if !ok || fd.Recv == nil || len(fd.Recv.List) != 1 {
				continue
			}
			if _, ptr := fd.Recv.List[0].Type.(*ast.StarExpr); ptr {
				continue
			}
			if tv, ok := t.info.Types[fd.Recv.List[0].Type]; ok && holdsLock(tv.Type, 0) {
				all = append(all, recvName(fd))
			}
		}
	}
	sort.Strings(all)
	t.skel = append(t.skel, "methods locking a copy (value receiver on a type holding a mutex): "+strings.Join(all, ", "))
}

// the spotlight consumer is called from the reader loop, then from the drain
// goroutine started after the loop ended and joined through readerDone
func (t *tr) skelConsumer(files []*ast.File) {
	fd := findFunc(files, "actor.runActorCommandWithConsumer")
	res := "consumer: ?"
	if fd != nil {
		var goStmt *ast.GoStmt
		loopCall, goCall, goClose, recvAfter, bad := false, false, false, false, false
		for _, st := range fd.Body.List {
			if g, ok := st.(*ast.GoStmt); ok && goStmt == nil {
				goStmt = g
				ast.Inspect(g, func(m ast.Node) bool {
					if c, ok := m.(*ast.CallExpr); ok {
						if callIs(c, "consumer") != "" {
							goCall = true
						}
						if callIs(c, "close") != "" && len(c.Args) == 1 && identName(c.Args[0]) == "readerDone" {
							goClose = true
						}
					}
					return true
				})
				continue
			}
			if goStmt == nil {
				if _, ok := st.(*ast.ForStmt); ok {
					inspectNoLit(st, func(m ast.Node) {
						if c, ok := m.(*ast.CallExpr); ok && callIs(c, "consumer") != "" {
							loopCall = true
						}
					})
				}
			} else {
				ast.Inspect(st, func(m ast.Node) bool {
					if u, ok := m.(*ast.UnaryExpr); ok && u.Op == token.ARROW && identName(u.X) == "readerDone" {
						recvAfter = true
					}
					if c, ok := m.(*ast.CallExpr); ok && callIs(c, "consumer") != "" {
						bad = true // a call concurrent with the drain goroutine
					}
					return true
				})
			}
		}
		if loopCall && goCall && goClose && recvAfter && !bad {
			res = "consumer: loop; go{consumer; close readerDone}; recv readerDone"
		}
	}
	t.skel = append(t.skel, res)
}

// ---------------------------------------------------------------------------

func coqStr(s string) string { return "\"" + strings.ReplaceAll(s, "\"", "\"\"") + "\"" }

func main() {
	if len(os.Args) != 2 {
		fail(nil, 0, "usage: goaccess2v <dir>")
	}
	for _, c := range tracked {
		trackedSet[c] = true
		trackedStructs[c[:strings.Index(c, ".")]] = true
	}
	fset := token.NewFileSet()
	matches, _ := filepath.Glob(filepath.Join(os.Args[1], "*.go"))
	sort.Strings(matches)
	var files []*ast.File
	for _, m := range matches {
		b := filepath.Base(m)
		// hooks and tests are not part of a real play
		if strings.HasSuffix(b, "_test.go") || strings.HasPrefix(b, "verif_") || b == "test_log_scope.go" {
			continue
		}
		f, err := parser.ParseFile(fset, m, nil, 0)
		if err != nil {
			fail(nil, 0, "parse: %v", err)
		}
		files = append(files, f)
	}
	var terrs []string
	conf := types.Config{
		Importer: importer.ForCompiler(fset, "source", nil),
		Error: func(err error) {
			// the two git-ignored generated files (version.go, report_html.go)
			// are absent from the tree: their identifiers are the only
			// tolerated type errors
			msg := err.Error()
			if strings.Contains(msg, "undefined: versionName") || strings.Contains(msg, "undefined: reportHTML") {
				return
			}
			terrs = append(terrs, msg)
		},
	}
	info := &types.Info{
		Selections: map[*ast.SelectorExpr]*types.Selection{},
		Types:      map[ast.Expr]types.TypeAndValue{},
		Uses:       map[*ast.Ident]types.Object{},
		Defs:       map[*ast.Ident]types.Object{},
	}
	conf.Check(pkgPath, fset, files, info)
	if len(terrs) > 0 {
		fail(nil, 0, "the package does not type-check: %s", strings.Join(terrs, "; "))
	}
	t := &tr{fset: fset, info: info, calls: map[[2]string]bool{}, lits: map[string]string{}, alias: map[string]string{}, locked: map[string]string{}}
	for _, f := range files {
		for _, d := range f.Decls {
			if fd, ok := d.(*ast.FuncDecl); ok && fd.Body != nil {
				t.walkFunc(fd)
			}
		}
	}
	// package-level variable initialisers run before main, like init()
	for _, f := range files {
		for _, d := range f.Decls {
			gd, ok := d.(*ast.GenDecl)
			if !ok || gd.Tok != token.VAR {
				continue
			}
			for _, sp := range gd.Specs {
				vs := sp.(*ast.ValueSpec)
				for _, v := range vs.Values {
					t.walkFunc(&ast.FuncDecl{Name: ast.NewIdent("init"),
						Body: &ast.BlockStmt{List: []ast.Stmt{&ast.ExprStmt{X: v}}}})
				}
			}
		}
	}
	t.resolveAliases()
	t.findEscaping(files)
	// every tracked cell must exist as a field (a renamed field must not
	// silently vanish from the site list)
	seen := map[string]bool{}
	for _, s := range t.sites {
		seen[s.cell] = true
	}
	for _, c := range tracked {
		if !seen[c] {
			fail(nil, 0, "tracked field %s has no access site at all (renamed or removed?)", c)
		}
	}
	t.skelConduct(files)
	for _, n := range []string{"audition.startAudition", "collector.startCollector", "spotMgr.startSpotlights", "prompter.startPrompter"} {
		t.skelStart(files, n)
	}
	t.skelJoin(files, "prompter.runScene", []string{"runAsyncTask"})
	t.skelJoin(files, "spotMgr.manageSpotlights", []string{"runWorker"})
	t.skelJoin(files, "app.runForAllActors", []string{"runWorker"})
	t.skelRunConduct(files)
	t.skelRun(files)
	t.skelConsumer(files)
	t.skelCloses(files)
	t.skelSenders(files)
	t.skelLockCopies(files)

	sort.SliceStable(t.sites, func(i, j int) bool {
		a, b := t.sites[i], t.sites[j]
		if a.cell != b.cell {
			return a.cell < b.cell
		}
		if a.fn != b.fn {
			return a.fn < b.fn
		}
		return a.pos < b.pos
	})
	var sb strings.Builder
	sb.WriteString("(* Generated by goaccess2v from pkg/cmd/*.go — do not edit. *)\n")
	sb.WriteString("From Shk Require Import Base.Prelude Model.Access.\nFrom Coq Require Import String.\nOpen Scope string_scope.\n\n")
	var items []string
	for _, c := range tracked {
		items = append(items, coqStr(c))
	}
	sb.WriteString("Definition tracked : list string :=\n  [" + strings.Join(items, ";\n   ") + "].\n\n")
	var ms []string
	for m := range msgStructs {
		ms = append(ms, coqStr(m))
	}
	sort.Strings(ms)
	sb.WriteString("Definition messages : list string := [" + strings.Join(ms, "; ") + "].\n\n")
	items = nil
	for _, s := range t.sites {
		items = append(items, fmt.Sprintf("mk_site %s %s %s %s %s", coqStr(s.cell), s.kind, s.sync, coqStr(s.fn), coqStr(s.pos)))
	}
	sb.WriteString("Definition sites : list site :=\n  [" + strings.Join(items, ";\n   ") + "].\n\n")
	var edges [][2]string
	for e := range t.calls {
		edges = append(edges, e)
	}
	sort.Slice(edges, func(i, j int) bool {
		if edges[i][0] != edges[j][0] {
			return edges[i][0] < edges[j][0]
		}
		return edges[i][1] < edges[j][1]
	})
	items = nil
	for _, e := range edges {
		items = append(items, "("+coqStr(e[0])+", "+coqStr(e[1])+")")
	}
	sb.WriteString("(* caller, callee: static calls within the package; literals called or deferred on the spot are callees *)\n")
	sb.WriteString("Definition calls : list (string * string) :=\n  [" + strings.Join(items, ";\n   ") + "].\n\n")
	var lits []string
	for l := range t.lits {
		lits = append(lits, l)
	}
	sort.Strings(lits)
	items = nil
	for _, l := range lits {
		items = append(items, "("+coqStr(l)+", "+coqStr(t.lits[l])+")")
	}
	sb.WriteString("Definition literals : list (string * string) :=\n  [" + strings.Join(items, ";\n   ") + "].\n\n")
	var al []string
	for a, c := range t.alias {
		al = append(al, "("+coqStr(a)+", "+coqStr(c)+")")
	}
	sort.Strings(al)
	sb.WriteString("Definition aliases : list (string * string) := [" + strings.Join(al, "; ") + "].\n\n")
	items = nil
	for _, e := range t.escaping {
		items = append(items, coqStr(e))
	}
	sb.WriteString("(* functions used as values or started with `go`: never classified by inheritance *)\n")
	sb.WriteString("Definition escaping : list string :=\n  [" + strings.Join(items, ";\n   ") + "].\n\n")
	items = nil
	for _, s := range t.skel {
		items = append(items, coqStr(s))
	}
	sb.WriteString("Definition skeleton : list string :=\n  [" + strings.Join(items, ";\n   ") + "].\n")
	fmt.Print(sb.String())
}
