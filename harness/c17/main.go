// Harness for C17: runs the real pkg/crdb/retry on generated option sets,
// operation sequences and success patterns; writes what it did and what the
// real code answered as Coq terms (cases.v) and as JSON (cases.json).
//
// Timing discipline: only LOWER bounds on elapsed time are ever judged
// (measured elapsed >= true elapsed >= armed delay), so a loaded machine
// cannot produce an alarm.  The only upper bound is a watchdog of 10 s on
// calls that must return at once (closer closed, 1 h back-off).
//
// The jitter draw of each retryIn is known: the harness seeds math/rand's
// global source before the call and reads the same value from a private
// source with the same seed (checked at start-up; if the Go runtime ever
// stops behaving so, draws are emitted as unknown (-1) and the model is
// compared through its band only).
package main

import (
	"context"
	"errors"
	"flag"
	"fmt"
	"math"
	"math/big"
	"math/rand"
	"runtime"
	"strings"
	"sync"
	"time"

	crdberrors "github.com/cockroachdb/errors"
	"github.com/knz/shakespeare/pkg/crdb/retry"
	"github.com/knz/shakespeare/verifharness/vh"
)

const watchdog = 10 * time.Second

// hangs counts calls that did not return within the watchdog.  Each costs a
// watchdog period; three are evidence enough, after that no case that relies
// on a stop to end an hour's wait is run any more.
var hangs = 0

const maxHangs = 3
const two53 = 1 << 53

var drawsKnown = true

// seedAndPeek seeds the global source and returns the numerator k of the
// first Float64 it will return (k / 2^53), or -1 if draws are not known.
func seedAndPeek(seed int64) int64 {
	rand.Seed(seed)
	if !drawsKnown {
		return -1
	}
	return int64(rand.New(rand.NewSource(seed)).Float64() * two53)
}

func checkDraws() {
	for s := int64(1); s < 6; s++ {
		rand.Seed(s)
		m := rand.New(rand.NewSource(s))
		for i := 0; i < 5; i++ {
			if rand.Float64() != m.Float64() {
				drawsKnown = false
			}
		}
	}
}

// ---- options

type optsJ struct {
	Init, Max  int64
	Mult, RF   float64
	MaxRetries int
}

func (o optsJ) real(closer <-chan struct{}) retry.Options {
	return retry.Options{
		InitialBackoff: time.Duration(o.Init), MaxBackoff: time.Duration(o.Max),
		Multiplier: o.Mult, RandomizationFactor: o.RF, MaxRetries: o.MaxRetries, Closer: closer,
	}
}

// qOf prints a float64 exactly as a Coq rational.
func qOf(f float64) string {
	r := new(big.Rat).SetFloat64(f)
	if r == nil {
		panic("non-finite option")
	}
	n := r.Num().String()
	if r.Num().Sign() < 0 {
		n = "(" + n + ")"
	}
	return "(Qmake " + n + " " + r.Denom().String() + ")"
}

func (o optsJ) coq() string {
	return fmt.Sprintf("(Build_opts %s %s %s %s %s)", vh.Z(o.Init), vh.Z(o.Max), qOf(o.Mult), vh.Z(int64(o.MaxRetries)), qOf(o.RF))
}

var mults = []float64{0, 1, 1.5, 2, 2.5, 3, 1.25, 1.1, 0.5, 4, 0.25, 0.75}
var rfs = []float64{0, 0.125, 0.25, 0.5, 1, 0.1, 0.15, 0.75, 1.5, 2, 5}

func genOptsAny(rng *rand.Rand) optsJ {
	var o optsJ
	switch rng.Intn(6) {
	case 0:
		o.Init = 0
	case 1:
		o.Init = 1 + rng.Int63n(1000)
	case 2:
		o.Init = 1000 * (1 + rng.Int63n(5000))
	case 3:
		o.Init = 1000000 * (1 + rng.Int63n(2000))
	default:
		o.Init = 1 + rng.Int63n(20000000000)
	}
	init := o.Init
	if init == 0 {
		init = 50000000
	}
	switch rng.Intn(5) {
	case 0:
		o.Max = 0
	case 1:
		o.Max = 1 + rng.Int63n(init) // the cap binds at once
	case 2:
		o.Max = init * (1 + rng.Int63n(64))
	default:
		o.Max = init + rng.Int63n(100000000000-init)
	}
	if o.Max > 100000000000 {
		o.Max = 100000000000
	}
	o.Mult = mults[rng.Intn(len(mults))]
	if rng.Intn(4) == 0 {
		o.Mult = 1 + 3*rng.Float64()
	}
	o.RF = rfs[rng.Intn(len(rfs))]
	if rng.Intn(4) == 0 {
		o.RF = rng.Float64()
		if o.RF == 0 {
			o.RF = 0.5
		}
	}
	return o
}

// multBits is the size of the exact multiplier: Multiplier^k has k times as
// many bits, and Coq's binary integers make the exact model quadratic in them.
func multBits(f float64) int {
	if f == 0 {
		f = 2
	}
	r := new(big.Rat).SetFloat64(f)
	n, d := r.Num().BitLen(), r.Denom().BitLen()
	if d > n {
		return d
	}
	return n
}

// ---- retryIn samples

type riCase struct {
	DeadlineNs int64 // > 0: started with a context whose deadline is this far away
	Opts       optsJ
	K          int  // NextCh calls made before sampling
	Reset      bool // Reset called after them
	CurObs     int  // currentAttempt through the hook
	Samples    [][2]int64
}

func runRI(o optsJ, k int, rst bool, nsamples int, seed int64) riCase {
	return runRIDeadline(o, k, rst, nsamples, seed, 0)
}

// runRIDeadline: as runRI, the loop started with a context that carries a
// deadline (the schedule must not depend on it).
func runRIDeadline(o optsJ, k int, rst bool, nsamples int, seed int64, deadline time.Duration) riCase {
	ctx := context.Background()
	if deadline > 0 {
		var cancel context.CancelFunc
		ctx, cancel = context.WithTimeout(ctx, deadline)
		defer cancel()
	}
	r := retry.StartWithCtx(ctx, o.real(nil))
	if deadline == 0 && (seed+int64(k))%2 == 0 {
		// the context-less constructor must give the same loop (defaults included)
		r = retry.Start(o.real(nil))
	}
	for i := 0; i < k; i++ {
		r.NextCh()
	}
	if rst {
		r.Reset()
	}
	c := riCase{Opts: o, K: k, Reset: rst, CurObs: r.VerifCurrentAttempt(), DeadlineNs: int64(deadline)}
	rand.Seed(seed)
	m := rand.New(rand.NewSource(seed))
	for i := 0; i < nsamples; i++ {
		d := int64(r.VerifRetryIn())
		u := int64(-1)
		if drawsKnown {
			u = int64(m.Float64() * two53)
		}
		c.Samples = append(c.Samples, [2]int64{u, d})
	}
	return c
}

func (c riCase) coq() string {
	var items []string
	for _, s := range c.Samples {
		items = append(items, fmt.Sprintf("(%s, %s)", vh.Z(s[0]), vh.Z(s[1])))
	}
	return fmt.Sprintf("(%s, %d, %s, %d, %s)", c.Opts.coq(), c.K, vh.Bool(c.Reset), c.CurObs, vh.List(items))
}

// ---- loops

type loopOp struct {
	Op      string // "next", "nextch", "reset", "stop"
	U       int64  // jitter numerator or -1
	Stopper string // "closer" / "ctx" (stop and async)
	Async   bool
	DelayNs int64 // async: the stop is launched this long after Next is called
	// observations
	Hang    bool
	Res     bool
	Before  bool // async: the stop had begun when Next returned
	Kind    int  // nextch: 0 closed, 1 nil, 2 timer awaited, 3 timer not awaited
	Elapsed int64
	Cur     int
	IsReset bool
}

type loopCase struct {
	Opts      optsJ
	PreClosed bool
	PreCancel bool
	Class     string
	Ops       []loopOp
}

func stCoq(s string) string {
	if s == "ctx" {
		return "StCtx"
	}
	return "StCloser"
}

func (c loopCase) coq() string {
	var items []string
	for _, op := range c.Ops {
		var h, b string
		switch op.Op {
		case "next":
			async := "None"
			if op.Async {
				async = fmt.Sprintf("(Some (%s, %s))", stCoq(op.Stopper), vh.Bool(op.Before))
			}
			h = fmt.Sprintf("HNext %s %s", vh.Z(op.U), async)
			if op.Hang {
				b = "BHang"
			} else {
				b = fmt.Sprintf("BNext %s %s %d %s", vh.Bool(op.Res), vh.Z(op.Elapsed), op.Cur, vh.Bool(op.IsReset))
			}
		case "nextch":
			h = fmt.Sprintf("HNextCh %s", vh.Z(op.U))
			if op.Hang {
				b = "BHang"
			} else {
				b = fmt.Sprintf("BChan %d %s %d %s", op.Kind, vh.Z(op.Elapsed), op.Cur, vh.Bool(op.IsReset))
			}
		case "reset":
			h = "HReset"
			b = fmt.Sprintf("BState %d %s", op.Cur, vh.Bool(op.IsReset))
		case "stop":
			h = "HStop " + stCoq(op.Stopper)
			b = fmt.Sprintf("BState %d %s", op.Cur, vh.Bool(op.IsReset))
		}
		items = append(items, "("+h+", "+b+")")
	}
	return fmt.Sprintf("(%s, %s, %s, %s)", c.Opts.coq(), vh.Bool(c.PreClosed), vh.Bool(c.PreCancel), vh.List(items))
}

// the generator's own expectation of the loop, used only to avoid asking the
// real code to wait for an hour
type belief struct {
	fresh, stopped bool
	k, att         int
}

func (o optsJ) waitIsShort(k int) bool {
	init := float64(o.Init)
	if o.Init == 0 {
		init = 5e7
	}
	max := float64(o.Max)
	if o.Max == 0 {
		max = 2e9
	}
	m := o.Mult
	if m == 0 {
		m = 2
	}
	b := init * math.Pow(m, float64(k))
	if b > max {
		b = max
	}
	return b <= 2e7
}

type loopRunner struct {
	ctx      context.Context
	deadline time.Time // non-zero: the context expires by itself then
	o        optsJ
	r        retry.Retry
	closer   chan struct{}
	cancel   context.CancelFunc
	closed   bool
	canceled bool
	seed     int64
}

func (lr *loopRunner) doStop(which string) {
	if which == "ctx" {
		if !lr.canceled {
			lr.cancel()
			lr.canceled = true
		}
	} else if !lr.closed {
		close(lr.closer)
		lr.closed = true
	}
}

func newLoopRunner(o optsJ, preClosed, preCancel bool, seed int64) *loopRunner {
	return newLoopRunnerDeadline(o, preClosed, preCancel, seed, 0)
}

func newLoopRunnerDeadline(o optsJ, preClosed, preCancel bool, seed int64, deadline time.Duration) *loopRunner {
	lr := &loopRunner{o: o, closer: make(chan struct{}), seed: seed}
	ctx, cancel := context.WithCancel(context.Background())
	if deadline > 0 {
		lr.deadline = time.Now().Add(deadline)
		ctx, cancel = context.WithDeadline(context.Background(), lr.deadline)
	}
	lr.ctx = ctx
	lr.cancel = cancel
	if preClosed {
		lr.doStop("closer")
	}
	if preCancel {
		lr.doStop("ctx")
	}
	lr.r = retry.StartWithCtx(ctx, o.real(lr.closer))
	return lr
}

// next runs one Next(); returns false in the second result if it hung.
func (lr *loopRunner) next(op *loopOp) bool {
	lr.seed++
	op.U = seedAndPeek(lr.seed)
	type result struct {
		res     bool
		elapsed time.Duration
		ret     time.Time
	}
	done := make(chan result, 1)
	var stopBegan time.Time
	stopDone := make(chan struct{})
	if op.Async && !lr.deadline.IsZero() {
		// the concurrent stop is the context's own deadline
		go func() {
			stopBegan = lr.deadline
			<-lr.ctx.Done()
			lr.canceled = true
			close(stopDone)
		}()
	} else if op.Async {
		go func() {
			time.Sleep(time.Duration(op.DelayNs))
			stopBegan = time.Now()
			lr.doStop(op.Stopper)
			close(stopDone)
		}()
	}
	go func() {
		t0 := time.Now()
		res := lr.r.Next()
		t1 := time.Now()
		done <- result{res, t1.Sub(t0), t1}
	}()
	select {
	case x := <-done:
		op.Res, op.Elapsed = x.res, int64(x.elapsed)
		if op.Async {
			<-stopDone
			op.Before = !stopBegan.After(x.ret)
		}
		op.Cur, op.IsReset = lr.r.VerifCurrentAttempt(), lr.r.VerifIsReset()
		return true
	case <-time.After(watchdog):
		op.Hang = true
		hangs++
		return false
	}
}

func (lr *loopRunner) nextCh(op *loopOp, await bool) bool {
	lr.seed++
	op.U = seedAndPeek(lr.seed)
	t0 := time.Now()
	ch := lr.r.NextCh()
	op.Cur, op.IsReset = lr.r.VerifCurrentAttempt(), lr.r.VerifIsReset()
	if ch == nil {
		op.Kind = 1
		return true
	}
	// closedC is the only channel that is closed: a receive yields ok == false
	select {
	case _, ok := <-ch:
		if !ok {
			op.Kind = 0
			return true
		}
		op.Kind, op.Elapsed = 2, int64(time.Since(t0))
		return true
	default:
	}
	if !await {
		op.Kind = 3
		return true
	}
	select {
	case <-ch:
		op.Kind, op.Elapsed = 2, int64(time.Since(t0))
		return true
	case <-time.After(watchdog):
		op.Hang = true
		hangs++
		return false
	}
}

func genLoop(rng *rand.Rand, class string, seed int64) loopCase {
	var o optsJ
	switch class {
	case "short":
		o = optsJ{Init: 200000 + rng.Int63n(1800000), Mult: []float64{0, 1, 1.5, 2}[rng.Intn(4)], RF: []float64{0, 0.125, 0.25, 0.5}[rng.Intn(4)]}
		o.Max = o.Init * (1 + rng.Int63n(3))
	case "long":
		o = optsJ{Init: 3600000000000 + rng.Int63n(3600000000000), Mult: 2, RF: []float64{0, 0.25}[rng.Intn(2)]}
		o.Max = 2 * o.Init
	default: // "tail": a short first wait, then an hour
		o = optsJ{Init: 300000 + rng.Int63n(1200000), Mult: 1e8, RF: []float64{0.125, 0.5}[rng.Intn(2)], Max: 3600000000000}
	}
	o.MaxRetries = []int{0, 0, 1, 2, 3, 4}[rng.Intn(6)]
	c := loopCase{Opts: o, Class: class}
	if rng.Intn(8) == 0 {
		c.PreClosed = true
	} else if rng.Intn(8) == 0 {
		c.PreCancel = true
	}
	lr := newLoopRunner(o, c.PreClosed, c.PreCancel, seed)
	defer lr.cancel()
	b := belief{fresh: !(c.PreClosed || c.PreCancel), stopped: c.PreClosed || c.PreCancel}
	exhausted := func() bool { return o.MaxRetries > 0 && b.att >= o.MaxRetries+1 }
	n := 3 + rng.Intn(8)
	for len(c.Ops) < n {
		var op loopOp
		switch x := rng.Intn(20); {
		case x < 10:
			op.Op = "next"
			willWait := !b.fresh && !exhausted()
			short := o.waitIsShort(b.k)
			if willWait && !short && !b.stopped {
				// an hour's wait: only with a concurrent stop
				op.Async = true
			} else if willWait && !b.stopped && rng.Intn(4) == 0 {
				op.Async = true
			}
			if op.Async {
				op.Stopper = []string{"closer", "ctx"}[rng.Intn(2)]
				if short {
					op.DelayNs = rng.Int63n(2 * o.Init)
				} else {
					op.DelayNs = rng.Int63n(3000000)
				}
			}
		case x < 13:
			op.Op = "nextch"
		case x < 16:
			op.Op = "reset"
		default:
			op.Op = "stop"
			op.Stopper = []string{"closer", "ctx"}[rng.Intn(2)]
		}
		ok := true
		switch op.Op {
		case "next":
			ok = lr.next(&op)
			if ok {
				if op.Res {
					if !b.fresh {
						b.k++
					}
					b.att++
					b.fresh = false
				}
				if op.Async {
					b.stopped = true
				}
			}
		case "nextch":
			await := b.fresh || exhausted() || o.waitIsShort(b.k+1)
			ok = lr.nextCh(&op, await)
			if ok && op.Kind != 1 {
				if !b.fresh {
					b.k++
				}
				b.att++
				b.fresh = false
			}
		case "reset":
			lr.r.Reset()
			op.Cur, op.IsReset = lr.r.VerifCurrentAttempt(), lr.r.VerifIsReset()
			if !b.stopped {
				b = belief{fresh: true}
			}
		case "stop":
			lr.doStop(op.Stopper)
			op.Cur, op.IsReset = lr.r.VerifCurrentAttempt(), lr.r.VerifIsReset()
			b.stopped = true
		}
		c.Ops = append(c.Ops, op)
		if !ok {
			break // hung: the goroutine is lost, the case ends here
		}
	}
	return c
}

// genStopLoop: loops whose computed back-off is zero or negative — a
// Multiplier below 1 decayed under 1 ns ("decay"), or a RandomizationFactor
// of 1 and more that puts part of the band below zero ("wide") — are told to
// stop and then asked for many more attempts.  The caller pins GOMAXPROCS(1)
// around these loops: an already due timer is then fired only when the
// goroutine inside Next yields, i.e. after the select has seen the closed
// closer / cancelled context, so the real select is deterministic here (with
// several Ps another P may fire it first, about 3 times in 10^4 calls).
func genStopLoop(rng *rand.Rand, class string, seed int64) loopCase {
	var o optsJ
	warm := 1 + rng.Intn(3)
	if class == "decay" {
		o = optsJ{Init: 500 + rng.Int63n(1500), Max: 1000000000, Mult: []float64{0.5, 0.25, 0.75}[rng.Intn(3)], RF: []float64{0, 0.25, 0.5}[rng.Intn(3)]}
		b := float64(o.Init)
		for warm = 1; b >= 0.01; warm++ {
			b *= o.Mult
		}
		warm += rng.Intn(4)
	} else {
		o = optsJ{Init: 200000 + rng.Int63n(800000), Mult: 1, RF: []float64{1, 1.5, 2, 5}[rng.Intn(4)]}
		o.Max = o.Init
	}
	c := loopCase{Opts: o, Class: class}
	lr := newLoopRunner(o, false, false, seed)
	defer lr.cancel()
	do := func(op loopOp) bool {
		ok := true
		switch op.Op {
		case "next":
			ok = lr.next(&op)
		case "reset":
			lr.r.Reset()
			op.Cur, op.IsReset = lr.r.VerifCurrentAttempt(), lr.r.VerifIsReset()
		case "stop":
			lr.doStop(op.Stopper)
			op.Cur, op.IsReset = lr.r.VerifCurrentAttempt(), lr.r.VerifIsReset()
		}
		c.Ops = append(c.Ops, op)
		return ok
	}
	for i := 0; i < warm; i++ {
		if !do(loopOp{Op: "next"}) {
			return c
		}
	}
	do(loopOp{Op: "stop", Stopper: []string{"closer", "ctx"}[rng.Intn(2)]})
	for i := 0; i < 40; i++ {
		if !do(loopOp{Op: "next"}) {
			return c
		}
	}
	if rng.Intn(2) == 0 {
		do(loopOp{Op: "reset"}) // told to stop: Reset must not bring the loop back
		for i := 0; i < 5; i++ {
			if !do(loopOp{Op: "next"}) {
				return c
			}
		}
	}
	return c
}

// genDeadlineLoop: a loop started with a context whose DEADLINE comes long
// before the scheduled back-off has elapsed.  The wait after the first
// attempt must be ended by the deadline (Next false); an attempt before the
// lower edge of the band would mean the schedule was bent to the deadline.
func genDeadlineLoop(rng *rand.Rand, seed int64) loopCase {
	o := optsJ{Init: 60000000 + rng.Int63n(60000000), Mult: []float64{1, 2}[rng.Intn(2)], RF: []float64{0.125, 0.25}[rng.Intn(2)]}
	o.Max = o.Init * 4
	d := time.Duration(4000000 + rng.Int63n(8000000))
	c := loopCase{Opts: o, Class: "deadline"}
	lr := newLoopRunnerDeadline(o, false, false, seed, d)
	defer lr.cancel()
	for i, op := range []loopOp{{Op: "next"}, {Op: "next", Async: true, Stopper: "ctx", DelayNs: int64(d)}, {Op: "next"}, {Op: "reset"}, {Op: "next"}} {
		ok := true
		switch op.Op {
		case "next":
			if i > 1 {
				lr.deadline = time.Time{} // expired and joined: an ordinary stopped loop from here on
			}
			ok = lr.next(&op)
		case "reset":
			lr.r.Reset()
			op.Cur, op.IsReset = lr.r.VerifCurrentAttempt(), lr.r.VerifIsReset()
		}
		c.Ops = append(c.Ops, op)
		if !ok {
			break
		}
	}
	return c
}

// fixed shapes that must always be present
func corpusLoops(seed int64) []loopCase {
	long := optsJ{Init: 3600000000000, Max: 3600000000000, Mult: 2, RF: 0.25}
	short := optsJ{Init: 500000, Max: 2000000, Mult: 2, RF: 0.25, MaxRetries: 2}
	scripts := []struct {
		o   optsJ
		ops []loopOp
	}{
		// the known shape: Next; Reset; close; Next
		{long, []loopOp{{Op: "next"}, {Op: "reset"}, {Op: "stop", Stopper: "closer"}, {Op: "next"}, {Op: "next"}}},
		{long, []loopOp{{Op: "next"}, {Op: "reset"}, {Op: "stop", Stopper: "ctx"}, {Op: "next"}, {Op: "next"}}},
		// stop, then Next must refuse at once although an hour's wait is due
		{long, []loopOp{{Op: "next"}, {Op: "stop", Stopper: "closer"}, {Op: "next"}, {Op: "reset"}, {Op: "next"}}},
		{long, []loopOp{{Op: "next"}, {Op: "stop", Stopper: "ctx"}, {Op: "next"}}},
		// stop during the hour's wait
		{long, []loopOp{{Op: "next"}, {Op: "next", Async: true, Stopper: "closer", DelayNs: 2000000}, {Op: "next"}}},
		{long, []loopOp{{Op: "next"}, {Op: "next", Async: true, Stopper: "ctx", DelayNs: 1000000}, {Op: "next"}}},
		// MaxRetries = 2: three attempts, refusal, Reset, three attempts again
		{short, []loopOp{{Op: "next"}, {Op: "next"}, {Op: "next"}, {Op: "next"}, {Op: "reset"}, {Op: "next"}, {Op: "next"}, {Op: "next"}, {Op: "next"}}},
		{short, []loopOp{{Op: "nextch"}, {Op: "nextch"}, {Op: "nextch"}, {Op: "nextch"}, {Op: "reset"}, {Op: "nextch"}, {Op: "next"}, {Op: "next"}, {Op: "next"}}},
	}
	var out []loopCase
	for i, sc := range scripts {
		if hangs >= maxHangs && sc.o.Init > 1000000000 {
			continue
		}
		c := loopCase{Opts: sc.o, Class: "corpus"}
		lr := newLoopRunner(sc.o, false, false, seed+int64(1000*i))
		for _, op := range sc.ops {
			ok := true
			switch op.Op {
			case "next":
				ok = lr.next(&op)
			case "nextch":
				ok = lr.nextCh(&op, true)
			case "reset":
				lr.r.Reset()
				op.Cur, op.IsReset = lr.r.VerifCurrentAttempt(), lr.r.VerifIsReset()
			case "stop":
				lr.doStop(op.Stopper)
				op.Cur, op.IsReset = lr.r.VerifCurrentAttempt(), lr.r.VerifIsReset()
			}
			c.Ops = append(c.Ops, op)
			if !ok {
				break
			}
		}
		lr.cancel()
		out = append(out, c)
	}
	return out
}

// ---- WithMaxAttempts

type wmaCase struct {
	Opts          optsJ
	N             int
	PreClosed     bool
	PreCancel     bool
	Pattern       []bool
	DeadlineNs    int64 // > 0: the context given to WithMaxAttempts expires this long after its creation
	CancelAfter   int   // >= 0: that call of fn arms time.AfterFunc(CancelDelayNs, cancel): cancelled DURING the following wait
	CancelDelayNs int64
	Gaps          []int64    // Gaps[i]: from the end of call i (inside fn) to the start of call i+1
	Late          [][2]int64 // calls that started after the stop was complete: (back-off index, stop complete this long after the end of the previous call)
	ErrKinds      []int      // what a failing call k returns: 0 "boom"; 1 context.Canceled; 2 the DeadlineExceeded of a per-attempt context; 3 a wrapper around context.Canceled; 4 errors.Wrap(context.DeadlineExceeded) — none of them from the outer context
	StopAt        int        // call of fn during which fn stops the loop; -1 none
	Stopper       string
	AsyncNs       int64 // >0: a concurrent stop after this long (not deterministic)
	Det           bool
	Calls         int
	Nil           bool
	Err           string
	GuardTripped  bool
}

func (c wmaCase) coq() string {
	var p []string
	for _, b := range c.Pattern {
		p = append(p, vh.Bool(b))
	}
	stop := "None"
	if c.StopAt >= 0 {
		stop = fmt.Sprintf("(Some (%d, %s))", c.StopAt, stCoq(c.Stopper))
	}
	preCancel := c.PreCancel
	if c.DeadlineNs > 0 {
		// the deadline falls into the first wait = a stop after call 0; if not
		// even one call was made the context had expired before the loop began
		stop = "(Some (0, StCtx))"
		if c.Calls == 0 {
			stop, preCancel = "None", true
		}
	}
	if c.CancelAfter >= 0 {
		stop = fmt.Sprintf("(Some (%d, StCtx))", c.CancelAfter)
	}
	var gaps, late []string
	for _, g := range c.Gaps {
		gaps = append(gaps, vh.Z(g))
	}
	for _, l := range c.Late {
		late = append(late, fmt.Sprintf("(%s, %s)", vh.Z(l[0]), vh.Z(l[1])))
	}
	return fmt.Sprintf("(%s, %s, %s, %s, %s, %s, %s, %d, %s, %s, %s)", c.Opts.coq(), vh.Z(int64(c.N)), vh.Bool(c.PreClosed), vh.Bool(preCancel),
		vh.List(p), stop, vh.Bool(c.Det), c.Calls, vh.Bool(c.Nil), vh.List(gaps), vh.List(late))
}

type wrapped struct{ inner error }

func (w wrapped) Error() string { return "attempt failed: " + w.inner.Error() }
func (w wrapped) Unwrap() error { return w.inner }

// attemptError is the error of one failed call of fn.  Kinds 1..4 are
// context errors that do NOT come from the context given to WithMaxAttempts
// (a per-attempt timeout, a cancelled sub-operation): the retried function
// failed, nothing more.
func attemptError(kind int) error {
	switch kind {
	case 1:
		return context.Canceled
	case 2:
		c2, cancel := context.WithTimeout(context.Background(), time.Nanosecond)
		defer cancel()
		<-c2.Done()
		return c2.Err()
	case 3:
		return wrapped{context.Canceled}
	case 4:
		return crdberrors.Wrap(context.DeadlineExceeded, "attempt timed out")
	}
	return errors.New("boom")
}

func runWMA(c wmaCase) wmaCase {
	closer := make(chan struct{})
	closed := false
	ctx, cancel := context.WithCancel(context.Background())
	if c.DeadlineNs > 0 {
		ctx, cancel = context.WithTimeout(context.Background(), time.Duration(c.DeadlineNs))
	}
	defer cancel()
	// when the loop was told to stop, completely: noted after close(closer)
	// returned, resp. by a watcher after ctx.Done() was seen closed
	var stopMu sync.Mutex
	var stopTime time.Time
	noteStop := func() {
		stopMu.Lock()
		if stopTime.IsZero() {
			stopTime = time.Now()
		}
		stopMu.Unlock()
	}
	go func() { <-ctx.Done(); noteStop() }()
	stop := func(which string) {
		if which == "ctx" {
			cancel()
		} else if !closed {
			closed = true
			close(closer)
			noteStop()
		}
	}
	var prevEnd time.Time
	if c.PreClosed {
		stop("closer")
	}
	if c.PreCancel {
		stop("ctx")
	}
	calls := 0
	guard := c.N + 3
	if guard < 3 {
		guard = 3
	}
	fn := func() (err error) {
		i := calls
		calls++
		start := time.Now()
		if i > 0 {
			c.Gaps = append(c.Gaps, int64(start.Sub(prevEnd)))
			stopMu.Lock()
			st := stopTime
			stopMu.Unlock()
			if !st.IsZero() && !st.After(start) {
				c.Late = append(c.Late, [2]int64{int64(i - 1), int64(st.Sub(prevEnd))})
			}
		}
		defer func() { prevEnd = time.Now() }()
		if i == c.CancelAfter {
			time.AfterFunc(time.Duration(c.CancelDelayNs), cancel)
		}
		if i == 0 && c.AsyncNs > 0 {
			// the concurrent stop is timed from the first call of fn: launched
			// before WithMaxAttempts it could fire before the loop even starts
			// on a loaded machine (no call, legitimately).  The closer is owned
			// by fn's goroutine; asynchronous stops use the context.
			go func() {
				time.Sleep(time.Duration(c.AsyncNs))
				cancel()
			}()
		}
		if i == c.StopAt {
			stop(c.Stopper)
		}
		if i >= guard {
			// the real code is calling far more often than n: end the experiment
			c.GuardTripped = true
			stop("ctx")
			if i >= guard+40 {
				return nil
			}
		}
		if i < len(c.Pattern) && c.Pattern[i] {
			return nil
		}
		kind := 0
		if i < len(c.ErrKinds) {
			kind = c.ErrKinds[i]
		}
		return attemptError(kind)
	}
	type result struct{ err error }
	done := make(chan result, 1)
	go func() { done <- result{retry.WithMaxAttempts(ctx, c.Opts.real(closer), c.N, fn)} }()
	select {
	case x := <-done:
		c.Calls = calls
		c.Nil = x.err == nil
		if x.err != nil {
			c.Err = x.err.Error()
		}
	case <-time.After(watchdog):
		c.Calls = -1 // hung
		c.Err = "hung"
		hangs++
	}
	return c
}

func genWMA(rng *rand.Rand) wmaCase {
	c := wmaCase{StopAt: -1, CancelAfter: -1, Det: true}
	c.N = []int{-1, 0, 1, 1, 2, 2, 3, 3, 4, 6}[rng.Intn(10)]
	short := optsJ{Init: 50000 + rng.Int63n(450000), Mult: []float64{0, 1, 1.5, 2}[rng.Intn(4)], RF: []float64{0, 0.25, 0.5}[rng.Intn(3)]}
	short.Max = short.Init * 2
	long := optsJ{Init: 3600000000000, Max: 3600000000000, Mult: 2, RF: 0.25}
	tail := optsJ{Init: 100000 + rng.Int63n(400000), Mult: 1e8, RF: 0.25, Max: 3600000000000}
	c.Opts = short
	np := rng.Intn(8)
	for i := 0; i < np; i++ {
		c.Pattern = append(c.Pattern, rng.Intn(4) == 0)
	}
	if rng.Intn(3) == 0 {
		for i := 0; i < 8; i++ {
			c.ErrKinds = append(c.ErrKinds, rng.Intn(5))
		}
	}
	nn := c.N
	if nn < 1 {
		nn = 1
	}
	kind := rng.Intn(10)
	if hangs >= maxHangs && kind <= 3 {
		kind = 9 // no more cases that need a stop to end an hour's wait
	}
	switch kind {
	case 0, 1:
		c.Opts = long
		if rng.Intn(2) == 0 {
			c.PreClosed = true
		} else {
			c.PreCancel = true
		}
	case 2:
		c.Opts = long
		c.StopAt = 0
		c.Stopper = []string{"closer", "ctx"}[rng.Intn(2)]
	case 3:
		c.Opts = tail
		c.StopAt = 1 + rng.Intn(2)
		c.Stopper = []string{"closer", "ctx"}[rng.Intn(2)]
		if c.N > 2 {
			c.N = 2 + rng.Intn(2) // the third wait would be an hour
		}
		if c.N >= 3 {
			c.StopAt = 1
		}
	case 4:
		c.StopAt = nn - 1 // the last permitted call
		c.Stopper = []string{"closer", "ctx"}[rng.Intn(2)]
	case 5:
		c.AsyncNs = 1 + rng.Int63n(3*short.Init)
		c.Det = false
	case 6:
		// the context EXPIRES during the first wait (420 ms and more)
		c.Opts = optsJ{Init: 420000000 + rng.Int63n(200000000), Mult: 1, RF: 0.25}
		c.Opts.Max = c.Opts.Init
		c.DeadlineNs = 15000000 + rng.Int63n(25000000)
	case 7:
		// the context is cancelled DURING a wait (after fn returned, long before the timer)
		c.CancelAfter = rng.Intn(2)
		c.CancelDelayNs = 8000000 + rng.Int63n(20000000)
		if c.CancelAfter == 0 {
			c.Opts = optsJ{Init: 420000000 + rng.Int63n(200000000), Mult: 1, RF: 0.25}
			c.Opts.Max = c.Opts.Init
		} else {
			c.Opts = optsJ{Init: 100000 + rng.Int63n(400000), Mult: 1e8, RF: 0.25, Max: 420000000 + rng.Int63n(200000000)}
		}
	}
	return runWMA(c)
}

func trim(c riCase) riCase {
	if len(c.Samples) > 3 {
		c.Samples = c.Samples[:3]
	}
	return c
}

// ----

func main() {
	seed := flag.Int64("seed", 1, "")
	tier := flag.String("tier", "quick", "")
	out := flag.String("out", ".", "")
	flag.Parse()
	rng := vh.Rng(*seed)
	checkDraws()
	thorough := *tier == "thorough"

	// retryIn: ~200 samples per option set, spread over four positions
	nsets := 40
	if thorough {
		nsets = 600
	}
	var ris []riCase
	deep, maxDeep := 0, 3
	if thorough {
		maxDeep = 40
	}
	ks := []int{0, 1, 2, 3, 4, 6, 9, 14, 33, 70, 150}
	fixed := []optsJ{
		{}, // all defaults: 50ms, 2s, x2, 0.15
		{Init: 1000000, Max: 8000000, Mult: 2, RF: 0.5},
		{Init: 10, Max: 100, Mult: 2, RF: 1}, // TestRetryExceedsMaxBackoff's scale, widest band
		{Init: 1, Max: 1, Mult: 1, RF: 0.125},
	}
	for i := 0; i < nsets; i++ {
		var o optsJ
		if i < len(fixed) {
			o = fixed[i]
		} else {
			o = genOptsAny(rng)
		}
		for j := 0; j < 4; j++ {
			k := ks[rng.Intn(len(ks))]
			if j == 0 {
				k = rng.Intn(3)
			}
			ns := 50
			if lim := 240 / multBits(o.Mult); k > lim {
				// a many-bit multiplier: deep positions are exact-arithmetic heavy.
				// Keep a few of them, shallower and with fewer samples.
				if deep < maxDeep && k <= 40 {
					deep++
					ns = 4
				} else {
					k = lim
				}
			}
			ris = append(ris, runRI(o, k, j == 3, ns, rng.Int63()))
		}
	}

	// gentle multipliers far down the schedule: positions well beyond 64
	// (up to a few hundred, and two in the thousands) with a MaxBackoff the
	// exponential has not reached yet, so that the band still moves with the
	// position.  Dyadic multipliers close to 1 keep the exact power small
	// (17^300 has 1,226 bits); the decimal ones (1.01, 1.05, 1.1) have 53-bit
	// mantissas, their exact powers tens of thousands of bits: affordable
	// because Corr/C17.v evaluates a sample without division (fma, near_trunc).
	type deepSet struct {
		o    optsJ
		ks   []int
		nsmp int
	}
	gentle := []deepSet{
		{optsJ{Init: 1000, Max: 100000000000, Mult: 1.0625, RF: 0.25}, []int{66, 130, 301}, 25},
		{optsJ{Init: 1000, Max: 100000000000, Mult: 1.125, RF: 0.125}, []int{65, 100, 157}, 25},
		{optsJ{Init: 1000000, Max: 100000000000, Mult: 1.03125, RF: 0.5}, []int{70, 200, 375}, 25},
		{optsJ{Init: 1, Max: 100000000000, Mult: 1.25, RF: 0}, []int{64, 90, 114}, 25},
		{optsJ{Init: 1, Max: 100000000000, Mult: 1.5, RF: 0.25}, []int{62, 66}, 25},
		{optsJ{Init: 1000000, Max: 10000000000, Mult: 1.05, RF: 0}, []int{67, 120, 180}, 25},
		{optsJ{Init: 1000, Max: 100000000000, Mult: 1.1, RF: 0.25}, []int{80, 150}, 25},
		{optsJ{Init: 1000000, Max: 100000000000, Mult: 1.01, RF: 0.5}, []int{150, 400}, 25},
		{optsJ{Init: 1000, Max: 10000000000, Mult: 1.125, RF: 0.25}, []int{2000}, 10}, // far past the cap
		{optsJ{Init: 1, Max: 0, Mult: 0, RF: 0}, []int{3000}, 10},                     // defaults: 2^2999 ns, capped at 2 s
	}
	if thorough {
		for i := 0; i < 40; i++ {
			m := []float64{1.0625, 1.125, 1.03125, 1.015625, 1.25, 1.1875}[rng.Intn(6)]
			// stay below MaxBackoff: Init * m^k < 10^11
			init := int64(1 + rng.Intn(1000000))
			kmax := int(math.Log(1e11/float64(init)) / math.Log(m))
			for kmax < 70 && init > 1 {
				init = init/10 + 1
				if init == 2 {
					init = 1
				}
				kmax = int(math.Log(1e11/float64(init)) / math.Log(m))
			}
			if kmax > 400 {
				kmax = 400
			}
			ds := deepSet{optsJ{Init: init, Max: 100000000000, Mult: m, RF: rfs[1+rng.Intn(4)]}, nil, 25}
			for j := 0; j < 3; j++ {
				ds.ks = append(ds.ks, 60+rng.Intn(kmax-59))
			}
			gentle = append(gentle, ds)
		}
		for i := 0; i < 6; i++ {
			m := []float64{1.01, 1.05, 1.1}[rng.Intn(3)]
			gentle = append(gentle, deepSet{optsJ{Init: 1000000, Max: 100000000000, Mult: m, RF: 0.25}, []int{64 + rng.Intn(100)}, 25})
		}
	}
	for _, ds := range gentle {
		for _, k := range ds.ks {
			ris = append(ris, runRI(ds.o, k, false, ds.nsmp, rng.Int63()))
		}
	}
	nsets += len(gentle)
	// the schedule does not depend on the context: loops started with a
	// deadline far shorter than their back-offs
	ndls := 3
	if thorough {
		ndls = 40
	}
	for i := 0; i < ndls; i++ {
		o := optsJ{Init: 1000000000 * (1 + rng.Int63n(20)), Mult: []float64{0, 1.5, 2}[rng.Intn(3)], RF: rfs[rng.Intn(5)]}
		o.Max = o.Init * (1 + rng.Int63n(5))
		dl := time.Duration(20+rng.Intn(800)) * time.Millisecond
		for _, k := range []int{1, 2 + rng.Intn(3)} {
			ris = append(ris, runRIDeadline(o, k, false, 25, rng.Int63(), dl))
		}
	}
	nsets += ndls

	// loops
	nloops := 160
	if thorough {
		nloops = 1500
	}
	loops := corpusLoops(rng.Int63n(1 << 40))
	for i := 0; i < nloops; i++ {
		class := []string{"short", "short", "short", "tail", "tail", "long"}[rng.Intn(6)]
		if hangs >= maxHangs && class != "short" {
			class = "short"
		}
		loops = append(loops, genLoop(rng, class, rng.Int63n(1<<40)))
	}

	// WithMaxAttempts
	nw := 160
	if thorough {
		nw = 4000
	}
	var wmas []wmaCase
	fixedW := []wmaCase{
		{Opts: optsJ{Init: 1000, Max: 10000}, N: 1, StopAt: -1, CancelAfter: -1, Det: true},                                   // n = 1, always failing
		{Opts: optsJ{Init: 3600000000000, Max: 3600000000000}, N: 3, PreClosed: true, StopAt: -1, CancelAfter: -1, Det: true}, // closer closed before
		{Opts: optsJ{Init: 3600000000000, Max: 3600000000000}, N: 3, PreCancel: true, StopAt: -1, CancelAfter: -1, Det: true},
		{Opts: optsJ{Init: 1000, Max: 10000}, N: 3, Pattern: []bool{false, false, true}, StopAt: -1, CancelAfter: -1, Det: true},
		{Opts: optsJ{Init: 1000, Max: 10000}, N: 3, Pattern: []bool{false, false, false, true}, StopAt: -1, CancelAfter: -1, Det: true},
		{Opts: optsJ{Init: 1000, Max: 10000}, N: 0, Pattern: []bool{true}, StopAt: -1, CancelAfter: -1, Det: true},
		// fn fails with context errors of its own (outer context live), then succeeds / never succeeds
		{Opts: optsJ{Init: 1000, Max: 10000}, N: 3, Pattern: []bool{false, true}, ErrKinds: []int{1}, StopAt: -1, CancelAfter: -1, Det: true},
		{Opts: optsJ{Init: 1000, Max: 10000}, N: 3, Pattern: []bool{false, false, true}, ErrKinds: []int{2, 3}, StopAt: -1, CancelAfter: -1, Det: true},
		{Opts: optsJ{Init: 1000, Max: 10000}, N: 4, ErrKinds: []int{4, 3, 2, 1}, StopAt: -1, CancelAfter: -1, Det: true},
		{Opts: optsJ{Init: 1000, Max: 10000}, N: 1, ErrKinds: []int{3}, StopAt: -1, CancelAfter: -1, Det: true},
	}
	for _, c := range fixedW {
		if hangs >= maxHangs && (c.PreClosed || c.PreCancel) {
			continue
		}
		wmas = append(wmas, runWMA(c))
	}
	for i := 0; i < nw; i++ {
		wmas = append(wmas, genWMA(rng))
	}

	// loops whose context expires long before the back-off does
	ndl := 10
	if thorough {
		ndl = 60
	}
	for i := 0; i < ndl; i++ {
		loops = append(loops, genDeadlineLoop(rng, rng.Int63n(1<<40)))
	}

	// a long unbounded loop with a gentle multiplier: more than 64 retries
	// without Reset, each timed against the lower edge of its own band
	ngentle := 2
	if thorough {
		ngentle = 10
	}
	for i := 0; i < ngentle; i++ {
		o := optsJ{Init: 1000, Max: 10000000000, Mult: 1.0625, RF: []float64{0.125, 0.25}[rng.Intn(2)]}
		n := 110 + rng.Intn(15)
		if i%2 == 1 {
			o.Mult = 1.125
			n = 78 + rng.Intn(8)
		}
		c := loopCase{Opts: o, Class: "gentle"}
		lr := newLoopRunner(o, false, false, rng.Int63n(1<<40))
		for j := 0; j < n; j++ {
			op := loopOp{Op: "next"}
			ok := lr.next(&op)
			c.Ops = append(c.Ops, op)
			if !ok {
				break
			}
		}
		lr.cancel()
		loops = append(loops, c)
	}

	// loops with zero / negative back-offs told to stop (see genStopLoop)
	nstop := 12
	if thorough {
		nstop = 150
	}
	prevProcs := runtime.GOMAXPROCS(1)
	for i := 0; i < 2*nstop; i++ {
		loops = append(loops, genStopLoop(rng, []string{"decay", "wide"}[i%2], rng.Int63n(1<<40)))
	}
	runtime.GOMAXPROCS(prevProcs)

	// ---- write
	var sb strings.Builder
	var items []string
	for _, c := range ris {
		items = append(items, c.coq())
	}
	sb.WriteString("Definition ri_cases : list ri_case := " + vh.ListNL(items) + ".\n")
	items = nil
	for _, c := range loops {
		items = append(items, c.coq())
	}
	sb.WriteString("Definition loop_cases : list loop_case := " + vh.ListNL(items) + ".\n")
	items = nil
	for _, c := range wmas {
		items = append(items, c.coq())
	}
	sb.WriteString("Definition wma_cases : list wma_case := " + vh.ListNL(items) + ".\n")
	vh.WriteFile(*out, "cases.v", sb.String())
	vh.WriteJSON(*out, "cases.json", map[string]interface{}{"ri": ris, "loop": loops, "wma": wmas})

	// ---- summary
	nontriv := map[string]bool{}
	samples := 0
	for _, c := range ris {
		samples += len(c.Samples)
		if c.CurObs >= 1 || c.Reset {
			nontriv[fmt.Sprintf("ri%v/%d/%v", c.Opts, c.K, c.Reset)] = true
		}
	}
	waits, stops, hangN, asyncs, knownShape, lateAttempts := 0, 0, 0, 0, 0, 0
	classes := map[string]int{}
	for _, c := range loops {
		classes[c.Class]++
		w, s := 0, 0
		stoppedSync := c.PreClosed || c.PreCancel
		fresh := !stoppedSync
		for _, op := range c.Ops {
			if op.Hang {
				hangN++
			}
			if op.Op == "next" && op.Res && op.Elapsed >= 100000 {
				w++
			}
			if op.Op == "stop" || op.Async {
				s++
			}
			if op.Async {
				asyncs++
			}
			if op.Op == "next" && fresh && stoppedSync && op.Res {
				knownShape++
			}
			if op.Op == "next" && !fresh && stoppedSync && op.Res {
				lateAttempts++
			}
			switch op.Op {
			case "stop":
				stoppedSync = true
			case "reset":
				if !stoppedSync {
					fresh = true
				}
			case "next", "nextch":
				if op.Async {
					stoppedSync = true
				}
				if op.Op == "nextch" || op.Res {
					fresh = false
				}
			}
		}
		waits += w
		stops += s
		if w > 0 || s > 0 {
			var key strings.Builder
			fmt.Fprintf(&key, "loop%v/%v/%v", c.Opts, c.PreClosed, c.PreCancel)
			for _, op := range c.Ops {
				fmt.Fprintf(&key, "/%s%s%v", op.Op, op.Stopper, op.Async)
			}
			nontriv[key.String()] = true
		}
	}
	wmaKinds := map[string]int{}
	for _, c := range wmas {
		switch {
		case c.N <= 0:
			wmaKinds["n<=0"]++
		case c.PreClosed || c.PreCancel:
			wmaKinds["stopped-before"]++
		case c.DeadlineNs > 0:
			wmaKinds["deadline-during-wait"]++
		case c.CancelAfter >= 0:
			wmaKinds["cancel-during-wait"]++
		case c.AsyncNs > 0:
			wmaKinds["async-cancel"]++
		case c.StopAt >= 0:
			wmaKinds["stop-inside-fn"]++
		default:
			wmaKinds["plain"]++
		}
		if len(c.ErrKinds) > 0 {
			wmaKinds["fn-returns-foreign-context-errors"]++
		}
		if c.N >= 1 {
			nontriv[fmt.Sprintf("wma%v/%d/%v/%v/%v/%d/%s/%v", c.Opts, c.N, c.PreClosed, c.PreCancel, c.Pattern, c.StopAt, c.Stopper, c.AsyncNs > 0)] = true
		}
	}
	vh.WriteJSON(*out, "summary.json", map[string]interface{}{
		"ri": len(ris), "ri_samples": samples, "option_sets": nsets, "loop": len(loops), "wma": len(wmas),
		"draws_known":  drawsKnown,
		"loop_classes": classes, "loop_waited_attempts": waits, "loop_stops": stops, "loop_async_stops": asyncs,
		"loop_attempts_after_stop": lateAttempts, "loop_hangs": hangN, "hangs_total": hangs, "loop_known_shape": knownShape, "wma_kinds": wmaKinds,
		"distinct_nontrivial": len(nontriv),
		"samples":             []interface{}{trim(ris[0]), trim(ris[len(ris)-1]), loops[0], loops[len(loops)-1], wmas[0], wmas[len(wmas)-1]},
	})
}
