// Harness for C18: runs the real timeutil.ToUnixMicros / FromUnixMicros on
// boundary windows and random instants, and the real timeutil.Timer on
// generated operation sequences; writes the inputs with the observed outputs
// as Coq terms (cases.v) and as JSON (cases.json, for replays).
package main

import (
	"flag"
	"fmt"
	"strings"
	"time"
	_ "time/tzdata" // zones with daylight saving, whatever the machine has installed

	"github.com/knz/shakespeare/pkg/crdb/timeutil"
	"github.com/knz/shakespeare/verifharness/vh"
)

type microCase struct{ Sec, Nsec, Obs int64 }
type fromCase struct{ Us, Sec, Nsec, Back int64 }
type timerCase struct {
	Ops []string
	Obs []string
}

func doMicro(sec, nsec int64) microCase {
	return microCase{sec, nsec, timeutil.ToUnixMicros(time.Unix(sec, nsec))}
}

// doMicroIn: the same instant presented in a zone (the result is a property
// of the instant, not of the zone it is displayed in; wall-clock times that a
// fall-back repeats are the interesting ones).
func doMicroIn(loc *time.Location, sec, nsec int64) microCase {
	return microCase{sec, nsec, timeutil.ToUnixMicros(time.Unix(sec, nsec).In(loc))}
}

func doFrom(us int64) fromCase {
	t := timeutil.FromUnixMicros(us)
	return fromCase{us, t.Unix(), int64(t.Nanosecond()), timeutil.ToUnixMicros(t)}
}

// runTimer performs one operation sequence on the real Timer.
func runTimer(ops []string) []string {
	var obs []string
	t := timeutil.NewTimer()
	expectFire := false
	for _, op := range ops {
		switch op {
		case "Rs", "Rl", "Rz", "Rn", "Rm":
			d := time.Millisecond
			switch op {
			case "Rl":
				d = time.Hour
			case "Rz":
				d = 0 // a deadline that has just passed: fires at once
			case "Rn":
				d = -time.Millisecond
			case "Rm":
				d = time.Duration(1<<63 - 1) // parked: the longest duration there is
			}
			done := make(chan struct{})
			tt := t
			go func() { tt.Reset(d); close(done) }()
			select {
			case <-done:
				obs = append(obs, "HDone")
			case <-time.After(3 * time.Second):
				obs = append(obs, "HBlocked")
				// the goroutine is stuck for ever; abandon this timer
				for len(obs) < len(ops) {
					obs = append(obs, "HBlocked")
				}
				return obs
			}
			expectFire = op != "Rl" && op != "Rm"
		case "W":
			// wait for the 1 ms timer to have fired (poll; bounded), else a short pause
			if expectFire {
				deadline := time.Now().Add(3 * time.Second)
				for time.Now().Before(deadline) && (t.C == nil || len(t.C) == 0) {
					time.Sleep(200 * time.Microsecond)
				}
			} else {
				time.Sleep(3 * time.Millisecond)
			}
			n := 0
			if t.C != nil {
				n = len(t.C)
			}
			obs = append(obs, fmt.Sprintf("(HLen %d)", n))
		case "T":
			got := false
			if t.C != nil {
				select {
				case <-t.C:
					t.Read = true
					got = true
				default:
				}
			}
			if got {
				expectFire = false
			}
			obs = append(obs, "(HGot "+vh.Bool(got)+")")
		case "S":
			res := t.Stop()
			obs = append(obs, "(HStopped "+vh.Bool(res)+")")
			t = timeutil.NewTimer()
			expectFire = false
		}
	}
	t.Stop()
	return obs
}

// Reset(0) and Reset(d < 0) are short timers too: they fire (once) as soon as the runtime gets to it
// measureLatency arms a Timer for d (directly, or re-arming one that was armed
// for an hour) and measures how long the tick takes: never less than d.
func measureLatency(d time.Duration, rearm bool) int64 {
	t := timeutil.NewTimer()
	defer t.Stop()
	if rearm {
		t.Reset(time.Hour)
	}
	start := time.Now()
	t.Reset(d)
	select {
	case <-t.C:
		t.Read = true
		return int64(time.Since(start))
	case <-time.After(d + 3*time.Second):
		return -1
	}
}

// measureLatencyAfterPause: Reset(d), receive (Read set), pause p < d, Reset(d)
// again: the second tick too comes no sooner than d after ITS Reset.
func measureLatencyAfterPause(d, p time.Duration) int64 {
	t := timeutil.NewTimer()
	defer t.Stop()
	t.Reset(d)
	select {
	case <-t.C:
		t.Read = true
	case <-time.After(d + 3*time.Second):
		return -1
	}
	time.Sleep(p)
	start := time.Now()
	t.Reset(d)
	select {
	case <-t.C:
		t.Read = true
		return int64(time.Since(start))
	case <-time.After(d + 3*time.Second):
		return -1
	}
}

// measureLatencyRepeated: Reset(d), pause p < d, Reset(d) again with the SAME
// duration while the first arming is still pending: the tick comes no sooner
// than d after the second Reset.
func measureLatencyRepeated(d, p time.Duration) int64 {
	t := timeutil.NewTimer()
	defer t.Stop()
	t.Reset(d)
	time.Sleep(p)
	start := time.Now()
	t.Reset(d)
	select {
	case <-t.C:
		t.Read = true
		return int64(time.Since(start))
	case <-time.After(d + 3*time.Second):
		return -1
	}
}

// measureResetCall: Reset(d1), pause p < d1, Reset(d2): how long the second
// call takes; -1 when it takes more than a second (Reset never blocks: the
// first arming, still pending and unread, must not be waited for).
func measureResetCall(d1, p, d2 time.Duration) int64 {
	t := timeutil.NewTimer()
	defer t.Stop()
	t.Reset(d1)
	time.Sleep(p)
	done := make(chan int64, 1)
	go func() {
		start := time.Now()
		t.Reset(d2)
		done <- int64(time.Since(start))
	}()
	select {
	case e := <-done:
		if e > int64(time.Second) {
			return -1
		}
		return e
	case <-time.After(d1 + 2*time.Second):
		return -1
	}
}

var opCoq = map[string]string{"Rs": "HReset true", "Rz": "HReset true", "Rn": "HReset true", "Rl": "HReset false", "Rm": "HReset false", "W": "HWait", "T": "HTryRecv", "S": "HStop"}

// measureTicker runs the collector's flush-ticker loop (pkg/cmd/collector.go) on
// the real Timer: NewTimer; Reset(p); per round: an optional pause, then
// `<-t.C; t.Read = true; t.Reset(p)`.  It returns the instants of the receives
// in ns since the first Reset; -1 = the receive did not come, or the Reset
// did not return, within the guard time.
func measureTicker(p time.Duration, rounds int, pause func(i int) time.Duration) []int64 {
	t := timeutil.NewTimer()
	var res []int64
	start := time.Now()
	t.Reset(p)
	for i := 0; i < rounds; i++ {
		if d := pause(i); d > 0 {
			time.Sleep(d)
		}
		select {
		case <-t.C:
			t.Read = true
			res = append(res, int64(time.Since(start)))
		case <-time.After(p + 3*time.Second):
			return append(res, -1)
		}
		done := make(chan struct{})
		go func() { t.Reset(p); close(done) }()
		select {
		case <-done:
		case <-time.After(3 * time.Second):
			return append(res, -1) // the loop is stuck in Reset
		}
	}
	t.Stop()
	return res
}

func main() {
	seed := flag.Int64("seed", 1, "")
	tier := flag.String("tier", "quick", "")
	out := flag.String("out", ".", "")
	flag.Parse()
	rng := vh.Rng(*seed)

	// ---- micro cases: boundary windows x seconds, in increasing instant order per second
	var secs []int64
	secs = append(secs, -1, 0, rng.Int63n(4e9)-2e9)
	step := int64(1)
	if *tier == "thorough" {
		secs = append(secs, -2, 1, 253402300799, -62135596800, rng.Int63n(9e12), -rng.Int63n(9e12))
	}
	var micro []microCase
	// the two ends of what an int64 of microseconds can represent: the lowest second
	// holds MinInt64 = -9223372036855 s + 224192 us, the highest MaxInt64 = 9223372036854 s + 775807 us
	const loSec, hiSec = int64(-9223372036855), int64(9223372036854)
	// instants around the end of daylight saving (the repeated hour) and its start, in three zones
	for _, z := range []struct {
		name string
		secs []int64
	}{
		{"America/New_York", []int64{1730611800, 1730615400, 1730619000, 1710054000, 1710057600}}, // 2024-11-03 05:30/06:30/07:30 UTC, 2024-03-10
		{"Europe/Berlin", []int64{1698539400, 1698543000, 1698546600, 1679790600}},                // 2023-10-29 00:30/01:30/02:30 UTC, 2023-03-26
		{"Australia/Lord_Howe", []int64{1712415600, 1712417400, 1712419200}},                        // half-hour shift, 2024-04-06
	} {
		loc, err := time.LoadLocation(z.name)
		if err != nil {
			continue
		}
		for _, sc := range z.secs {
			for _, n := range []int64{0, 499, 500, 999999499, 999999500, 123456789} {
				micro = append(micro, doMicroIn(loc, sc, n))
			}
		}
	}
	for _, n := range []int64{224192000, 224192001, 224192499, 224192500, 224193000, 500000000, 999999499, 999999500, 999999999} {
		micro = append(micro, doMicro(loSec, n))
	}
	for _, n := range []int64{0, 1, 499, 500, 1000, 500000000, 775806499, 775806500, 775807000, 775807499} {
		micro = append(micro, doMicro(loSec+1, n), doMicro(hiSec, n), doMicro(hiSec-1, n))
	}
	for i := 0; i < 60; i++ {
		micro = append(micro, doMicro(loSec, 224192000+rng.Int63n(775808000)), doMicro(hiSec, rng.Int63n(775807500)))
	}
	windows := [][2]int64{{0, 1500}, {499000, 501000}, {999998000, 999999999}}
	for _, s := range secs {
		for _, w := range windows {
			for n := w[0]; n <= w[1]; n += step {
				micro = append(micro, doMicro(s, n))
			}
		}
	}
	nrand := 2000
	if *tier == "thorough" {
		nrand = 100000
	}
	for i := 0; i < nrand; i++ {
		s := rng.Int63n(18e12) - 9e12
		if i%4 == 0 {
			s = rng.Int63n(4e9) - 2e9
		}
		n := rng.Int63n(1e9)
		switch i % 5 {
		case 0:
			n = n/1000*1000 + 499 + rng.Int63n(3)
			if n >= 1e9 {
				n = 999999999
			}
		case 1:
			n = 999999000 + rng.Int63n(1000)
		}
		micro = append(micro, doMicro(s, n))
	}

	// ---- from cases
	var from []fromCase
	for _, us := range []int64{0, 1, -1, 999999, 1000000, -999999, -1000000, -1000001, 4242424242424242, -62135596800000000, 9223372036854775807,
		9223372036854775806, 9223372036854000000, 9223372036853999999, -9223372036854775808, -9223372036854775807, -9223372036854000000, -9223372036854000001, -9223372036854775808 + 775807} {
		from = append(from, doFrom(us))
	}
	// where us*1000 stops fitting an int64 of nanoseconds (years 1677 and 2262), both sides
	for _, base := range []int64{9223372036854775, 9223372036000000, 9223372037000000} {
		for _, dlt := range []int64{-1000001, -1000000, -999999, -1, 0, 1, 2, 999, 1000, 145224, 999999, 1000000, 1000001} {
			from = append(from, doFrom(base+dlt), doFrom(-base+dlt), doFrom(-base-dlt))
		}
		for i := 0; i < 40; i++ {
			from = append(from, doFrom(base+rng.Int63n(4000000)-2000000), doFrom(-base+rng.Int63n(4000000)-2000000))
		}
	}
	nfrom := 1500
	if *tier == "thorough" {
		nfrom = 30000
	}
	for i := 0; i < nfrom; i++ {
		us := rng.Int63() - (1 << 62)
		if i%3 == 0 {
			us = rng.Int63n(4e15) - 2e15
		}
		if i%7 == 0 {
			us = (us/1000000)*1000000 + []int64{0, 1, -1, 999999, -999999}[rng.Intn(5)]
		}
		if i%11 == 0 {
			// near the ends of the int64 range
			if rng.Intn(2) == 0 {
				us = 9223372036854775807 - rng.Int63n(3000000)
			} else {
				us = -9223372036854775808 + rng.Int63n(3000000)
			}
		}
		from = append(from, doFrom(us))
	}

	// ---- timer cases
	var timers []timerCase
	nt := 120
	if *tier == "thorough" {
		nt = 1500
	}
	corpus := [][]string{
		{"Rs", "W", "Rs", "W", "T"},           // fire not read, then Reset must drain
		{"Rs", "W", "T", "Rs", "W", "T"},      // fire read, then Reset must not drain
		{"Rl", "S", "Rs", "W", "T", "W", "T"}, // stopped timer pooled and reused
		{"Rs", "W", "S", "Rl", "W", "T"},      // fired, unread, stopped: must not be pooled with a value
		{"Rl", "Rl", "Rs", "W", "W", "T", "T"},
		{"S", "T", "W", "Rs", "W", "S", "Rs", "W", "T"},
		{"Rs", "W", "T", "Rz", "W", "T", "Rs", "W", "T"},       // re-armed with a deadline already passed: fires, next Reset must not block
		{"Rz", "W", "Rn", "W", "T", "Rl", "W", "T"},            // zero then negative, first not received
		{"Rl", "Rn", "W", "T", "Rz", "W", "W", "T", "Rz", "W"}, // long timer replaced by an expired one
		{"Rs", "W", "T", "Rs", "W", "Rl", "W", "T"},            // read, then fired and NOT read, then re-armed for long: the stale tick must be drained
		{"Rz", "W", "T", "Rn", "W", "Rl", "W", "T", "S"},
		{"Rz", "W", "T", "Rs", "W", "Rl", "W", "T"},           // first armed with a deadline already passed, received; then fired and NOT read, then re-armed for long
		{"Rn", "W", "T", "Rs", "W", "Rs", "W", "T", "W", "T"}, // same start, short re-arm: exactly one tick
		{"Rz", "W", "T", "Rz", "W", "T", "Rs", "W", "Rl", "W", "T"},
		{"Rm", "W", "T", "S", "Rs", "W", "T", "Rm", "W", "T", "Rs", "W", "T"}, // parked with the longest duration: never fires, Stop succeeds
		{"Rs", "W", "T", "Rs", "W", "Rs", "W", "T", "W", "T"},                 // same with a short re-arm: exactly one tick
	}
	// the collector's ticker loop as an operation sequence: Reset, then (wait for the fire, receive, re-arm) x n
	for _, n := range []int{3, 8} {
		c := []string{"Rs"}
		for i := 0; i < n; i++ {
			c = append(c, "W", "T", "Rs")
		}
		corpus = append(corpus, append(c, "W", "T"))
	}
	for _, c := range corpus {
		timers = append(timers, timerCase{c, runTimer(c)})
	}
	alphabet := []string{"Rs", "Rl", "W", "T", "S", "Rz", "Rn", "Rs", "W", "T", "Rm"}
	for i := 0; i < nt; i++ {
		n := 1 + rng.Intn(14)
		var ops []string
		for len(ops) < n {
			op := alphabet[rng.Intn(len(alphabet))]
			if last := ""; len(ops) > 0 {
				last = ops[len(ops)-1]
				if (last == "Rs" || last == "Rz" || last == "Rn") && (op == "T" || op == "S") {
					continue // race with the timer: observation would be schedule-dependent
				}
			}
			ops = append(ops, op)
		}
		timers = append(timers, timerCase{ops, runTimer(ops)})
	}

	// ---- latency cases: a tick never comes before the duration asked for
	type latCase struct{ D, Elapsed int64 }
	var lats []latCase
	for _, d := range []time.Duration{950 * time.Microsecond, 999 * time.Microsecond, 1500 * time.Microsecond, 2900 * time.Microsecond,
		3999 * time.Microsecond, 7300 * time.Microsecond, 500 * time.Microsecond, 1999999 * time.Nanosecond, 10 * time.Millisecond, 1} {
		for _, rearm := range []bool{false, true} {
			lats = append(lats, latCase{int64(d), measureLatency(d, rearm)})
		}
	}
	for _, dp := range [][2]time.Duration{{30 * time.Millisecond, 10 * time.Millisecond}, {30 * time.Millisecond, 25 * time.Millisecond},
		{12 * time.Millisecond, 6 * time.Millisecond}, {5 * time.Millisecond, 4900 * time.Microsecond}} {
		lats = append(lats, latCase{int64(dp[0]), measureLatencyAfterPause(dp[0], dp[1])})
	}
	for _, dp := range [][2]time.Duration{{30 * time.Millisecond, 20 * time.Millisecond}, {12 * time.Millisecond, 8 * time.Millisecond},
		{60 * time.Millisecond, 45 * time.Millisecond}} {
		lats = append(lats, latCase{int64(dp[0]), measureLatencyRepeated(dp[0], dp[1])})
	}
	// Reset while an earlier, longer arming is pending returns at once (duration 0 asked of the CALL itself)
	lats = append(lats, latCase{0, measureResetCall(3*time.Second, 50*time.Millisecond, 100*time.Millisecond)})
	lats = append(lats, latCase{0, measureResetCall(3*time.Second, 5*time.Millisecond, 3*time.Second)})
	nl := 10
	if *tier == "thorough" {
		nl = 200
	}
	for i := 0; i < nl; i++ {
		d := time.Duration(rng.Int63n(12e6)) // up to 12 ms, any number of nanoseconds
		lats = append(lats, latCase{int64(d), measureLatency(d, rng.Intn(2) == 0)})
	}

	// ---- ticker cases: the collector's loop on the real Timer; receives at least a period apart
	type tickCase struct {
		P     int64
		Times []int64
	}
	var ticks []tickCase
	noPause := func(int) time.Duration { return 0 }
	for _, p := range []time.Duration{time.Millisecond, 2 * time.Millisecond, 700 * time.Microsecond, 3300 * time.Microsecond} {
		p := p
		ticks = append(ticks, tickCase{int64(p), measureTicker(p, 8, noPause)})
		// every third round the loop is busy for 2.5 periods: the tick waits unread in the channel
		ticks = append(ticks, tickCase{int64(p), measureTicker(p, 7, func(i int) time.Duration {
			if i%3 == 1 {
				return p*5/2
			}
			return 0
		})})
		// busy for less than a period before every receive
		ticks = append(ticks, tickCase{int64(p), measureTicker(p, 6, func(i int) time.Duration { return p * time.Duration(1+i%3) / 4 })})
	}
	ntk := 4
	if *tier == "thorough" {
		ntk = 60
	}
	for i := 0; i < ntk; i++ {
		p := time.Duration(300e3 + rng.Int63n(4e6)) // 0.3 .. 4.3 ms, any number of nanoseconds
		k := rng.Intn(4)
		ticks = append(ticks, tickCase{int64(p), measureTicker(p, 4+rng.Intn(6), func(i int) time.Duration {
			if k > 0 && i%k == 0 {
				return p * time.Duration(1+(i+k)%7) / 3
			}
			return 0
		})})
	}

	// ---- write
	var sb strings.Builder
	var items []string
	for _, c := range micro {
		items = append(items, fmt.Sprintf("(%s, %s, %s)", vh.Z(c.Sec), vh.Z(c.Nsec), vh.Z(c.Obs)))
	}
	sb.WriteString("Definition micro_cases : list micro_case := " + vh.ListNL(items) + "%Z.\n")
	items = nil
	for _, c := range from {
		items = append(items, fmt.Sprintf("(%s, %s, %s, %s)", vh.Z(c.Us), vh.Z(c.Sec), vh.Z(c.Nsec), vh.Z(c.Back)))
	}
	sb.WriteString("Definition from_cases : list from_case := " + vh.ListNL(items) + "%Z.\n")
	items = nil
	for _, c := range timers {
		var o []string
		for _, op := range c.Ops {
			o = append(o, opCoq[op])
		}
		items = append(items, "("+vh.List(o)+", "+vh.List(c.Obs)+")")
	}
	sb.WriteString("Definition timer_cases : list timer_case := " + vh.ListNL(items) + ".\n")
	items = nil
	for _, c := range lats {
		items = append(items, fmt.Sprintf("(%s, %s)", vh.Z(c.D), vh.Z(c.Elapsed)))
	}
	sb.WriteString("Definition latency_cases : list latency_case := " + vh.ListNL(items) + "%Z.\n")
	items = nil
	for _, c := range ticks {
		var ts []string
		for _, x := range c.Times {
			ts = append(ts, vh.Z(x))
		}
		items = append(items, fmt.Sprintf("(%s, %s)", vh.Z(c.P), vh.List(ts)))
	}
	sb.WriteString("Definition ticker_cases : list ticker_case := " + vh.ListNL(items) + "%Z.\n")
	vh.WriteFile(*out, "cases.v", sb.String())
	vh.WriteJSON(*out, "cases.json", map[string]interface{}{"micro": micro, "from": from, "timer": timers, "latency": lats, "ticker": ticks})
	nontriv := map[string]bool{}
	for _, c := range micro {
		r := c.Nsec % 1000
		if r != 0 { // rounding actually happens
			nontriv[fmt.Sprintf("m%d.%d", c.Sec, c.Nsec)] = true
		}
	}
	carry := 0
	for _, c := range micro {
		if c.Nsec >= 999999500 {
			carry++
		}
	}
	for _, c := range timers {
		if len(c.Ops) >= 3 {
			nontriv["t"+strings.Join(c.Ops, "")] = true
		}
	}
	vh.WriteJSON(*out, "summary.json", map[string]interface{}{
		"micro": len(micro), "from": len(from), "timer": len(timers), "ticker": len(ticks),
		"micro_carry_into_next_second": carry,
		"distinct_nontrivial":          len(nontriv),
		"samples":                      []interface{}{micro[0], micro[len(micro)-1], from[len(from)-1], timers[3], timers[len(timers)-1]},
	})
}
