// Second harness for C14, built with the race detector: plays in which several
// concurrent lines of one scene report mood changes (hook VerifRunMoodLines:
// scenes of mood-change lines added to a compiled play, run by the real
// cfg.run).  The same *moodChange object goes from a line to the audit loop
// and then to the collector; mood changes of different lines can reach the
// audit loop out of time order.  Kept apart from harness/c14 so that the
// plays of that harness do not depend on this hook.
package main

import (
	"flag"
	"fmt"
	"io/ioutil"
	"os"
	"runtime"
	"strings"
	"time"

	"github.com/knz/shakespeare/pkg/cmd"
	"github.com/knz/shakespeare/verifharness/vh"
)

type play struct {
	Events    []cmd.VerifMoodEvent `json:",omitempty"` // hand-off cases
	Index     int
	Cfg       string
	EarlyExit bool
	Features  []string
	Rounds    int
	PerLine   int
	Err       string
	Narration string
	Seconds   float64
	Race      string
	Moods     int
}

// watchdog ends the process (exit status 7, all goroutine stacks on stderr)
// when one play or case does not end: a deadlock inside the play cannot be
// recovered from in-process.  The check reports the play left in current.json.
func watchdog(d time.Duration) *time.Timer {
	return time.AfterFunc(d, func() {
		buf := make([]byte, 1<<20)
		n := runtime.Stack(buf, true)
		fmt.Fprintf(os.Stderr, "c14 harness: play does not end within %s\n%s\n", d, buf[:n])
		os.Exit(7)
	})
}

func raceLogSize(prefix string) (string, int64) {
	name := fmt.Sprintf("%s.%d", prefix, os.Getpid())
	fi, err := os.Stat(name)
	if err != nil {
		return name, 0
	}
	return name, fi.Size()
}

func main() {
	seed := flag.Int64("seed", 1, "")
	out := flag.String("out", ".", "")
	n := flag.Int("n", 3, "number of plays with concurrent mood lines")
	nHand := flag.Int("nhand", 20, "number of hand-off cases")
	raceLog := flag.String("racelog", "", "the log_path prefix given in GORACE")
	flag.Parse()
	rng := vh.Rng(*seed)
	defer cmd.VerifLogScope()()
	names := []string{"ann", "bob", "cy", "dee", "eve", "fay"}
	var plays []*play
	for i := 0; i < *n; i++ {
		p := &play{Index: i, Features: []string{"concurrent-mood-lines"}}
		nActors := 2 + rng.Intn(4)
		var sb strings.Builder
		sb.WriteString("role r\n  :a true\nend\ncast\n")
		for k := 0; k < nActors; k++ {
			fmt.Fprintf(&sb, "  %s plays r\n", names[k])
		}
		sb.WriteString("end\naudience\n  w expects always: mood != 'purple'\n  v computes since as moodt + 1\n")
		if rng.Intn(2) == 0 {
			sb.WriteString("  u audits only while mood == 'red'\n  u expects eventually: moodt >= 0\n")
			p.Features = append(p.Features, "mood-activated-auditor")
		}
		fmt.Fprintf(&sb, "end\nscript\n  tempo %dms\n  scene a entails for every r: a\n  scene m mood starts red\n  storyline a.m\nend\n", 2+rng.Intn(8))
		p.Cfg = sb.String()
		p.Rounds, p.PerLine = 5+rng.Intn(12), 2+rng.Intn(3)
		vh.WriteJSON(*out, "current.json", p)
		vh.WriteJSON(*out, "cases.json", plays)
		_, before := raceLogSize(*raceLog)
		t0 := time.Now()
		wd := watchdog(120 * time.Second)
		p.Err, p.Narration = cmd.VerifRunMoodLines(p.Cfg, false, 30*time.Second, p.Rounds, p.PerLine)
		wd.Stop()
		p.Seconds = time.Since(t0).Seconds()
		time.Sleep(30 * time.Millisecond)
		name, after := raceLogSize(*raceLog)
		if after > before {
			b, _ := ioutil.ReadFile(name)
			if int64(len(b)) >= after {
				p.Race = string(b[before:after])
			}
		}
		p.Moods = strings.Count(p.Narration, "🎊")
		if len(p.Narration) > 3000 {
			p.Narration = p.Narration[:1500] + "\n[...]\n" + p.Narration[len(p.Narration)-1500:]
		}
		plays = append(plays, p)
	}
	// hand-off cases: the real audit() and collect() loops as goroutines; each
	// mood change goes to the audit loop and then, the same object, to the
	// collector (prompter.reportMoodEvent / reportCollectorEvent); some time
	// stamps go back, as when two lines are delivered in the other order
	for i := 0; i < *nHand; i++ {
		p := &play{Index: *n + i, Features: []string{"mood-handoff"}}
		t := 0.0
		back := false
		for k := 0; k < 4+rng.Intn(25); k++ {
			if k > 0 && rng.Intn(3) == 0 {
				t -= float64(1+rng.Intn(20)) / 100
				back = true
			} else {
				t += float64(1+rng.Intn(30)) / 100
			}
			p.Events = append(p.Events, cmd.VerifMoodEvent{Ts: t, Mood: []string{"red", "blue", "clear", "green"}[rng.Intn(4)]})
		}
		if back {
			p.Features = append(p.Features, "out-of-order-time-stamps")
		}
		vh.WriteJSON(*out, "current.json", p)
		vh.WriteJSON(*out, "cases.json", plays)
		_, before := raceLogSize(*raceLog)
		t0 := time.Now()
		wd := watchdog(100 * time.Second)
		auErr, colErr, _, _, _ := cmd.VerifMoodHandoff(p.Events)
		wd.Stop()
		if auErr != "" || colErr != "" {
			p.Err = "audit: " + auErr + " / collect: " + colErr
		}
		p.Seconds = time.Since(t0).Seconds()
		time.Sleep(10 * time.Millisecond)
		name, after := raceLogSize(*raceLog)
		if after > before {
			b, _ := ioutil.ReadFile(name)
			if int64(len(b)) >= after {
				p.Race = string(b[before:after])
			}
		}
		p.Moods = len(p.Events)
		plays = append(plays, p)
	}
	vh.WriteJSON(*out, "cases.json", plays)
	moods, races := 0, 0
	for _, p := range plays {
		moods += p.Moods
		if p.Race != "" {
			races++
		}
	}
	vh.WriteJSON(*out, "summary.json", map[string]interface{}{"plays": len(plays), "mood_line_plays": *n, "handoff_cases": *nHand, "mood_changes": moods, "races": races})
}
