// Harness for C19: runs the REAL assemble / plot / subPlots (hook VerifPlot)
// on generated configurations and collected-data states, parses the .gp text
// they write into abstract directives, and emits inputs + observed directives
// as Coq terms (cases.v) and JSON (cases.json).  Also drives the real mood
// bookkeeping of the audition (hook VerifMoodBook) and, in the thorough tier,
// plays through the real binary (-bin) whose plots/*.gp are related to csv/*
// and result.js.
package main

import (
	"encoding/json"
	"flag"
	"fmt"
	"io/ioutil"
	"math"
	"math/rand"
	"os"
	"os/exec"
	"path/filepath"
	"regexp"
	"sort"
	"strconv"
	"strings"
	"sync"
	"time"

	"github.com/knz/shakespeare/pkg/cmd"
	"github.com/knz/shakespeare/verifharness/vh"
)

// ---------------------------------------------------------------------------
// description of a configuration, independent of the parser

type gSig struct {
	Name, Typ string // event | scalar | delta
}
type gRole struct {
	Name string
	Sigs []gSig
}
type gActor struct{ Name, Role string }
type gVar struct {
	Actor, Sig string
	Events     bool
}
type gMember struct {
	Name, Ylabel   string
	NoPlot         bool
	Vars           []gVar
	Assigns        bool
	Active         string
	ExpFsm, ExpSrc string
	Lines          []string
}
type gCfg struct {
	Roles     []gRole
	Actors    []gActor
	Members   []*gMember
	NumActs   int
	RepeatAct int
	Text      string
}

func (m *gMember) addVar(a, s string, ev bool) {
	for _, v := range m.Vars {
		if v.Actor == a && v.Sig == s {
			return
		}
	}
	m.Vars = append(m.Vars, gVar{a, s, ev})
}

func roleOf(c *gCfg, name string) *gRole {
	for i := range c.Roles {
		if c.Roles[i].Name == name {
			return &c.Roles[i]
		}
	}
	return nil
}

var actorPool = []string{"bob", "alice", "carol", "dave", "eve"}
var memberPool = []string{"o1", "olga", "peter", "q_2", "rita", "sam"}
var modalities = []string{"always", "never", "once", "eventually", "always eventually", "not always"}

func genCfg(rng *rand.Rand) *gCfg {
	c := &gCfg{}
	nRoles := 1 + rng.Intn(2)
	for i := 0; i < nRoles; i++ {
		r := gRole{Name: []string{"doctor", "nurse"}[i]}
		r.Sigs = append(r.Sigs, gSig{"ev", "event"})
		if rng.Intn(3) > 0 {
			r.Sigs = append(r.Sigs, gSig{"sc", "scalar"})
		}
		if rng.Intn(3) == 0 {
			r.Sigs = append(r.Sigs, gSig{"dl", "delta"})
		}
		if rng.Intn(4) == 0 {
			r.Sigs = append(r.Sigs, gSig{"ev2", "event"})
		}
		c.Roles = append(c.Roles, r)
	}
	nActors := rng.Intn(5)
	perm := rng.Perm(len(actorPool))
	for i := 0; i < nActors; i++ {
		c.Actors = append(c.Actors, gActor{actorPool[perm[i]], c.Roles[rng.Intn(nRoles)].Name})
	}
	var definedVars []string
	nMembers := rng.Intn(6)
	mperm := rng.Perm(len(memberPool))
	byName := map[string]*gMember{}
	var order []*gMember
	getM := func(n string) *gMember {
		if m, ok := byName[n]; ok {
			return m
		}
		m := &gMember{Name: n}
		byName[n] = m
		order = append(order, m)
		return m
	}
	// clauses are generated member by member but may be interleaved: the
	// declaration order is the order of first mention.
	type clause struct {
		member string
		text   string
		apply  func(m *gMember)
	}
	var clauses [][]clause
	for i := 0; i < nMembers; i++ {
		name := memberPool[mperm[i]]
		var cl []clause
		isAud := false
		hasExpect := false
		if rng.Intn(3) == 0 {
			switch rng.Intn(3) {
			case 0:
				cl = append(cl, clause{name, "audits throughout", func(m *gMember) { m.Active = "true" }})
			case 1:
				cl = append(cl, clause{name, "audits only while mood == 'red'", func(m *gMember) { m.Active = "mood == 'red'" }})
			default:
				cl = append(cl, clause{name, "audits only when t > 0.5", func(m *gMember) { m.Active = "t > 0.5" }})
			}
			isAud = true
		}
		nItems := 1 + rng.Intn(5)
		for k := 0; k < nItems; k++ {
			// an expression over at most one signal (the order in which an
			// expression's signals become watched is a map iteration order)
			genExpr := func() (string, func(m *gMember)) {
				if len(c.Actors) > 0 && rng.Intn(2) == 0 {
					a := c.Actors[rng.Intn(len(c.Actors))]
					r := roleOf(c, a.Role)
					s := r.Sigs[rng.Intn(len(r.Sigs))]
					e := fmt.Sprintf("[%s %s] %s", a.Name, s.Name, []string{"> 3", "+ 1 < 7", "== 'x'"}[rng.Intn(3)])
					return e, func(m *gMember) { m.addVar(a.Name, s.Name, s.Typ == "event") }
				}
				if len(definedVars) > 0 && rng.Intn(2) == 0 {
					return definedVars[rng.Intn(len(definedVars))] + " > 0", func(m *gMember) {}
				}
				return []string{"t > 1", "moodt < 5 && mood != 'blue'", "true"}[rng.Intn(3)], func(m *gMember) {}
			}
			ensure := func(m *gMember) {
				if m.Active == "" {
					m.Active = "true"
				}
			}
			switch x := rng.Intn(10); {
			case x <= 2 && len(c.Actors) > 0:
				a := c.Actors[rng.Intn(len(c.Actors))]
				r := roleOf(c, a.Role)
				s := r.Sigs[rng.Intn(len(r.Sigs))]
				cl = append(cl, clause{name, fmt.Sprintf("watches %s %s", a.Name, s.Name),
					func(m *gMember) { m.addVar(a.Name, s.Name, s.Typ == "event") }})
			case x == 3 && len(c.Actors) > 0:
				r := c.Roles[rng.Intn(len(c.Roles))]
				s := r.Sigs[rng.Intn(len(r.Sigs))]
				rn := r.Name
				any := false
				for _, a := range c.Actors {
					if a.Role == rn {
						any = true
					}
				}
				if !any {
					continue // the parser only warns and does not declare the member
				}
				cl = append(cl, clause{name, fmt.Sprintf("watches every %s %s", rn, s.Name), func(m *gMember) {
					for _, a := range c.Actors {
						if a.Role == rn {
							m.addVar(a.Name, s.Name, s.Typ == "event")
						}
					}
				}})
			case x == 4:
				vs := append([]string{"t", "mood", "moodt"}, definedVars...)
				v := vs[rng.Intn(len(vs))]
				if len(definedVars) > 0 && rng.Intn(2) == 0 {
					v = definedVars[rng.Intn(len(definedVars))]
				}
				cl = append(cl, clause{name, "watches " + v, func(m *gMember) { m.addVar("", v, false) }})
			case x == 5:
				lbl := []string{"things", "ops/s", "a \"quoted\" label", "µs"}[rng.Intn(4)]
				cl = append(cl, clause{name, "measures " + lbl, func(m *gMember) { m.Ylabel = lbl }})
			case x == 6 && rng.Intn(2) == 0:
				cl = append(cl, clause{name, "only helps", func(m *gMember) { m.NoPlot = true }})
			case x == 7:
				v := fmt.Sprintf("v%d", len(definedVars)+1)
				e, ap := genExpr()
				if strings.Contains(e, "== 'x'") {
					e = "t + 1"
					ap = func(m *gMember) {}
				}
				definedVars = append(definedVars, v)
				cl = append(cl, clause{name, fmt.Sprintf("computes %s as %s", v, e),
					func(m *gMember) { ensure(m); ap(m); m.Assigns = true }})
				isAud = true
			case x == 8:
				v := fmt.Sprintf("v%d", len(definedVars)+1)
				e, ap := genExpr()
				definedVars = append(definedVars, v)
				mode := []string{"last", "first", "top", "bottom"}[rng.Intn(4)]
				cl = append(cl, clause{name, fmt.Sprintf("collects %s as %s %d %s", v, mode, 1+rng.Intn(3), e),
					func(m *gMember) { ensure(m); ap(m); m.Assigns = true }})
				isAud = true
			case x == 9 && !hasExpect:
				e, ap := genExpr()
				mod := modalities[rng.Intn(len(modalities))]
				cl = append(cl, clause{name, fmt.Sprintf("expects %s: %s", mod, e),
					func(m *gMember) { ensure(m); ap(m); m.ExpFsm = mod; m.ExpSrc = e }})
				hasExpect = true
				isAud = true
			}
		}
		_ = isAud
		clauses = append(clauses, cl)
	}
	// an auditor whose only data can be verdicts: no `watches`, an expression
	// over the built-in variables only
	if rng.Intn(3) == 0 {
		e := []string{"t >= 0", "moodt < 5 && mood != 'blue'", "mood == 'clear'"}[rng.Intn(3)]
		mod := modalities[rng.Intn(len(modalities))]
		var cl []clause
		if rng.Intn(3) == 0 {
			cl = append(cl, clause{"verd", "audits only while mood == 'red'", func(m *gMember) { m.Active = "mood == 'red'" }})
		}
		cl = append(cl, clause{"verd", fmt.Sprintf("expects %s: %s", mod, e), func(m *gMember) {
			if m.Active == "" {
				m.Active = "true"
			}
			m.ExpFsm = mod
			m.ExpSrc = e
		}})
		clauses = append(clauses, cl)
	}
	// interleave round-robin (declaration order = order of first mention)
	// only when no clause defines a variable: variables must be defined
	// before use.
	var flat []clause
	if rng.Intn(3) == 0 && len(definedVars) == 0 {
		for k := 0; ; k++ {
			any := false
			for _, cl := range clauses {
				if k < len(cl) {
					flat = append(flat, cl[k])
					any = true
				}
			}
			if !any {
				break
			}
		}
	} else {
		for _, cl := range clauses {
			flat = append(flat, cl...)
		}
	}
	var aud []string
	for _, cl := range flat {
		m := getM(cl.member)
		cl.apply(m)
		aud = append(aud, "  "+cl.member+" "+cl.text)
	}
	c.Members = order

	// script
	c.NumActs = rng.Intn(5)
	if len(c.Actors) == 0 && c.NumActs > 0 && rng.Intn(2) == 0 {
		c.NumActs = 0
	}
	var sb strings.Builder
	for _, r := range c.Roles {
		fmt.Fprintf(&sb, "role %s\n  :a true\n  :b true\n  spotlight true\n", r.Name)
		for _, s := range r.Sigs {
			fmt.Fprintf(&sb, "  signal %s %s at (?P<ts_now>)(?P<%s>\\d+)%s\n", s.Name, s.Typ, s.Typ, s.Name)
		}
		sb.WriteString("end\n")
	}
	if len(c.Actors) > 0 {
		sb.WriteString("cast\n")
		for _, a := range c.Actors {
			fmt.Fprintf(&sb, "  %s plays %s\n", a.Name, a.Role)
		}
		sb.WriteString("end\n")
	}
	if len(aud) > 0 {
		sb.WriteString("audience\n" + strings.Join(aud, "\n") + "\nend\n")
	}
	if c.NumActs > 0 {
		sb.WriteString("script\n  tempo 10ms\n")
		sb.WriteString("  scene r mood starts red\n  scene c mood ends clear\n")
		chars := "rc"
		if len(c.Actors) > 0 {
			fmt.Fprintf(&sb, "  scene a entails for %s: a\n", c.Actors[0].Name)
			fmt.Fprintf(&sb, "  scene b entails for %s: b\n", c.Actors[len(c.Actors)-1].Name)
			chars = "rcab"
		}
		var acts []string
		for i := 0; i < c.NumActs; i++ {
			n := 1 + rng.Intn(3)
			s := ""
			for j := 0; j < n; j++ {
				s += string(chars[rng.Intn(len(chars))])
			}
			acts = append(acts, s)
		}
		sb.WriteString("  storyline " + strings.Join(acts, " ") + "\n")
		if rng.Intn(2) == 0 {
			// `repeat from <regexp>`: the first act matching it
			k := rng.Intn(c.NumActs)
			re := "^" + acts[k] + "$"
			for i, a := range acts {
				if a == acts[k] {
					c.RepeatAct = i + 1
					break
				}
			}
			fmt.Fprintf(&sb, "  repeat from %s\n", re)
			if rng.Intn(2) == 0 {
				fmt.Fprintf(&sb, "  repeat %d times\n", 2+rng.Intn(3))
			}
		}
		sb.WriteString("end\n")
	}
	c.Text = sb.String()
	return c
}

// ---------------------------------------------------------------------------
// collected-data description

type period struct {
	Start, End int64 // microseconds; math.MinInt64 / MaxInt64 = -Inf / +Inf
	Mood       string
}
type actCh struct {
	Ts     int64
	ActNum int
}
type dataDesc struct {
	MoodTail   bool `json:",omitempty"` // the last events the collector got are mood changes
	ActorHas   map[string]bool
	VarHas     map[string]bool // member|actor|sig
	AuditHas   map[string]bool
	ObsHas     map[string]bool
	Moods      []period
	Acts       []actCh
	RawNone    bool
	RawMin     int64
	RawMax     int64
	NumRepeats int
}

const negInf = math.MinInt64
const posInf = math.MaxInt64

func toF(us int64) float64 {
	if us == negInf {
		return math.Inf(-1)
	}
	if us == posInf {
		return math.Inf(1)
	}
	return float64(us) / 1e6
}

// the model's assemble_range, used only to place time stamps off the
// clipping boundaries
func assembleRange(d *dataDesc) (int64, int64) {
	mn, mx := d.RawMin, d.RawMax
	if d.RawNone {
		mn, mx = 0, 0
	}
	if mx < mn {
		mn, mx = mx, mn
	}
	if mn > 0 {
		mn = 0
	}
	if mx < 0 {
		mx = 1000000
	}
	if mx < mn+1000000 {
		mx = mn + 1000000
	}
	return mn, mx
}

func repeatStart(r int, acts []actCh) (int64, bool) {
	var occ []int64
	if r > 0 {
		for _, a := range acts {
			if a.ActNum == r {
				occ = append(occ, a.Ts)
			}
		}
	}
	if len(occ) == 0 {
		return 0, false
	}
	if len(occ) >= 2 {
		return occ[len(occ)-2], true
	}
	return occ[0], true
}

func genData(rng *rand.Rand, c *gCfg) *dataDesc {
	for {
		d := genDataOnce(rng, c)
		if !onBoundary(d, c) {
			return d
		}
	}
}

func onBoundary(d *dataDesc, c *gCfg) bool {
	mn, mx := assembleRange(d)
	var wins [][2]int64
	wins = append(wins, [2]int64{mn, mx})
	if s, ok := repeatStart(c.RepeatAct, d.Acts); ok {
		wins = append(wins, [2]int64{s, mx})
	}
	var tss []int64
	for _, a := range d.Acts {
		tss = append(tss, a.Ts)
	}
	for _, p := range d.Moods {
		if p.Start != negInf {
			tss = append(tss, p.Start)
		}
		if p.End != posInf {
			tss = append(tss, p.End)
		}
	}
	for _, w := range wins {
		lo20 := 20*w[0] - (w[1] - w[0])
		hi20 := 20*w[1] + (w[1] - w[0])
		if (w[1]-w[0])%20 != 0 {
			return true // the margin must be a whole number of microseconds
		}
		for _, t := range tss {
			if 20*t == lo20 || 20*t == hi20 {
				return true
			}
		}
	}
	return false
}

func genDataOnce(rng *rand.Rand, c *gCfg) *dataDesc {
	d := &dataDesc{ActorHas: map[string]bool{}, VarHas: map[string]bool{}, AuditHas: map[string]bool{}, ObsHas: map[string]bool{}}
	pAct := []float64{0.7, 0.3, 1, 0}[rng.Intn(4)]
	for _, a := range c.Actors {
		d.ActorHas[a.Name] = rng.Float64() < pAct
	}
	pVar := []float64{0.6, 0.9, 0.2, 0}[rng.Intn(4)]
	for _, m := range c.Members {
		any := false
		if rng.Intn(6) > 0 { // sometimes a member gets nothing at all
			for _, v := range m.Vars {
				if rng.Float64() < pVar {
					d.VarHas[m.Name+"|"+v.Actor+"|"+v.Sig] = true
					any = true
				}
			}
			if m.ExpFsm != "" && rng.Intn(3) > 0 {
				d.AuditHas[m.Name] = true
				any = true
			}
		}
		d.ObsHas[m.Name] = any
	}
	// range
	const ms = 1000
	switch rng.Intn(8) {
	case 0:
		d.RawNone = true
	case 1: // short play: the one-second rule applies
		d.RawMin = int64(rng.Intn(30)) * 10 * ms
		d.RawMax = d.RawMin + int64(rng.Intn(60))*10*ms
	case 2: // negative start (a spotlight's clock in the past)
		d.RawMin = -int64(1+rng.Intn(5)) * 200 * ms
		d.RawMax = d.RawMin + int64(2*(5+rng.Intn(60))+1)*100*ms
	default:
		d.RawMin = int64(rng.Intn(40)) * 10 * ms
		d.RawMax = int64(2*(5+rng.Intn(100))+1) * 100 * ms
	}
	genOverlays(rng, c, d)
	return d
}

// genOverlays adds act starts and mood periods around the (assembled) range.
func genOverlays(rng *rand.Rand, c *gCfg, d *dataDesc) {
	const ms = 1000
	_, mx := assembleRange(d)
	// acts
	if c.NumActs > 0 {
		var seq []int
		for i := 1; i <= c.NumActs; i++ {
			seq = append(seq, i)
		}
		if c.RepeatAct > 0 {
			d.NumRepeats = rng.Intn(4)
			for k := 0; k < d.NumRepeats; k++ {
				for i := c.RepeatAct; i <= c.NumActs; i++ {
					seq = append(seq, i)
				}
			}
		}
		if rng.Intn(4) == 0 { // early termination
			seq = seq[:rng.Intn(len(seq)+1)]
		}
		span := mx + 500*ms
		var ts int64
		for i, n := range seq {
			if i > 0 {
				ts += int64(1+rng.Intn(int(span/int64(len(seq))/(10*ms))+1)) * 10 * ms
			}
			if n == c.RepeatAct {
				// starts of the repeated act on the 200 ms grid (keeps the
				// zoomed window's margin a whole number of microseconds)
				ts = (ts + 200*ms - 1) / (200 * ms) * (200 * ms)
			}
			d.Acts = append(d.Acts, actCh{ts, n})
		}
	}
	// moods
	nm := rng.Intn(5)
	t := -300*ms + int64(rng.Intn(60))*10*ms
	moods := []string{"red", "blue", "green", "yellow"}
	for i := 0; i < nm; i++ {
		st := t + int64(rng.Intn(50))*10*ms
		en := st + int64(1+rng.Intn(int(mx/(10*ms))/2+2))*10*ms
		p := period{st, en, moods[rng.Intn(len(moods))]}
		if i == 0 && rng.Intn(12) == 0 {
			p.Start = negInf
		}
		if i == nm-1 && rng.Intn(12) == 0 {
			p.End = posInf
		}
		d.Moods = append(d.Moods, p)
		t = en
	}
}

// ---------------------------------------------------------------------------
// collected states produced by the REAL collector: events fed through
// collectActionReport / collectObservation / collectAuditionReport

func genEvents(rng *rand.Rand, c *gCfg) ([]cmd.VerifCollectEvent, *dataDesc) {
	for {
		evs, d := genEventsOnce(rng, c)
		if !onBoundary(d, c) {
			return evs, d
		}
	}
}

func genEventsOnce(rng *rand.Rand, c *gCfg) ([]cmd.VerifCollectEvent, *dataDesc) {
	const ms = 1000
	d := &dataDesc{ActorHas: map[string]bool{}, VarHas: map[string]bool{}, AuditHas: map[string]bool{}, ObsHas: map[string]bool{}}
	var evs []cmd.VerifCollectEvent
	span := int64(20+rng.Intn(400)) * 10 * ms
	start := int64(0)
	if rng.Intn(6) == 0 {
		start = -int64(1+rng.Intn(30)) * 10 * ms
	}
	ts := func() int64 { return start + int64(rng.Intn(int(span/(10*ms))+1))*10*ms }
	var tss []int64
	add := func(e cmd.VerifCollectEvent, t int64) {
		e.Ts = toF(t)
		evs = append(evs, e)
		tss = append(tss, t)
	}
	// actions
	pAct := []float64{0.7, 0.3, 1, 0}[rng.Intn(4)]
	for _, a := range c.Actors {
		if rng.Float64() < pAct {
			for k := 0; k < 1+rng.Intn(3); k++ {
				add(cmd.VerifCollectEvent{Kind: "action", Actor: a.Name, Sig: "a", Result: rng.Intn(3)}, ts())
			}
			d.ActorHas[a.Name] = true
		}
	}
	// observations of watched signals / variables and of the built-in ones
	type vk struct{ a, s string }
	pool := []vk{{"", "t"}, {"", "mood"}, {"", "moodt"}}
	seen := map[vk]bool{}
	for _, m := range c.Members {
		for _, v := range m.Vars {
			k := vk{v.Actor, v.Sig}
			if !seen[k] {
				seen[k] = true
				pool = append(pool, k)
			}
		}
	}
	pVar := []float64{0.6, 0.9, 0.2, 0}[rng.Intn(4)]
	observed := map[vk]bool{}
	for _, k := range pool {
		if rng.Float64() < pVar {
			observed[k] = true
			for n := 0; n < 1+rng.Intn(3); n++ {
				isNum := rng.Intn(2) == 0
				val := "x"
				if isNum {
					val = fmt.Sprintf("%d.5", rng.Intn(90))
				}
				add(cmd.VerifCollectEvent{Kind: "obs", Actor: k.a, Sig: k.s, Val: val, IsNum: isNum}, ts())
			}
		}
	}
	// verdicts: sometimes for every auditor, sometimes for a few, sometimes none
	pRep := []float64{1, 0.5, 0.5, 0}[rng.Intn(4)]
	for _, m := range c.Members {
		if m.ExpFsm != "" && rng.Float64() < pRep {
			for n := 0; n < 1+rng.Intn(3); n++ {
				add(cmd.VerifCollectEvent{Kind: "report", Member: m.Name, Result: []int{0, 2, 3, 3}[rng.Intn(4)], Val: []string{"good", "bad", "checking", ""}[rng.Intn(4)]}, ts())
			}
			d.AuditHas[m.Name] = true
		}
	}
	// mood changes also reach the collector (they only extend the time range)
	if rng.Intn(2) == 0 {
		for n := 0; n < 1+rng.Intn(3); n++ {
			add(cmd.VerifCollectEvent{Kind: "mood", Val: []string{"red", "blue", "clear"}[rng.Intn(3)]}, ts())
		}
	}
	rng.Shuffle(len(evs), func(i, j int) { evs[i], evs[j] = evs[j], evs[i] })
	// the tail of a play may hold nothing but mood changes: the time range
	// must still contain them
	if rng.Intn(3) == 0 {
		last := start + span
		for n := 0; n < 1+rng.Intn(2); n++ {
			last += int64(1+rng.Intn(40)) * 10 * ms
			add(cmd.VerifCollectEvent{Kind: "mood", Val: []string{"red", "clear"}[n%2]}, last)
		}
		d.MoodTail = true
	}
	// what the statement says was "received": derived from the events alone
	for _, m := range c.Members {
		any := d.AuditHas[m.Name]
		for _, v := range m.Vars {
			if observed[vk{v.Actor, v.Sig}] {
				d.VarHas[m.Name+"|"+v.Actor+"|"+v.Sig] = true
				any = true
			}
		}
		d.ObsHas[m.Name] = any
	}
	if len(tss) == 0 {
		d.RawNone = true
	} else {
		d.RawMin, d.RawMax = tss[0], tss[0]
		for _, t := range tss {
			if t < d.RawMin {
				d.RawMin = t
			}
			if t > d.RawMax {
				d.RawMax = t
			}
		}
	}
	genOverlays(rng, c, d)
	return evs, d
}

var csvRefRe = regexp.MustCompile(`'\.\./csv/([^']*)'`)

// missingCSV: the data files the scripts plot must be files the collector
// wrote (the two sides build the names separately).
func missingCSV(files map[string]string, csv []string) []string {
	have := map[string]bool{}
	for _, f := range csv {
		have[f] = true
	}
	seen := map[string]bool{}
	var missing []string
	for _, name := range []string{"plot.gp", "lastplot.gp"} {
		for _, m := range csvRefRe.FindAllStringSubmatch(files[name], -1) {
			if !have[m[1]] && !seen[m[1]] {
				seen[m[1]] = true
				missing = append(missing, m[1])
			}
		}
	}
	sort.Strings(missing)
	return missing
}

func runCollectCase(c *gCfg, evs []cmd.VerifCollectEvent, d *dataDesc) (*plotCase, string) {
	var moods []cmd.VerifMoodPeriod
	var acts []cmd.VerifActChange
	for _, p := range d.Moods {
		moods = append(moods, cmd.VerifMoodPeriod{Start: toF(p.Start), End: toF(p.End), Mood: p.Mood})
	}
	for _, a := range d.Acts {
		acts = append(acts, cmd.VerifActChange{Ts: toF(a.Ts), ActNum: a.ActNum})
	}
	out, cerr, csv := cmd.VerifCollectAndPlotMoods(c.Text, evs, moods, acts, d.NumRepeats)
	if cerr != "" {
		return nil, "collector refused a generated event: " + cerr + "\n" + c.Text
	}
	pc, msg := finishCase(c, d, out)
	if pc != nil {
		pc.Events = evs
		pc.CSV = csv
		pc.Missing = missingCSV(out.Files, csv)
	}
	return pc, msg
}

// ---------------------------------------------------------------------------
// parsing a .gp script into directives (Coq syntax) — strict: anything not
// recognised becomes DUnknown

type directive struct {
	Coq  string
	Kind string
}

func us(s string) (int64, bool) {
	m := fRe.FindStringSubmatch(s)
	if m == nil {
		return 0, false
	}
	ip, err := strconv.ParseInt(m[2], 10, 64)
	if err != nil {
		return 0, false
	}
	fp, _ := strconv.ParseInt(m[3], 10, 64)
	v := ip*1000000 + fp
	if m[1] == "-" {
		v = -v
	}
	return v, true
}

var fRe = regexp.MustCompile(`^(-?)(\d+)\.(\d{6})$`)
var multiplotRe = regexp.MustCompile(`^set multiplot layout (\d+),1$`)
var xrangeRe = regexp.MustCompile(`^set xrange \[([^:\]]+):([^:\]]+)\]$`)
var xticsRe = regexp.MustCompile(`^set xtics out (\d+)$`)
var mxticsRe = regexp.MustCompile(`^set mxtics (\d+)$`)
var arrowRe = regexp.MustCompile(`^set arrow from (\S+), graph 0 to (\S+), graph 1 back nohead lc 'blue'$`)
var yrangeRe = regexp.MustCompile(`^set yrange \[0:(\d+)\]$`)
var lane1Re = regexp.MustCompile(`^  '\.\./csv/([^']*)\.csv' using 1:\((\d+)\):1:`)
var rectRe = regexp.MustCompile(`^set object (\d+) rectangle from (graph 0|first \S+), graph 0 to (graph 1|first \S+), graph 1 behind fs solid 0\.3 fc "([^"]*)"$`)
var titleRe = regexp.MustCompile(`^set title ("(?:[^"\\]|\\.)*")$`)
var ylabelRe = regexp.MustCompile(`^set ylabel ("(?:[^"\\]|\\.)*")$`)
var curveRe = regexp.MustCompile(`^   '([^']*)' (.*) t ("(?:[^"\\]|\\.)*")(, \\)?$`)
var evOptsRe = regexp.MustCompile(`^using 1:\((\d+)\+\$3\):2 with labels hypertext point pt 6 ps \.5$`)
var aroundRe = regexp.MustCompile(`^(.*) \(around y=(\d+)\)$`)
var unsetObjRe = regexp.MustCompile(`^unset object (\d+)$`)

const header = "# auto-generated file.\n# See 'runme.gp' to actually generate plots.\nset termoption noenhanced"
const marginsFaces = "set lmargin at screen 0.05\nset rmargin at screen 0.98\narray faces[4]\nfaces[1] = \"😺\"\nfaces[2] = \"🙀\"\nfaces[3] = \"😿\"\nfaces[4] = \"\""
const actionTail = "set ytics 1\nset ylabel ''\nset y2range [0:1]\nset key bmargin center horizontal\nset grid ytics"

func hasBlock(lines []string, i int, block string) (int, bool) {
	bl := strings.Split(block, "\n")
	if i+len(bl) > len(lines) {
		return 0, false
	}
	for k, b := range bl {
		if lines[i+k] != b {
			return 0, false
		}
	}
	return len(bl), true
}

func xbound(s string) (string, bool) {
	if s == "graph 0" {
		return "BGraph0", true
	}
	if s == "graph 1" {
		return "BGraph1", true
	}
	if strings.HasPrefix(s, "first ") {
		if v, ok := us(s[6:]); ok {
			return "(BFirst " + vh.Z(v) + ")", true
		}
	}
	return "", false
}

func parseGp(text string) []directive {
	lines := strings.Split(strings.TrimSuffix(text, "\n"), "\n")
	var out []directive
	add := func(kind, coq string) { out = append(out, directive{coq, kind}) }
	i := 0
	for i < len(lines) {
		l := lines[i]
		if n, ok := hasBlock(lines, i, header); ok {
			add("header", "DHeader")
			i += n
			continue
		}
		if n, ok := hasBlock(lines, i, marginsFaces); ok {
			add("faces", "DMarginsFaces")
			i += n
			continue
		}
		if m := multiplotRe.FindStringSubmatch(l); m != nil {
			add("multiplot", "DMultiplot "+m[1])
			i++
			continue
		}
		if m := xrangeRe.FindStringSubmatch(l); m != nil {
			a, ok1 := us(m[1])
			b, ok2 := us(m[2])
			if ok1 && ok2 {
				add("xrange", "DXRange "+vh.Z(20*a)+" "+vh.Z(20*b))
				i++
				continue
			}
		}
		if m := xticsRe.FindStringSubmatch(l); m != nil && i+1 < len(lines) {
			if m2 := mxticsRe.FindStringSubmatch(lines[i+1]); m2 != nil {
				add("xtics", "DXTics "+m[1]+" "+m2[1])
				i += 2
				continue
			}
		}
		if m := arrowRe.FindStringSubmatch(l); m != nil && m[1] == m[2] {
			if v, ok := us(m[1]); ok {
				add("arrow", "DArrow "+vh.Z(v))
				i++
				continue
			}
		}
		if l == "set title 'actions'" && i+1 < len(lines) {
			if m := yrangeRe.FindStringSubmatch(lines[i+1]); m != nil {
				if n, ok := hasBlock(lines, i+2, actionTail); ok {
					add("actionbox", "DActionBox "+m[1])
					i += 2 + n
					continue
				}
			}
		}
		if l == "plot .5 t 'nothingness!'" {
			add("nothing", "DNothing")
			i++
			continue
		}
		if l == `plot \` {
			add("plot", "DPlot")
			i++
			continue
		}
		if m := lane1Re.FindStringSubmatch(l); m != nil && i+2 < len(lines) {
			name, n := m[1], m[2]
			l1 := fmt.Sprintf("  '../csv/%s.csv' using 1:(%s):1:($1+$2):(%s-0.25):(%s+0.25):(65536*($4 > 0 ? 255 : 0)+256*($4 > 0 ? 0 : 255)) with boxxyerror notitle fs solid 1.0 fc rgbcolor variable, \\", name, n, n, n)
			l2 := fmt.Sprintf("  '../csv/%s.csv' using 1:(%s+0.25):3 with labels t '%s events (at y=%s)', \\", name, n, name, n)
			l3 := fmt.Sprintf("  '../csv/%s.csv' using ($1+$2):(%s-0.25):5 with labels hypertext point pt 6 ps .5 notitle", name, n)
			if l == l1 && lines[i+1] == l2 && (lines[i+2] == l3 || lines[i+2] == l3+`, \`) {
				add("lane", fmt.Sprintf("DLane %s %s %s", vh.Str(name), n, vh.Bool(lines[i+2] != l3)))
				i += 3
				continue
			}
		}
		if m := rectRe.FindStringSubmatch(l); m != nil {
			xs, ok1 := xbound(m[2])
			xe, ok2 := xbound(m[3])
			if ok1 && ok2 {
				add("rect", fmt.Sprintf("DRect %s %s %s %s", m[1], xs, xe, vh.Str(m[4])))
				i++
				continue
			}
		}
		if m := titleRe.FindStringSubmatch(l); m != nil && i+4 < len(lines) {
			title, err := strconv.Unquote(m[1])
			ev := ""
			if m2 := yrangeRe.FindStringSubmatch(lines[i+1]); m2 != nil && lines[i+2] == "set grid ytics" && lines[i+3] == "set ytics 1" {
				ev = "(Some " + m2[1] + ")"
			} else if lines[i+1] == "set yrange [*:*]" && lines[i+2] == "set grid noytics" && lines[i+3] == "set ytics auto" {
				ev = "None"
			}
			if m3 := ylabelRe.FindStringSubmatch(lines[i+4]); err == nil && ev != "" && m3 != nil {
				if yl, err := strconv.Unquote(m3[1]); err == nil {
					add("group", fmt.Sprintf("DGroup %s %s %s", vh.Str(title), ev, vh.Str(yl)))
					i += 5
					continue
				}
			}
		}
		if m := curveRe.FindStringSubmatch(l); m != nil {
			title, err := strconv.Unquote(m[3])
			style := ""
			switch {
			case m[2] == "using 1:2 with linespoints":
				style = "SLine"
			case m[2] == "using 1:(.87):(faces[$2+1]) with labels font ',14'  axes x1y2":
				style = "SFace"
			case m[2] == "using 1:(.8):3 with labels hypertext point pt 17 axes x1y2":
				style = "SVerdict"
			default:
				if e := evOptsRe.FindStringSubmatch(m[2]); e != nil {
					if a := aroundRe.FindStringSubmatch(title); a != nil {
						style = fmt.Sprintf("(SEvent %s %s)", e[1], a[2])
						title = a[1]
					}
				}
			}
			if err == nil && style != "" {
				add("curve", fmt.Sprintf("DCurve %s %s %s %s", vh.Str(m[1]), style, vh.Str(title), vh.Bool(m[4] != "")))
				i++
				continue
			}
		}
		if m := unsetObjRe.FindStringSubmatch(l); m != nil {
			add("unsetobj", "DUnsetObject "+m[1])
			i++
			continue
		}
		if l == "unset arrow" {
			add("unsetarrow", "DUnsetArrow")
			i++
			continue
		}
		if l == "unset multiplot" {
			add("unsetmulti", "DUnsetMultiplot")
			i++
			continue
		}
		add("unknown", "DUnknown "+vh.Str(l))
		i++
	}
	return out
}

var termPdfRe = regexp.MustCompile(`^set term pdf color size 7,(\d+) font ",6"$`)
var termSvgRe = regexp.MustCompile(`^set term svg mouse standalone size 600,(\d+) dynamic font ",6"$`)
var termDumbRe = regexp.MustCompile(`^set term dumb size (\d+),(\d+) (\S+)$`)
var outRe = regexp.MustCompile(`^set output '(last)?plot\.(pdf|svg|txt)'$`)
var loadRe = regexp.MustCompile(`^load '(last)?plot\.gp'$`)

const runHeader = "# auto-generated file.\n# Run 'gnuplot runme.gp' to actually generate plots."

func parseRun(text string, w int, term string) []string {
	lines := strings.Split(strings.TrimSuffix(text, "\n"), "\n")
	var out []string
	i := 0
	for i < len(lines) {
		l := lines[i]
		if n, ok := hasBlock(lines, i, runHeader); ok {
			out = append(out, "RHeader")
			i += n
			continue
		}
		i++
		if m := termPdfRe.FindStringSubmatch(l); m != nil {
			out = append(out, "RTerm 0 "+m[1])
		} else if m := termSvgRe.FindStringSubmatch(l); m != nil {
			out = append(out, "RTerm 1 "+m[1])
		} else if m := termDumbRe.FindStringSubmatch(l); m != nil && m[1] == strconv.Itoa(w) && m[3] == term {
			out = append(out, "RTerm 2 "+m[2])
		} else if m := outRe.FindStringSubmatch(l); m != nil {
			out = append(out, fmt.Sprintf("ROut %s %d", vh.Bool(m[1] != ""), map[string]int{"pdf": 0, "svg": 1, "txt": 2}[m[2]]))
		} else if m := loadRe.FindStringSubmatch(l); m != nil {
			out = append(out, "RLoad "+vh.Bool(m[1] != ""))
		} else if l == "set xtics nomirror" {
			out = append(out, "RXTicsNoMirror")
		} else {
			out = append(out, "RUnknown "+vh.Str(l))
		}
	}
	return out
}

func coqDirs(ds []directive) string {
	var items []string
	for _, d := range ds {
		items = append(items, d.Coq)
	}
	return "[" + strings.Join(items, ";\n     ") + "]"
}

// ---------------------------------------------------------------------------
// Coq printers of the inputs

func coqXtime(v int64) string {
	if v == negInf {
		return "NegInf"
	}
	if v == posInf {
		return "PosInf"
	}
	return "(Fin " + vh.Z(v) + ")"
}

func coqCollected(c *gCfg, actorHas map[string]bool, varHas map[string]bool, auditHas, obsHas map[string]bool, moods []period, acts []actCh, appmax int64) string {
	var as, ms, ps, cs []string
	for _, a := range c.Actors {
		as = append(as, fmt.Sprintf("Build_actor %s %s", vh.Str(a.Name), vh.Bool(actorHas[a.Name])))
	}
	for _, m := range c.Members {
		var vs []string
		for _, v := range m.Vars {
			vs = append(vs, fmt.Sprintf("Build_wvar %s %s %s %s", vh.Str(v.Actor), vh.Str(v.Sig), vh.Bool(v.Events), vh.Bool(varHas[m.Name+"|"+v.Actor+"|"+v.Sig])))
		}
		exp := "None"
		if m.ExpFsm != "" {
			exp = fmt.Sprintf("(Some (%s, %s))", vh.Str(m.ExpFsm), vh.Str(m.ExpSrc))
		}
		ms = append(ms, fmt.Sprintf("Build_member %s %s %s %s %s %s %s %s %s", vh.Str(m.Name), vh.Str(m.Ylabel), vh.Bool(m.NoPlot),
			vh.Bool(obsHas[m.Name]), vh.List(vs), vh.Bool(m.Assigns), vh.Str(m.Active), exp, vh.Bool(auditHas[m.Name])))
	}
	for _, p := range moods {
		ps = append(ps, fmt.Sprintf("Build_mperiod %s %s %s", coqXtime(p.Start), coqXtime(p.End), vh.Str(p.Mood)))
	}
	for _, a := range acts {
		cs = append(cs, fmt.Sprintf("(%s, %d)", vh.Z(a.Ts), a.ActNum))
	}
	return fmt.Sprintf("(Build_collected\n    %s\n    %s\n    %s\n    %s %s)", vh.List(as), vh.List(ms), vh.List(ps), vh.List(cs), vh.Z(appmax))
}

func fToUs(f float64) int64 { return int64(math.Round(f * 1e6)) }

// ---------------------------------------------------------------------------

type plotCase struct {
	Cfg       string
	Events    []cmd.VerifCollectEvent `json:",omitempty"`
	CSV       []string                `json:",omitempty"`
	Missing   []string                `json:",omitempty"` // csv files a script names that the collector did not write
	Data      *dataDesc
	RepeatAct int
	Out       cmd.VerifPlotOutput
	Coq       string `json:"-"`
	Shape     string
}

// checkParsed compares the parser's view of the configuration with the
// generator's description; a disagreement means the generator (not the
// property) is wrong.
func checkParsed(c *gCfg, out cmd.VerifPlotOutput) string {
	if len(out.Actors) != len(c.Actors) {
		return "actors"
	}
	for i, a := range c.Actors {
		if out.Actors[i] != a.Name {
			return "actor order"
		}
	}
	if len(out.Members) != len(c.Members) {
		return fmt.Sprintf("members: %d vs %d", len(out.Members), len(c.Members))
	}
	for i, m := range c.Members {
		o := out.Members[i]
		if o.Name != m.Name || o.Ylabel != m.Ylabel || o.DisablePlot != m.NoPlot || o.ActiveSrc != m.Active ||
			o.ExpectFsm != m.ExpFsm || o.ExpectSrc != m.ExpSrc || o.IsAuditor != (m.Assigns || m.ExpFsm != "") || len(o.Vars) != len(m.Vars) {
			return fmt.Sprintf("member %s: %+v vs %+v", m.Name, o, *m)
		}
		for j, v := range m.Vars {
			if o.Vars[j].Actor != v.Actor || o.Vars[j].Sig != v.Sig || o.Vars[j].DrawEvents != v.Events {
				return fmt.Sprintf("member %s var %d: %+v vs %+v", m.Name, j, o.Vars[j], v)
			}
		}
	}
	if out.RepeatActNum != c.RepeatAct || out.NumActs != c.NumActs {
		return fmt.Sprintf("acts %d/%d vs %d/%d", out.RepeatActNum, out.NumActs, c.RepeatAct, c.NumActs)
	}
	return ""
}

func runPlotCase(c *gCfg, d *dataDesc) (*plotCase, string) {
	in := cmd.VerifPlotInput{
		CfgText: c.Text, ActorHasData: d.ActorHas, ObserverHasData: d.ObsHas, VarHasData: d.VarHas, AuditorHasData: d.AuditHas,
		NumRepeats: d.NumRepeats,
	}
	if d.RawNone {
		in.MinTime, in.MaxTime = math.Inf(1), math.Inf(-1)
	} else {
		in.MinTime, in.MaxTime = toF(d.RawMin), toF(d.RawMax)
	}
	for _, p := range d.Moods {
		in.MoodPeriods = append(in.MoodPeriods, cmd.VerifMoodPeriod{Start: toF(p.Start), End: toF(p.End), Mood: p.Mood})
	}
	for _, a := range d.Acts {
		in.ActChanges = append(in.ActChanges, cmd.VerifActChange{Ts: toF(a.Ts), ActNum: a.ActNum})
	}
	return finishCase(c, d, cmd.VerifPlot(in))
}

// finishCase parses what the real plot wrote and prints the case.
func finishCase(c *gCfg, d *dataDesc, out cmd.VerifPlotOutput) (*plotCase, string) {
	if out.ParseErr != "" || out.Panic != "" || out.PlotErr != "" {
		return nil, fmt.Sprintf("parse=%q panic=%q plot=%q\n%s", out.ParseErr, out.Panic, out.PlotErr, c.Text)
	}
	if msg := checkParsed(c, out); msg != "" {
		return nil, "generator and parser disagree: " + msg + "\n" + c.Text
	}
	pc := &plotCase{Cfg: c.Text, Data: d, RepeatAct: c.RepeatAct, Out: out}
	raw := "None"
	if !d.RawNone {
		raw = fmt.Sprintf("(Some (%s, %s))", vh.Z(d.RawMin), vh.Z(d.RawMax))
	}
	rep := "None"
	if out.HasRepeat {
		rep = "(Some " + vh.Z(fToUs(out.RepeatStart)) + ")"
	}
	main := parseGp(out.Files["plot.gp"])
	last := "None"
	if t, ok := out.Files["lastplot.gp"]; ok {
		last = "(Some " + coqDirs(parseGp(t)) + ")"
	}
	run := parseRun(out.Files["runme.gp"], out.TextW, out.TextTerm)
	pc.Coq = fmt.Sprintf("Build_plot_case\n   %s\n   %s %d %d\n   (Build_plot_out %s %s %s\n    %s\n    %s\n    %s)",
		coqCollected(c, d.ActorHas, d.VarHas, d.AuditHas, d.ObsHas, d.Moods, d.Acts, 0), raw, c.RepeatAct, out.TextH,
		vh.Z(fToUs(out.MinTime)), vh.Z(fToUs(out.MaxTime)), rep, coqDirs(main), last, vh.List(run))
	nl, nb, nc := 0, 0, 0
	for _, x := range main {
		switch x.Kind {
		case "lane":
			nl++
		case "group":
			nb++
		case "curve":
			nc++
		}
	}
	pc.Shape = fmt.Sprintf("lanes=%d boxes=%d curves=%d", nl, nb, nc)
	return pc, ""
}

type moodCase struct {
	EndBy  string `json:",omitempty"` // through the real audit() loop, ended by terminate / cancel / quiesce
	Events []cmd.VerifMoodEvent
	Final  float64
	Obs    []cmd.VerifMoodPeriod
	Err    string
}

func genMoodCase(rng *rand.Rand) moodCase {
	n := rng.Intn(9)
	moods := []string{"clear", "red", "blue", "red", "clear"}
	var evs []cmd.VerifMoodEvent
	t := int64(0)
	for i := 0; i < n; i++ {
		t += int64(rng.Intn(40)) * 10000
		ts := t
		if rng.Intn(8) == 0 { // concurrent lines: arrival order differs from time order
			ts -= int64(rng.Intn(3)) * 10000
		}
		evs = append(evs, cmd.VerifMoodEvent{Ts: toF(ts), Mood: moods[rng.Intn(len(moods))]})
	}
	final := toF(t + int64(1+rng.Intn(50))*10000)
	obs, e := cmd.VerifMoodBook(evs, final)
	// checkFinal reads the clock: the end of an open period is `final` plus
	// the few microseconds the call took; snap it back.
	for i := range obs {
		if i == len(obs)-1 && obs[i].End >= final && obs[i].End < final+0.009 {
			obs[i].End = final
		}
	}
	return moodCase{"", evs, final, obs, e}
}

// genLoopCase: the same bookkeeping, driven through the real audit() loop
// (mood and act changes over an unbuffered channel) and ended the three ways
// a play ends it.
func genLoopCase(rng *rand.Rand) moodCase {
	n := rng.Intn(8)
	moods := []string{"clear", "red", "blue", "red"}
	var evs, moodEvs []cmd.VerifMoodEvent
	var actNums []int
	var wantActs []cmd.VerifActChange
	t := int64(0)
	act := 0
	for i := 0; i < n; i++ {
		t += int64(rng.Intn(40)) * 10000
		if rng.Intn(3) == 0 {
			act++
			evs = append(evs, cmd.VerifMoodEvent{Ts: toF(t)})
			actNums = append(actNums, act)
			wantActs = append(wantActs, cmd.VerifActChange{Ts: toF(t), ActNum: act})
			continue
		}
		e := cmd.VerifMoodEvent{Ts: toF(t), Mood: moods[rng.Intn(len(moods))]}
		evs = append(evs, e)
		moodEvs = append(moodEvs, e)
		actNums = append(actNums, 0)
	}
	// most plays that are cut short are cut while a mood is in force
	if len(moodEvs) > 0 && rng.Intn(2) == 0 && moodEvs[len(moodEvs)-1].Mood == "clear" {
		t += 10000
		e := cmd.VerifMoodEvent{Ts: toF(t), Mood: "red"}
		evs = append(evs, e)
		moodEvs = append(moodEvs, e)
		actNums = append(actNums, 0)
	}
	final := toF(t + int64(1+rng.Intn(50))*10000)
	endBy := []string{"terminate", "cancel", "cancel", "quiesce"}[rng.Intn(4)]
	obs, acts, e := cmd.VerifMoodLoop(evs, actNums, final, endBy)
	for i := range obs {
		if i == len(obs)-1 && obs[i].End >= final && obs[i].End < final+0.05 {
			obs[i].End = final
		}
	}
	if e == "" && fmt.Sprint(acts) != fmt.Sprint(wantActs) {
		e = fmt.Sprintf("act changes recorded %v, sent %v", acts, wantActs)
	}
	return moodCase{endBy, moodEvs, final, obs, e}
}

func coqMoodCase(c moodCase) string {
	var es, ps []string
	for _, e := range c.Events {
		es = append(es, fmt.Sprintf("(%s, %s)", vh.Z(fToUs(e.Ts)), vh.Str(e.Mood)))
	}
	for _, p := range c.Obs {
		st, en := coqXtime(negInf), coqXtime(posInf)
		if !math.IsInf(p.Start, 0) {
			st = coqXtime(fToUs(p.Start))
		}
		if !math.IsInf(p.End, 0) {
			en = coqXtime(fToUs(p.End))
		}
		ps = append(ps, fmt.Sprintf("Build_mperiod %s %s %s", st, en, vh.Str(p.Mood)))
	}
	return fmt.Sprintf("(%s, %s, %s)", vh.List(es), vh.Z(fToUs(c.Final)), vh.List(ps))
}

func main() {
	seed := flag.Int64("seed", 1, "")
	tier := flag.String("tier", "quick", "")
	out := flag.String("out", ".", "")
	bin := flag.String("bin", "", "the real shakespeare binary (end-to-end plays)")
	e2eOnly := flag.Bool("e2eonly", false, "debugging: only the end-to-end plays")
	flag.Parse()
	rng := vh.Rng(*seed)
	defer cmd.VerifLogScope()()

	nCfg, nCol, perCfg, nMood, nE2E := 100, 80, 3, 300, 6
	if *tier == "thorough" {
		nCfg, nCol, perCfg, nMood, nE2E = 800, 600, 4, 4000, 12
	}
	if *e2eOnly {
		nCfg, nCol, nMood, nE2E = 1, 1, 1, 12
	}
	var cases []*plotCase
	var genErrs []string
	for i := 0; i < nCfg; i++ {
		c := genCfg(rng)
		for k := 0; k < perCfg; k++ {
			d := genData(rng, c)
			pc, msg := runPlotCase(c, d)
			if pc == nil {
				genErrs = append(genErrs, msg)
				break
			}
			cases = append(cases, pc)
		}
	}
	var ccases []*plotCase
	for i := 0; i < nCol; i++ {
		c := genCfg(rng)
		for k := 0; k < perCfg; k++ {
			evs, d := genEvents(rng, c)
			pc, msg := runCollectCase(c, evs, d)
			if pc == nil {
				genErrs = append(genErrs, msg)
				break
			}
			ccases = append(ccases, pc)
		}
	}
	if len(genErrs) > 0 {
		fmt.Fprintf(os.Stderr, "c19 harness: %d configurations could not be used; first:\n%s\n", len(genErrs), genErrs[0])
		if len(genErrs) > nCfg/10 {
			os.Exit(4)
		}
	}
	var moodCases []moodCase
	for i := 0; i < nMood; i++ {
		moodCases = append(moodCases, genMoodCase(rng))
	}
	for i := 0; i < nMood/2; i++ {
		moodCases = append(moodCases, genLoopCase(rng))
	}
	var e2e []*e2eCase
	if nE2E > 0 && *bin != "" {
		e2e = runE2E(rng, *bin, nE2E)
	}

	var sb strings.Builder
	var items []string
	for _, c := range cases {
		items = append(items, c.Coq)
	}
	sb.WriteString("Definition plot_cases : list plot_case := " + vh.ListNL(items) + ".\n")
	items = nil
	for _, c := range ccases {
		items = append(items, c.Coq)
	}
	sb.WriteString("Definition collect_cases : list plot_case := " + vh.ListNL(items) + ".\n")
	items = nil
	for _, c := range moodCases {
		items = append(items, coqMoodCase(c))
	}
	sb.WriteString("Definition mood_cases : list mood_case := " + vh.ListNL(items) + ".\n")
	items = nil
	for _, c := range e2e {
		if c.Err == "" {
			items = append(items, c.Coq)
		}
	}
	sb.WriteString("Definition e2e_cases : list e2e_case := " + vh.ListNL(items) + ".\n")
	vh.WriteFile(*out, "cases.v", sb.String())
	vh.WriteJSON(*out, "cases.json", map[string]interface{}{"plot": cases, "collect": ccases, "mood": moodCases, "e2e": e2e})

	// summary
	shapes := map[string]int{}
	distinct := map[string]bool{}
	nontrivial := 0
	stats := map[string]int{}
	for _, c := range cases {
		shapes[c.Shape]++
		key := c.Cfg + fmt.Sprint(c.Data)
		if !distinct[key] {
			distinct[key] = true
			if !strings.Contains(c.Shape, "boxes=0") || !strings.Contains(c.Shape, "lanes=0") {
				nontrivial++
			}
		}
		if c.Out.HasRepeat {
			stats["with_repeat_section"]++
		}
		if len(c.Data.Moods) > 0 {
			stats["with_mood_periods"]++
		}
		if len(c.Data.Acts) > 1 {
			stats["with_several_acts"]++
		}
		if strings.Contains(c.Cfg, "only helps") {
			stats["with_only_helps"]++
		}
		if strings.Contains(c.Cfg, " computes ") || strings.Contains(c.Cfg, " collects ") {
			stats["with_computed_variables"]++
		}
		if strings.Contains(c.Cfg, " expects ") {
			stats["with_auditors"]++
		}
		if c.Data.RawNone {
			stats["nothing_collected"]++
		}
		for _, v := range c.Data.ActorHas {
			if !v {
				stats["cases_with_idle_actor"]++
				break
			}
		}
	}
	var shapeKeys []string
	for k := range shapes {
		shapeKeys = append(shapeKeys, k)
	}
	sort.Strings(shapeKeys)
	stats["distinct_shapes"] = len(shapeKeys)
	var samples []interface{}
	if len(cases) > 0 {
		samples = append(samples, map[string]interface{}{"cfg": cases[len(cases)/2].Cfg, "data": cases[len(cases)/2].Data, "plot.gp": cases[len(cases)/2].Out.Files["plot.gp"]})
	}
	if len(moodCases) > 0 {
		samples = append(samples, moodCases[len(moodCases)/2])
	}
	// collected cases in which some member's only data are verdicts
	verdictOnly := 0
	for _, c := range ccases {
		for m, h := range c.Data.AuditHas {
			if !h {
				continue
			}
			only := true
			for k, v := range c.Data.VarHas {
				if v && strings.HasPrefix(k, m+"|") {
					only = false
				}
			}
			if only {
				verdictOnly++
				break
			}
		}
		key := c.Cfg + fmt.Sprint(c.Data)
		if !distinct[key] {
			distinct[key] = true
			if !strings.Contains(c.Shape, "boxes=0") || !strings.Contains(c.Shape, "lanes=0") {
				nontrivial++
			}
		}
	}
	missingCases := 0
	for _, c := range ccases {
		if len(c.Missing) > 0 {
			missingCases++
		}
	}
	for _, e := range e2e {
		if e.Err == "" && len(e.Missing) > 0 {
			missingCases++
		}
	}
	e2eOk := 0
	for _, e := range e2e {
		if e.Err == "" {
			e2eOk++
		}
	}
	vh.WriteJSON(*out, "summary.json", map[string]interface{}{
		"missing_csv_cases": missingCases,
		"plot": len(cases), "collect": len(ccases), "collect_verdict_only_boxes": verdictOnly, "mood": len(moodCases), "e2e": len(e2e), "e2e_completed": e2eOk,
		"unusable_configurations": len(genErrs), "distinct_nontrivial": nontrivial, "stats": stats, "samples": samples,
	})
}

// ---------------------------------------------------------------------------
// end-to-end plays through the real binary

type e2eCase struct {
	Missing []string `json:",omitempty"`
	Name    string
	Cfg     string
	Dir     string `json:"-"`
	Err     string
	Files   map[string]string
	CSV     []string
	Result  map[string]interface{}
	Coq     string `json:"-"`
	Expect  e2eExpect
	Elapsed float64
}

type e2eExpect struct {
	Bands       []string
	NumActs     int
	RepeatAct   int
	WantsRepeat bool
}

type e2eSpec struct {
	name  string
	cfg   *gCfg
	exp   e2eExpect
	flags []string
	foul  bool // the play is expected to be fouled (exit status 1)
}

// e2eSpecs builds plays with real commands: a role whose actions append to a
// log that its spotlight tails; event and scalar signals; members with and
// without data, `only helps`, computed variables, auditors.
func e2eSpecs(rng *rand.Rand, n int) []e2eSpec {
	var specs []e2eSpec
	for i := 0; i < n; i++ {
		c := &gCfg{}
		c.Roles = []gRole{{Name: "road", Sigs: []gSig{{"ride", "event"}, {"speed", "scalar"}}}, {Name: "idle", Sigs: []gSig{{"ride", "event"}}}}
		nAct := 1 + rng.Intn(3)
		for k := 0; k < nAct; k++ {
			c.Actors = append(c.Actors, gActor{actorPool[k], "road"})
		}
		idle := rng.Intn(2) == 0
		if idle {
			c.Actors = append(c.Actors, gActor{"zed", "idle"}) // never acts, emits nothing
		}
		first := c.Actors[0].Name
		var aud []string
		addM := func(m *gMember, lines ...string) {
			c.Members = append(c.Members, m)
			for _, l := range lines {
				aud = append(aud, "  "+m.Name+" "+l)
			}
		}
		// observer with event and scalar curves
		m1 := &gMember{Name: "watcher", Ylabel: "km/h"}
		m1.addVar(first, "ride", true)
		m1.addVar(first, "speed", false)
		addM(m1, "watches "+first+" ride", "watches "+first+" speed", "measures km/h")
		if idle { // a member that never receives anything
			m2 := &gMember{Name: "bored"}
			m2.addVar("zed", "ride", true)
			addM(m2, "watches zed ride")
		}
		// auditor with a computed variable
		m3 := &gMember{Name: "judge", Active: "true", Assigns: true, ExpFsm: "always", ExpSrc: "fast < 1000"}
		m3.addVar(first, "speed", false)
		addM(m3, "computes fast as ["+first+" speed] * 2", "expects always: fast < 1000")
		// a helper that is not plotted
		if rng.Intn(2) == 0 {
			m4 := &gMember{Name: "helper", NoPlot: true}
			m4.addVar("", "fast", false)
			addM(m4, "watches fast", "only helps")
		}
		// a member watching the computed variable and every actor's events
		m5 := &gMember{Name: "all"}
		m5.addVar("", "fast", false)
		for _, a := range c.Actors {
			if a.Role == "road" {
				m5.addVar(a.Name, "ride", true)
			}
		}
		addM(m5, "watches fast", "watches every road ride")
		// an auditor whose only data are verdicts: no watches, built-in variables only
		m7 := &gMember{Name: "clock", Active: "true", ExpFsm: "always", ExpSrc: "t >= 0"}
		addM(m7, "expects always: t >= 0")
		// an auditor that is never activated: no verdicts
		if rng.Intn(2) == 0 {
			m6 := &gMember{Name: "sleeper", Active: "mood == 'purple'", ExpFsm: "never", ExpSrc: "t < 0"}
			addM(m6, "audits only while mood == 'purple'", "expects never: t < 0")
		}

		tmpl := i % 6
		if tmpl == 5 {
			// fouls the play as soon as a mood starts
			m8 := &gMember{Name: "strict", Active: "true", ExpFsm: "always", ExpSrc: "mood == 'clear'"}
			addM(m8, "expects always: mood == 'clear'")
		}
		// script
		exp := e2eExpect{}
		var sb strings.Builder
		sb.WriteString("role road\n  cleanup rm -f traffic.log\n  :car echo \"car rides\" >>traffic.log; echo \"speed 42\" >>traffic.log\n  :fast echo \"car rides\" >>traffic.log; echo \"speed 90\" >>traffic.log\n")
		sb.WriteString("  spotlight touch traffic.log; tail -F traffic.log\n")
		sb.WriteString("  signal ride event at (?P<ts_now>)(?P<event>car rides)\n  signal speed scalar at (?P<ts_now>)^speed (?P<scalar>\\d+)$\nend\n")
		sb.WriteString("role idle\n  :nop true\n  spotlight touch idle.log; tail -F idle.log\n  signal ride event at (?P<ts_now>)(?P<event>never)\nend\n")
		sb.WriteString("cast\n")
		for _, a := range c.Actors {
			fmt.Fprintf(&sb, "  %s plays %s\n", a.Name, a.Role)
		}
		sb.WriteString("end\naudience\n" + strings.Join(aud, "\n") + "\nend\n")
		sb.WriteString("script\n  tempo 80ms\n")
		fmt.Fprintf(&sb, "  scene c entails for %s: car\n", first)
		fmt.Fprintf(&sb, "  scene f entails for %s: fast\n", first)
		if nAct > 1 {
			fmt.Fprintf(&sb, "  scene d entails for %s: car\n", c.Actors[1].Name)
		}
		sb.WriteString("  scene r mood starts red\n  scene b mood starts blue\n  scene x mood ends clear\n")
		var acts []string
		var story string
		switch tmpl {
		case 4: // the tail of the play holds nothing but mood changes, after the first second
			acts = []string{"c.f..........r....x"}
		case 5: // fouled (with -S) while a mood is in force: the play is cut short in the red period
			acts = []string{"c.r..............x"}
		case 0: // one act, no mood
			acts = []string{"c.f"}
		case 1: // two acts, one closed mood period
			acts = []string{"cr.", "fx."}
		case 2: // three acts, two moods, the last one open until the end
			acts = []string{"rc", "xf", "b.c"}
		default: // moods back to back
			acts = []string{"r.c", "b.f", "x.."}
		}
		if nAct > 1 {
			acts[0] = strings.Replace(acts[0], ".", "d", 1)
		}
		story = strings.Join(acts, " ")
		sb.WriteString("  storyline " + story + "\n")
		exp.NumActs = len(acts)
		repeatFrom := 0
		if i%3 != 0 && len(acts) > 1 {
			repeatFrom = len(acts) // the last act is repeated
			fmt.Fprintf(&sb, "  repeat from ^%s$\n  repeat %d times\n", regexp.QuoteMeta(acts[repeatFrom-1]), 2+i%2)
			// find the first act matching
			for k, a := range acts {
				if a == acts[repeatFrom-1] {
					repeatFrom = k + 1
					break
				}
			}
		}
		sb.WriteString("end\n")
		c.NumActs = len(acts)
		c.RepeatAct = repeatFrom
		exp.RepeatAct = repeatFrom
		exp.WantsRepeat = repeatFrom > 0
		c.Text = sb.String()
		sp := e2eSpec{name: fmt.Sprintf("play%02d", i), cfg: c, exp: exp}
		if tmpl == 5 {
			sp.flags = []string{"-S"}
			sp.foul = true
		}
		specs = append(specs, sp)
	}
	return specs
}

// expectedBands replays the mood scenes of the act sequence.
func expectedBands(acts []string, seq []int) []string {
	cur := "clear"
	var bands []string
	for _, n := range seq {
		for _, ch := range acts[n-1] {
			m := ""
			switch ch {
			case 'r':
				m = "red"
			case 'b':
				m = "blue"
			case 'x':
				m = "clear"
			}
			if m == "" || m == cur {
				continue
			}
			if cur != "clear" {
				bands = append(bands, cur)
			}
			cur = m
		}
	}
	if cur != "clear" {
		bands = append(bands, cur)
	}
	return bands
}

var storyRe = regexp.MustCompile(`(?m)^  storyline (.*)$`)

func runE2E(rng *rand.Rand, bin string, n int) []*e2eCase {
	specs := e2eSpecs(rng, n)
	res := make([]*e2eCase, len(specs))
	var wg sync.WaitGroup
	sem := make(chan struct{}, 4)
	for i := range specs {
		wg.Add(1)
		go func(i int) {
			defer wg.Done()
			sem <- struct{}{}
			defer func() { <-sem }()
			res[i] = runOneE2E(bin, specs[i])
		}(i)
	}
	wg.Wait()
	return res
}

func runOneE2E(bin string, sp e2eSpec) *e2eCase {
	ec := &e2eCase{Name: sp.name, Cfg: sp.cfg.Text, Expect: sp.exp, Files: map[string]string{}}
	dir, err := ioutil.TempDir("", "shk-c19-e2e")
	if err != nil {
		ec.Err = err.Error()
		return ec
	}
	defer os.RemoveAll(dir)
	cfgFile := filepath.Join(dir, "play.cfg")
	if err := ioutil.WriteFile(cfgFile, []byte(sp.cfg.Text), 0644); err != nil {
		ec.Err = err.Error()
		return ec
	}
	outDir := filepath.Join(dir, "out")
	t0 := time.Now()
	args := append([]string{"-q", "-o", outDir}, sp.flags...)
	c := exec.Command(bin, append(args, "play.cfg")...)
	c.Dir = dir
	c.Env = append(os.Environ(), "GNUPLOT="+filepath.Join(dir, "no-gnuplot"), "SHELL=/bin/bash")
	done := make(chan struct{})
	var cout []byte
	var cerr error
	go func() { cout, cerr = c.CombinedOutput(); close(done) }()
	select {
	case <-done:
	case <-time.After(60 * time.Second):
		if c.Process != nil {
			c.Process.Kill()
		}
		<-done
		ec.Err = "timeout"
		return ec
	}
	ec.Elapsed = time.Since(t0).Seconds()
	if ee, ok := cerr.(*exec.ExitError); ok && sp.foul && ee.ExitCode() == 1 {
		cerr = nil // fouled, as intended: the results are still assembled and plotted
	} else if cerr == nil && sp.foul {
		cerr = fmt.Errorf("the play was meant to be fouled")
	}
	if cerr != nil {
		ec.Err = fmt.Sprintf("%v: %s", cerr, cout)
		return ec
	}
	run := filepath.Join(outDir, "latest")
	for _, f := range []string{"plot.gp", "lastplot.gp", "runme.gp"} {
		if b, err := ioutil.ReadFile(filepath.Join(run, "plots", f)); err == nil {
			ec.Files[f] = string(b)
		}
	}
	csvs, _ := ioutil.ReadDir(filepath.Join(run, "csv"))
	has := map[string]bool{}
	for _, f := range csvs {
		if f.Size() > 0 {
			has[f.Name()] = true
			ec.CSV = append(ec.CSV, f.Name())
		}
	}
	rj, err := ioutil.ReadFile(filepath.Join(run, "result.js"))
	if err != nil {
		ec.Err = "no result.js: " + err.Error()
		return ec
	}
	if err := json.Unmarshal([]byte(strings.TrimPrefix(string(rj), "var result = ")), &ec.Result); err != nil {
		ec.Err = "result.js: " + err.Error()
		return ec
	}
	delete(ec.Result, "ConfigHTML")
	delete(ec.Result, "StepsHTML")
	delete(ec.Result, "Artifacts")
	mn := fToUs(ec.Result["MinTime"].(float64))
	mx := fToUs(ec.Result["MaxTime"].(float64))
	rep := "None"
	numRepeats := 0
	if r, ok := ec.Result["Repeat"].(map[string]interface{}); ok && r != nil {
		rep = "(Some " + vh.Z(fToUs(r["StartTime"].(float64))) + ")"
		numRepeats = int(r["NumRepeats"].(float64))
	}
	ec.Missing = missingCSV(ec.Files, ec.CSV)
	// reconstruct the collected state from the csv files
	cg := sp.cfg
	actorHas, varHas, auditHas, obsHas := map[string]bool{}, map[string]bool{}, map[string]bool{}, map[string]bool{}
	for _, a := range cg.Actors {
		actorHas[a.Name] = has[a.Name+".csv"]
	}
	for _, m := range cg.Members {
		any := false
		for _, v := range m.Vars {
			if has[m.Name+"."+v.Actor+"."+v.Sig+".csv"] {
				varHas[m.Name+"|"+v.Actor+"|"+v.Sig] = true
				any = true
			}
		}
		if has["audit-"+m.Name+".csv"] {
			auditHas[m.Name] = true
			any = true
		}
		obsHas[m.Name] = any
	}
	// the act sequence the prompter ran (the play is left to complete)
	acts := strings.Fields(storyRe.FindStringSubmatch(cg.Text)[1])
	var seq []int
	for i := 1; i <= len(acts); i++ {
		seq = append(seq, i)
	}
	for k := 0; k < numRepeats; k++ {
		for i := sp.exp.RepeatAct; i <= len(acts) && sp.exp.RepeatAct > 0; i++ {
			seq = append(seq, i)
		}
	}
	bands := expectedBands(acts, seq)
	if sp.foul {
		bands = []string{"red"}
	}
	ec.Expect.Bands = bands
	var bs []string
	for _, b := range bands {
		bs = append(bs, vh.Str(b))
	}
	last := "None"
	if t, ok := ec.Files["lastplot.gp"]; ok {
		last = "(Some " + coqDirs(parseGp(t)) + ")"
	}
	ec.Coq = fmt.Sprintf("Build_e2e_case\n   %s\n   %s %s %s %s %s %d\n   %s\n   %s\n   %s",
		coqCollected(cg, actorHas, varHas, auditHas, obsHas, nil, nil, mx), vh.Z(mn), vh.Z(mx), rep, vh.Bool(sp.exp.WantsRepeat),
		vh.List(bs), len(seq)-1, coqDirs(parseGp(ec.Files["plot.gp"])), last, vh.List(parseRun(ec.Files["runme.gp"], 160, "ansi256")))
	return ec
}
