// Harness for C12.  Four kinds of cases, all on the real code:
//   - filepath.Clean / Join / Abs on generated strings (the library functions
//     Model/Dirs.v re-implements);
//   - the real prepareDirs (cmd.VerifScriptsFull with an empty cast) run from a
//     real current directory for output directories of every form: the text of
//     the `latest` link and where the kernel resolves it;
//   - the real expandTimeRange / assemble (cmd.VerifAssembleRange);
//   - end-to-end plays through the real CLI (-bin) over the flag matrix
//     {-k, --clear, --disable-plots, -q} x {fouled, clean} x {".", relative,
//     nested relative, absolute} x {repeat, none}: a 3-way covering array in
//     the quick tier, all 256 in the thorough tier, plus a few --upload-url
//     plays with a fake scp.  After each play the tree, the link, result.js,
//     the csv files and the plot scripts are inspected.
package main

import (
	"encoding/json"
	"flag"
	"fmt"
	"io/ioutil"
	"math"
	"math/rand"
	"os"
	"os/exec"
	"path/filepath"
	"regexp"
	"sort"
	"strconv"
	"strings"
	"sync"
	"syscall"
	"time"

	"github.com/knz/shakespeare/pkg/cmd"
	"github.com/knz/shakespeare/verifharness/vh"
)

func must(err error) {
	if err != nil {
		panic(err)
	}
}

// ------------------------------------------------------------------ paths

var pieces = []string{"a", "b", "..", ".", "", "c d", "x.y", "out", "..."}

func genPath(rng *rand.Rand, allowAbs bool) string {
	n := rng.Intn(6)
	var ps []string
	for i := 0; i < n; i++ {
		ps = append(ps, pieces[rng.Intn(len(pieces))])
	}
	s := strings.Join(ps, "/")
	if allowAbs && rng.Intn(3) == 0 {
		s = "/" + s
	}
	if rng.Intn(5) == 0 {
		s += "/"
	}
	return s
}

type cleanCase struct{ S, O string }
type joinCase struct{ A, B, O string }
type absCase struct{ Cwd, P, O string }

// ------------------------------------------------------------------ link

type linkCase struct {
	Cwd, DataDir, Sub, RunDir string
	Text                      string
	Resolves                  bool
	Resolved                  string
	Err                       string
}

const emptyCast = "# nothing\n"

var dirForms = []string{"ABS", ".", "out", "a/b/out", "./out", "out/", "a/../out", "../w2/out", "a//b", "res ults", "./", "x/./y", "ABS/deep/er"}

func doLink(root string, n int, form, sub string) linkCase {
	base := filepath.Join(root, "l"+strconv.Itoa(n))
	cwd := filepath.Join(base, "w")
	must(os.MkdirAll(cwd, 0755))
	dataDir := form
	if strings.HasPrefix(form, "ABS") {
		dataDir = filepath.Join(base, "abs out") + strings.TrimPrefix(form, "ABS")
	}
	c := linkCase{Cwd: cwd, DataDir: dataDir, Sub: sub}
	if filepath.IsAbs(dataDir) {
		c.RunDir = filepath.Join(dataDir, sub)
	} else {
		c.RunDir = filepath.Join(cwd, dataDir, sub)
	}
	must(os.Chdir(cwd))
	res := cmd.VerifScriptsFull(emptyCast, dataDir, sub)
	must(os.Chdir(root))
	if res.ParseErr != "" || res.Err != "" || res.Panic != "" {
		c.Err = res.ParseErr + res.Err + res.Panic
		return c
	}
	var alias string
	if filepath.IsAbs(dataDir) {
		alias = filepath.Join(dataDir, "latest")
	} else {
		alias = filepath.Join(cwd, dataDir, "latest")
	}
	t, err := os.Readlink(alias)
	if err != nil {
		c.Err = "readlink: " + err.Error()
		return c
	}
	c.Text = t
	if r, err := filepath.EvalSymlinks(alias); err == nil {
		if st, err := os.Stat(r); err == nil && st.IsDir() {
			c.Resolves, c.Resolved = true, r
		}
	}
	os.RemoveAll(base)
	return c
}

// ------------------------------------------------------------------ range

type rangeCase struct {
	Ts       []int64 // 1/1024 s
	Min, Max int64
}

func doRange(ts []int64) rangeCase {
	fs := make([]float64, len(ts))
	for i, t := range ts {
		fs[i] = float64(t) / 1024
	}
	lo, hi := cmd.VerifAssembleRange(fs)
	l, h := lo*1024, hi*1024
	if l != math.Trunc(l) || h != math.Trunc(h) {
		panic(fmt.Sprintf("range not exact: %v %v", lo, hi))
	}
	return rangeCase{ts, int64(l), int64(h)}
}

// ------------------------------------------------------------------ artifact trees

type tnode struct {
	Name     string
	Kind     string // "reg" | "sym" | "fifo" | "dir"
	Target   string // sym: what it points to ("dangling", "dir-inside", "file-inside", "file-outside", "dir-outside", "fifo-outside", "loop")
	Children []*tnode
}

type treeCase struct {
	Tree     []*tnode
	HasOther bool
	Listed   []string
	Survived []string
}

var fileNames = []string{"a.txt", "b~", "#c#", "#d~", "e#", "#", "~", "f.log", "#g", "h~x", "i.sh", "j#~", "k"}
var dirNames = []string{"sub", "d~", "#g#", "deep", "artifacts", "x.d"}

func genTree(rng *rand.Rand, depth int, fifoOK bool) []*tnode {
	n := rng.Intn(5)
	if depth == 0 && n == 0 {
		n = 2
	}
	used := map[string]bool{}
	var out []*tnode
	for i := 0; i < n; i++ {
		if depth < 3 && rng.Intn(3) == 0 {
			nm := dirNames[rng.Intn(len(dirNames))]
			if used[nm] {
				continue
			}
			used[nm] = true
			out = append(out, &tnode{Name: nm, Kind: "dir", Children: genTree(rng, depth+1, fifoOK)})
			continue
		}
		nm := fileNames[rng.Intn(len(fileNames))]
		if used[nm] {
			continue
		}
		used[nm] = true
		k := "reg"
		switch r := rng.Intn(10); {
		case r < 3:
			k = "sym"
		case r == 3 && fifoOK:
			k = "fifo"
		case r == 4 && fifoOK:
			k = "sock"
		}
		nd := &tnode{Name: nm, Kind: k}
		if k == "sym" {
			nd.Target = symTargets[rng.Intn(len(symTargets))]
		}
		out = append(out, nd)
	}
	sort.Slice(out, func(i, j int) bool { return out[i].Name < out[j].Name })
	return out
}

var symTargets = []string{"dangling", "dir-inside", "file-inside", "file-outside", "dir-outside", "fifo-outside", "loop", "dir-inside", "dir-outside"}

func hasFifo(ns []*tnode) bool {
	for _, n := range ns {
		if n.Kind == "fifo" || n.Kind == "sock" || hasFifo(n.Children) {
			return true
		}
	}
	return false
}

// makeTree creates the nodes in dir; fix is a directory outside the tree that
// holds a regular file, a directory and a fifo for links to point at.
func makeTree(dir, fix string, ns []*tnode) {
	for _, n := range ns {
		p := filepath.Join(dir, n.Name)
		switch n.Kind {
		case "dir":
			must(os.Mkdir(p, 0755))
			makeTree(p, fix, n.Children)
		case "reg":
			must(ioutil.WriteFile(p, []byte("x"), 0644))
		case "sym":
			t := "nowhere-or-somewhere"
			switch n.Target {
			case "dir-inside":
				t = "." // the directory that contains the link
			case "file-inside":
				for _, o := range ns {
					if o.Kind == "reg" {
						t = o.Name
					}
				}
			case "file-outside":
				t = filepath.Join(fix, "file.txt")
			case "dir-outside":
				t = filepath.Join(fix, "dir")
			case "fifo-outside":
				t = filepath.Join(fix, "fifo")
			case "loop":
				t = n.Name
			}
			must(os.Symlink(t, p))
		case "fifo":
			must(syscall.Mkfifo(p, 0644))
		case "sock":
			// a UNIX socket left behind by a server; bound by its short name
			// from inside the directory (socket paths are limited to 108 bytes)
			wd, _ := os.Getwd()
			must(os.Chdir(dir))
			fd, err := syscall.Socket(syscall.AF_UNIX, syscall.SOCK_STREAM, 0)
			must(err)
			must(syscall.Bind(fd, &syscall.SockaddrUnix{Name: n.Name}))
			syscall.Close(fd)
			must(os.Chdir(wd))
		}
	}
}

func doTree(root string, n int, ns []*tnode) treeCase {
	dir := filepath.Join(root, "t"+strconv.Itoa(n))
	fix := dir + "-fix"
	must(os.MkdirAll(filepath.Join(fix, "dir"), 0755))
	must(ioutil.WriteFile(filepath.Join(fix, "file.txt"), []byte("x"), 0644))
	must(syscall.Mkfifo(filepath.Join(fix, "fifo"), 0644))
	must(os.Mkdir(dir, 0755))
	makeTree(dir, fix, ns)
	l, s := cmd.VerifArtifacts(dir)
	os.RemoveAll(dir)
	os.RemoveAll(fix)
	return treeCase{ns, hasFifo(ns), l, s}
}

func coqNodes(ns []*tnode) string {
	var it []string
	for _, n := range ns {
		switch n.Kind {
		case "dir":
			it = append(it, "NDir "+vh.Str(n.Name)+" "+coqNodes(n.Children))
		case "reg":
			it = append(it, "NFile "+vh.Str(n.Name)+" KReg")
		case "sym":
			it = append(it, "NFile "+vh.Str(n.Name)+" KSym")
		default:
			it = append(it, "NFile "+vh.Str(n.Name)+" KOther")
		}
	}
	return vh.List(it)
}

func coqPaths(ps []string) string {
	var it []string
	for _, p := range ps {
		var cs []string
		for _, c := range strings.Split(p, "/") {
			cs = append(cs, vh.Str(c))
		}
		it = append(it, vh.List(cs))
	}
	return vh.List(it)
}

// ------------------------------------------------------------------ plays

type play struct {
	// the point of the matrix
	Keep, Clear, NoPlot, Quiet, Upload bool
	BlankDir                          bool // upload play whose output directory contains a blank
	Fouled                            bool
	FoulKind                          string // "audit" | "action" (in the last, repeated act) | "early" (a failing action in act 1) | "signal"
	// Signal: the play is cut short by this signal ("INT", "TERM", "HUP")
	// sent to the shakespeare process while an action runs.
	Signal string
	// Gnuplot: what $GNUPLOT points at: "none" (nothing there), "ok" (a
	// program that exits 0), "fail" (one that exits 1).
	Gnuplot string
	// Prior: an earlier run into the same output directory, one second
	// before: "" none, "cleared" (clean play with --clear: its run directory
	// is gone, `latest` dangles), "deleted" (the user removed its run
	// directory), "kept" (still there).
	Prior       string
	AliasBefore string // text of <output-dir>/latest when the run proper starts
	Repeat                            bool
	DirKind                           int // 0 ".", 1 relative, 2 nested relative, 3 absolute
	OwnPlots                          bool // the actor itself creates <run dir>/plots (to publish a picture there)
	MaxT                              string
	PastSecs                          int
	// the run
	Cfg, Cwd, DataDir, AbsOut string
	Args                      []string
	RunID                     string
	Exit                      int
	Output                    string
	// observed
	ExitNonzero         bool
	Stray               []string
	RundirExists        bool
	ArtifactsExist      bool
	LatestText          string
	LatestResolves      bool
	ResultOK            bool
	ResultErr           string
	FoulFlag            bool
	MinNs, MaxNs        int64
	TimesNs             []int64
	RepeatSection       bool
	ArtifactsNamedExist bool
	MissingArtifacts    []string
	PlotFilesExist      bool
	MissingPlotFiles    []string
	PlotsDir            bool
	SurvivorsNamed      bool
	UnnamedSurvivors    []string
	Tree                []string
}

func (p *play) config() string {
	var sb strings.Builder
	ownPlots := ""
	if p.OwnPlots {
		ownPlots = "; mkdir -p ../../plots; echo pic >../../plots/picture.txt"
	}
	sb.WriteString("role person\n  :run echo hello\n  :mk echo data >file.txt; cp file.txt copy.txt; cp -b file.txt copy.txt; echo b >'notes~'; echo e >'#edit#'; echo h >'#half~'; mkdir -p 'old~'; echo k >'old~/kept.txt'; test -e pipe1 || mkfifo pipe1; mkdir -p data.v1; ln -sfn data.v1 current; ln -sfn file.txt cur.txt; ln -sfn nowhere dangling; ln -sfn pipe1 plink; ln -sfn /etc outside; ln -sfn selfloop selfloop" + ownPlots + "; echo n >\"$HOME/notes.txt\"; mkdir -p ../shared; echo s >../shared/s.txt; for n in $(seq 250); do test -e spot.done && break; sleep 0.02; done; sleep 0.2\n")
	if p.Fouled && (p.FoulKind == "action" || p.FoulKind == "early") {
		sb.WriteString("  :bad echo failing >&2; false\n")
	}
	if p.Signal != "" {
		sb.WriteString("  :hang touch started.marker; sleep 30\n")
	}
	sb.WriteString("  spotlight echo \"" + p.MaxT + " val 7\"; ")
	if p.PastSecs > 0 {
		sb.WriteString("echo \"$(date -u -d '-" + strconv.Itoa(p.PastSecs) + " seconds' +%Y-%m-%dT%H:%M:%S.%3NZ) old 1\"; ")
	}
	// the last action waits for this marker (and a little longer), so that
	// the lines above have reached the signal filters before the play ends,
	// however loaded the machine is; the play kills the spotlight at the end
	sb.WriteString("touch spot.done; sleep 30\n")
	sb.WriteString("  signal v scalar at (?P<ts_deltasecs>) val (?P<scalar>\\d+)\n")
	sb.WriteString("  signal o scalar at (?P<ts_rfc3339>) old (?P<scalar>\\d+)\n")
	sb.WriteString("end\ncast\n  alice plays person\nend\nscript\n  tempo 30ms\n")
	if p.Fouled && p.FoulKind == "early" {
		sb.WriteString("  scene a entails for alice: run; bad\n")
	} else {
		sb.WriteString("  scene a entails for alice: run\n")
	}
	if p.Fouled && p.FoulKind == "action" {
		sb.WriteString("  scene b entails for alice: mk; bad\n")
	} else if p.Signal != "" {
		sb.WriteString("  scene b entails for alice: mk; hang\n")
	} else {
		sb.WriteString("  scene b entails for alice: mk\n")
	}
	sb.WriteString("  storyline a b\n")
	if p.Repeat {
		sb.WriteString("  repeat from b\n  repeat 2 times\n")
	}
	// a variable computed by the audience and watched: its csv file has no actor part (bob..dbl.csv)
	sb.WriteString("end\naudience\n  bob watches alice v\n  bob watches alice o\n  bob computes dbl as [alice v] * 2\n  bob watches dbl\n")
	if p.Fouled && p.FoulKind == "audit" {
		sb.WriteString("  bob expects always: [alice v] < 0\n")
	} else {
		sb.WriteString("  bob expects always: [alice v] > 0\n")
	}
	sb.WriteString("end\n")
	return sb.String()
}

func listTree(root string) map[string]bool {
	out := map[string]bool{}
	filepath.Walk(root, func(path string, info os.FileInfo, err error) error {
		if err != nil {
			return nil
		}
		out[path] = true
		return nil
	})
	return out
}

var runIDRe = regexp.MustCompile(`^\d{14}$`)
var gpDataRe = regexp.MustCompile(`'([^']+)'\s+using`)
var gpLoadRe = regexp.MustCompile(`load\s+'([^']+)'`)

func parseNs(s string) (int64, bool) {
	neg := false
	if strings.HasPrefix(s, "-") {
		neg, s = true, s[1:]
	}
	ip, fp := s, ""
	if i := strings.IndexByte(s, '.'); i >= 0 {
		ip, fp = s[:i], s[i+1:]
	}
	if len(fp) > 9 {
		return 0, false
	}
	for len(fp) < 9 {
		fp += "0"
	}
	a, err1 := strconv.ParseInt(ip, 10, 64)
	b, err2 := strconv.ParseInt(fp, 10, 64)
	if err1 != nil || err2 != nil {
		return 0, false
	}
	v := a*1000000000 + b
	if neg {
		v = -v
	}
	return v, true
}

type artifact struct {
	Text     string     `json:"text"`
	Path     string
	IsDir    bool
	Children []artifact `json:"children"`
}

func (p *play) run(bin, root string) {
	cwd := filepath.Join(root, "cwd")
	home := filepath.Join(root, "home")
	tmp := filepath.Join(root, "tmp")
	fake := filepath.Join(root, "fakebin")
	for _, d := range []string{cwd, home, tmp, fake} {
		must(os.MkdirAll(d, 0755))
	}
	must(ioutil.WriteFile(filepath.Join(fake, "scp"), []byte("#!/bin/sh\necho fake scp \"$@\"\nexit 0\n"), 0755))
	// a stand-in for gnuplot as far as its working directory goes: the
	// script is opened, `set output` targets are created and `load`ed scripts
	// are looked up relative to the current directory
	must(ioutil.WriteFile(filepath.Join(fake, "gnuplot-ok"), []byte(`#!/bin/sh
f="$1"
[ -f "$f" ] || { echo "cannot open $f" >&2; exit 1; }
while IFS= read -r line; do
  case "$line" in
    "set output '"*) o=${line#set output \'}; o=${o%\'}; : > "$o" || exit 1 ;;
    "load '"*) l=${line#load \'}; l=${l%\'}; [ -f "$l" ] || { echo "cannot load $l" >&2; exit 1; } ;;
  esac
done < "$f"
exit 0
`), 0755))
	must(ioutil.WriteFile(filepath.Join(fake, "gnuplot-fail"), []byte("#!/bin/sh\necho cannot plot \"$@\" >&2\nexit 1\n"), 0755))
	p.Cwd = cwd
	p.Cfg = p.config()
	must(ioutil.WriteFile(filepath.Join(cwd, "play.cfg"), []byte(p.Cfg), 0644))
	switch p.DirKind {
	case 0:
		p.DataDir = "."
	case 1:
		p.DataDir = "out"
	case 2:
		p.DataDir = "a/b/out"
	default:
		p.DataDir = filepath.Join(root, "abs out")
		if p.Upload && !p.BlankDir {
			// the upload command line is not quoted (a finding of its own,
			// probed by one dedicated play): keep it out of the other plays
			p.DataDir = filepath.Join(root, "absout")
		}
	}
	if filepath.IsAbs(p.DataDir) {
		p.AbsOut = p.DataDir
	} else {
		p.AbsOut = filepath.Join(cwd, p.DataDir)
	}
	args := []string{"-o", p.DataDir}
	if p.Keep {
		args = append(args, "-k")
	}
	if p.Clear {
		args = append(args, "--clear")
	}
	if p.NoPlot {
		args = append(args, "--disable-plots")
	}
	if p.Quiet {
		args = append(args, "-q")
	}
	if p.Upload {
		args = append(args, "--upload-url", "scp://somehost/some/dir")
	}
	args = append(args, "play.cfg")
	p.Args = args
	env := []string{"PATH=" + fake + ":/usr/bin:/bin", "HOME=" + home, "TMPDIR=" + tmp, "SHELL=/bin/bash", "LANG=C"}
	switch p.Gnuplot {
	case "ok", "fail":
		env = append(env, "GNUPLOT="+filepath.Join(fake, "gnuplot-"+p.Gnuplot))
	default:
		env = append(env, "GNUPLOT="+filepath.Join(fake, "no-such-gnuplot"))
	}
	if p.Prior != "" {
		// an earlier, clean run into the same output directory
		q := *p
		q.Fouled = false
		must(ioutil.WriteFile(filepath.Join(cwd, "prior.cfg"), []byte(q.config()), 0644))
		pargs := []string{"-q", "--disable-plots", "-o", p.DataDir}
		if p.Prior == "cleared" {
			pargs = append(pargs, "--clear")
		}
		pargs = append(pargs, "prior.cfg")
		pc := exec.Command(bin, pargs...)
		pc.Dir = cwd
		pc.Env = env
		if ob, err := pc.CombinedOutput(); err != nil {
			panic(fmt.Sprintf("the prior run failed: %v\n%s", err, ob))
		}
		if p.Prior == "deleted" {
			ents, _ := ioutil.ReadDir(p.AbsOut)
			for _, e := range ents {
				if e.IsDir() && runIDRe.MatchString(e.Name()) {
					os.RemoveAll(filepath.Join(p.AbsOut, e.Name()))
				}
			}
		}
		// run ids are wall-clock seconds
		time.Sleep(1100 * time.Millisecond)
	}
	if t, err := os.Readlink(filepath.Join(p.AbsOut, "latest")); err == nil {
		p.AliasBefore = t
	}
	before := listTree(root)
	cm := exec.Command(bin, args...)
	cm.Dir = cwd
	cm.Env = env
	cm.SysProcAttr = &syscall.SysProcAttr{Setpgid: true}
	outf, err := os.Create(filepath.Join(root, "stdout.txt"))
	must(err)
	cm.Stdout, cm.Stderr = outf, outf
	must(cm.Start())
	done := make(chan error, 1)
	go func() { done <- cm.Wait() }()
	if p.Signal != "" {
		// wait until the action runs (it creates a marker), then signal
		deadline := time.Now().Add(20 * time.Second)
		for time.Now().Before(deadline) {
			if m, _ := filepath.Glob(filepath.Join(p.AbsOut, "*", "artifacts", "alice", "started.marker")); len(m) > 0 {
				break
			}
			time.Sleep(10 * time.Millisecond)
		}
		sig := map[string]syscall.Signal{"INT": syscall.SIGINT, "TERM": syscall.SIGTERM, "HUP": syscall.SIGHUP}[p.Signal]
		cm.Process.Signal(sig)
	}
	select {
	case err := <-done:
		if err != nil {
			if ee, ok := err.(*exec.ExitError); ok {
				p.Exit = ee.ExitCode()
			} else {
				p.Exit = -1
			}
		}
	case <-time.After(60 * time.Second):
		syscall.Kill(-cm.Process.Pid, syscall.SIGKILL)
		<-done
		p.Exit = -2
	}
	outf.Close()
	ob, _ := ioutil.ReadFile(filepath.Join(root, "stdout.txt"))
	p.Output = string(ob)
	if len(p.Output) > 3000 {
		p.Output = p.Output[:1500] + "\n...\n" + p.Output[len(p.Output)-1500:]
	}
	os.Remove(filepath.Join(root, "stdout.txt"))
	p.ExitNonzero = p.Exit != 0

	// the link and the run id
	alias := filepath.Join(p.AbsOut, "latest")
	if t, err := os.Readlink(alias); err == nil {
		p.LatestText = t
		p.RunID = filepath.Base(t)
	}
	ents, _ := ioutil.ReadDir(p.AbsOut)
	for _, e := range ents {
		if e.IsDir() && runIDRe.MatchString(e.Name()) {
			p.RunID = e.Name()
		}
	}
	runDir := filepath.Join(p.AbsOut, p.RunID)
	if st, err := os.Stat(runDir); err == nil && st.IsDir() && p.RunID != "" {
		p.RundirExists = true
	}
	if st, err := os.Stat(filepath.Join(runDir, "artifacts")); err == nil && st.IsDir() && p.RundirExists {
		p.ArtifactsExist = true
	}
	if r, err := filepath.EvalSymlinks(alias); err == nil && p.RundirExists {
		want, _ := filepath.EvalSymlinks(runDir)
		p.LatestResolves = r == want
	}
	// what appeared, and where
	after := listTree(root)
	allowed := func(path string) bool {
		if path == alias || path == runDir || strings.HasPrefix(path, runDir+"/") {
			return true
		}
		// the output directory and its parents
		return path == p.AbsOut || strings.HasPrefix(p.AbsOut+"/", path+"/")
	}
	for path := range after {
		if !before[path] && !allowed(path) {
			p.Stray = append(p.Stray, path)
		}
	}
	sort.Strings(p.Stray)
	if p.RundirExists {
		for path := range after {
			if strings.HasPrefix(path, runDir+"/") {
				p.Tree = append(p.Tree, strings.TrimPrefix(path, runDir+"/"))
			}
		}
		sort.Strings(p.Tree)
		p.inspect(runDir)
	}
}

func (p *play) inspect(runDir string) {
	// "the tool made its plots": plot scripts are there (an actor may have
	// created the directory itself)
	if m, _ := filepath.Glob(filepath.Join(runDir, "plots", "*.gp")); len(m) > 0 {
		p.PlotsDir = true
	}
	if st, err := os.Stat(filepath.Join(runDir, "plots")); err == nil && st.IsDir() && p.NoPlot && !p.OwnPlots {
		p.PlotsDir = true // --disable-plots and nobody else to create it: must not exist
	}
	b, err := ioutil.ReadFile(filepath.Join(runDir, "result.js"))
	if err != nil {
		p.ResultErr = err.Error()
		return
	}
	const prefix = "var result = "
	if !strings.HasPrefix(string(b), prefix) {
		p.ResultErr = "result.js does not start with `var result = `"
		return
	}
	var r struct {
		Foul             bool
		MinTime, MaxTime float64
		Repeat           *struct{ StartTime float64 }
		Artifacts        []artifact
	}
	dec := json.NewDecoder(strings.NewReader(string(b[len(prefix):])))
	if err := dec.Decode(&r); err != nil {
		p.ResultErr = "json: " + err.Error()
		return
	}
	if dec.More() {
		p.ResultErr = "trailing data after the JSON document"
		return
	}
	p.ResultOK = true
	p.FoulFlag = r.Foul
	p.MinNs = int64(math.Round(r.MinTime * 1e9))
	p.MaxNs = int64(math.Round(r.MaxTime * 1e9))
	p.RepeatSection = r.Repeat != nil
	p.ArtifactsNamedExist = true
	var walk func(as []artifact)
	walk = func(as []artifact) {
		for _, a := range as {
			if _, err := os.Lstat(filepath.Join(runDir, a.Path)); err != nil {
				p.ArtifactsNamedExist = false
				p.MissingArtifacts = append(p.MissingArtifacts, a.Path)
			}
			walk(a.Children)
		}
	}
	walk(r.Artifacts)
	named := map[string]bool{}
	var names func(as []artifact)
	names = func(as []artifact) {
		for _, a := range as {
			named[a.Path] = true
			names(a.Children)
		}
	}
	names(r.Artifacts)
	p.SurvivorsNamed = true
	filepath.Walk(runDir, func(path string, info os.FileInfo, err error) error {
		if err != nil || info.IsDir() {
			return nil
		}
		rel, _ := filepath.Rel(runDir, path)
		if rel == "index.html" || rel == "upload.log" {
			return nil // written after the tree is collected
		}
		base := filepath.Base(rel)
		if (strings.HasPrefix(base, "#") && strings.HasSuffix(base, "#")) || strings.HasSuffix(base, "~") ||
			(!info.Mode().IsRegular() && info.Mode()&os.ModeType != os.ModeSymlink) {
			// editor temporaries and fifos are never named; they are still
			// there when the play was interrupted (no upload step, so
			// removeNonUploadableFiles does not run)
			return nil
		}
		if !named[rel] {
			p.SurvivorsNamed = false
			p.UnnamedSurvivors = append(p.UnnamedSurvivors, rel)
		}
		return nil
	})
	csvs, _ := filepath.Glob(filepath.Join(runDir, "csv", "*.csv"))
	for _, f := range csvs {
		cb, _ := ioutil.ReadFile(f)
		for _, line := range strings.Split(string(cb), "\n") {
			if strings.TrimSpace(line) == "" {
				continue
			}
			tok := strings.Fields(line)[0]
			ns, ok := parseNs(tok)
			if !ok {
				p.ResultErr = "unreadable time " + tok + " in " + filepath.Base(f)
				p.ResultOK = false
				return
			}
			p.TimesNs = append(p.TimesNs, ns)
		}
	}
	p.PlotFilesExist = true
	if p.PlotsDir && p.RepeatSection {
		// a Repeat section comes with a zoomed plot that runme.gp loads
		rb, _ := ioutil.ReadFile(filepath.Join(runDir, "plots", "runme.gp"))
		if _, err := os.Stat(filepath.Join(runDir, "plots", "lastplot.gp")); err != nil || !strings.Contains(string(rb), "load 'lastplot.gp'") {
			p.PlotFilesExist = false
			p.MissingPlotFiles = append(p.MissingPlotFiles, "Repeat section without lastplot.gp / its load line")
		}
	}
	if !p.NoPlot {
		for _, w := range []string{"plot.gp", "runme.gp"} {
			if _, err := os.Stat(filepath.Join(runDir, "plots", w)); err != nil {
				p.PlotFilesExist = false
				p.MissingPlotFiles = append(p.MissingPlotFiles, "plots/"+w+" was not generated")
			}
		}
	}
	if p.PlotsDir && p.Gnuplot == "ok" {
		// a working gnuplot leaves its outputs in <run>/plots
		want := []string{"plot.pdf", "plot.svg", "plot.txt"}
		if p.RepeatSection {
			want = append(want, "lastplot.pdf", "lastplot.svg", "lastplot.txt")
		}
		for _, w := range want {
			if _, err := os.Stat(filepath.Join(runDir, "plots", w)); err != nil {
				p.PlotFilesExist = false
				p.MissingPlotFiles = append(p.MissingPlotFiles, "gnuplot ran but plots/"+w+" is not there")
			}
		}
	}
	gps, _ := filepath.Glob(filepath.Join(runDir, "plots", "*.gp"))
	for _, f := range gps {
		gb, _ := ioutil.ReadFile(f)
		seen := map[string]bool{}
		for _, re := range []*regexp.Regexp{gpDataRe, gpLoadRe} {
			for _, m := range re.FindAllStringSubmatch(string(gb), -1) {
				if seen[m[1]] {
					continue
				}
				seen[m[1]] = true
				if _, err := os.Stat(filepath.Join(runDir, "plots", m[1])); err != nil {
					p.PlotFilesExist = false
					p.MissingPlotFiles = append(p.MissingPlotFiles, filepath.Base(f)+": "+m[1])
				}
			}
		}
	}
}

// ------------------------------------------------------------------ two plays, one output directory

type duo struct {
	SameSecond bool // B is started within the second in which A started; else A (long, clean, --clear) overlaps a later, shorter B
	DirKind    int
	SetupOK    bool
	Attempts   int
	ExitA      int
	ExitB      int
	NRuns      int
	AOwn       bool
	LatestToB  bool
	AGone      bool
	Note       string
	OutA, OutB string
}

func duoCfg(actor, body string) string {
	return "role r\n  :work " + body + "\nend\ncast\n  " + actor + " plays r\nend\nscript\n  tempo 30ms\n" +
		"  scene a entails for " + actor + ": work\n  storyline a\nend\n"
}

func startPlay(bin, cwd string, env, args []string, out *string) (*exec.Cmd, chan int) {
	cm := exec.Command(bin, args...)
	cm.Dir = cwd
	cm.Env = env
	var buf strings.Builder
	cm.Stdout, cm.Stderr = &buf, &buf
	must(cm.Start())
	done := make(chan int, 1)
	go func() {
		err := cm.Wait()
		*out = buf.String()
		if len(*out) > 1200 {
			*out = (*out)[:1200]
		}
		code := 0
		if err != nil {
			code = 1
			if ee, ok := err.(*exec.ExitError); ok {
				code = ee.ExitCode()
			}
		}
		done <- code
	}()
	return cm, done
}

func runDirsOf(absOut string) []string {
	var out []string
	ents, _ := ioutil.ReadDir(absOut)
	for _, e := range ents {
		if e.IsDir() && runIDRe.MatchString(e.Name()) {
			out = append(out, filepath.Join(absOut, e.Name()))
		}
	}
	return out
}

func exists(p string) bool { _, err := os.Lstat(p); return err == nil }

func (d *duo) run(bin, base string) {
	for d.Attempts = 1; d.Attempts <= 6 && !d.SetupOK; d.Attempts++ {
		root := filepath.Join(base, "try"+strconv.Itoa(d.Attempts))
		cwd := filepath.Join(root, "cwd")
		for _, x := range []string{cwd, filepath.Join(root, "home"), filepath.Join(root, "tmp")} {
			must(os.MkdirAll(x, 0755))
		}
		env := []string{"PATH=/usr/bin:/bin", "HOME=" + filepath.Join(root, "home"), "TMPDIR=" + filepath.Join(root, "tmp"), "SHELL=/bin/bash", "LANG=C"}
		dataDir := []string{".", "out", "a/b/out", filepath.Join(root, "abs out")}[d.DirKind]
		absOut := dataDir
		if !filepath.IsAbs(dataDir) {
			absOut = filepath.Join(cwd, dataDir)
		}
		if d.SameSecond {
			must(ioutil.WriteFile(filepath.Join(cwd, "a.cfg"), []byte(duoCfg("alice", "echo evidence >evidence.txt; sleep 0.5; false")), 0644))
			must(ioutil.WriteFile(filepath.Join(cwd, "b.cfg"), []byte(duoCfg("bob", "echo b >b.txt; sleep 1.2")), 0644))
			for time.Now().Nanosecond() > 80000000 {
				time.Sleep(5 * time.Millisecond)
			}
			_, da := startPlay(bin, cwd, env, []string{"-q", "--disable-plots", "-o", dataDir, "a.cfg"}, &d.OutA)
			time.Sleep(150 * time.Millisecond)
			_, db := startPlay(bin, cwd, env, []string{"-q", "--disable-plots", "-o", dataDir, "b.cfg"}, &d.OutB)
			d.ExitA, d.ExitB = <-da, <-db
			runs := runDirsOf(absOut)
			d.NRuns = len(runs)
			if len(runs) != 1 {
				d.Note = "the two plays did not start within the same second"
				os.RemoveAll(root)
				continue
			}
			r := runs[0]
			if !exists(filepath.Join(r, "csv", "alice.csv")) && !exists(filepath.Join(r, "artifacts", "alice")) && d.ExitB == 0 {
				d.Note = "the first play lost the race for the run directory"
				os.RemoveAll(root)
				continue
			}
			d.SetupOK = true
			d.Note = ""
			b, _ := ioutil.ReadFile(filepath.Join(r, "result.js"))
			foul := strings.Contains(string(b), "\"Foul\": true")
			d.AOwn = exists(filepath.Join(r, "artifacts", "alice", "evidence.txt")) && foul &&
				!exists(filepath.Join(r, "artifacts", "bob")) && !exists(filepath.Join(r, "csv", "bob.csv"))
			if !d.AOwn {
				d.Note = fmt.Sprintf("in %s: alice's evidence.txt there: %v, result.js Foul true: %v, artifacts/bob there: %v, csv/bob.csv there: %v",
					filepath.Base(r), exists(filepath.Join(r, "artifacts", "alice", "evidence.txt")), foul,
					exists(filepath.Join(r, "artifacts", "bob")), exists(filepath.Join(r, "csv", "bob.csv")))
			}
		} else {
			must(ioutil.WriteFile(filepath.Join(cwd, "a.cfg"), []byte(duoCfg("alice", "echo a >a.txt; sleep 2.6")), 0644))
			must(ioutil.WriteFile(filepath.Join(cwd, "b.cfg"), []byte(duoCfg("bob", "echo b >b.txt; sleep 0.1")), 0644))
			_, da := startPlay(bin, cwd, env, []string{"-q", "--disable-plots", "--clear", "-o", dataDir, "a.cfg"}, &d.OutA)
			time.Sleep(1300 * time.Millisecond)
			var bEnd, aEnd time.Time
			_, db := startPlay(bin, cwd, env, []string{"-q", "--disable-plots", "-o", dataDir, "b.cfg"}, &d.OutB)
			d.ExitB = <-db
			bEnd = time.Now()
			nDuring := len(runDirsOf(absOut))
			d.ExitA = <-da
			aEnd = time.Now()
			runs := runDirsOf(absOut)
			d.NRuns = len(runs)
			if nDuring != 2 || !aEnd.After(bEnd) {
				d.Note = "the plays did not overlap as planned"
				os.RemoveAll(root)
				continue
			}
			d.SetupOK = true
			d.Note = ""
			var bDir string
			for _, r := range runs {
				if exists(filepath.Join(r, "csv", "bob.csv")) {
					bDir = r
				}
			}
			d.AGone = len(runs) == 1 && bDir != ""
			if bDir != "" {
				if t, err := filepath.EvalSymlinks(filepath.Join(absOut, "latest")); err == nil {
					want, _ := filepath.EvalSymlinks(bDir)
					d.LatestToB = t == want
				}
			}
			if !d.LatestToB {
				t, err := os.Readlink(filepath.Join(absOut, "latest"))
				d.Note = fmt.Sprintf("latest -> %q (%v); the later run's directory: %s", t, err, filepath.Base(bDir))
			}
		}
		os.RemoveAll(root)
	}
	if d.Attempts > 6 {
		d.Attempts = 6
	}
}

// covering returns rows (over the factor sizes) covering every t-way
// combination of values, greedily, choosing among random candidates.
func covering(rng *rand.Rand, sizes []int, t int) [][]int {
	var all [][]int
	var rec func(row []int)
	rec = func(row []int) {
		if len(row) == len(sizes) {
			all = append(all, append([]int(nil), row...))
			return
		}
		for v := 0; v < sizes[len(row)]; v++ {
			rec(append(row, v))
		}
	}
	rec(nil)
	// all t-subsets of factors
	var subsets [][]int
	var sub func(start int, cur []int)
	sub = func(start int, cur []int) {
		if len(cur) == t {
			subsets = append(subsets, append([]int(nil), cur...))
			return
		}
		for i := start; i < len(sizes); i++ {
			sub(i+1, append(cur, i))
		}
	}
	sub(0, nil)
	key := func(row []int, s []int) string {
		var sb strings.Builder
		for _, f := range s {
			fmt.Fprintf(&sb, "%d=%d,", f, row[f])
		}
		return sb.String()
	}
	uncovered := map[string]bool{}
	for _, row := range all {
		for _, s := range subsets {
			uncovered[key(row, s)] = true
		}
	}
	var out [][]int
	for len(uncovered) > 0 {
		best, bestN := -1, -1
		perm := rng.Perm(len(all))
		if len(perm) > 64 {
			perm = perm[:64]
		}
		for _, i := range perm {
			n := 0
			for _, s := range subsets {
				if uncovered[key(all[i], s)] {
					n++
				}
			}
			if n > bestN {
				best, bestN = i, n
			}
		}
		if bestN == 0 {
			// the sample missed: take any row that covers something
			for i, row := range all {
				for _, s := range subsets {
					if uncovered[key(row, s)] {
						best = i
					}
				}
			}
		}
		for _, s := range subsets {
			delete(uncovered, key(all[best], s))
		}
		out = append(out, all[best])
	}
	return out
}

func b(v int) bool { return v == 1 }

// ------------------------------------------------------------------ main

func zlist(l []int64) string {
	var it []string
	for _, x := range l {
		it = append(it, vh.Z(x))
	}
	return vh.List(it)
}

func main() {
	seed := flag.Int64("seed", 1, "")
	tier := flag.String("tier", "quick", "")
	out := flag.String("out", ".", "")
	bin := flag.String("bin", "", "the shakespeare binary")
	flag.Parse()
	rng := vh.Rng(*seed)
	os.Setenv("SHELL", "/bin/bash")
	absOut, _ := filepath.Abs(*out)
	work := filepath.Join(absOut, "w")
	must(os.MkdirAll(work, 0755))
	defer os.RemoveAll(work)
	closeScope := cmd.VerifLogScope()
	defer closeScope()
	thorough := *tier == "thorough"

	// ---- paths
	nPath := 400
	if thorough {
		nPath = 6000
	}
	var cleans []cleanCase
	var joins []joinCase
	var abss []absCase
	for _, s := range []string{"", ".", "/", "..", "/..", "a/..", "../a", "a/./b/../../..", "//a//", "/a/../../b"} {
		cleans = append(cleans, cleanCase{s, filepath.Clean(s)})
	}
	for i := 0; i < nPath; i++ {
		s := genPath(rng, true)
		cleans = append(cleans, cleanCase{s, filepath.Clean(s)})
		a := genPath(rng, true)
		if a == "" {
			a = "."
		}
		bb := genPath(rng, i%7 == 0)
		joins = append(joins, joinCase{a, bb, filepath.Join(a, bb)})
	}
	absBase := filepath.Join(work, "abs", "c w")
	must(os.MkdirAll(absBase, 0755))
	must(os.Chdir(absBase))
	for i := 0; i < nPath/2; i++ {
		p := genPath(rng, true)
		o, err := filepath.Abs(p)
		must(err)
		abss = append(abss, absCase{absBase, p, o})
	}
	must(os.Chdir(absOut))

	// ---- links
	var links []linkCase
	nl := 0
	rounds := 2
	if thorough {
		rounds = 12
	}
	for r := 0; r < rounds; r++ {
		for _, f := range dirForms {
			sub := "2026" + strconv.Itoa(1000000000+rng.Intn(899999999))
			if r > 0 && rng.Intn(6) == 0 {
				sub = []string{"", ".", "results"}[rng.Intn(3)]
			}
			links = append(links, doLink(work, nl, f, sub))
			nl++
		}
	}

	// ---- ranges
	var ranges []rangeCase
	for _, ts := range [][]int64{{}, {0}, {5}, {-5}, {3000}, {-3000, -1000}, {100, 200, 5000}, {-1, 1}, {1024}, {1023}, {-1024, 0}} {
		ranges = append(ranges, doRange(ts))
	}
	// ---- artifact trees
	var trees []treeCase
	nTrees := 150
	if thorough {
		nTrees = 2000
	}
	for i := 0; i < nTrees; i++ {
		trees = append(trees, doTree(work, i, genTree(rng, 0, i%3 == 0)))
	}

	nr := 300
	if thorough {
		nr = 5000
	}
	for i := 0; i < nr; i++ {
		n := rng.Intn(9)
		var ts []int64
		for j := 0; j < n; j++ {
			switch i % 4 {
			case 0:
				ts = append(ts, int64(rng.Intn(17000)-5000))
			case 1:
				ts = append(ts, int64(rng.Intn(900)))
			case 2:
				ts = append(ts, -int64(rng.Intn(6000)))
			default:
				ts = append(ts, int64(rng.Intn(3000)-1500))
			}
		}
		ranges = append(ranges, doRange(ts))
	}

	// ---- plays
	var plays []*play
	sizes := []int{2, 2, 2, 2, 2, 4, 2} // keep clear noplot quiet fouled dir repeat
	var rows [][]int
	if thorough {
		rows = covering(rng, sizes, len(sizes)) // everything
	} else {
		rows = covering(rng, sizes, 3)
	}
	for _, r := range rows {
		p := &play{Keep: b(r[0]), Clear: b(r[1]), NoPlot: b(r[2]), Quiet: b(r[3]), Fouled: b(r[4]), DirKind: r[5], Repeat: b(r[6])}
		plays = append(plays, p)
	}
	// upload implies clear: a fake scp on the PATH
	for i := 0; i < 4; i++ {
		plays = append(plays, &play{Upload: true, Keep: i&1 == 1, Fouled: i&2 == 2, DirKind: rng.Intn(4), Quiet: true, Repeat: rng.Intn(2) == 0})
	}
	// the one play that probes the unquoted upload command
	plays = append(plays, &play{Upload: true, BlankDir: true, DirKind: 3, Quiet: true})
	// an earlier run into the same output directory (erased, deleted, kept)
	type prior struct {
		kind string
		dir  int
	}
	priors := []prior{{"cleared", 1}, {"cleared", 2}, {"cleared", 3}, {"deleted", 0}, {"deleted", 2}, {"kept", 1}}
	if thorough {
		priors = nil
		for _, k := range []string{"cleared", "deleted", "kept"} {
			for d := 0; d < 4; d++ {
				priors = append(priors, prior{k, d}, prior{k, d})
			}
		}
	}
	for i, pr := range priors {
		plays = append(plays, &play{Prior: pr.kind, DirKind: pr.dir, Quiet: true, NoPlot: i%2 == 0, Fouled: thorough && i%2 == 1, Keep: i%3 == 0, Repeat: i%2 == 1})
	}
	// a repeat section that the play never reaches (fouled in act 1), plots on
	nEarly := 2
	if thorough {
		nEarly = 8
	}
	var early []*play
	for i := 0; i < nEarly; i++ {
		p := &play{Fouled: true, Repeat: true, DirKind: (i + int(*seed)) % 4, Keep: i%2 == 1, Quiet: i%4 < 2, Clear: i%4 == 3}
		early = append(early, p)
		plays = append(plays, p)
	}
	// plays cut short by a signal while an action runs
	var signalled []*play
	sigs := []string{"INT", "TERM", "HUP"}
	nSig := 3
	if thorough {
		nSig = 12
	}
	for i := 0; i < nSig; i++ {
		p := &play{Fouled: true, Signal: sigs[i%3], DirKind: (i + int(*seed)) % 4, Keep: i%4 == 3, Clear: i%2 == 1, Quiet: true,
			NoPlot: i%3 == 2, Repeat: i%2 == 0}
		signalled = append(signalled, p)
		plays = append(plays, p)
	}
	// a gnuplot that works, one that fails: neither changes how a play ends
	nGp := 4
	if thorough {
		nGp = 16
	}
	for i := 0; i < nGp; i++ {
		plays = append(plays, &play{Gnuplot: []string{"fail", "ok"}[i%2], Fouled: i%4 >= 2 && i%8 != 2, Clear: i%8 < 4 && i%2 == 0, Keep: i%8 == 5,
			DirKind: (i + int(*seed)) % 4, Quiet: true, Repeat: i%3 == 0})
	}
	for _, p := range plays {
		if p.Gnuplot == "" {
			p.Gnuplot = []string{"none", "none", "ok", "fail"}[rng.Intn(4)]
		}
		p.FoulKind = []string{"audit", "action", "early"}[rng.Intn(3)]
		p.MaxT = []string{"0.5", "2.25", "3.25", "4.75", "6.0"}[rng.Intn(5)]
		p.OwnPlots = rng.Intn(3) == 0
		p.PastSecs = rng.Intn(4)
	}
	for _, p := range early {
		p.FoulKind = "early"
	}
	for _, p := range signalled {
		p.FoulKind = "signal"
	}
	var wg sync.WaitGroup
	sem := make(chan struct{}, 10)
	for i, p := range plays {
		i, p := i, p
		wg.Add(1)
		sem <- struct{}{}
		go func() {
			defer wg.Done()
			defer func() { <-sem }()
			root := filepath.Join(work, "p"+strconv.Itoa(i))
			p.run(*bin, root)
			os.RemoveAll(root)
		}()
	}
	wg.Wait()

	// ---- two plays into one output directory (after the others: timing matters)
	var duos []*duo
	nDuo := 2
	if thorough {
		nDuo = 6
	}
	for i := 0; i < nDuo; i++ {
		duos = append(duos, &duo{SameSecond: true, DirKind: 1 + (i+int(*seed))%3}, &duo{SameSecond: false, DirKind: 1 + (i+1+int(*seed))%3})
	}
	dsem := make(chan struct{}, 4)
	for i, d := range duos {
		i, d := i, d
		wg.Add(1)
		dsem <- struct{}{}
		go func() {
			defer wg.Done()
			defer func() { <-dsem }()
			d.run(*bin, filepath.Join(work, "duo"+strconv.Itoa(i)))
		}()
	}
	wg.Wait()

	// ---- write
	var sb strings.Builder
	var items []string
	for _, c := range cleans {
		items = append(items, "("+vh.Str(c.S)+", "+vh.Str(c.O)+")")
	}
	sb.WriteString("Definition clean_cases : list clean_case := " + vh.ListNL(items) + ".\n")
	items = nil
	for _, c := range joins {
		items = append(items, "("+vh.Str(c.A)+", "+vh.Str(c.B)+", "+vh.Str(c.O)+")")
	}
	sb.WriteString("Definition join_cases : list join_case := " + vh.ListNL(items) + ".\n")
	items = nil
	for _, c := range abss {
		items = append(items, "("+vh.Str(c.Cwd)+", "+vh.Str(c.P)+", "+vh.Str(c.O)+")")
	}
	sb.WriteString("Definition abs_cases : list abs_case := " + vh.ListNL(items) + ".\n")
	items = nil
	nLinkErr := 0
	for _, c := range links {
		if c.Err != "" {
			nLinkErr++
		}
		items = append(items, fmt.Sprintf("(Build_link_case %s %s %s %s %s %s %s)", vh.Str(c.Cwd), vh.Str(c.DataDir), vh.Str(c.Sub),
			vh.Str(c.RunDir), vh.Str(c.Text), vh.Bool(c.Resolves), vh.Str(c.Resolved)))
	}
	sb.WriteString("Definition link_cases : list link_case := " + vh.ListNL(items) + ".\n")
	items = nil
	for _, c := range ranges {
		items = append(items, "("+zlist(c.Ts)+", "+vh.Z(c.Min)+", "+vh.Z(c.Max)+")")
	}
	sb.WriteString("Definition range_cases : list range_case := " + vh.ListNL(items) + "%Z.\n")
	items = nil
	for _, p := range plays {
		items = append(items, fmt.Sprintf("(Build_play_case %s %s %s %s %s %s %s %s %s %s %s %s %s %s %s %s %s %s %s %s %s %s %s %s %s %s %s)",
			vh.Bool(p.Keep), vh.Bool(p.Clear), vh.Bool(p.NoPlot), vh.Bool(p.Quiet), vh.Bool(p.Upload), vh.Bool(p.Fouled),
			vh.Bool(p.Repeat && !(p.Fouled && p.FoulKind == "early")),
			vh.Str(p.Cwd), vh.Str(p.DataDir), vh.Str(p.RunID), vh.Option(p.AliasBefore != "", vh.Str(p.AliasBefore)),
			vh.Bool(p.ExitNonzero), vh.Bool(len(p.Stray) > 0), vh.Bool(p.RundirExists), vh.Bool(p.ArtifactsExist),
			vh.Str(p.LatestText), vh.Bool(p.LatestResolves), vh.Bool(p.ResultOK), vh.Bool(p.FoulFlag),
			vh.Z(p.MinNs), vh.Z(p.MaxNs), "("+zlist(p.TimesNs)+")%Z", vh.Bool(p.RepeatSection),
			vh.Bool(p.ArtifactsNamedExist), vh.Bool(p.PlotFilesExist), vh.Bool(p.PlotsDir), vh.Bool(p.SurvivorsNamed)))
	}
	sb.WriteString("Definition play_cases : list play_case := " + vh.ListNL(items) + ".\n")
	items = nil
	nTreeFifo := 0
	for _, c := range trees {
		if c.HasOther {
			nTreeFifo++
		}
		items = append(items, fmt.Sprintf("(Build_tree_case %s %s %s %s)", coqNodes(c.Tree), vh.Bool(c.HasOther), coqPaths(c.Listed), coqPaths(c.Survived)))
	}
	sb.WriteString("Definition tree_cases : list tree_case := " + vh.ListNL(items) + ".\n")
	items = nil
	nDuoOK := 0
	for _, d := range duos {
		if d.SetupOK {
			nDuoOK++
		}
		items = append(items, fmt.Sprintf("(Build_duo_case %s %s %s %s %d%%N %s %s %s)", vh.Bool(d.SameSecond), vh.Bool(d.SetupOK),
			vh.Bool(d.ExitA != 0), vh.Bool(d.ExitB != 0), d.NRuns, vh.Bool(d.AOwn), vh.Bool(d.LatestToB), vh.Bool(d.AGone)))
	}
	sb.WriteString("Definition duo_cases : list duo_case := " + vh.ListNL(items) + ".\n")
	vh.WriteFile(*out, "cases.v", sb.String())
	vh.WriteJSON(*out, "cases.json", map[string]interface{}{
		"clean": cleans, "join": joins, "abs": abss, "link": links, "range": ranges, "play": plays, "tree": trees, "duo": duos})
	// distribution
	dist := map[string]int{}
	nontriv := map[string]bool{}
	for _, p := range plays {
		dist[fmt.Sprintf("dir%d", p.DirKind)]++
		if p.Fouled {
			dist["fouled_"+p.FoulKind]++
		} else {
			dist["clean"]++
		}
		if p.Repeat {
			dist["repeat"]++
		}
		if p.Prior != "" {
			dist["after_an_earlier_run_"+p.Prior]++
		}
		if !p.NoPlot {
			dist["gnuplot_"+p.Gnuplot]++
		}
		if p.OwnPlots {
			dist["actor_creates_the_plots_directory"]++
		}
		if p.Repeat && p.Fouled && p.FoulKind == "early" {
			dist["repeat_section_never_reached"]++
		}
		if p.PastSecs > 0 {
			dist["negative_instants"]++
		}
		nontriv[fmt.Sprintf("play %v %v %v %v %v %v %v %d %s %s", p.Keep, p.Clear, p.NoPlot, p.Quiet, p.Upload, p.Fouled, p.Repeat, p.DirKind, p.Prior, p.FoulKind+p.Gnuplot)] = true
	}
	for _, c := range links {
		nontriv["link "+c.DataDir[strings.LastIndex(c.DataDir, "/l")+1:]+" "+c.Sub] = true
	}
	for _, c := range ranges {
		if len(c.Ts) >= 2 {
			nontriv[fmt.Sprintf("range %v", c.Ts)] = true
		}
	}
	for _, c := range trees {
		if len(c.Listed)+len(c.Survived) >= 2 {
			nontriv["tree "+coqNodes(c.Tree)] = true
		}
	}
	var sample interface{}
	for _, p := range plays {
		if p.RundirExists && p.Repeat {
			sample = map[string]interface{}{"args": p.Args, "exit": p.Exit, "tree": p.Tree, "latest": p.LatestText,
				"foul": p.FoulFlag, "min_ns": p.MinNs, "max_ns": p.MaxNs, "times_ns": p.TimesNs}
			break
		}
	}
	vh.WriteJSON(*out, "summary.json", map[string]interface{}{
		"clean": len(cleans), "join": len(joins), "abs": len(abss), "link": len(links), "link_hook_errors": nLinkErr,
		"range": len(ranges), "plays": len(plays), "play_distribution": dist,
		"tree": len(trees), "trees_with_a_fifo": nTreeFifo, "duos": len(duos), "duos_with_the_planned_timing": nDuoOK,
		"distinct_nontrivial": len(nontriv),
		"samples": []interface{}{sample, links[2], ranges[len(ranges)-1]},
	})
}
