// Harness for C03 (in-process part): generated audiences with interpretation
// sections x event histories through the REAL audition and the REAL collector
// functions (collectAuditionReport / processAuditResult /
// checkAuditViolations), once without and once with -S.
package main

import (
	"flag"
	"fmt"
	"sort"
	"strings"

	"github.com/knz/shakespeare/pkg/cmd"
	"github.com/knz/shakespeare/verifharness/audgen"
	"github.com/knz/shakespeare/verifharness/vh"
)

type caseJSON struct {
	Cfg    string
	Events []audgen.Event
	Full   cmd.VerifAuditionResult
	Early  cmd.VerifAuditionResult
	Expect map[string][2]string
}

func coqStr(s string) string { return "\"" + strings.ReplaceAll(s, "\"", "\"\"") + "\"" }

func counts(m map[string]int) string {
	var ks []string
	for k := range m {
		ks = append(ks, k)
	}
	sort.Strings(ks)
	var items []string
	for _, k := range ks {
		items = append(items, fmt.Sprintf("(%s, %d%%nat)", coqStr(k), m[k]))
	}
	return "[" + strings.Join(items, "; ") + "]"
}

func obs(r *cmd.VerifAuditionResult) string {
	var hd []string
	var ks []string
	for k, v := range r.HasData {
		if v {
			ks = append(ks, k)
		}
	}
	sort.Strings(ks)
	for _, k := range ks {
		hd = append(hd, coqStr(k))
	}
	return fmt.Sprintf("{| v_fouled := %s; v_errors := %d%%nat; v_bad := %s; v_good := %s; v_hasdata := [%s]; v_early_at := %d%%Z |}",
		vh.Bool(r.Verdict != ""), r.Errors, counts(r.BadCounts), counts(r.GoodCounts), strings.Join(hd, "; "), earlyIndex(r))
}

// earlyIndex is the position, among the REPORTS only, of the report at which
// the collector asked to stop (-1: never).
func earlyIndex(r *cmd.VerifAuditionResult) int {
	if r.EarlyExitAt < 0 {
		return -1
	}
	n := -1
	for i, o := range r.Outs {
		if o.Kind == "report" {
			n++
		}
		if i == r.EarlyExitAt {
			return n
		}
	}
	return -1
}

func main() {
	seed := flag.Int64("seed", 1, "")
	tier := flag.String("tier", "quick", "")
	out := flag.String("out", ".", "")
	flag.Parse()
	rng := vh.Rng(*seed)
	defer cmd.VerifLogScope()()

	n := 500
	if *tier == "thorough" {
		n = 10000
	}
	g := &audgen.Gen{R: rng, Modalities: cmd.VerifModalities(), PErrExpr: 0.08, MaxMembers: 3, WithInterp: true, VerdictBias: true, CaseNames: true}
	var items []string
	var cases []caseJSON
	stats := map[string]int{}
	distinct := map[string]bool{}
	nontriv := 0
	for i := 0; i < n; i++ {
		c := g.Config()
		es := g.History(c, 16)
		text := c.Text()
		sinks, perr := cmd.VerifSinks(text)
		if perr != "" {
			stats["parse-rejected"]++
			continue
		}
		es = audgen.FilterSinks(es, sinks)
		ves := audgen.ToVerifEvents(es)
		full := cmd.VerifAuditLoop(text, ves, false)
		early := cmd.VerifAuditLoop(text, ves, true)
		if full.ParseErr != "" {
			stats["parse-rejected"]++
			continue
		}
		var reps []string
		for _, o := range full.Outs {
			if o.Kind == "report" {
				reps = append(reps, fmt.Sprintf("(%s, %d%%Z)", coqStr(o.Auditor), o.Result))
			}
		}
		var exp []string
		expm := map[string][2]string{}
		for _, m := range c.Members {
			b, gd := m.FoulOf()
			exp = append(exp, fmt.Sprintf("(%s, (%s, %s))", coqStr(m.Name), b, gd))
			expm[m.Name] = [2]string{b, gd}
		}
		items = append(items, fmt.Sprintf("{| q_items := %s;\n     q_reports := [%s];\n     q_expected := [%s];\n     q_full := %s;\n     q_early := %s |}",
			c.CoqItems(), strings.Join(reps, "; "), strings.Join(exp, "; "), obs(&full), obs(&early)))
		cases = append(cases, caseJSON{Cfg: text, Events: es, Full: full, Early: early, Expect: expm})
		if full.Verdict != "" {
			stats["fouled"]++
		} else {
			stats["clean"]++
		}
		if early.EarlyExitAt >= 0 {
			stats["early-exits"]++
		}
		if full.Errors > 0 {
			stats["with-eval-errors"]++
		}
		stats["interp-clauses"] += len(c.Interp) + len(c.Interp1)
		stats["reports"] += len(reps)
		key := text + fmt.Sprint(es)
		if !distinct[key] {
			distinct[key] = true
			if len(reps) >= 2 && len(c.Interp)+len(c.Interp1) >= 1 {
				nontriv++
			}
		}
	}
	// ---- the funnel's primitives against the real combineErrors / ignCancel / errors.Is,
	// and collectErrors against the real one
	causes := []string{"cancel", "audit", "real"}
	causeCoq := map[string]string{"cancel": "KCancel", "audit": "KAudit", "real": "KReal"}
	genErr := func() []string {
		n := []int{0, 0, 1, 1, 2, 3}[rng.Intn(6)]
		var e []string
		for i := 0; i < n; i++ {
			e = append(e, causes[rng.Intn(3)])
		}
		return e
	}
	coqErr := func(e []string) string {
		var xs []string
		for _, c := range e {
			xs = append(xs, causeCoq[c])
		}
		return "[" + strings.Join(xs, "; ") + "]"
	}
	// The read order of conduct's four shutdown stages, as a function of what the
	// selects choose (oracle ch, one element per select) and of the values the
	// components deliver.  This mirrors pkg/cmd/conductor.go by hand, exactly as
	// Model/Verdict.v (stage, stage3, conduct_run) does; the two are compared on
	// every case, and the resulting order is run through the real combineErrors /
	// ignCancel / errors.Is (hook VerifFunnel).
	comps := []string{"p", "s", "a", "c"}
	compCoq := map[string]string{"p": "CP", "s": "CS", "a": "CA", "c": "CC"}
	type shut struct {
		consumed  map[string]bool
		reads     []cmd.VerifRead
		cancelled []string
	}
	read := func(s *shut, comp map[string][]string, x string, ig bool) []string {
		if s.consumed[x] {
			return nil // closed channel
		}
		s.consumed[x] = true
		s.reads = append(s.reads, cmd.VerifRead{Comp: x, IgnCancel: ig})
		return comp[x]
	}
	interrupt := func(s *shut, comp map[string][]string, list []string) {
		for _, x := range list {
			if !s.consumed[x] {
				s.cancelled = append(s.cancelled, x)
			}
			read(s, comp, x, true)
		}
	}
	has := func(l []string, x string) bool {
		for _, y := range l {
			if y == x {
				return true
			}
		}
		return false
	}
	remove := func(l []string, x string) []string {
		var r []string
		for _, y := range l {
			if y != x {
				r = append(r, y)
			}
		}
		return r
	}
	choose := func(ch *[]string, own string, watched []string) string {
		if len(*ch) == 0 {
			return own
		}
		c := (*ch)[0]
		*ch = (*ch)[1:]
		if has(watched, c) {
			return c
		}
		return own
	}
	stage := func(s *shut, comp map[string][]string, own string, cancelList, watched []string, ch *[]string) []string {
		for {
			x := choose(ch, own, watched)
			if x == own {
				read(s, comp, own, false)
				return watched
			}
			if v := read(s, comp, x, false); len(v) == 0 {
				// a later stage ended without error: no longer watched, keep waiting
				watched = remove(watched, x)
				continue
			}
			interrupt(s, comp, cancelList)
			return watched
		}
	}
	conductReads := func(comp map[string][]string, ch []string) *shut {
		s := &shut{consumed: map[string]bool{}}
		w := stage(s, comp, "p", []string{"p", "s", "a", "c"}, []string{"s", "a", "c"}, &ch)
		stage(s, comp, "s", []string{"s", "a", "c"}, remove(w, "s"), &ch)
		if x := choose(&ch, "a", []string{"c"}); x == "a" {
			read(s, comp, "a", false)
		} else {
			read(s, comp, "c", false)
			interrupt(s, comp, []string{"a", "c"})
		}
		read(s, comp, "c", true)
		return s
	}
	var fitems []string
	nf := 400
	if *tier == "thorough" {
		nf = 10000
	}
	for i := 0; i < nf; i++ {
		comp := map[string][]string{"p": genErr(), "s": genErr(), "a": genErr(), "c": genErr()}
		if rng.Intn(2) == 0 {
			// mostly failure-free components: the orders in which they end matter most
			for _, x := range comps {
				if rng.Intn(3) != 0 {
					comp[x] = nil
				}
			}
		}
		verdict, cleanup := []string(nil), []string(nil)
		if rng.Intn(3) == 0 {
			verdict = []string{"audit"}
		}
		if rng.Intn(5) == 0 {
			cleanup = []string{"real"}
		}
		var ch []string
		for n := rng.Intn(8); n > 0; n-- {
			ch = append(ch, comps[rng.Intn(4)])
		}
		if i < 64 {
			// every oracle of length 3 once
			ch = []string{comps[i%4], comps[(i/4)%4], comps[(i/16)%4]}
		}
		s := conductReads(comp, ch)
		nonNil, _ := cmd.VerifFunnel(comp, s.reads, verdict, cleanup)
		var chC, rdC, cnC []string
		for _, c := range ch {
			chC = append(chC, compCoq[c])
		}
		for _, r := range s.reads {
			rdC = append(rdC, fmt.Sprintf("(%s, %s)", compCoq[r.Comp], vh.Bool(r.IgnCancel)))
		}
		for _, c := range s.cancelled {
			cnC = append(cnC, compCoq[c])
		}
		fitems = append(fitems, fmt.Sprintf("([%s], %s, %s, %s, %s, %s, %s, %s, [%s], [%s])", strings.Join(chC, "; "), coqErr(comp["p"]), coqErr(comp["s"]),
			coqErr(comp["a"]), coqErr(comp["c"]), coqErr(verdict), coqErr(cleanup), vh.Bool(nonNil), strings.Join(rdC, "; "), strings.Join(cnC, "; ")))
	}
	var citems []string
	nc := 200
	if *tier == "thorough" {
		nc = 5000
	}
	for i := 0; i < nc; i++ {
		n := rng.Intn(6)
		var rs []string
		var coq []string
		for j := 0; j < n; j++ {
			switch rng.Intn(5) {
			case 0:
				rs = append(rs, "boom")
				coq = append(coq, "[KReal]")
			case 1:
				rs = append(rs, "<cancel>")
				coq = append(coq, "[KCancel]")
			default:
				rs = append(rs, "")
				coq = append(coq, "[]")
			}
		}
		text, isCancel := cmd.VerifCollectErrors(rs)
		citems = append(citems, fmt.Sprintf("([%s], %s, %s)", strings.Join(coq, "; "), vh.Bool(text != ""), vh.Bool(isCancel)))
	}
	stats["funnel-cases"] = len(fitems)
	stats["collect-cases"] = len(citems)
	vh.WriteFile(*out, "cases.v", "Definition cases : list verdict_case := "+vh.ListNL(items)+".\n"+
		"Definition funnel_cases : list funnel_case := "+vh.ListNL(fitems)+".\n"+
		"Definition collect_cases : list collect_case := "+vh.ListNL(citems)+".\n")
	vh.WriteJSON(*out, "cases.json", cases)
	var samples []interface{}
	for _, i := range []int{0, len(cases) / 2} {
		samples = append(samples, map[string]interface{}{"config": cases[i].Cfg, "verdict": cases[i].Full.Verdict,
			"bad": cases[i].Full.BadCounts, "good": cases[i].Full.GoodCounts, "early_exit_at": cases[i].Early.EarlyExitAt})
	}
	vh.WriteJSON(*out, "summary.json", map[string]interface{}{
		"cases": len(cases), "distinct_nontrivial": nontriv, "stats": stats, "samples": samples,
	})
}
