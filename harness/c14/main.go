// Harness for C14, built with the race detector: runs generated plays
// in-process through the real cfg.run (hook VerifRun = the body of TestRun)
// — concurrent lines, several spotlights emitting signals quickly, auditors
// with collects / computes / expects, repeats, failing actions, -S — and
// records, play by play, whether the detector wrote a report
// (GORACE="halt_on_error=0 log_path=<prefix>": reports go to <prefix>.<pid>).
// A report is a property failure; the report text and the play are the replay.
package main

import (
	"flag"
	"fmt"
	"io/ioutil"
	"math/rand"
	"os"
	"runtime"
	"strings"
	"time"

	"github.com/knz/shakespeare/pkg/cmd"
	"github.com/knz/shakespeare/verifharness/vh"
)

type play struct {
	Index     int
	Cfg       string
	EarlyExit bool
	Features  []string
	Err       string
	Narration string
	Seconds   float64
	Race      string // detector report(s) written while this play ran
	Actions   int
	Signals   int
	Verdicts  int
}

var actorNames = []string{"ann", "bob", "cy", "dee"}

func genPlay(rng *rand.Rand, i int) *play {
	p := &play{Index: i}
	feat := func(s string) { p.Features = append(p.Features, s) }
	if i == 2 || rng.Intn(10) == 0 {
		// regression play for 27a1a66: a spotlight fails while the prompter
		// keeps sending mood and act changes to the audition
		feat("failing-spotlight-during-mood-changes")
		var sb strings.Builder
		fmt.Fprintf(&sb, "role test\n  :a true\n  spotlight sleep 0.0%d; exit 3\n  signal s event at (?P<ts_now>)(?P<event>x)\nend\n", 2+rng.Intn(7))
		sb.WriteString("cast\n  bob plays test\nend\naudience\n  w watches bob s\n  j expects always: mood != 'green'\nend\n")
		sb.WriteString("script\n  tempo 2ms\n  scene r mood starts red\n  scene b mood starts blue\n  storyline ")
		for a := 0; a < 1+rng.Intn(3); a++ {
			sb.WriteString(strings.Repeat("rb", 30+rng.Intn(40)) + " ")
		}
		sb.WriteString("\nend\n")
		p.Cfg = sb.String()
		return p
	}
	if i == 1 || rng.Intn(8) == 0 {
		// many quick repetitions of an empty act while every actor's
		// spotlight streams samples of a watched delta signal: whatever the
		// prompter does when it repeats runs beside the spotlight readers
		feat("repeat-storm-with-delta-signals")
		var sb strings.Builder
		sb.WriteString("role road\n  :go true\n  spotlight while true; do echo \"odo $RANDOM\"; sleep 0.002; done\n")
		sb.WriteString("  signal odo delta at (?P<ts_now>)^odo (?P<delta>\\d+)$\nend\ncast\n")
		n := 2 + rng.Intn(3)
		for k := 0; k < n; k++ {
			fmt.Fprintf(&sb, "  %s plays road\n", actorNames[k])
		}
		sb.WriteString("end\naudience\n  odometer watches every road odo\nend\n")
		fmt.Fprintf(&sb, "script\n  tempo %dms\n  scene g entails for %s: go\n", 2+rng.Intn(4), actorNames[0])
		fmt.Fprintf(&sb, "  storyline g%s .\n  repeat from ^\\.$\n  repeat %d times\nend\n", strings.Repeat(".", 20+rng.Intn(20)), 40+rng.Intn(60))
		p.Cfg = sb.String()
		return p
	}
	nActors := 1 + rng.Intn(4)
	fast := rng.Intn(2) == 0       // spotlights that emit on their own, quickly
	failing := rng.Intn(5) == 0    // an action that fails
	failOk := rng.Intn(2) == 0     // ... tolerated (`?`)
	repeat := rng.Intn(3) == 0     // repeat from the last act
	p.EarlyExit = rng.Intn(4) == 0 // -S
	badAudit := rng.Intn(3) == 0   // an auditor that gets disappointed
	moods := rng.Intn(2) == 0
	spotFail := rng.Intn(12) == 0 // a spotlight that exits with an error
	tempo := 30 + rng.Intn(40)

	var sb strings.Builder
	sb.WriteString("role road\n  cleanup rm -f traffic.log\n")
	sb.WriteString("  :car echo \"car rides\" >>traffic.log; echo \"speed $((RANDOM % 90))\" >>traffic.log\n")
	sb.WriteString("  :burst for i in 1 2 3 4 5 6 7 8; do echo \"car rides\"; echo \"speed $i\"; echo \"odo $((i*7))\"; done >>traffic.log\n")
	sb.WriteString("  :crash false\n")
	if spotFail {
		sb.WriteString("  spotlight touch traffic.log; sleep 0.1; exit 3\n")
		feat("failing-spotlight")
	} else if fast {
		sb.WriteString("  spotlight touch traffic.log; (while true; do echo \"speed $((RANDOM % 50))\"; echo \"odo $SECONDS\"; sleep 0.01; done) & tail -F traffic.log\n")
		feat("fast-spotlights")
	} else {
		sb.WriteString("  spotlight touch traffic.log; tail -F traffic.log\n")
	}
	sb.WriteString("  signal ride event at (?P<ts_now>)(?P<event>car rides)\n")
	sb.WriteString("  signal speed scalar at (?P<ts_now>)^speed (?P<scalar>\\d+)$\n")
	// a second signal on the same lines, declared after `speed` although its
	// name sorts first: one line yields one event with two values
	sb.WriteString("  signal kmh scalar at (?P<ts_now>)^speed (?P<scalar>\\d+)$\n")
	sb.WriteString("  signal odo delta at (?P<ts_now>)^odo (?P<delta>\\d+)$\n")
	sb.WriteString("end\n")
	sb.WriteString("role quiet\n  :nop true\nend\n")
	sb.WriteString("cast\n")
	for k := 0; k < nActors; k++ {
		fmt.Fprintf(&sb, "  %s plays road\n", actorNames[k])
	}
	sb.WriteString("  zed plays quiet\nend\n")
	if nActors > 1 {
		feat("several-spotlights")
	}

	sb.WriteString("audience\n")
	first := actorNames[0]
	last := actorNames[nActors-1]
	sb.WriteString("  watcher watches every road ride\n  watcher watches every road speed\n  watcher watches every road kmh\n")
	fmt.Fprintf(&sb, "  odometer watches %s odo\n", last)
	fmt.Fprintf(&sb, "  judge computes twice as [%s speed] * 2\n", first)
	fmt.Fprintf(&sb, "  judge collects recent as last 3 [%s speed]\n", first)
	if badAudit {
		sb.WriteString("  judge expects always: twice < 0\n")
		feat("disappointed-auditor")
	} else {
		sb.WriteString("  judge expects always: twice >= 0\n")
	}
	sb.WriteString("  stats watches twice\n  stats computes top as max(recent)\n  stats expects eventually: top >= 0\n")
	if moods {
		sb.WriteString("  moody audits only while mood == 'red'\n")
		fmt.Fprintf(&sb, "  moody collects odos as first 2 [%s odo]\n", last)
		sb.WriteString("  moody expects always: moodt < 100\n")
		feat("mood-activated-auditor")
	}
	if rng.Intn(3) == 0 {
		// an expects clause that fails to evaluate in every round where its
		// signal arrives, without stopping the play: error reports go to the
		// collector while the audit loop keeps assigning its variables
		fmt.Fprintf(&sb, "  broken expects always: mood + [%s speed] > 1\n", first)
		feat("failing-expects-evaluation")
	}
	sb.WriteString("  helper watches recent\n  helper only helps\n")
	sb.WriteString("end\n")
	feat("auditors-with-variables")

	fmt.Fprintf(&sb, "script\n  tempo %dms\n", tempo)
	sb.WriteString("  scene c entails for every road: car\n") // concurrent lines: one per actor
	sb.WriteString("  scene b entails for every road: burst\n")
	fmt.Fprintf(&sb, "  scene s entails for %s: car\n", first)
	sb.WriteString("  scene n entails for zed: nop\n")
	if failing {
		if failOk {
			fmt.Fprintf(&sb, "  scene f entails for %s: crash?\n", last)
			feat("tolerated-failing-action")
		} else {
			fmt.Fprintf(&sb, "  scene f entails for %s: crash\n", last)
			feat("failing-action")
		}
	}
	sb.WriteString("  scene r mood starts red\n  scene x mood ends clear\n")
	if nActors > 1 {
		feat("concurrent-lines")
	}
	pool := []string{"c", "b", "s", "n", ".", "cb", "c+b"}
	var acts []string
	nActs := 1 + rng.Intn(3)
	for a := 0; a < nActs; a++ {
		n := 2 + rng.Intn(4)
		s := ""
		for k := 0; k < n; k++ {
			s += pool[rng.Intn(len(pool))]
		}
		if moods && a == 0 {
			s = "r" + s
		}
		if moods && a == nActs-1 {
			s += "x"
		}
		if failing && a == nActs-1 {
			s = s[:1] + "f" + s[1:]
		}
		s = strings.ReplaceAll(s, "++", "+")
		s = strings.Trim(s, "+")
		if s == "" {
			s = "c"
		}
		acts = append(acts, s)
	}
	// two storylines run in parallel lines of the same scenes
	sb.WriteString("  storyline " + strings.Join(acts, " ") + "\n")
	if rng.Intn(2) == 0 {
		var second []string
		for range acts {
			second = append(second, []string{".n", "n.", ".s"}[rng.Intn(3)])
		}
		sb.WriteString("  storyline " + strings.Join(second, " ") + "\n")
		feat("two-storylines")
	}
	if repeat {
		fmt.Fprintf(&sb, "  repeat from %s\n  repeat %d times\n", regexpQuote(acts[len(acts)-1]), 2+rng.Intn(2))
		feat("repeat")
	}
	sb.WriteString("end\n")
	if p.EarlyExit {
		feat("-S")
	}
	p.Cfg = sb.String()
	return p
}

func regexpQuote(s string) string {
	var b strings.Builder
	for _, c := range s {
		if strings.ContainsRune(`\.+*?()|[]{}^$`, c) {
			b.WriteByte('\\')
		}
		b.WriteRune(c)
	}
	return "^" + b.String()
}

// watchdog ends the process (exit status 7, all goroutine stacks on stderr)
// when one play or case does not end: a deadlock inside the play cannot be
// recovered from in-process.  The check reports the play left in current.json.
func watchdog(d time.Duration) *time.Timer {
	return time.AfterFunc(d, func() {
		buf := make([]byte, 1<<20)
		n := runtime.Stack(buf, true)
		fmt.Fprintf(os.Stderr, "c14 harness: play does not end within %s\n%s\n", d, buf[:n])
		os.Exit(7)
	})
}

func raceLogSize(prefix string) (string, int64) {
	name := fmt.Sprintf("%s.%d", prefix, os.Getpid())
	fi, err := os.Stat(name)
	if err != nil {
		return name, 0
	}
	return name, fi.Size()
}

func main() {
	seed := flag.Int64("seed", 1, "")
	tier := flag.String("tier", "quick", "")
	out := flag.String("out", ".", "")
	n := flag.Int("n", 10, "number of plays")
	raceLog := flag.String("racelog", "", "the log_path prefix given in GORACE")
	flag.Parse()
	_ = tier
	rng := vh.Rng(*seed)
	defer cmd.VerifLogScope()()

	var plays []*play
	for i := 0; i < *n; i++ {
		p := genPlay(rng, i)
		// a panic inside the play kills this process: leave the play being
		// run, and the plays completed so far, where the check finds them
		vh.WriteJSON(*out, "current.json", p)
		vh.WriteJSON(*out, "cases.json", plays)
		_, before := raceLogSize(*raceLog)
		t0 := time.Now()
		wd := watchdog(100 * time.Second)
		p.Err, p.Narration = cmd.VerifRun(p.Cfg, p.EarlyExit, 20*time.Second)
		wd.Stop()
		p.Seconds = time.Since(t0).Seconds()
		// give late goroutines of the play (drain loops) a moment, so that a
		// report is attributed to the play that caused it
		time.Sleep(30 * time.Millisecond)
		name, after := raceLogSize(*raceLog)
		if after > before {
			b, _ := ioutil.ReadFile(name)
			if int64(len(b)) >= after {
				p.Race = string(b[before:after])
			}
		}
		p.Actions = strings.Count(p.Narration, "🥁")
		p.Signals = strings.Count(p.Narration, "👀")
		p.Verdicts = strings.Count(p.Narration, "😺") + strings.Count(p.Narration, "😿")
		if len(p.Narration) > 6000 {
			p.Narration = p.Narration[:3000] + "\n[...]\n" + p.Narration[len(p.Narration)-3000:]
		}
		plays = append(plays, p)
	}
	vh.WriteJSON(*out, "cases.json", plays)
	feats := map[string]int{}
	nontrivial, races, parseErr := 0, 0, 0
	for _, p := range plays {
		for _, f := range p.Features {
			feats[f]++
		}
		if p.Actions >= 2 && p.Signals >= 1 && p.Verdicts >= 1 {
			nontrivial++
		}
		if p.Race != "" {
			races++
		}
		if strings.HasPrefix(p.Err, "parse error") || strings.HasPrefix(p.Err, "compile error") {
			parseErr++
		}
	}
	var sample interface{}
	if len(plays) > 0 {
		sample = plays[len(plays)/2]
	}
	vh.WriteJSON(*out, "summary.json", map[string]interface{}{
		"plays": len(plays), "distinct_nontrivial": nontrivial, "races": races, "unusable": parseErr,
		"features": feats, "samples": []interface{}{sample},
	})
	vh.WriteFile(*out, "cases.v", "(* C14 has no Coq cases: the detector's verdict is in cases.json *)\n")
}
