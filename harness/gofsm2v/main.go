// gofsm2v translates the transition tables of pkg/cmd/pred_fsm.go into a Coq
// file.  It understands exactly: `var X = fsm{name:..., startState:...,
// stateNames: []string{...}, labels: []string{...}, edges: [][]int{k: []int{...}}}`
// and `var automata = func() map[string]*fsm { r := make(...); for _, f := range
// []*fsm{&X, ...} { r[f.name] = f }; return r }()`.  Anything else makes it exit
// non-zero: it refuses rather than guesses.
package main

import (
	"bytes"
	"fmt"
	"go/ast"
	"go/parser"
	"go/printer"
	"go/token"
	"os"
	"sort"
	"strconv"
	"strings"
)

func fail(format string, args ...interface{}) {
	fmt.Fprintf(os.Stderr, "gofsm2v: "+format+"\n", args...)
	os.Exit(3)
}

func coqStr(s string) string {
	for _, c := range []byte(s) {
		if c < 32 || c > 126 {
			fail("non-printable byte in string %q", s)
		}
	}
	return "\"" + strings.ReplaceAll(s, "\"", "\"\"") + "\""
}

func strLit(e ast.Expr) string {
	b, ok := e.(*ast.BasicLit)
	if !ok || b.Kind != token.STRING {
		fail("expected a string literal")
	}
	s, err := strconv.Unquote(b.Value)
	if err != nil {
		fail("bad string literal %s", b.Value)
	}
	return s
}

func intLit(e ast.Expr) int {
	b, ok := e.(*ast.BasicLit)
	if !ok || b.Kind != token.INT {
		fail("expected an int literal")
	}
	n, err := strconv.Atoi(b.Value)
	if err != nil || n < 0 {
		fail("bad int literal %s", b.Value)
	}
	return n
}

func typeString(fset *token.FileSet, e ast.Expr) string {
	var b bytes.Buffer
	printer.Fprint(&b, fset, e)
	return b.String()
}

func strList(fset *token.FileSet, e ast.Expr) []string {
	cl, ok := e.(*ast.CompositeLit)
	if !ok || typeString(fset, cl.Type) != "[]string" {
		fail("expected []string{...}")
	}
	var r []string
	for _, el := range cl.Elts {
		r = append(r, strLit(el))
	}
	return r
}

// keyed list: elements may carry integer keys; unkeyed follow the previous index.
func intRows(fset *token.FileSet, e ast.Expr) [][]int {
	cl, ok := e.(*ast.CompositeLit)
	if !ok || typeString(fset, cl.Type) != "[][]int" {
		fail("expected [][]int{...}")
	}
	rows := map[int][]int{}
	max := -1
	idx := 0
	for _, el := range cl.Elts {
		v := el
		if kv, ok := el.(*ast.KeyValueExpr); ok {
			idx = intLit(kv.Key)
			v = kv.Value
		}
		rcl, ok := v.(*ast.CompositeLit)
		if !ok || (rcl.Type != nil && typeString(fset, rcl.Type) != "[]int") {
			fail("expected []int{...} row")
		}
		var row []int
		ridx := 0
		rowm := map[int]int{}
		rmax := -1
		for _, x := range rcl.Elts {
			xv := x
			if kv, ok := x.(*ast.KeyValueExpr); ok {
				ridx = intLit(kv.Key)
				xv = kv.Value
			}
			rowm[ridx] = intLit(xv)
			if ridx > rmax {
				rmax = ridx
			}
			ridx++
		}
		for i := 0; i <= rmax; i++ {
			row = append(row, rowm[i]) // missing = 0, as in Go
		}
		if _, dup := rows[idx]; dup {
			fail("duplicate row index %d", idx)
		}
		rows[idx] = row
		if idx > max {
			max = idx
		}
		idx++
	}
	var out [][]int
	for i := 0; i <= max; i++ {
		out = append(out, rows[i]) // missing row = nil slice
	}
	return out
}

type table struct {
	varName string
	name    string
	start   int
	states  []string
	labels  []string
	edges   [][]int
}

const automataShape = `func() map[string]*fsm {
	r := make(map[string]*fsm)
	for _, f := range LIST {
		r[f.name] = f
	}
	return r
}()`

func main() {
	canon := false
	if len(os.Args) == 3 && os.Args[1] == "-canon" {
		canon = true
		os.Args = append(os.Args[:1], os.Args[2:]...)
	}
	if len(os.Args) != 2 {
		fail("usage: gofsm2v [-canon] <pred_fsm.go>")
	}
	fset := token.NewFileSet()
	file, err := parser.ParseFile(fset, os.Args[1], nil, 0)
	if err != nil {
		fail("parse: %v", err)
	}
	tables := map[string]*table{}
	var order []string
	var registered []string
	haveAutomata := false
	for _, d := range file.Decls {
		gd, ok := d.(*ast.GenDecl)
		if !ok || gd.Tok != token.VAR {
			continue
		}
		for _, sp := range gd.Specs {
			vs := sp.(*ast.ValueSpec)
			if len(vs.Names) != 1 || len(vs.Values) != 1 {
				continue
			}
			vname := vs.Names[0].Name
			if vname == "automata" {
				haveAutomata = true
				call, ok := vs.Values[0].(*ast.CallExpr)
				if !ok {
					fail("automata: not a call of a function literal")
				}
				fl, ok := call.Fun.(*ast.FuncLit)
				if !ok || len(call.Args) != 0 {
					fail("automata: not a call of a function literal")
				}
				// find the []*fsm literal, check the rest of the shape textually
				var list *ast.CompositeLit
				ast.Inspect(fl, func(n ast.Node) bool {
					if cl, ok := n.(*ast.CompositeLit); ok && typeString(fset, cl.Type) == "[]*fsm" {
						if list != nil {
							fail("automata: two []*fsm literals")
						}
						list = cl
					}
					return true
				})
				if list == nil {
					fail("automata: no []*fsm literal")
				}
				for _, el := range list.Elts {
					u, ok := el.(*ast.UnaryExpr)
					if !ok || u.Op != token.AND {
						fail("automata: element is not &ident")
					}
					id, ok := u.X.(*ast.Ident)
					if !ok {
						fail("automata: element is not &ident")
					}
					registered = append(registered, id.Name)
				}
				saved := list.Elts
				list.Elts = nil
				list.Type = ast.NewIdent("LIST")
				got := typeString(fset, vs.Values[0])
				list.Elts = saved
				got = strings.ReplaceAll(got, "LIST{}", "LIST")
				norm := func(s string) string { return strings.Join(strings.Fields(s), " ") }
				if norm(got) != norm(automataShape) {
					fail("automata initialiser has an unexpected shape:\n%s", got)
				}
				continue
			}
			cl, ok := vs.Values[0].(*ast.CompositeLit)
			if !ok || typeString(fset, cl.Type) != "fsm" {
				continue
			}
			t := &table{varName: vname}
			seen := map[string]bool{}
			for _, el := range cl.Elts {
				kv, ok := el.(*ast.KeyValueExpr)
				if !ok {
					fail("%s: unkeyed field", vname)
				}
				k := kv.Key.(*ast.Ident).Name
				if seen[k] {
					fail("%s: duplicate field %s", vname, k)
				}
				seen[k] = true
				switch k {
				case "name":
					t.name = strLit(kv.Value)
				case "startState":
					t.start = intLit(kv.Value)
				case "stateNames":
					t.states = strList(fset, kv.Value)
				case "labels":
					t.labels = strList(fset, kv.Value)
				case "edges":
					t.edges = intRows(fset, kv.Value)
				default:
					fail("%s: unknown field %s", vname, k)
				}
			}
			tables[vname] = t
			order = append(order, vname)
		}
	}
	if !haveAutomata {
		fail("no `automata` variable")
	}
	if canon {
		// same format as fsmdump -canon: one line per registered table, sorted by key
		var lines []string
		for _, r := range registered {
			t, ok := tables[r]
			if !ok {
				fail("automata registers %s, which is not a translated table", r)
			}
			lines = append(lines, fmt.Sprintf("%q %d %q %q %v", t.name, t.start, t.states, t.labels, t.edges))
		}
		sort.Strings(lines)
		for _, l := range lines {
			fmt.Println(l)
		}
		return
	}
	var b strings.Builder
	b.WriteString("(* Generated by gofsm2v from pkg/cmd/pred_fsm.go — do not edit. *)\n")
	b.WriteString("From Shk Require Import Base.Prelude Model.Fsm.\nFrom Coq Require Import String.\nOpen Scope string_scope.\n\n")
	for _, vn := range order {
		t := tables[vn]
		var st, lb, rows []string
		for _, s := range t.states {
			st = append(st, coqStr(s))
		}
		for _, s := range t.labels {
			lb = append(lb, coqStr(s))
		}
		for _, r := range t.edges {
			var xs []string
			for _, x := range r {
				xs = append(xs, strconv.Itoa(x))
			}
			rows = append(rows, "["+strings.Join(xs, "; ")+"]%nat")
		}
		fmt.Fprintf(&b, "Definition tbl_%s : fsm_table :=\n  {| f_name := %s; f_start := %d;\n     f_states := [%s];\n     f_labels := [%s];\n     f_edges := [%s] |}.\n\n",
			vn, coqStr(t.name), t.start, strings.Join(st, "; "), strings.Join(lb, "; "), strings.Join(rows, "; "))
	}
	var regs []string
	for _, r := range registered {
		if _, ok := tables[r]; !ok {
			fail("automata registers %s, which is not a translated table", r)
		}
		regs = append(regs, "tbl_"+r)
	}
	fmt.Fprintf(&b, "(* the []*fsm literal of `automata`, in order; r[f.name] = f *)\nDefinition registered : list fsm_table := [%s].\n", strings.Join(regs, "; "))
	fmt.Print(b.String())
}
