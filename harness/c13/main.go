// Harness for C13: generates casts (roles with `extends`, single and
// multi-actor lines, `with` clauses), has the REAL prepareDirs /
// prepareActionCommands / prepareScript write the action scripts
// (cmd.VerifScriptsFull), and executes prepared scripts with the real bash
// from a foreign directory and environment - directly, or through the command
// of another actor's script.  The command of a probed script is this very
// binary in -probe mode: it reports its current directory, its environment and
// where descriptors 1 and 2 point.  Everything is written as Coq terms
// (cases.v), as JSON (cases.json, for replays) and summarised (summary.json).
package main

import (
	"crypto/sha256"
	"encoding/json"
	"flag"
	"fmt"
	"io/ioutil"
	"math/rand"
	"os"
	"os/exec"
	"path/filepath"
	"sort"
	"strconv"
	"strings"
	"sync"
	"syscall"
	"time"

	"github.com/knz/shakespeare/pkg/cmd"
	"github.com/knz/shakespeare/verifharness/vh"
)

// ---------------------------------------------------------------- probe mode

type probeOut struct {
	Tag        string
	Cwd        string
	Env        []string
	Fd1, Fd2   string
	Fd1Append  bool
	Fd2Append  bool
	Fd1F, Fd2F string
}

func fdFlags(fd int) (string, bool) {
	b, err := ioutil.ReadFile(fmt.Sprintf("/proc/self/fdinfo/%d", fd))
	if err != nil {
		return "", false
	}
	for _, l := range strings.Split(string(b), "\n") {
		if strings.HasPrefix(l, "flags:") {
			f := strings.TrimSpace(strings.TrimPrefix(l, "flags:"))
			n, _ := strconv.ParseInt(f, 8, 64)
			return f, n&int64(syscall.O_APPEND) != 0
		}
	}
	return "", false
}

func probe() {
	var p probeOut
	p.Cwd, _ = syscall.Getwd()
	p.Env = os.Environ()
	p.Fd1, _ = os.Readlink("/proc/self/fd/1")
	p.Fd2, _ = os.Readlink("/proc/self/fd/2")
	p.Fd1F, p.Fd1Append = fdFlags(1)
	p.Fd2F, p.Fd2Append = fdFlags(2)
	if len(os.Args) > 2 {
		p.Tag = os.Args[2]
	}
	b, _ := json.Marshal(p)
	out := os.Getenv("PROBE_OUT")
	if d := os.Getenv("PROBE_DIR"); d != "" {
		// inside a real play: one file per probed command
		out = filepath.Join(d, fmt.Sprintf("%d-%d.json", time.Now().UnixNano(), os.Getpid()))
	}
	if out == "" {
		os.Exit(3)
	}
	if err := ioutil.WriteFile(out, b, 0644); err != nil {
		os.Exit(4)
	}
	fmt.Println("probe ran")
}

// ---------------------------------------------------------------- the cast

type actionDef struct {
	Name string
	Kind string // "probe" | "call" | "other"
	Cmd  string // the command as the parser will store it
	Src  string // the command as written in the configuration
	// for "call": target actor / script
	CallActor, CallScript string
}

type roleDef struct {
	Extra   []string // further lines of the role section (signals)
	Name    string
	Extends string
	Actions []*actionDef
	Spot    *actionDef
	Clean   *actionDef
}

type withItem struct {
	Name, Val string // Val: the value the command must see (when Literal)
	Src       string // the text after NAME= in the configuration
	Literal   bool
	Semi      bool // separated from the previous item by "; " instead of " "
}

type actorDef struct {
	Name    string
	Mul     int // 0: single
	MulTxt  string // how the count is written (leading zeros), "" = plain decimal
	MulPar  string // name of the `parameter` the count comes from, if any
	Role    string // as written (maybe plural)
	With    []withItem
	WithTxt string
	Opaque  bool // the with clause holds something the mini-shell does not read: $(...), $((...)), an array, ( ... )
}

type execObs struct {
	Actor, Script         string
	ViaActor, ViaScript   string
	Index                 int // -1: none
	With                  []withItem
	Spotlight             bool
	CallerCwd             string
	CallerEnv             [][2]string
	CallerOut             string
	Ran                   bool
	ExitErr               string
	Cwd                   string
	Env                   [][2]string
	Fd1, Fd2              string
	Fd1Append, Fd2Append  bool
	LogKept               bool
	Opaque                bool // the with clause of the actor (or of the actor it is invoked through) is outside the mini-shell
	StreamsOK             bool // a spotlight run by the real play: a line of its stdout and one of its stderr reached the signal filters
	Note                  string
}

type castCase struct {
	Cfg      string
	Shell    string
	Base     string // directory the harness was in when it called the hook
	DataDir  string // as passed (maybe relative)
	SubDir   string
	RunDir   string // expected: absolute
	Roles    []*roleDef
	Cast     []*actorDef
	Rejected bool
	ParseErr string
	HookErr  string
	Actors   []cmd.VerifScriptActor
	Execs    []execObs
	Invalid  string // which deliberate mistake the cast contains, if any
}

// identifiers may hold symbols (\\p{S}): the ones here are bytes >= 0x80, which the shell leaves alone
var actorPool = []string{"alice", "bob", "carol", "dave", "eve", "zoé", "node", "srv_1", "w", "Porch", "c©t", "x±y"}
var rolePool = []string{"doctor", "nurse", "road", "light", "kv", "client", "x1", "boss"}
var actionPool = []string{"cure", "run", "red", "green", "up", "down", "a1", "go_on", "ping", "flush", "stats", "push", "pus", "hash", "sh", "s", "ssh"}
var varPool = []string{"patient", "road", "port", "a", "b", "X_1", "mode", "_u", "target", "i", "HOME", "TMPDIR"}

const valChars = "abcdefghijklmnopqrstuvwxyzABCDEFGHIJKLMNOPQRSTUVWXYZ0123456789_./:,+@%=-"

func pick(rng *rand.Rand, l []string) string { return l[rng.Intn(len(l))] }

// quotedValue: a value between quotes, with runs of blanks and tabs inside.
func quotedValue(rng *rand.Rand, multi bool) (src, val string, lit bool) {
	words := []string{"ACT", "ONE", "x", "it is", "a:b", "k;l", "7", "Zoé", "issue #12", "# x", "a#b", "#"}
	gaps := []string{" ", "   ", "\t", " \t ", "  "}
	n := 1 + rng.Intn(3)
	var sb strings.Builder
	if rng.Intn(4) == 0 {
		sb.WriteString(gaps[rng.Intn(len(gaps))])
	}
	for i := 0; i < n; i++ {
		if i > 0 {
			sb.WriteString(gaps[rng.Intn(len(gaps))])
		}
		sb.WriteString(words[rng.Intn(len(words))])
	}
	body := sb.String()
	switch k := rng.Intn(5); {
	case k < 2:
		return "\"" + body + "\"", body, true
	case k < 4:
		return "'" + body + "'", body, true
	default:
		// a reference between double quotes, and text glued to the quotes
		ref := "$HOME"
		if multi {
			ref = "$i"
		}
		return "pre\"" + body + "  " + ref + " \"post", "", false
	}
}

func genValue(rng *rand.Rand, earlier []string, multi bool) (string, bool) {
	if rng.Intn(6) == 0 {
		// a value with a reference
		refs := []string{"$HOME", "$TMPDIR", "$PWD"}
		if multi {
			refs = append(refs, "$i", "$i")
		}
		for _, e := range earlier {
			refs = append(refs, "$"+e)
		}
		r := pick(rng, refs)
		switch rng.Intn(3) {
		case 0:
			return r, false
		case 1:
			return "p" + strconv.Itoa(rng.Intn(99)) + r, false
		default:
			return r + "/sub." + strconv.Itoa(rng.Intn(9)), false
		}
	}
	n := rng.Intn(8)
	if rng.Intn(10) == 0 {
		n = 0
	}
	var sb strings.Builder
	for i := 0; i < n; i++ {
		sb.WriteByte(valChars[rng.Intn(len(valChars))])
	}
	return sb.String(), true
}

func genWith(rng *rand.Rand, multi bool) ([]withItem, string, bool) {
	if rng.Intn(10) < 4 {
		return nil, "", false
	}
	if rng.Intn(40) == 0 {
		// the form the manual's prose mentions: the parser hands it to the
		// shell as is, where it is a subshell - the variables are NOT set
		return nil, "(a=1 b=2)", true
	}
	n := 1 + rng.Intn(3)
	var items []withItem
	var names []string
	var sb strings.Builder
	for i := 0; i < n; i++ {
		name := pick(rng, varPool)
		if (name == "HOME" || name == "TMPDIR" || name == "i") && rng.Intn(3) != 0 {
			name = pick(rng, varPool[:9])
		}
		v, lit := genValue(rng, names, multi)
		it := withItem{Name: name, Val: v, Src: v, Literal: lit}
		if rng.Intn(4) == 0 {
			it.Src, it.Val, it.Literal = quotedValue(rng, multi)
		}
		if i > 0 {
			it.Semi = rng.Intn(3) == 0
			if it.Semi {
				sb.WriteString("; ")
			} else {
				sb.WriteString(" ")
			}
		}
		sb.WriteString(name + "=" + it.Src)
		items = append(items, it)
		names = append(names, name)
	}
	opaque := false
	if rng.Intn(8) == 0 {
		// constructs that end in a parenthesis; outside the mini-shell, the
		// command must still run and see the variable
		opaque = true
		sb.WriteString(" ")
		switch rng.Intn(3) {
		case 0:
			sb.WriteString("started=$(date +%s)")
			items = append(items, withItem{Name: "started", Src: "$(date +%s)", Literal: false})
		case 1:
			ref := "i"
			if !multi {
				ref = "1"
			}
			for _, n := range names {
				if n == "i" {
					ref = "1" // the clause gives i a value of its own, maybe not a number
				}
			}
			sb.WriteString("sqlport=$((26257+" + ref + "))")
			items = append(items, withItem{Name: "sqlport", Src: "$((26257+" + ref + "))", Literal: false})
		default:
			sb.WriteString("arr=(1 2 3)") // arrays are not exported: nothing to see, but the script must not break
		}
	}
	return items, sb.String(), opaque
}

func otherCmd(rng *rand.Rand) (src, parsed string) {
	switch rng.Intn(5) {
	case 0:
		return "true", "true"
	case 1:
		return "echo hello >>out.txt", "echo hello >>out.txt"
	case 2:
		return "touch ../$road/blocked", "touch ../$road/blocked"
	case 3:
		// continued over two lines: the parser keeps the newline
		return "if test -e blocked; then \\\n          echo stopped; fi", "if test -e blocked; then \n          echo stopped; fi"
	default:
		s := "sleep 0.0" + strconv.Itoa(rng.Intn(9)) + " && echo 'it''s done'"
		return s, s
	}
}

func genCast(rng *rand.Rand, self string) *castCase {
	c := &castCase{}
	probeCmd := self + " -probe"
	nRoles := 1 + rng.Intn(3)
	used := map[string]bool{}
	inherited := map[string][]string{} // role -> action names incl. parents
	for i := 0; i < nRoles; i++ {
		var name string
		for {
			name = pick(rng, rolePool)
			if !used[name] {
				break
			}
		}
		used[name] = true
		r := &roleDef{Name: name}
		var have []string
		if i > 0 && rng.Intn(5) < 2 {
			p := c.Roles[rng.Intn(i)]
			r.Extends = p.Name
			have = append(have, inherited[p.Name]...)
		}
		na := rng.Intn(4)
		if i == 0 && na == 0 {
			na = 1
		}
		for j := 0; j < na; j++ {
			var an string
			for tries := 0; ; tries++ {
				an = pick(rng, actionPool)
				dup := false
				for _, h := range have {
					if h == an {
						dup = true
					}
				}
				if !dup {
					break
				}
			}
			have = append(have, an)
			a := &actionDef{Name: an}
			switch k := rng.Intn(10); {
			case k < 6:
				a.Kind, a.Src, a.Cmd = "probe", probeCmd, probeCmd
			case k < 8:
				a.Kind = "call" // filled in once the cast is known
			default:
				a.Kind = "other"
				a.Src, a.Cmd = otherCmd(rng)
			}
			r.Actions = append(r.Actions, a)
		}
		inherited[name] = have
		if rng.Intn(5) < 2 {
			r.Spot = &actionDef{Name: "_spotlight", Kind: "probe", Src: probeCmd, Cmd: probeCmd}
			if rng.Intn(4) == 0 {
				r.Spot = &actionDef{Name: "_spotlight", Kind: "other", Src: "touch car.log; tail -F car.log", Cmd: "touch car.log; tail -F car.log"}
			}
		}
		if rng.Intn(5) < 2 {
			r.Clean = &actionDef{Name: "_cleanup", Kind: "probe", Src: probeCmd, Cmd: probeCmd}
			if rng.Intn(4) == 0 {
				r.Clean = &actionDef{Name: "_cleanup", Kind: "other", Src: "rm -f blocked", Cmd: "rm -f blocked"}
			}
		}
		c.Roles = append(c.Roles, r)
	}
	// cast
	nLines := 1 + rng.Intn(4)
	usedA := map[string]bool{}
	for i := 0; i < nLines; i++ {
		var name string
		for {
			name = pick(rng, actorPool)
			if !usedA[name] {
				break
			}
		}
		usedA[name] = true
		d := &actorDef{Name: name}
		r := c.Roles[rng.Intn(len(c.Roles))]
		d.Role = r.Name
		if rng.Intn(5) < 2 {
			d.Mul = 1 + rng.Intn(3)
			if rng.Intn(4) == 0 {
				d.Mul = 4 + rng.Intn(2)
			}
			if rng.Intn(40) == 0 {
				d.Mul = 9 + rng.Intn(4) // two-digit suffixes
			}
			// counts written with leading zeros (a zero-padded -D value):
			// still decimal - 010 is ten actors, 0012 twelve
			switch rng.Intn(24) {
			case 0:
				d.Mul, d.MulTxt = 10, "010"
			case 1:
				d.Mul, d.MulTxt = 12, "0012"
			case 2:
				d.MulTxt = "00" + strconv.Itoa(d.Mul)
			case 3:
				d.Mul, d.MulTxt = 9, "09"
			}
			if d.MulTxt != "" && rng.Intn(2) == 0 {
				d.MulPar = "cnt" + strconv.Itoa(i)
			}
			if rng.Intn(2) == 0 {
				d.Role = r.Name + "s"
			}
		}
		d.With, d.WithTxt, d.Opaque = genWith(rng, d.Mul > 0)
		c.Cast = append(c.Cast, d)
	}
	if rng.Intn(5) == 0 {
		// two actors whose names differ in a symbol only: each has its own
		// directory, scripts and with clause
		pair := [][2]string{{"till€", "till£"}, {"a°b", "a×b"}, {"€", "¥"}}[rng.Intn(3)]
		for k := 0; k < 2; k++ {
			d := &actorDef{Name: pair[k], Role: c.Roles[rng.Intn(len(c.Roles))].Name}
			if k == 1 && rng.Intn(3) == 0 {
				d.Mul = 2
			}
			d.With, d.WithTxt, d.Opaque = genWith(rng, d.Mul > 0)
			if len(d.With) == 0 {
				d.With = []withItem{{Name: "who", Val: "n" + strconv.Itoa(k), Src: "n" + strconv.Itoa(k), Literal: true}}
				d.WithTxt = "who=n" + strconv.Itoa(k)
				d.Opaque = false
			}
			c.Cast = append(c.Cast, d)
		}
	}
	return c
}

// resolved role: all scripts of a role by name
type rscript struct {
	Name, Kind string
	Def        *actionDef
}

func (c *castCase) roleByName(n string) *roleDef {
	for _, r := range c.Roles {
		if r.Name == n {
			return r
		}
	}
	return nil
}

func (c *castCase) resolve(r *roleDef) (acts []*actionDef, spot, clean *actionDef) {
	if r.Extends != "" {
		if p := c.roleByName(r.Extends); p != nil {
			acts, spot, clean = c.resolve(p)
		}
	}
	acts = append(acts, r.Actions...)
	if r.Spot != nil {
		spot = r.Spot
	}
	if r.Clean != nil {
		clean = r.Clean
	}
	return
}

func (c *castCase) findRole(name string, mul bool) *roleDef {
	if r := c.roleByName(name); r != nil {
		return r
	}
	if mul {
		return c.roleByName(strings.TrimSuffix(name, "s"))
	}
	return nil
}

type liveActor struct {
	Name  string
	Def   *actorDef
	Index int
	Role  *roleDef
}

func (c *castCase) actors() []liveActor {
	var out []liveActor
	for _, d := range c.Cast {
		r := c.findRole(d.Role, d.Mul > 0)
		if d.Mul == 0 {
			out = append(out, liveActor{d.Name, d, -1, r})
		} else {
			for k := 0; k < d.Mul; k++ {
				out = append(out, liveActor{d.Name + strconv.Itoa(k+1), d, k, r})
			}
		}
	}
	return out
}

// fillCalls decides what the "call" actions invoke: a probed script of some
// actor, through the relative path a user would write.
func (c *castCase) fillCalls(rng *rand.Rand) {
	type tgt struct{ actor, script string }
	var tgts []tgt
	for _, a := range c.actors() {
		if a.Role == nil {
			continue
		}
		acts, spot, clean := c.resolve(a.Role)
		for _, x := range acts {
			if x.Kind == "probe" {
				tgts = append(tgts, tgt{a.Name, x.Name})
			}
		}
		if spot != nil && spot.Kind == "probe" && rng.Intn(4) == 0 {
			tgts = append(tgts, tgt{a.Name, "_spotlight"})
		}
		if clean != nil && clean.Kind == "probe" {
			tgts = append(tgts, tgt{a.Name, "_cleanup"})
		}
	}
	for _, r := range c.Roles {
		for _, a := range r.Actions {
			if a.Kind != "call" {
				continue
			}
			if len(tgts) == 0 {
				a.Kind, a.Src, a.Cmd = "other", "true", "true"
				continue
			}
			t := tgts[rng.Intn(len(tgts))]
			a.CallActor, a.CallScript = t.actor, t.script
			a.Src = "../" + t.actor + "/actions/" + t.script + ".sh"
			a.Cmd = a.Src
		}
	}
}

func (c *castCase) inject(rng *rand.Rand) {
	// a deliberate mistake, rarely: the parser and the model must both refuse
	switch rng.Intn(4) {
	case 0:
		if len(c.Cast) > 0 {
			d := *c.Cast[0]
			d.Mul = 0
			d.Role = strings.TrimSuffix(d.Role, "s")
			if c.Cast[0].Mul > 0 {
				d.Name = c.Cast[0].Name + "1"
			}
			c.Cast = append(c.Cast, &d)
			c.Invalid = "duplicate actor"
		}
	case 1:
		c.Cast = append(c.Cast, &actorDef{Name: "ghost", Role: "nosuchrole"})
		c.Invalid = "unknown role"
	case 2:
		for _, r := range c.Roles {
			if r.Extends != "" {
				p := c.roleByName(r.Extends)
				acts, _, _ := c.resolve(p)
				if len(acts) > 0 {
					r.Actions = append(r.Actions, &actionDef{Name: acts[0].Name, Kind: "other", Src: "true", Cmd: "true"})
					c.Invalid = "duplicate action in extended role"
					return
				}
			}
		}
	case 3:
		c.Roles = append(c.Roles, &roleDef{Name: "orphan", Extends: "nosuchparent"})
		c.Invalid = "unknown parent role"
	}
}

func (c *castCase) render() string {
	var sb strings.Builder
	for _, d := range c.Cast {
		if d.MulPar != "" {
			cnt := strconv.Itoa(d.Mul)
			if d.MulTxt != "" {
				cnt = d.MulTxt
			}
			sb.WriteString("parameter " + d.MulPar + " defaults to " + cnt + "\n")
		}
	}
	for _, r := range c.Roles {
		sb.WriteString("role " + r.Name)
		if r.Extends != "" {
			sb.WriteString(" extends " + r.Extends)
		}
		sb.WriteString("\n")
		for _, a := range r.Actions {
			sb.WriteString("  :" + a.Name + " " + a.Src + "\n")
		}
		if r.Spot != nil {
			sb.WriteString("  spotlight " + r.Spot.Src + "\n")
		}
		if r.Clean != nil {
			sb.WriteString("  cleanup " + r.Clean.Src + "\n")
		}
		for _, l := range r.Extra {
			sb.WriteString("  " + l + "\n")
		}
		sb.WriteString("end\n")
	}
	sb.WriteString("cast\n")
	for _, d := range c.Cast {
		if d.Mul == 0 {
			sb.WriteString("  " + d.Name + " plays " + d.Role)
		} else {
			cnt := strconv.Itoa(d.Mul)
			if d.MulTxt != "" {
				cnt = d.MulTxt
			}
			if d.MulPar != "" {
				cnt = "~" + d.MulPar + "~"
			}
			sb.WriteString("  " + d.Name + "* play " + cnt + " " + d.Role)
		}
		if d.WithTxt != "" {
			sb.WriteString(" with " + d.WithTxt)
		}
		sb.WriteString("\n")
	}
	sb.WriteString("end\n")
	return sb.String()
}

var dirPieces = []string{"out", "res ults", "a+b", "x,y", "r=1", "data.d", "n@h", "50%", "t:1", "été", "deep"}

// ---------------------------------------------------------------- running

func parseEnv(env []string) [][2]string {
	var out [][2]string
	for _, e := range env {
		i := strings.IndexByte(e, '=')
		if i < 0 {
			continue
		}
		out = append(out, [2]string{e[:i], e[i+1:]})
	}
	sort.Slice(out, func(i, j int) bool { return out[i][0] < out[j][0] })
	return out
}

// pending is an execution whose random choices have been made.
type pending struct {
	e         execObs
	foreign   string
	probeFile string
	logFile   string
	path      string
	envl      []string
}

// prepareOne makes every random choice of one execution (sequentially, so that
// a seed determines the run); executeOne then runs it, possibly concurrently
// with others.
func (c *castCase) prepareOne(rng *rand.Rand, caseDir string, n int, inner liveActor, script string, spot bool,
	viaActor, viaScript string, paths map[string]map[string]string, workdirs map[string]string) *pending {
	e := execObs{Actor: inner.Name, Script: script, ViaActor: viaActor, ViaScript: viaScript,
		Index: inner.Index, With: inner.Def.With, Spotlight: spot, StreamsOK: true, Opaque: inner.Def.Opaque}
	if viaActor != "" {
		for _, a := range c.actors() {
			if a.Name == viaActor && a.Def.Opaque {
				e.Opaque = true
			}
		}
	}
	p := &pending{}
	p.foreign = filepath.Join(caseDir, "foreign"+strconv.Itoa(n))
	e.CallerCwd = p.foreign
	e.CallerOut = filepath.Join(caseDir, "capture"+strconv.Itoa(n)+".out")
	p.probeFile = filepath.Join(caseDir, "probe"+strconv.Itoa(n)+".json")
	env := [][2]string{
		{"PATH", "/usr/bin:/bin"},
		{"HOME", "/foreign/home"},
		{"TMPDIR", "/foreign/tmp"},
		{"FOREIGN_" + strconv.Itoa(rng.Intn(9)), "kept " + strconv.Itoa(rng.Intn(1000))},
	}
	if rng.Intn(2) == 0 {
		env = append(env, [2]string{"i", strconv.Itoa(50 + rng.Intn(40))})
	}
	for _, w := range inner.Def.With {
		if rng.Intn(3) == 0 && w.Name != "HOME" && w.Name != "TMPDIR" && w.Name != "i" {
			dup := false
			for _, x := range env {
				if x[0] == w.Name {
					dup = true
				}
			}
			if !dup {
				env = append(env, [2]string{w.Name, "stale"})
			}
		}
	}
	e.CallerEnv = env
	for _, x := range env {
		p.envl = append(p.envl, x[0]+"="+x[1])
	}
	p.envl = append(p.envl, "PROBE_OUT="+p.probeFile)
	p.logFile = filepath.Join(workdirs[inner.Name], script+".log")
	start, startScript := viaActor, viaScript
	if viaActor == "" {
		start, startScript = inner.Name, script
	}
	p.path = paths[start][startScript]
	p.e = e
	return p
}

func (p *pending) executeOne() {
	e := &p.e
	os.MkdirAll(p.foreign, 0755)
	// plant a line in the log the inner script appends to
	if !e.Spotlight {
		ioutil.WriteFile(p.logFile, []byte("planted before the run\n"), 0644)
	}
	capf, err := os.OpenFile(e.CallerOut, os.O_WRONLY|os.O_CREATE|os.O_TRUNC, 0644)
	if err != nil {
		e.ExitErr = err.Error()
		return
	}
	var cm *exec.Cmd
	for try := 0; ; try++ {
		cm = exec.Command(p.path)
		cm.Dir = p.foreign
		cm.Env = p.envl
		cm.Stdout = capf
		cm.Stderr = capf
		cm.SysProcAttr = &syscall.SysProcAttr{Setpgid: true}
		err := cm.Start()
		if err == nil {
			break
		}
		if strings.Contains(err.Error(), "text file busy") && try < 100 {
			time.Sleep(10 * time.Millisecond) // another thread's child still holds the file
			continue
		}
		e.ExitErr = "start: " + err.Error()
		capf.Close()
		return
	}
	done := make(chan error, 1)
	go func() { done <- cm.Wait() }()
	select {
	case err := <-done:
		if err != nil {
			e.ExitErr = err.Error()
		}
	case <-time.After(20 * time.Second):
		syscall.Kill(-cm.Process.Pid, syscall.SIGKILL)
		<-done
		e.ExitErr = "timeout"
	}
	capf.Close()
	b, err := ioutil.ReadFile(p.probeFile)
	if err != nil {
		if e.ExitErr == "" {
			e.ExitErr = "no probe output"
		}
		return
	}
	var po probeOut
	if err := json.Unmarshal(b, &po); err != nil {
		e.ExitErr = "probe output: " + err.Error()
		return
	}
	e.Ran = e.ExitErr == ""
	e.Cwd = po.Cwd
	e.Env = parseEnv(po.Env)
	e.Fd1, e.Fd2, e.Fd1Append, e.Fd2Append = po.Fd1, po.Fd2, po.Fd1Append, po.Fd2Append
	if !e.Spotlight {
		lb, _ := ioutil.ReadFile(p.logFile)
		e.LogKept = strings.HasPrefix(string(lb), "planted before the run\n") &&
			strings.Contains(string(lb), "probe ran")
	}
}

// ---------------------------------------------------------------- real plays

// genPlay builds a configuration the real CLI can play: every action,
// spotlight and cleanup command is the probe; a spotlight also prints a line
// on stdout and one on stderr that two signals pick up.
func genPlay(rng *rand.Rand, self string) (*castCase, string) {
	c := &castCase{}
	nR := 1 + rng.Intn(2)
	used := map[string]bool{}
	for k := 0; k < nR; k++ {
		var name string
		for {
			name = pick(rng, rolePool)
			if !used[name] {
				break
			}
		}
		used[name] = true
		an := pick(rng, actionPool)
		r := &roleDef{Name: name}
		pc := self + " -probe " + an
		r.Actions = []*actionDef{{Name: an, Kind: "probe", Src: pc, Cmd: pc}}
		if k == 0 || rng.Intn(2) == 0 {
			// the action waits until the spotlight has printed its lines (and a
			// little longer), so that they reach the signal filters before
			// the play ends, however loaded the machine is
			pc = pc + "; for n in $(seq 250); do test -e spot.done && break; sleep 0.02; done; sleep 0.2"
			r.Actions = []*actionDef{{Name: an, Kind: "probe", Src: pc, Cmd: pc}}
			sc := self + " -probe _spotlight; echo \"sigout 1\"; echo \"sigerr 2\" >&2; touch spot.done; sleep 30"
			r.Spot = &actionDef{Name: "_spotlight", Kind: "probe", Src: sc, Cmd: sc}
			r.Extra = []string{"signal so scalar at (?P<ts_now>)sigout (?P<scalar>\\d+)", "signal se scalar at (?P<ts_now>)sigerr (?P<scalar>\\d+)"}
		}
		if rng.Intn(3) > 0 {
			cc := self + " -probe _cleanup"
			r.Clean = &actionDef{Name: "_cleanup", Kind: "probe", Src: cc, Cmd: cc}
		}
		c.Roles = append(c.Roles, r)
	}
	usedA := map[string]bool{}
	for k := 0; k < 2; k++ {
		var name string
		for {
			name = pick(rng, actorPool)
			if !usedA[name] {
				break
			}
		}
		usedA[name] = true
		d := &actorDef{Name: name, Role: c.Roles[k%nR].Name} // every role has an actor
		if k == 1 {
			d.Mul = 2 + rng.Intn(2)
		}
		d.With, d.WithTxt, d.Opaque = genWith(rng, d.Mul > 0)
		c.Cast = append(c.Cast, d)
	}
	var sb strings.Builder
	sb.WriteString(c.render())
	sb.WriteString("script\n  tempo 100ms\n")
	story := ""
	for k, r := range c.Roles {
		h := string(rune('a' + k))
		sb.WriteString("  scene " + h + " entails for every " + r.Name + ": " + r.Actions[0].Name + "\n")
		story += h
	}
	sb.WriteString("  storyline " + story + "..\nend\naudience\n")
	for _, r := range c.Roles {
		if r.Spot != nil {
			sb.WriteString("  aud watches every " + r.Name + " so\n  aud watches every " + r.Name + " se\n")
		}
	}
	sb.WriteString("end\n")
	return c, sb.String()
}

// runPlay plays the configuration with the real CLI and turns what the probed
// commands reported into executions of the cast.
func runPlay(rng *rand.Rand, bin, root string, c *castCase, cfg string) {
	cwd := filepath.Join(root, "cwd")
	probes := filepath.Join(root, "probes")
	for _, d := range []string{cwd, probes, filepath.Join(root, "home"), filepath.Join(root, "tmp")} {
		os.MkdirAll(d, 0755)
	}
	c.Cfg = cfg
	c.Shell = "/bin/bash"
	c.Base = cwd
	c.DataDir = filepath.Join(root, pick(rng, dirPieces))
	ioutil.WriteFile(filepath.Join(cwd, "play.cfg"), []byte(cfg), 0644)
	env := [][2]string{
		{"PATH", "/usr/bin:/bin"}, {"HOME", filepath.Join(root, "home")}, {"TMPDIR", filepath.Join(root, "tmp")},
		{"SHELL", "/bin/bash"}, {"i", strconv.Itoa(50 + rng.Intn(40))}, {"FOREIGN_" + strconv.Itoa(rng.Intn(9)), "kept " + strconv.Itoa(rng.Intn(1000))},
	}
	for _, d := range c.Cast {
		for _, w := range d.With {
			if rng.Intn(3) == 0 && w.Name != "HOME" && w.Name != "TMPDIR" && w.Name != "i" {
				dup := false
				for _, x := range env {
					if x[0] == w.Name {
						dup = true
					}
				}
				if !dup {
					env = append(env, [2]string{w.Name, "stale"})
				}
			}
		}
	}
	var envl []string
	for _, x := range env {
		envl = append(envl, x[0]+"="+x[1])
	}
	envl = append(envl, "PROBE_DIR="+probes)
	cm := exec.Command(bin, "-q", "-k", "--disable-plots", "-o", c.DataDir, "play.cfg")
	cm.Dir = cwd
	cm.Env = envl
	ob, err := cm.CombinedOutput()
	note := ""
	if err != nil {
		note = fmt.Sprintf("shakespeare: %v: %s", err, string(ob))
		if len(note) > 1500 {
			note = note[:1500]
		}
	}
	// the run directory
	ents, _ := ioutil.ReadDir(c.DataDir)
	for _, e := range ents {
		if e.IsDir() && e.Name() != "latest" {
			c.SubDir = e.Name()
		}
	}
	c.RunDir = filepath.Join(c.DataDir, c.SubDir)
	// what the probes saw
	var recs []probeOut
	files, _ := filepath.Glob(filepath.Join(probes, "*.json"))
	sort.Strings(files)
	for _, f := range files {
		b, _ := ioutil.ReadFile(f)
		var p probeOut
		if json.Unmarshal(b, &p) == nil {
			recs = append(recs, p)
		}
	}
	for _, a := range c.actors() {
		acts, spot, clean := c.resolve(a.Role)
		all := append([]*actionDef{}, acts...)
		if spot != nil {
			all = append(all, spot)
		}
		if clean != nil {
			all = append(all, clean)
		}
		wd := filepath.Join(c.RunDir, "artifacts", a.Name)
		for _, x := range all {
			e := execObs{Actor: a.Name, Script: x.Name, Index: a.Index, With: a.Def.With, Spotlight: x.Name == "_spotlight",
				CallerCwd: wd, CallerEnv: env, CallerOut: "the play's pipe", StreamsOK: true, Note: note, Opaque: a.Def.Opaque}
			var rec *probeOut
			for k := range recs {
				if recs[k].Tag == x.Name && recs[k].Cwd == wd {
					rec = &recs[k]
					break
				}
			}
			if rec == nil {
				e.ExitErr = "no report from a command tagged " + x.Name + " in " + wd
				if note != "" {
					e.ExitErr += "; " + note
				}
				c.Execs = append(c.Execs, e)
				continue
			}
			e.Ran = true
			e.Cwd = rec.Cwd
			e.Env = parseEnv(rec.Env)
			e.Fd1, e.Fd2, e.Fd1Append, e.Fd2Append = rec.Fd1, rec.Fd2, rec.Fd1Append, rec.Fd2Append
			if e.Spotlight {
				// the play hands its own pipe to the spotlight: that is "the caller's output"
				e.CallerOut = rec.Fd1
				so, _ := ioutil.ReadFile(filepath.Join(c.RunDir, "csv", "aud."+a.Name+".so.csv"))
				se, _ := ioutil.ReadFile(filepath.Join(c.RunDir, "csv", "aud."+a.Name+".se.csv"))
				e.StreamsOK = strings.HasPrefix(rec.Fd1, "pipe:") && len(so) > 0 && len(se) > 0
				if !e.StreamsOK {
					e.Note = fmt.Sprintf("stdout -> %s, stderr -> %s; rows of the stdout signal: %d bytes, of the stderr signal: %d bytes", rec.Fd1, rec.Fd2, len(so), len(se))
				}
			} else {
				lb, _ := ioutil.ReadFile(filepath.Join(wd, x.Name+".log"))
				e.LogKept = strings.Contains(string(lb), "probe ran")
			}
			c.Execs = append(c.Execs, e)
		}
	}
}

// ---------------------------------------------------------------- Coq printing

// S prints a byte string for Coq (string literals under list_byte_of_string
// were tried: 5x shorter but 3x slower to type-check).
func S(s string) string { return vh.Str(s) }

func optBytes(s string) string {
	if s == "" {
		return "None"
	}
	return "(Some " + S(s) + ")"
}

func coqAction(a *actionDef) string { return "(" + S(a.Name) + ", " + S(a.Cmd) + ")" }

func coqOptCmd(a *actionDef) string {
	if a == nil {
		return "None"
	}
	return "(Some " + S(a.Cmd) + ")"
}

func coqPairs(l [][2]string) string {
	var it []string
	for _, x := range l {
		it = append(it, "("+S(x[0])+", "+S(x[1])+")")
	}
	return vh.List(it)
}

func (c *castCase) coq() string {
	var roles, cast, actors, execs []string
	for _, r := range c.Roles {
		var acts []string
		for _, a := range r.Actions {
			acts = append(acts, coqAction(a))
		}
		roles = append(roles, fmt.Sprintf("(Build_role_def %s %s %s %s %s)", S(r.Name), optBytes(r.Extends),
			vh.List(acts), coqOptCmd(r.Spot), coqOptCmd(r.Clean)))
	}
	for _, d := range c.Cast {
		mul := "None"
		if d.Mul > 0 {
			mul = fmt.Sprintf("(Some %d%%nat)", d.Mul)
		}
		cast = append(cast, fmt.Sprintf("(Build_actor_def %s %s %s %s)", S(d.Name), mul, S(d.Role), S(d.WithTxt)))
	}
	for _, a := range c.Actors {
		var names []string
		for n := range a.Scripts {
			names = append(names, n)
		}
		sort.Strings(names)
		var sc []string
		for _, n := range names {
			sc = append(sc, "("+S(n)+", "+S(a.Scripts[n])+")")
		}
		actors = append(actors, fmt.Sprintf("(Build_actor_obs %s %s %s %s)", S(a.Name), S(a.WorkDir), S(a.ExtraEnv), vh.List(sc)))
	}
	for _, e := range c.Execs {
		via := "None"
		if e.ViaActor != "" {
			via = "(Some (" + S(e.ViaActor) + ", " + S(e.ViaScript) + "))"
		}
		idx := "None"
		if e.Index >= 0 {
			idx = fmt.Sprintf("(Some %d%%N)", e.Index)
		}
		var w []string
		for _, x := range e.With {
			w = append(w, "("+S(x.Name)+", "+S(x.Val)+", "+vh.Bool(x.Literal)+")")
		}
		execs = append(execs, fmt.Sprintf("(Build_exec_obs %s %s %s %s %s %s %s %s %s %s %s %s %s %s %s %s %s %s %s)",
			S(e.Actor), S(e.Script), via, idx, vh.List(w), vh.Bool(e.Spotlight),
			S(e.CallerCwd), coqPairs(e.CallerEnv), S(e.CallerOut),
			vh.Bool(e.Ran), S(e.Cwd), coqPairs(e.Env),
			S(e.Fd1), vh.Bool(e.Fd1Append), S(e.Fd2), vh.Bool(e.Fd2Append), vh.Bool(e.LogKept), vh.Bool(e.StreamsOK), vh.Bool(e.Opaque)))
	}
	return fmt.Sprintf("(Build_cast_case %s %s\n   %s\n   %s\n   %s\n   %s\n   %s)",
		S(c.Shell), S(c.RunDir), vh.List(roles), vh.List(cast), vh.Bool(c.Rejected), vh.List(actors), vh.List(execs))
}

// ---------------------------------------------------------------- main

func main() {
	if len(os.Args) > 1 && os.Args[1] == "-probe" {
		probe()
		return
	}
	seed := flag.Int64("seed", 1, "")
	tier := flag.String("tier", "quick", "")
	out := flag.String("out", ".", "")
	bin := flag.String("bin", "", "the shakespeare binary (for the real plays)")
	flag.Parse()
	rng := vh.Rng(*seed)
	os.Setenv("SHELL", "/bin/bash")
	self, err := os.Executable()
	if err != nil {
		panic(err)
	}
	absOut, _ := filepath.Abs(*out)
	work := filepath.Join(absOut, "w")
	os.MkdirAll(work, 0755)
	defer os.RemoveAll(work)
	closeScope := cmd.VerifLogScope()
	defer closeScope()

	nCasts := 300
	if *tier == "thorough" {
		nCasts = 3000
	}
	var cases []*castCase
	var wg sync.WaitGroup
	var jobs []func()
	sem := make(chan struct{}, 8)
	nExec, nNested, nInvalid, nSpot, nMulti, nShared, nExt, nHookErr := 0, 0, 0, 0, 0, 0, 0, 0
	nontriv := map[string]bool{}
	nHist := map[int]int{}
	for ci := 0; ci < nCasts; ci++ {
		c := genCast(rng, self)
		c.fillCalls(rng)
		if rng.Intn(15) == 0 {
			c.inject(rng)
		}
		c.Cfg = c.render()
		c.Shell = "/bin/bash"
		caseDir := filepath.Join(work, "c"+strconv.Itoa(ci))
		os.MkdirAll(caseDir, 0755)
		// where the results go: absolute, relative, nested relative, "."
		c.Base = caseDir
		var piece []string
		for k := 0; k < 1+rng.Intn(2); k++ {
			piece = append(piece, pick(rng, dirPieces))
		}
		rel := filepath.Join(piece...)
		switch rng.Intn(4) {
		case 0:
			c.DataDir = filepath.Join(caseDir, rel)
		case 1:
			c.DataDir = rel
		case 2:
			c.DataDir = "."
		default:
			c.DataDir = "./" + rel + "/"
		}
		switch rng.Intn(3) {
		case 0:
			c.SubDir = ""
		case 1:
			c.SubDir = "20260930" + strconv.Itoa(100000+rng.Intn(899999))
		default:
			c.SubDir = "."
		}
		if filepath.IsAbs(c.DataDir) {
			c.RunDir = filepath.Join(c.DataDir, c.SubDir)
		} else {
			c.RunDir = filepath.Join(caseDir, c.DataDir, c.SubDir)
		}
		if err := os.Chdir(caseDir); err != nil {
			panic(err)
		}
		res := cmd.VerifScriptsFull(c.Cfg, c.DataDir, c.SubDir)
		os.Chdir(absOut)
		if res.Panic != "" {
			panic("hook panicked: " + res.Panic)
		}
		c.ParseErr, c.HookErr = res.ParseErr, res.Err
		c.Rejected = res.ParseErr != ""
		c.Actors = res.Actors
		if res.Err != "" {
			// prepareDirs refused a configuration the parser accepted: kept as
			// an observation (the check reports it), nothing to execute
			c.Actors = nil
			nHookErr++
			cases = append(cases, c)
			os.RemoveAll(caseDir)
			continue
		}
		if c.Invalid != "" {
			nInvalid++
		}
		if !c.Rejected {
			paths := map[string]map[string]string{}
			workdirs := map[string]string{}
			for _, a := range res.Actors {
				paths[a.Name] = a.Paths
				workdirs[a.Name] = a.WorkDir
			}
			live := c.actors()
			byName := map[string]liveActor{}
			roleUse := map[string]int{}
			for _, a := range live {
				byName[a.Name] = a
				roleUse[a.Role.Name]++
				if a.Role.Extends != "" {
					nExt++
				}
			}
			for _, a := range live {
				if _, ok := paths[a.Name]; !ok {
					// the cast line promises this actor; prepareDirs knows nothing of it
					c.Execs = append(c.Execs, execObs{Actor: a.Name, Script: "(any)", Index: a.Index, With: a.Def.With, StreamsOK: true,
						ExitErr: "prepareDirs made no directory and no script for actor " + a.Name + " of `" + a.Def.Name + "* play " + a.Def.MulTxt + "`"})
					nExec++
				}
			}
			for _, n := range roleUse {
				if n > 1 {
					nShared++
				}
			}
			for _, d := range c.Cast {
				if d.Mul > 0 {
					nMulti++
					nHist[d.Mul]++
				}
			}
			// candidate executions
			type cand struct {
				inner            liveActor
				script           string
				spot             bool
				viaA, viaS       string
			}
			var direct, nested []cand
			for _, a := range live {
				acts, spot, clean := c.resolve(a.Role)
				all := append([]*actionDef{}, acts...)
				if spot != nil {
					all = append(all, spot)
				}
				if clean != nil {
					all = append(all, clean)
				}
				for _, x := range all {
					if x.Kind == "probe" {
						direct = append(direct, cand{a, x.Name, x.Name == "_spotlight", "", ""})
					}
					if x.Kind == "call" {
						in := byName[x.CallActor]
						nested = append(nested, cand{in, x.CallScript, x.CallScript == "_spotlight", a.Name, x.Name})
					}
				}
			}
			rng.Shuffle(len(direct), func(i, j int) { direct[i], direct[j] = direct[j], direct[i] })
			rng.Shuffle(len(nested), func(i, j int) { nested[i], nested[j] = nested[j], nested[i] })
			if len(direct) > 4 {
				direct = direct[:4]
			}
			if len(nested) > 3 {
				nested = nested[:3]
			}
			var pend []*pending
			for n, cd := range append(direct, nested...) {
				p := c.prepareOne(rng, caseDir, n, cd.inner, cd.script, cd.spot, cd.viaA, cd.viaS, paths, workdirs)
				pend = append(pend, p)
				e := p.e
				nExec++
				if cd.viaA != "" {
					nNested++
				}
				if cd.spot {
					nSpot++
				}
				if cd.viaA != "" || len(cd.inner.Def.With) > 0 || cd.inner.Index >= 0 {
					h := sha256.Sum256([]byte(fmt.Sprintf("%v|%v|%v|%v|%v|%v|%v", c.Cfg, c.RunDir, e.Actor, e.Script, e.ViaActor, e.ViaScript, e.CallerEnv)))
					nontriv[string(h[:8])] = true
				}
			}
			// the executions of one cast run one after the other (two of them
			// may append to the same log), different casts run concurrently
			// They start only once every script of every cast is written: a
			// child forked while a script file is still open for writing
			// makes the exec of that script fail (ETXTBSY).
			cc, cd := c, caseDir
			jobs = append(jobs, func() {
				for _, p := range pend {
					p.executeOne()
					cc.Execs = append(cc.Execs, p.e)
				}
				os.RemoveAll(cd)
			})
		} else {
			os.RemoveAll(caseDir)
		}
		cases = append(cases, c)
	}
	// real plays: the commands are run by the play itself
	var playCases []*castCase
	nPlays := 6
	if *tier == "thorough" {
		nPlays = 40
	}
	if *bin == "" {
		nPlays = 0
	}
	for pi := 0; pi < nPlays; pi++ {
		c, cfg := genPlay(rng, self)
		prng := rand.New(rand.NewSource(rng.Int63()))
		root := filepath.Join(work, "play"+strconv.Itoa(pi))
		playCases = append(playCases, c)
		jobs = append(jobs, func() {
			runPlay(prng, *bin, root, c, cfg)
			os.RemoveAll(root)
		})
	}
	for _, j := range jobs {
		j := j
		wg.Add(1)
		sem <- struct{}{}
		go func() {
			defer wg.Done()
			defer func() { <-sem }()
			j()
		}()
	}
	wg.Wait()

	// outside the claim, recorded for the notes: a work directory with a
	// single quote, and one with a semicolon (the echo line is not quoted)
	outside := map[string]string{}
	for _, name := range []string{"it's", "a;b"} {
		caseDir := filepath.Join(work, "outside")
		os.MkdirAll(caseDir, 0755)
		dd := filepath.Join(caseDir, name)
		cfg := "role r\n  :act " + self + " -probe\nend\ncast\n  alice plays r\nend\n"
		res := cmd.VerifScriptsFull(cfg, dd, "")
		msg := "hook error: " + res.Err + res.ParseErr
		if res.Err == "" && res.ParseErr == "" && len(res.Actors) == 1 {
			cm := exec.Command(res.Actors[0].Paths["act"])
			cm.Dir = caseDir
			cm.Env = []string{"PATH=/usr/bin:/bin", "PROBE_OUT=" + filepath.Join(caseDir, "p.json")}
			ob, err := cm.CombinedOutput()
			msg = fmt.Sprintf("exit: %v; output: %q", err, string(ob))
			if b, err2 := ioutil.ReadFile(filepath.Join(caseDir, "p.json")); err2 == nil {
				var p probeOut
				json.Unmarshal(b, &p)
				msg += "; probe cwd: " + p.Cwd
			}
		}
		outside[name] = msg
		os.RemoveAll(caseDir)
	}

	// the cases are written as [shards] definitions cast_cases_<k>, separated
	// by marker lines, so that the check can evaluate them in parallel
	nShards := 12
	if *tier == "thorough" {
		nShards = 32
	}
	var sb strings.Builder
	var shardSizes []int
	per := (len(cases) + nShards - 1) / nShards
	for k := 0; k < nShards; k++ {
		lo, hi := k*per, (k+1)*per
		if lo > len(cases) {
			lo = len(cases)
		}
		if hi > len(cases) {
			hi = len(cases)
		}
		var items []string
		for _, c := range cases[lo:hi] {
			items = append(items, c.coq())
		}
		shardSizes = append(shardSizes, hi-lo)
		fmt.Fprintf(&sb, "(*SHARD %d*)\nDefinition cast_cases_%d : list cast_case := %s.\n", k, k, vh.ListNL(items))
		if k == 0 {
			// the real plays ride in the first shard
			var pit []string
			for _, c := range playCases {
				pit = append(pit, c.coq())
			}
			fmt.Fprintf(&sb, "Definition play_casts : list cast_case := %s.\n", vh.ListNL(pit))
		}
	}
	vh.WriteJSON(*out, "plays.json", playCases)
	vh.WriteFile(*out, "cases.v", sb.String())
	vh.WriteJSON(*out, "cases.json", cases)
	nPlayExecs := 0
	for _, c := range playCases {
		nPlayExecs += len(c.Execs)
	}
	var samples []interface{}
	for _, c := range cases {
		if len(c.Execs) > 0 && len(samples) < 2 {
			samples = append(samples, map[string]interface{}{"cfg": c.Cfg, "rundir": c.RunDir, "exec": c.Execs[len(c.Execs)-1]})
		}
	}
	vh.WriteJSON(*out, "summary.json", map[string]interface{}{
		"casts": len(cases), "real_plays": len(playCases), "real_play_commands": nPlayExecs, "shard_sizes": shardSizes, "executions": nExec, "nested_executions": nNested, "spotlight_executions": nSpot,
		"deliberately_invalid_casts": nInvalid, "prepare_dirs_errors": nHookErr, "multi_actor_lines": nMulti, "multi_actor_N_histogram": nHist,
		"roles_shared_by_several_actors": nShared, "actors_with_extended_role": nExt,
		"distinct_nontrivial": len(nontriv), "samples": samples, "outside_the_claim": outside,
	})
}
