// Harness for C02: generated audience configurations x event histories
// through the REAL audition (checkEvent, checkEventForAuditor, checkFinal ...)
// via cmd.VerifAudition; writes configuration, history and everything the
// audition emitted as Coq terms.
package main

import (
	"flag"
	"fmt"
	"strings"

	"github.com/knz/shakespeare/pkg/cmd"
	"github.com/knz/shakespeare/verifharness/audgen"
	"github.com/knz/shakespeare/verifharness/vh"
)

type caseJSON struct {
	Cfg    string
	Events []audgen.Event
	Result cmd.VerifAuditionResult
	Shapes map[string]string
}

func coqStr(s string) string { return "\"" + strings.ReplaceAll(s, "\"", "\"\"") + "\"" }

func shapeCoq(m *audgen.Member) string {
	switch m.CondKind {
	case "none", "throughout", "consttrue":
		return "CThroughout"
	case "constfalse":
		return "CNever"
	case "mood":
		return "(CMoodIs " + coqStr(m.CondMood) + ")"
	case "sig":
		return fmt.Sprintf("(CSigGt %s %s)", audgen.CoqVar(m.CondVar), audgen.CoqQ(m.CondK, 1))
	}
	return "COther"
}

func main() {
	seed := flag.Int64("seed", 1, "")
	tier := flag.String("tier", "quick", "")
	out := flag.String("out", ".", "")
	flag.Parse()
	rng := vh.Rng(*seed)
	defer cmd.VerifLogScope()()

	n := 400
	if *tier == "thorough" {
		n = 8000
	}
	g := &audgen.Gen{R: rng, Modalities: cmd.VerifModalities(), PErrExpr: 0.06, PErrOther: 0.15, MaxMembers: 3, WithCollect: false, SimpleExpect: 0.4, ConstConds: true, LateStamps: true, ExpectViaComputed: true, SharedConds: true, ClosingError: true}
	var predItems []string
	var items []string
	var cases []caseJSON
	stats := map[string]int{}
	distinct := map[string]bool{}
	nontriv := 0
	for i := 0; i < n; i++ {
		if i%5 == 4 {
			g.WithCollect = true
		} else {
			g.WithCollect = false
		}
		c := g.Config()
		es := g.History(c, 24)
		text := c.Text()
		sinks, perr := cmd.VerifSinks(text)
		if perr != "" {
			stats["parse-rejected"]++
			continue
		}
		es = audgen.FilterSinks(es, sinks)
		res := cmd.VerifAuditLoop(text, audgen.ToVerifEvents(es), false)
		if res.ParseErr != "" {
			stats["parse-rejected"]++
			continue
		}
		coll, judge := audgen.CoqOuts(res.Outs, len(es))
		var evs []string
		for k := range es {
			evs = append(evs, es[k].Coq())
		}
		var shapes, preds []string
		sh := map[string]string{}
		for _, m := range c.Members {
			if m.HasState() {
				shapes = append(shapes, "("+coqStr(m.Name)+", "+shapeCoq(m)+")")
				sh[m.Name] = m.CondKind
				stats["cond-"+m.CondKind]++
				if (m.ExpKind == "sig" || m.ExpKind == "comp") && shapeCoq(m) != "COther" {
					ctor := "PSigCmp"
					if m.ExpKind == "comp" {
						ctor = "PCompCmp"
						stats["pred-oracle-auditors-via-computed-variable"]++
					}
					preds = append(preds, fmt.Sprintf("(%s, %s, %s %s %s %s)", coqStr(m.Name), shapeCoq(m), ctor, audgen.CoqVar(m.ExpVar), vh.Bool(m.ExpGt), audgen.CoqQ(m.ExpK, 1)))
					stats["pred-oracle-auditors"]++
				}
			}
		}
		predItems = append(predItems, "["+strings.Join(preds, "; ")+"]")
		items = append(items, fmt.Sprintf("{| k_cfg := %s;\n     k_events := [%s];\n     k_coll := [%s];\n     k_judge := [%s];\n     k_status := %d;\n     k_shapes := [%s] |}",
			c.CoqCfg(res.Members, res.Watchers, res.ArrayVars), strings.Join(evs, "; "),
			strings.Join(coll, "; "), strings.Join(judge, "; "), audgen.Status(&res), strings.Join(shapes, "; ")))
		cases = append(cases, caseJSON{Cfg: text, Events: es, Result: res, Shapes: sh})
		stats[fmt.Sprintf("status-%d", audgen.Status(&res))]++
		nrep, nstart := 0, 0
		for _, o := range res.Outs {
			if o.Kind == "report" {
				nrep++
			}
			if o.Kind == "judge" && strings.HasSuffix(o.Text, " starts auditing") {
				nstart++
			}
		}
		stats["reports"] += nrep
		stats["periods"] += nstart
		stats["events"] += len(es)
		key := text + fmt.Sprint(es)
		if !distinct[key] {
			distinct[key] = true
			if nrep >= 2 && len(es) >= 3 {
				nontriv++
			}
		}
	}
	vh.WriteFile(*out, "cases.v", "Definition cases : list aud_case := "+vh.ListNL(items)+".\n")
	vh.WriteFile(*out, "preds.v", strings.Join(predItems, "\n")+"\n")
	vh.WriteJSON(*out, "cases.json", cases)
	var samples []interface{}
	for _, i := range []int{0, len(cases) / 2, len(cases) - 1} {
		samples = append(samples, map[string]interface{}{"config": cases[i].Cfg, "events": cases[i].Events,
			"outs": cases[i].Result.Outs, "audit_err": cases[i].Result.AuditErr})
	}
	vh.WriteJSON(*out, "summary.json", map[string]interface{}{
		"cases": len(cases), "distinct_nontrivial": nontriv, "stats": stats, "samples": samples,
	})
}
