// Package vh holds what every correspondence harness shares: the seeded PRNG,
// the printer of Coq terms and the writer of the cases / summary files.
package vh

import (
	"encoding/json"
	"fmt"
	"math/rand"
	"os"
	"path/filepath"
	"strings"
)

// Rng returns the single PRNG all random choices of a harness derive from.
func Rng(seed int64) *rand.Rand { return rand.New(rand.NewSource(seed)) }

// Z prints an integer as a Coq Z literal.
func Z(n int64) string {
	if n < 0 {
		return fmt.Sprintf("(%d)", n)
	}
	return fmt.Sprintf("%d", n)
}

// Bool prints a Coq bool.
func Bool(b bool) string {
	if b {
		return "true"
	}
	return "false"
}

// Bytes prints a byte string as a Coq list of Byte.byte constructors.
func Bytes(b []byte) string {
	var sb strings.Builder
	sb.WriteByte('[')
	for i, c := range b {
		if i > 0 {
			sb.WriteString("; ")
		}
		fmt.Fprintf(&sb, "x%02x", c)
	}
	sb.WriteByte(']')
	return sb.String()
}

// Str prints a Go string as a Coq list of bytes.
func Str(s string) string { return Bytes([]byte(s)) }

// List prints a Coq list from already printed elements.
func List(items []string) string { return "[" + strings.Join(items, "; ") + "]" }

// ListNL prints a Coq list with one element per line (keeps lines short for
// Coq's lexer and for humans reading a replay).
func ListNL(items []string) string {
	if len(items) == 0 {
		return "[]"
	}
	return "[\n  " + strings.Join(items, ";\n  ") + "\n]"
}

// Option prints a Coq option.
func Option(present bool, v string) string {
	if !present {
		return "None"
	}
	return "(Some " + v + ")"
}

// WriteFile writes text to dir/name.
func WriteFile(dir, name, text string) {
	if err := os.MkdirAll(dir, 0755); err != nil {
		panic(err)
	}
	if err := os.WriteFile(filepath.Join(dir, name), []byte(text), 0644); err != nil {
		panic(err)
	}
}

// WriteJSON writes v as JSON to dir/name.
func WriteJSON(dir, name string, v interface{}) {
	b, err := json.MarshalIndent(v, "", " ")
	if err != nil {
		panic(err)
	}
	WriteFile(dir, name, string(b))
}
