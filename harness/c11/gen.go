package main

// Generators of the C11 harness: values with many ties, value sequences for
// the collect functions, argument arrays for the array / scalar functions,
// expressions for the real evaluator, and collects / computes chains across
// audience members with histories split into activation periods.

import (
	"fmt"
	"math"
	"math/rand"
	"sort"
	"strings"

	"github.com/knz/shakespeare/verifharness/audgen"
)

var dyadics = []float64{-3.25, -2, -1, -0.5, 0, 0.25, 0.5, 1, 1.5, 2, 2.5, 3, 4, 7.75}
var strPool = []string{"up", "down", "mid", "a", "b"}

func coqStr(s string) string { return "\"" + strings.ReplaceAll(s, "\"", "\"\"") + "\"" }

// coqVal prints a Go value of the audition as a Coq [value]; ok is false for
// NaN / infinities (not representable).
func coqVal(v interface{}) (string, bool) {
	switch x := v.(type) {
	case nil:
		return "VNil", true
	case float64:
		if math.IsNaN(x) || math.IsInf(x, 0) {
			return "VNil", false
		}
		return "(VNum " + audgen.CoqQFloat(x) + ")", true
	case bool:
		if x {
			return "(VBool true)", true
		}
		return "(VBool false)", true
	case string:
		return "(VStr " + coqStr(x) + ")", true
	case []interface{}:
		ok := true
		var items []string
		for _, e := range x {
			s, o := coqVal(e)
			ok = ok && o
			items = append(items, s)
		}
		return "(VArr [" + strings.Join(items, "; ") + "])", ok
	}
	return "VNil", false
}

func coqVals(vs []interface{}) (string, bool) {
	ok := true
	var items []string
	for _, e := range vs {
		s, o := coqVal(e)
		ok = ok && o
		items = append(items, s)
	}
	return "[" + strings.Join(items, "; ") + "]", ok
}

// valGen draws values from a small pool (many ties).
type valGen struct {
	r                      *rand.Rand
	pool                   []float64
	pNil, pBool, pStr, pArr float64
}

func newValGen(r *rand.Rand, avoid01 bool) *valGen {
	g := &valGen{r: r}
	n := 2 + r.Intn(4)
	for len(g.pool) < n {
		x := dyadics[r.Intn(len(dyadics))]
		if avoid01 && (x == 0 || x == 1) {
			continue
		}
		g.pool = append(g.pool, x)
	}
	return g
}

func (g *valGen) value() interface{} {
	p := g.r.Float64()
	switch {
	case p < g.pNil:
		return nil
	case p < g.pNil+g.pBool:
		return g.r.Intn(2) == 0
	case p < g.pNil+g.pBool+g.pStr:
		return strPool[g.r.Intn(len(strPool))]
	case p < g.pNil+g.pBool+g.pStr+g.pArr:
		return []interface{}{g.pool[g.r.Intn(len(g.pool))], g.r.Intn(2) == 0}
	}
	return g.pool[g.r.Intn(len(g.pool))]
}

func (g *valGen) values(n int) []interface{} {
	out := make([]interface{}, 0, n)
	for i := 0; i < n; i++ {
		out = append(out, g.value())
	}
	return out
}

// ---------------------------------------------------------------- expressions

// exprGen builds expressions over a fixed environment.
type exprGen struct {
	r    *rand.Rand
	arrs []string // array variables (numbers / booleans, nil-free)
}

var arrFns = []string{"count", "first", "last", "sum", "avg", "med", "min", "max", "sorted", "average", "median"}

func (g *exprGen) item() *audgen.Expr {
	switch g.r.Intn(12) {
	case 0, 1, 2, 3:
		return audgen.V("", g.arrs[g.r.Intn(len(g.arrs))])
	case 4:
		return audgen.V("", "e")
	case 5:
		return audgen.V("", "n")
	case 6:
		return audgen.V("x", "s")
	case 7:
		return audgen.Call(arrFns[g.r.Intn(8)], audgen.V("", "e")) // nil, or 0 for count
	case 8:
		return audgen.Call(arrFns[g.r.Intn(8)], audgen.V("", g.arrs[g.r.Intn(len(g.arrs))]))
	case 9:
		return &audgen.Expr{Kind: "const-num", Num: int64(g.r.Intn(9)) - 2, Den: 2}
	case 10:
		return audgen.BoolC(g.r.Intn(2) == 0)
	}
	return audgen.Num(int64(g.r.Intn(7)))
}

func (g *exprGen) call() *audgen.Expr {
	f := arrFns[g.r.Intn(len(arrFns))]
	n := 1 + g.r.Intn(3)
	if g.r.Intn(12) == 0 {
		n = 0
	}
	var args []*audgen.Expr
	nested := 0
	for i := 0; i < n; i++ {
		a := g.item()
		// sortArray's order is not an order among several nested arrays
		// ("other things"): at most one array that stays an element
		if f == "sorted" && i > 0 && arrayValued(a) {
			nested++
			if nested > 1 {
				a = audgen.Num(int64(g.r.Intn(7)))
			}
		}
		args = append(args, a)
	}
	return audgen.Call(f, args...)
}

func arrayValued(e *audgen.Expr) bool {
	return (e.Kind == "var" && e.Var[0] == "") && (e.Var[1] == "v" || e.Var[1] == "w" || e.Var[1] == "e") ||
		(e.Kind == "call" && e.Op == "sorted")
}

func (g *exprGen) expr() *audgen.Expr {
	switch g.r.Intn(10) {
	case 0:
		return audgen.Call("max", audgen.Call("first", audgen.V("", g.arrs[0])), audgen.Num(3))
	case 1:
		v := audgen.V("", g.arrs[g.r.Intn(len(g.arrs))])
		return audgen.Bin("/", audgen.Call("sum", v), audgen.Call("count", v))
	case 2:
		return audgen.Bin([]string{"+", "-", "*"}[g.r.Intn(3)], g.call(), audgen.Num(int64(1+g.r.Intn(3))))
	case 3:
		return audgen.Call([]string{"abs", "floor", "ceil", "round"}[g.r.Intn(4)], g.call())
	case 4:
		return audgen.Bin([]string{"<", "<=", ">", ">=", "==", "!="}[g.r.Intn(6)], g.call(), audgen.Num(int64(g.r.Intn(4))))
	case 5:
		f := arrFns[g.r.Intn(len(arrFns))]
		inner := g.call()
		it := g.item()
		if f == "sorted" && arrayValued(it) && inner.Op == "sorted" {
			// the inner result is spread and may already hold one nested array
			it = audgen.Num(2)
		}
		return audgen.Call(f, inner, it)
	}
	return g.call()
}

// ---------------------------------------------------------------- chains

// sigExpr is an expression over signals only, which the harness evaluates by
// itself.
type sigExpr struct {
	Kind string // sig div sub gt half ev subk
	A, B [2]string
	K    float64
}

func (e sigExpr) expr() *audgen.Expr {
	a := audgen.V(e.A[0], e.A[1])
	switch e.Kind {
	case "sig", "ev":
		return a
	case "div":
		return audgen.Bin("/", a, audgen.Num(int64(e.K)))
	case "sub":
		return audgen.Bin("-", a, audgen.V(e.B[0], e.B[1]))
	case "gt":
		return audgen.Bin(">", a, audgen.Num(int64(e.K)))
	case "half":
		return audgen.Bin("*", a, &audgen.Expr{Kind: "const-num", Num: 1, Den: 2})
	case "subk":
		return audgen.Bin("-", a, audgen.Num(int64(e.K)))
	}
	panic("bad sigExpr")
}

func (e sigExpr) signals() [][2]string {
	if e.Kind == "sub" {
		return [][2]string{e.A, e.B}
	}
	return [][2]string{e.A}
}

// eval computes the value from the samples of one event; ok is false when a
// signal the expression mentions was not sampled.
func (e sigExpr) eval(samples map[string]interface{}) (interface{}, bool) {
	av, ok := samples[e.A[0]+" "+e.A[1]]
	if !ok {
		return nil, false
	}
	switch e.Kind {
	case "ev":
		return av, true
	case "sig":
		return av, true
	}
	x := av.(float64)
	switch e.Kind {
	case "div":
		return x / e.K, true
	case "sub":
		bv, ok := samples[e.B[0]+" "+e.B[1]]
		if !ok {
			return nil, false
		}
		return x - bv.(float64), true
	case "gt":
		return x > e.K, true
	case "half":
		return x * 0.5, true
	case "subk":
		return x - e.K, true
	}
	panic("bad sigExpr")
}

type vtyp int

const (
	tNum vtyp = iota
	tNumNil
	tBool
	tArrNum // numbers / booleans
	tArrStr
	tStr
)

// varDef is one collects / computes clause of a chain.
type varDef struct {
	Name  string
	Owner int
	Mode  string
	N     int
	Sig   *sigExpr     // base definition (signals only) or
	E     *audgen.Expr // downstream definition
	Typ   vtyp
}

type chainCfg struct {
	Actors  []string
	Members []*audgen.Member // al bo cy di (+ observer ob, not listed)
	Defs    []*varDef
	Watched []string
	Lines   []string // audience clauses in file order
	MayAbort bool
}

var memberNames = []string{"al", "bo", "cy", "di"}

func (g *chainGen) sigExpr(actors []string, allowEv bool) sigExpr {
	a := [2]string{actors[g.r.Intn(len(actors))], "s"}
	switch g.r.Intn(9) {
	case 0, 1:
		return sigExpr{Kind: "sig", A: a}
	case 2:
		return sigExpr{Kind: "div", A: a, K: float64([]int{2, 4}[g.r.Intn(2)])}
	case 3:
		if len(actors) > 1 {
			return sigExpr{Kind: "sub", A: [2]string{"x", "s"}, B: [2]string{"y", "s"}}
		}
		return sigExpr{Kind: "half", A: a}
	case 4:
		return sigExpr{Kind: "gt", A: a, K: float64(1 + g.r.Intn(5))}
	case 5:
		return sigExpr{Kind: "half", A: a}
	case 6:
		if allowEv {
			return sigExpr{Kind: "ev", A: [2]string{a[0], "e"}}
		}
		return sigExpr{Kind: "sig", A: a}
	}
	return sigExpr{Kind: "subk", A: a, K: float64(1 + g.r.Intn(4))}
}

type chainGen struct {
	r          *rand.Rand
	modalities []string
}

func (g *chainGen) pick(xs []string) string { return xs[g.r.Intn(len(xs))] }

// downstream builds a clause over already defined variables.
func (g *chainGen) downstream(defs []*varDef, name string, owner int) *varDef {
	src := defs[g.r.Intn(len(defs))]
	v := audgen.V("", src.Name)
	d := &varDef{Name: name, Owner: owner, Mode: "single"}
	collectOf := func(e *audgen.Expr, numeric bool) {
		modes := []string{"first", "last"}
		if numeric {
			modes = append(modes, "top", "bottom")
		}
		d.Mode = g.pick(modes)
		d.N = 1 + g.r.Intn(4)
		d.E = e
		d.Typ = tArrNum
	}
	switch src.Typ {
	case tArrNum:
		switch g.r.Intn(10) {
		case 0:
			d.E, d.Typ = v, tArrNum
		case 1:
			d.E, d.Typ = audgen.Call("count", v), tNum
		case 2:
			d.E, d.Typ = audgen.Call(g.pick([]string{"sum", "avg", "med", "min", "max", "first", "last"}), v), tNumNil
		case 3:
			d.E, d.Typ = audgen.Call("sorted", v, audgen.Num(99)), tArrNum
		case 4:
			d.E, d.Typ = audgen.Call("sorted", v), tArrNum
		case 5:
			d.E, d.Typ = audgen.Bin(">", audgen.Call("count", v), audgen.Num(int64(g.r.Intn(4)))), tBool
		case 6:
			collectOf(audgen.Call("count", v), true)
		case 7:
			collectOf(audgen.Call(g.pick([]string{"sum", "max", "min", "med", "avg"}), v), true)
		case 8:
			collectOf(audgen.Call(g.pick([]string{"first", "last"}), v), true)
		default:
			d.E, d.Typ = audgen.Call("count", v, audgen.Num(1)), tNum
		}
	case tArrStr:
		switch g.r.Intn(3) {
		case 0:
			d.E, d.Typ = audgen.Call("count", v), tNum
		case 1:
			d.E, d.Typ = v, tArrStr
		default:
			collectOf(audgen.Call("count", v), true)
		}
	case tNum:
		switch g.r.Intn(5) {
		case 0:
			d.E, d.Typ = v, tNum
		case 1:
			d.E, d.Typ = audgen.Bin(g.pick([]string{"+", "-", "*"}), v, audgen.Num(int64(1+g.r.Intn(3)))), tNum
		case 2:
			d.E, d.Typ = audgen.Bin(g.pick([]string{">", "<=", "=="}), v, audgen.Num(int64(g.r.Intn(4)))), tBool
		case 3:
			d.E, d.Typ = audgen.Call(g.pick([]string{"abs", "floor", "ceil", "round"}), v), tNum
		default:
			collectOf(v, true)
		}
	case tNumNil:
		// nil until the source array has an element: no arithmetic on it
		if g.r.Intn(2) == 0 {
			d.E, d.Typ = v, tNumNil
		} else {
			collectOf(v, true)
		}
	case tBool:
		if g.r.Intn(2) == 0 {
			d.E, d.Typ = audgen.Not(v), tBool
		} else {
			collectOf(v, true)
		}
	default:
		d.E, d.Typ = v, src.Typ
	}
	return d
}

// config generates a chain configuration.
func (g *chainGen) config() *chainCfg {
	c := &chainCfg{Actors: []string{"x"}}
	if g.r.Intn(3) != 0 {
		c.Actors = append(c.Actors, "y")
	}
	nm := 2 + g.r.Intn(3)
	for i := 0; i < nm; i++ {
		m := &audgen.Member{Name: memberNames[i]}
		switch g.r.Intn(7) {
		case 0:
			m.CondKind = "none"
		case 1:
			m.CondKind = "throughout"
			c.Lines = append(c.Lines, m.Name+" audits throughout")
		case 2, 3, 4:
			m.CondKind = "mood"
			m.CondMood = "red"
			if g.r.Intn(4) == 0 {
				m.CondMood = "blue"
			}
			m.Cond = audgen.Bin("==", audgen.V("", "mood"), audgen.Str(m.CondMood))
		default:
			m.CondKind = "sig"
			m.CondVar = [2]string{"x", "s"}
			m.CondK = 3
			m.Cond = audgen.Bin(">", audgen.V("x", "s"), audgen.Num(m.CondK))
		}
		if m.Cond != nil {
			c.Lines = append(c.Lines, m.Name+" audits only "+g.pick([]string{"while", "when"})+" "+m.Cond.Src())
		}
		c.Members = append(c.Members, m)
	}
	nd := 2 + g.r.Intn(5)
	allowEv := g.r.Intn(4) == 0
	for i := 0; i < nd; i++ {
		name := fmt.Sprintf("v%d", i+1)
		owner := g.r.Intn(nm)
		var d *varDef
		if i == 0 || g.r.Intn(5) < 2 {
			se := g.sigExpr(c.Actors, allowEv)
			d = &varDef{Name: name, Owner: owner, Sig: &se, E: se.expr()}
			isStr := se.Kind == "ev"
			isBool := se.Kind == "gt"
			if g.r.Intn(5) == 0 {
				d.Mode = "single"
				d.Typ = tNum
				if isStr {
					d.Typ = tStr
				} else if isBool {
					d.Typ = tBool
				}
			} else {
				modes := []string{"first", "last", "top", "bottom"}
				if isStr && g.r.Intn(8) != 0 {
					modes = []string{"first", "last"}
				}
				d.Mode = g.pick(modes)
				d.N = 1 + g.r.Intn(5)
				if g.r.Intn(6) == 0 {
					d.N = 8 + g.r.Intn(3) // counts that differ when misread in another base
				}
				d.Typ = tArrNum
				if isStr {
					d.Typ = tArrStr
					if d.Mode == "top" || d.Mode == "bottom" {
						c.MayAbort = true
					}
				}
			}
		} else {
			d = g.downstream(c.Defs, name, owner)
		}
		c.Defs = append(c.Defs, d)
		m := c.Members[owner]
		var line string
		if d.Mode == "single" {
			line = fmt.Sprintf("%s computes %s as %s", m.Name, d.Name, d.E.Src())
		} else {
			line = fmt.Sprintf("%s collects %s as %s %s %s", m.Name, d.Name, d.Mode, spellN(g.r, d.N), d.E.Src())
		}
		c.Lines = append(c.Lines, line)
		m.Assigns = append(m.Assigns, audgen.Assign{Target: d.Name, Mode: d.Mode, N: d.N, E: d.E})
	}
	// an `expects` over a variable now and then
	for _, m := range c.Members {
		if g.r.Intn(5) == 0 {
			var cands []*varDef
			for _, d := range c.Defs {
				if d.Typ == tArrNum || d.Typ == tArrStr {
					cands = append(cands, d)
				}
			}
			if len(cands) > 0 {
				d := cands[g.r.Intn(len(cands))]
				m.Modality = g.pick(g.modalities)
				m.Expect = audgen.Bin("<=", audgen.Call("count", audgen.V("", d.Name)), audgen.Num(int64(1+g.r.Intn(3))))
				c.Lines = append(c.Lines, fmt.Sprintf("%s expects %s: %s", m.Name, m.Modality, m.Expect.Src()))
			}
		}
	}
	// observers
	for _, d := range c.Defs {
		if g.r.Intn(4) != 0 {
			c.Lines = append(c.Lines, "ob watches "+d.Name)
		}
	}
	if g.r.Intn(3) == 0 {
		c.Lines = append(c.Lines, "ob watches x s")
	}
	return c
}

func (c *chainCfg) text() string {
	var b strings.Builder
	b.WriteString("role r\n  :noop true\n  spotlight true\n")
	b.WriteString("  signal s scalar at (?P<ts_now>)s=(?P<scalar>\\d+)\n")
	b.WriteString("  signal e event at (?P<ts_now>)e=(?P<event>\\w+)\n")
	b.WriteString("end\ncast\n")
	for _, a := range c.Actors {
		b.WriteString("  " + a + " plays r\n")
	}
	b.WriteString("end\naudience\n")
	for _, l := range c.Lines {
		b.WriteString("  " + l + "\n")
	}
	b.WriteString("end\n")
	return b.String()
}

// history generates events split into 1-3 "on" phases: the mood is red and
// x's samples are above the threshold exactly during the on phases.
func (g *chainGen) history(c *chainCfg) []audgen.Event {
	var es []audgen.Event
	ts := int64(0)
	nOn := 1 + g.r.Intn(3)
	on := g.r.Intn(3) == 0
	phases := 2*nOn + 1
	for p := 0; p < phases; p++ {
		if p > 0 || on {
			ts += int64(g.r.Intn(3))
			mood := "red"
			if !on {
				mood = g.pick([]string{"clear", "clear", "blue"})
			}
			es = append(es, audgen.Event{Kind: "mood", TsHalf: ts, Mood: mood})
		}
		n := g.r.Intn(6)
		if on {
			n = 1 + g.r.Intn(7)
		}
		for i := 0; i < n; i++ {
			ts += int64(g.r.Intn(3))
			ev := audgen.Event{Kind: "sig", TsHalf: ts}
			for _, a := range c.Actors {
				if g.r.Intn(5) != 0 {
					v := int64(g.r.Intn(4)) // 0..3: not above the threshold
					if a == "x" && on {
						v = 4 + int64(g.r.Intn(3))
					}
					if a != "x" {
						v = int64(g.r.Intn(7))
					}
					ev.Samples = append(ev.Samples, audgen.Sample{Actor: a, Sig: "s", IsNum: true, Num: v})
				}
				if g.r.Intn(4) == 0 {
					ev.Samples = append(ev.Samples, audgen.Sample{Actor: a, Sig: "e", Str: g.pick([]string{"up", "down", "mid"})})
				}
			}
			es = append(es, ev)
		}
		on = !on
		if g.r.Intn(6) == 0 {
			// a repeated mood: no round at all
			es = append(es, audgen.Event{Kind: "mood", TsHalf: ts, Mood: lastMood(es)})
		}
	}
	es = append(es, audgen.Event{Kind: "final", TsHalf: ts + 2})
	return es
}

func lastMood(es []audgen.Event) string {
	m := "clear"
	for _, e := range es {
		if e.Kind == "mood" {
			m = e.Mood
		}
	}
	return m
}

// produced computes, for a base definition, the value of its expression in
// every signal round where its signals (and the owner's condition signal)
// were sampled: (round index = event index + 1, value).
func produced(d *varDef, owner *audgen.Member, es []audgen.Event) [][2]interface{} {
	var out [][2]interface{}
	for i, e := range es {
		if e.Kind != "sig" {
			continue
		}
		samples := map[string]interface{}{}
		for _, s := range e.Samples {
			if s.IsNum {
				samples[s.Actor+" "+s.Sig] = float64(s.Num)
			} else {
				samples[s.Actor+" "+s.Sig] = s.Str
			}
		}
		if owner.CondKind == "sig" {
			if _, ok := samples[owner.CondVar[0]+" "+owner.CondVar[1]]; !ok {
				continue
			}
		}
		v, ok := d.Sig.eval(samples)
		if !ok {
			continue
		}
		out = append(out, [2]interface{}{i + 1, v})
	}
	return out
}

func sortedKeys(m map[string]string) []string {
	var ks []string
	for k := range m {
		ks = append(ks, k)
	}
	sort.Strings(ks)
	return ks
}

type corpusChain struct {
	cfg    *chainCfg
	events []audgen.Event
}

// corpusChains are past failures, run first on every run.
//
// 1. eeee4b8: `computes w as sorted(v, 99)` shared the backing array of v
// (govaluate appends the 99 in place, sortArray returned its argument when
// nothing had to be swapped); the next `count(v, 7)` turned w's 99 into 7
// without any assignment to w.
func corpusChains() []corpusChain {
	xs := sigExpr{Kind: "sig", A: [2]string{"x", "s"}}
	v := audgen.V("", "v")
	al := &audgen.Member{Name: "al", CondKind: "throughout"}
	defs := []*varDef{
		{Name: "v", Owner: 0, Mode: "first", N: 4, Sig: &xs, E: xs.expr(), Typ: tArrNum},
		{Name: "w", Owner: 0, Mode: "single", E: audgen.Call("sorted", v, audgen.Num(99)), Typ: tArrNum},
		{Name: "c", Owner: 0, Mode: "single", E: audgen.Call("count", v, audgen.Num(7)), Typ: tNum},
	}
	c := &chainCfg{Actors: []string{"x"}, Members: []*audgen.Member{al}, Defs: defs}
	c.Lines = []string{"al audits throughout",
		"al collects v as first 4 " + defs[0].E.Src(),
		"al computes w as " + defs[1].E.Src(),
		"al computes c as " + defs[2].E.Src(),
		"ob watches w"}
	for _, d := range defs {
		al.Assigns = append(al.Assigns, audgen.Assign{Target: d.Name, Mode: d.Mode, N: d.N, E: d.E})
	}
	var es []audgen.Event
	for i, x := range []int64{1, 2, 3} {
		es = append(es, audgen.Event{Kind: "sig", TsHalf: int64(2 * (i + 1)),
			Samples: []audgen.Sample{{Actor: "x", Sig: "s", IsNum: true, Num: x}}})
	}
	es = append(es, audgen.Event{Kind: "final", TsHalf: 10})

	// 2. the expression evaluator builds an argument list with
	// append(left, right): through a stale alias (`old`, copied one round
	// late by a member visited earlier) of a collected array with spare
	// capacity it overwrote the element the collect had just appended.
	cy2 := &audgen.Member{Name: "cy", CondKind: "throughout"}
	al2 := &audgen.Member{Name: "al", CondKind: "throughout"}
	old := audgen.V("", "old")
	defs2 := []*varDef{
		{Name: "v", Owner: 1, Mode: "first", N: 4, Sig: &xs, E: xs.expr(), Typ: tArrNum},
		{Name: "old", Owner: 0, Mode: "single", E: v, Typ: tArrNum},
		{Name: "c", Owner: 1, Mode: "single", E: audgen.Call("count", old, audgen.Num(99)), Typ: tNum},
	}
	c2 := &chainCfg{Actors: []string{"x"}, Members: []*audgen.Member{cy2, al2}, Defs: defs2}
	c2.Lines = []string{"cy audits throughout", "al audits throughout",
		"al collects v as first 4 " + defs2[0].E.Src(),
		"cy computes old as " + defs2[1].E.Src(),
		"al computes c as " + defs2[2].E.Src(),
		"ob watches v"}
	al2.Assigns = []audgen.Assign{{Target: "v", Mode: "first", N: 4, E: defs2[0].E}, {Target: "c", Mode: "single", E: defs2[2].E}}
	cy2.Assigns = []audgen.Assign{{Target: "old", Mode: "single", E: defs2[1].E}}
	var es2 []audgen.Event
	for i, x := range []int64{1, 2, 3, 4} {
		es2 = append(es2, audgen.Event{Kind: "sig", TsHalf: int64(2 * (i + 1)),
			Samples: []audgen.Sample{{Actor: "x", Sig: "s", IsNum: true, Num: x}}})
	}
	es2 = append(es2, audgen.Event{Kind: "final", TsHalf: 12})
	return []corpusChain{{cfg: c, events: es}, {cfg: c2, events: es2}}
}

// ---------------------------------------------------------------- processAssignments directly

// assignClause is one clause of the auditor under test.
type assignClause struct {
	Target string
	Mode   string
	N      int
	NText  string // how N is written in the configuration ("" = plain decimal)
	E      *audgen.Expr
	Deps   []string // input variables the expression mentions
}

type assignCfg struct {
	Inputs  []string
	Clauses []assignClause
	Flat    bool
}

func (c *assignCfg) text() string {
	var b strings.Builder
	b.WriteString("role r\n  :noop true\nend\ncast\n  x plays r\nend\naudience\n")
	for _, in := range c.Inputs {
		b.WriteString("  zz computes " + in + " as t\n")
	}
	for _, cl := range c.Clauses {
		if cl.Mode == "single" {
			fmt.Fprintf(&b, "  al computes %s as %s\n", cl.Target, cl.E.Src())
		} else {
			fmt.Fprintf(&b, "  al collects %s as %s %s %s\n", cl.Target, cl.Mode, cl.nText(), cl.E.Src())
		}
	}
	b.WriteString("end\n")
	return b.String()
}

func (cl *assignClause) nText() string {
	if cl.NText != "" {
		return cl.NText
	}
	return fmt.Sprintf("%d", cl.N)
}

// spellN writes a count the way the grammar admits it: the clause's regexp
// takes any run of digits and the count is read in DECIMAL, so leading zeros
// are allowed and mean nothing (010 is ten, 09 is nine).
func spellN(r *rand.Rand, n int) string {
	switch r.Intn(6) {
	case 0:
		return fmt.Sprintf("0%d", n)
	case 1:
		return fmt.Sprintf("%0*d", 2+r.Intn(3), n)
	}
	return fmt.Sprintf("%d", n)
}

// countSpellings are collects clauses whose count is written with leading
// zeros (and a few that must be refused: the count must be at least 1).
type countSpelling struct {
	Text   string
	N      int
	Accept bool
}

var fixedSpellings = []countSpelling{
	{"010", 10, true}, {"0012", 12, true}, {"09", 9, true}, {"007", 7, true}, {"08", 8, true},
	{"019", 19, true}, {"0010", 10, true}, {"10", 10, true}, {"8", 8, true}, {"0100", 100, true}, {"01", 1, true},
	{"0", 0, false}, {"00", 0, false},
}

// spellingConfig is a single collects clause over q1 with the count written
// as given.
func spellingConfig(mode string, sp countSpelling) *assignCfg {
	return &assignCfg{Inputs: []string{"q1", "q2"}, Flat: true, Clauses: []assignClause{{
		Target: "d1", Mode: mode, N: sp.N, NText: sp.Text, E: audgen.V("", "q1"), Deps: []string{"q1"}}}}
}

func assignConfig(r *rand.Rand) *assignCfg {
	c := &assignCfg{Inputs: []string{"q1", "q2"}, Flat: r.Intn(10) < 7}
	n := 1 + r.Intn(3)
	type tv struct {
		name string
		arr  bool
	}
	var targets []tv
	for i := 0; i < n; i++ {
		cl := assignClause{Target: fmt.Sprintf("d%d", i+1)}
		q := c.Inputs[r.Intn(2)]
		qv := audgen.V("", q)
		if !c.Flat && len(targets) > 0 && r.Intn(3) != 0 {
			// a clause over an earlier target of the same member
			src := targets[r.Intn(len(targets))]
			sv := audgen.V("", src.name)
			if src.arr {
				cl.E = audgen.Call([]string{"count", "max", "first", "last", "sum"}[r.Intn(5)], sv)
			} else if r.Intn(2) == 0 {
				cl.E = sv
			} else {
				cl.E = audgen.Call("count", sv, qv)
				cl.Deps = []string{q}
			}
		} else {
			switch r.Intn(9) {
			case 0, 1:
				cl.E = qv
			case 2, 3, 4:
				cl.E = audgen.Call([]string{"first", "last", "max", "min", "sum", "avg", "med"}[r.Intn(7)], qv)
			case 5:
				cl.E = audgen.Call("count", qv)
			case 6:
				cl.E = audgen.Call([]string{"max", "first", "last", "sum"}[r.Intn(4)], audgen.V("", "q1"), audgen.V("", "q2"))
				cl.Deps = []string{"q1", "q2"}
			case 7:
				cl.E = audgen.Bin("+", qv, audgen.Num(1))
			default:
				cl.E = audgen.Call("abs", audgen.Call("first", qv))
			}
			if cl.Deps == nil {
				cl.Deps = []string{q}
			}
		}
		if r.Intn(3) == 0 {
			cl.Mode = "single"
		} else {
			cl.Mode = []string{"first", "last", "top", "bottom"}[r.Intn(4)]
			cl.N = 1 + r.Intn(4)
			cl.NText = spellN(r, cl.N)
		}
		c.Clauses = append(c.Clauses, cl)
		targets = append(targets, tv{cl.Target, cl.Mode != "single"})
	}
	return c
}

// assignInput draws the value an input is set to in a step (never nil: a
// variable cannot be activated with nil).
func assignInput(r *rand.Rand, g *valGen) interface{} {
	switch r.Intn(10) {
	case 0, 1:
		return []interface{}{}
	case 2, 3, 4, 5:
		g.pNil, g.pStr, g.pArr = 0, 0, 0
		return g.values(1 + r.Intn(4))
	case 6:
		return r.Intn(2) == 0
	case 7:
		if r.Intn(3) == 0 {
			return strPool[r.Intn(len(strPool))]
		}
		return g.pool[r.Intn(len(g.pool))]
	}
	return g.pool[r.Intn(len(g.pool))]
}
