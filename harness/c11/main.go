// Harness for C11 (collected and computed variables, array functions).
//
//  1. direct calls of the REAL collectFns[mode](a, n, x) and
//     evalFunctions[name](args...) on generated value sequences / arrays, and
//     expressions through the real compileExpr + (*audition).evalExpr;
//  2. chains of collects / computes clauses across 2-4 audience members,
//     split into 1-3 activation periods, through the real audition
//     (cmd.VerifAudition), watched by an observer.
//
// Everything observed is written as Coq terms (cases.v) for Corr/C11.v.
package main

import (
	"flag"
	"fmt"
	"math"
	"reflect"
	"strings"

	"github.com/knz/shakespeare/pkg/cmd"
	"github.com/knz/shakespeare/verifharness/audgen"
	"github.com/knz/shakespeare/verifharness/vh"
)

var modeCoq = map[string]string{"single": "ASingle", "first": "AFirst", "last": "ALast", "top": "ATop", "bottom": "ABottom"}

// ---------------------------------------------------------------- collect

type collectObs struct {
	Kind      string // arr err panic
	Arr       []interface{}
	Unchanged bool
	Text      string
}

type collectCase struct {
	Mode    string
	N       int
	Xs      []interface{}
	Obs     []collectObs
	AliasOK bool
}

func deepCopy(a []interface{}) []interface{} {
	out := make([]interface{}, len(a))
	for i, v := range a {
		if s, ok := v.([]interface{}); ok {
			out[i] = deepCopy(s)
		} else {
			out[i] = v
		}
	}
	return out
}

func runCollect(mode string, n int, xs []interface{}) collectCase {
	c := collectCase{Mode: mode, N: n, AliasOK: true}
	a := []interface{}{}
	var returned, snaps [][]interface{}
	for _, x := range xs {
		c.Xs = append(c.Xs, x)
		res, errT, panicT := cmd.VerifC11Collect(mode, a, n, x)
		if panicT != "" {
			c.Obs = append(c.Obs, collectObs{Kind: "panic", Text: panicT})
			break
		}
		if errT != "" {
			c.Obs = append(c.Obs, collectObs{Kind: "err", Text: errT, Unchanged: reflect.DeepEqual(res, a) && len(res) == len(a)})
			continue
		}
		c.Obs = append(c.Obs, collectObs{Kind: "arr", Arr: deepCopy(res)})
		returned = append(returned, res)
		snaps = append(snaps, deepCopy(res))
		a = res
		// no array handed out earlier may have changed (shared backing arrays)
		for i := range returned {
			if len(returned[i]) != len(snaps[i]) || (len(snaps[i]) > 0 && !reflect.DeepEqual(returned[i], snaps[i])) {
				c.AliasOK = false
			}
		}
	}
	return c
}

func (c *collectCase) coq() (string, bool) {
	xs, ok := coqVals(c.Xs)
	var obs []string
	for _, o := range c.Obs {
		switch o.Kind {
		case "arr":
			s, o2 := coqVals(o.Arr)
			ok = ok && o2
			obs = append(obs, "CoArr "+s)
		case "err":
			obs = append(obs, "CoErr "+vh.Bool(o.Unchanged))
		default:
			obs = append(obs, "CoPanic")
		}
	}
	return fmt.Sprintf("{| cc_mode := %s; cc_n := %d; cc_xs := %s; cc_obs := [%s]; cc_alias_ok := %s |}",
		modeCoq[c.Mode], c.N, xs, strings.Join(obs, "; "), vh.Bool(c.AliasOK)), ok
}

// ---------------------------------------------------------------- functions

type fnCase struct {
	Name string
	Args []interface{}
	Kind string // val err panic
	Val  interface{}
	Text string
}

func runFn(name string, args []interface{}) fnCase {
	c := fnCase{Name: name, Args: deepCopy(args)}
	res, errT, panicT, known := cmd.VerifC11Func(name, args)
	switch {
	case !known:
		c.Kind, c.Text = "panic", "unknown function"
	case panicT != "":
		c.Kind, c.Text = "panic", panicT
	case errT != "":
		c.Kind, c.Text = "err", errT
	default:
		c.Kind = "val"
		if s, ok := res.([]interface{}); ok {
			c.Val = deepCopy(s)
		} else if nonFinite(res) {
			// never the mathematically defined result on finite arguments
			c.Kind, c.Text = "panic", fmt.Sprintf("non-finite result %v", res)
		} else {
			c.Val = res
		}
	}
	return c
}

func nonFinite(v interface{}) bool {
	f, ok := v.(float64)
	return ok && (math.IsNaN(f) || math.IsInf(f, 0))
}

func obsCoq(prefix, kind string, v interface{}) (string, bool) {
	switch kind {
	case "val":
		s, ok := coqVal(v)
		return "(" + prefix + "Val " + s + ")", ok
	case "err":
		return prefix + "Err", true
	}
	return prefix + "Panic", true
}

func (c *fnCase) coq() (string, bool) {
	args, ok := coqVals(c.Args)
	o, ok2 := obsCoq("Fo", c.Kind, c.Val)
	return fmt.Sprintf("{| fc_name := %s; fc_args := %s; fc_obs := %s |}", coqStr(c.Name), args, o), ok && ok2
}

// ---------------------------------------------------------------- expressions

type exprCase struct {
	Src   string
	Coq   string
	Env   map[string]interface{}
	Kind  string
	Val   interface{}
	Text  string
	Model bool
}

func envCoq(env map[string]interface{}) (string, bool) {
	ok := true
	var items []string
	keys := make(map[string]string)
	for k := range env {
		keys[k] = ""
	}
	for _, k := range sortedKeys(keys) {
		s, o := coqVal(env[k])
		ok = ok && o
		items = append(items, "("+audgen.CoqVar(audgen.ParseVarString(k))+", "+s+")")
	}
	return "[" + strings.Join(items, "; ") + "]", ok
}

func runExpr(ev *cmd.VerifC11Evaluator, e *audgen.Expr, env map[string]interface{}) (exprCase, bool) {
	c := exprCase{Src: e.Src(), Coq: e.Coq(), Env: env, Model: true}
	res, compErr, evalErr, panicT := ev.Eval(c.Src, env)
	switch {
	case compErr != "":
		return c, false
	case panicT != "":
		c.Kind, c.Text = "panic", panicT
	case evalErr != "":
		c.Kind, c.Text = "err", evalErr
	default:
		c.Kind = "val"
		if s, ok := res.([]interface{}); ok {
			c.Val = deepCopy(s)
		} else if nonFinite(res) {
			c.Kind, c.Text = "panic", fmt.Sprintf("non-finite result %v", res)
		} else {
			c.Val = res
		}
	}
	return c, true
}

func (c *exprCase) coq() (string, bool) {
	env, ok := envCoq(c.Env)
	o, ok2 := obsCoq("Eo", c.Kind, c.Val)
	return fmt.Sprintf("{| ec_expr := %s; ec_env := %s; ec_obs := %s; ec_model := %s |}", c.Coq, env, o, vh.Bool(c.Model)), ok && ok2
}

// ---------------------------------------------------------------- processAssignments

// clauseCase: was a clause accepted by the real parser?
type clauseCase struct {
	Cfg            string
	Written        string // the count as written
	Decimal        int    // its decimal reading
	Mode           string
	ExpectAccepted bool
	Accepted       bool
	Err            string
}

type assignCase struct {
	Cfg      string
	Flat     bool
	Steps    [][]cmd.VerifC11In
	Results  []cmd.VerifC11StepResult
	Produced [][]interface{}
}

// ---------------------------------------------------------------- chains

type chainCase struct {
	Cfg      string
	Events   []audgen.Event
	Result   cmd.VerifAuditionResult
	Specs    []map[string]interface{}
	Watched  []string
	MayAbort bool
}

func shapeCoq(m *audgen.Member) string {
	switch m.CondKind {
	case "none", "throughout":
		return "CThroughout"
	case "mood":
		return "(CMoodIs " + coqStr(m.CondMood) + ")"
	case "sig":
		return fmt.Sprintf("(CSigGt %s %s)", audgen.CoqVar(m.CondVar), audgen.CoqQ(m.CondK, 1))
	}
	return "COther"
}

func main() {
	seed := flag.Int64("seed", 1, "")
	tier := flag.String("tier", "quick", "")
	out := flag.String("out", ".", "")
	shard := flag.Int("shard", 0, "")
	nshards := flag.Int("nshards", 1, "")
	flag.Parse()
	// every random choice derives from this one source (one per shard)
	rng := vh.Rng(*seed*1000 + int64(*shard))
	defer cmd.VerifLogScope()()

	nCollect, nFn, nExpr, nChain, nAssign := 500, 700, 350, 220, 300
	nNf := 120
	if *tier == "thorough" {
		nCollect, nFn, nExpr, nChain, nAssign = 24000, 30000, 15000, 10000, 14000
		nNf = 6000
	}
	if *nshards > 1 {
		nCollect, nFn, nExpr, nChain, nAssign = nCollect / *nshards, nFn / *nshards, nExpr / *nshards, nChain / *nshards, nAssign / *nshards
		nNf = nNf / *nshards
	}
	stats := map[string]int{}
	distinct := map[string]bool{}
	nontriv := 0
	note := func(key string, nt bool) {
		if !distinct[key] {
			distinct[key] = true
			if nt {
				nontriv++
			}
		}
	}

	// ---- 1a. collect functions
	var collectItems []string
	var collectCases []collectCase
	for i := 0; i < nCollect; i++ {
		g := newValGen(rng, false)
		g.pNil, g.pBool = 0.15, 0.12
		if i%5 == 0 {
			g.pStr = 0.06
		}
		if i%11 == 0 {
			g.pArr = 0.03
		}
		mode := []string{"first", "last", "top", "bottom"}[rng.Intn(4)]
		n := 1 + rng.Intn(5)
		xs := g.values(rng.Intn(31))
		c := runCollect(mode, n, xs)
		s, ok := c.coq()
		if !ok {
			stats["collect-unrepresentable"]++
			continue
		}
		collectItems = append(collectItems, s)
		collectCases = append(collectCases, c)
		stats["collect-"+mode]++
		for _, o := range c.Obs {
			stats["collect-step-"+o.Kind]++
		}
		note("c"+s, len(xs) > n+1)
	}

	// ---- 1b. array / scalar functions
	var fnItems []string
	var fnCases []fnCase
	addFn := func(name string, args []interface{}) {
		c := runFn(name, args)
		s, ok := c.coq()
		if !ok {
			stats["fn-unrepresentable"]++
			return
		}
		fnItems = append(fnItems, s)
		fnCases = append(fnCases, c)
		stats["fn-"+name]++
		stats["fn-result-"+c.Kind]++
		note("f"+s, len(args) >= 2)
	}
	// the witnesses of the refuted statements, replayed on the real functions
	addFn("count", []interface{}{nil, 1.0})
	addFn("first", []interface{}{nil, 1.0})
	addFn("last", []interface{}{1.0, nil})
	addFn("sorted", []interface{}{nil, 1.0})
	arrNames := []string{"count", "first", "last", "sorted", "sum", "avg", "med", "min", "max", "average", "median"}
	scalNames := []string{"abs", "floor", "ceil", "round"}
	for i := 0; i < nFn; i++ {
		if i%5 == 4 {
			name := scalNames[rng.Intn(len(scalNames))]
			var args []interface{}
			x := float64(rng.Intn(41)-20) / 4
			if rng.Intn(3) == 0 {
				x = float64(rng.Intn(15)-7) + 0.5 // ties of round
			}
			switch rng.Intn(9) {
			case 0:
			case 1:
				args = []interface{}{nil}
			case 2:
				args = []interface{}{rng.Intn(2) == 0}
			case 3:
				args = []interface{}{x, 1.0}
			case 4:
				args = []interface{}{"up"}
			default:
				args = []interface{}{x}
			}
			addFn(name, args)
			continue
		}
		name := arrNames[rng.Intn(len(arrNames))]
		if i%7 == 3 {
			// windows of boolean verdicts: all false, all true, mixed,
			// possibly next to negative numbers and nils only
			name = []string{"min", "max", "sum", "avg", "med", "max", "min"}[rng.Intn(7)]
			var args []interface{}
			kind := rng.Intn(3)
			for k := 1 + rng.Intn(5); k > 0; k-- {
				switch {
				case rng.Intn(5) == 0:
					args = append(args, nil)
				case rng.Intn(4) == 0:
					args = append(args, []float64{-3.25, -2, -1, -0.5}[rng.Intn(4)])
				default:
					args = append(args, kind == 1 || (kind == 2 && rng.Intn(2) == 0))
				}
			}
			addFn(name, args)
			continue
		}
		withBools := rng.Intn(3) == 0
		g := newValGen(rng, name == "sorted" && withBools)
		g.pNil = []float64{0, 0.1, 0.3}[rng.Intn(3)]
		if withBools {
			g.pBool = 0.2
		}
		if rng.Intn(6) == 0 || ((name == "sorted" || name == "count" || name == "first" || name == "last") && rng.Intn(3) == 0) {
			g.pStr = 0.15
		}
		if rng.Intn(25) == 0 && name != "sorted" {
			g.pArr = 0.1
		}
		addFn(name, g.values(rng.Intn(13)))
	}

	// ndiff / normalized_difference: relative distance to the reference (the
	// second argument), also for NEGATIVE references (own random stream, so
	// that the cases above stay what they were)
	{
		r2 := vh.Rng(*seed*1000 + int64(*shard) + 500000007)
		addFn("ndiff", []interface{}{-75.0, -100.0})
		addFn("normalized_difference", []interface{}{-75.0, -100.0})
		addFn("ndiff", []interface{}{3.0, -2.0})
		addFn("ndiff", []interface{}{nil, -1.0})
		addFn("ndiff", []interface{}{1.0, nil})
		addFn("ndiff", []interface{}{1.0})
		addFn("ndiff", []interface{}{1.0, 2.0, 3.0})
		addFn("ndiff", []interface{}{true, -2.0})
		addFn("normalized_difference", []interface{}{"up", -1.0})
		for i := 0; i < nFn/12; i++ {
			name := []string{"ndiff", "normalized_difference"}[r2.Intn(2)]
			x := dyadics[r2.Intn(len(dyadics))] * float64(1+r2.Intn(40))
			y := dyadics[r2.Intn(len(dyadics))] * float64(1+r2.Intn(40))
			if r2.Intn(2) == 0 && y > 0 {
				y = -y
			}
			if y == 0 && r2.Intn(4) != 0 {
				y = -0.5
			}
			switch r2.Intn(12) {
			case 0:
				addFn(name, []interface{}{nil, y})
			case 1:
				addFn(name, []interface{}{x, nil})
			case 2:
				addFn(name, []interface{}{x, y, 1.0})
			default:
				addFn(name, []interface{}{x, y})
			}
		}
	}

	// ---- 1c. expressions through the real evaluator
	ev := cmd.VerifC11NewEvaluator()
	var exprItems []string
	var exprCases []exprCase
	addExpr := func(e *audgen.Expr, env map[string]interface{}) {
		c, ok := runExpr(ev, e, env)
		if !ok {
			stats["expr-compile-refused"]++
			return
		}
		s, ok := c.coq()
		if !ok {
			stats["expr-unrepresentable"]++
			return
		}
		exprItems = append(exprItems, s)
		exprCases = append(exprCases, c)
		stats["expr-result-"+c.Kind]++
		if !c.Model {
			stats["expr-oracle-only"]++
		}
		note("e"+s, strings.Count(c.Src, "(") >= 2)
	}
	baseEnv := func(g *valGen) map[string]interface{} {
		return map[string]interface{}{
			"v": g.values(rng.Intn(6)), "w": g.values(1 + rng.Intn(4)), "e": []interface{}{},
			"n": g.pool[0], "x s": float64(rng.Intn(7)),
		}
	}
	{
		g := newValGen(rng, false)
		env := baseEnv(g)
		e := audgen.V("", "e")
		nilE := audgen.Call("first", e)
		for _, x := range []*audgen.Expr{
			audgen.Call("count", nilE, audgen.Num(1)),
			audgen.Call("first", nilE, audgen.Num(1)),
			audgen.Call("last", audgen.Num(1), nilE),
			audgen.Call("sorted", nilE, audgen.Num(1)),
			audgen.Call("count", nilE),
			audgen.Call("sorted", nilE),
			audgen.Call("count", audgen.V("", "v"), audgen.Num(1)),
			audgen.Call("max", audgen.Call("first", audgen.V("", "w")), audgen.Num(3)),
			audgen.Call("count", audgen.Num(1), audgen.V("", "v")),
			audgen.Call("count"),
		} {
			addExpr(x, env)
		}
	}
	for i := 0; i < nExpr; i++ {
		g := newValGen(rng, false)
		if rng.Intn(3) == 0 {
			g.pBool = 0.2
		}
		env := baseEnv(g)
		eg := &exprGen{r: rng, arrs: []string{"v", "w"}}
		addExpr(eg.expr(), env)
	}
	ev.Close()
	ev2 := cmd.VerifC11NewEvaluator()

	// ---- 1d. processAssignments directly
	var assignItems []string
	var assignCases []assignCase
	// the clause-level tie: the count as WRITTEN (leading zeros, decimal) is
	// the count the clause keeps; a count of zero is refused
	var clauseCases []clauseCase
	type assignJob struct {
		c        *assignCfg
		steps    [][]cmd.VerifC11In
		spelling *countSpelling
	}
	var jobs []assignJob
	modes4 := []string{"first", "last", "top", "bottom"}
	var spells []countSpelling
	spells = append(spells, fixedSpellings...)
	for i := 0; i < 12; i++ {
		n := 1 + rng.Intn(20)
		spells = append(spells, countSpelling{Text: fmt.Sprintf("%0*d", 1+rng.Intn(5), n), N: n, Accept: true})
	}
	for i := range spells {
		sp := spells[i]
		mode := modes4[(i+int(*seed))%4]
		if sp.N > 30 {
			mode = "last"
		}
		var steps [][]cmd.VerifC11In
		for k := 0; k < sp.N+4; k++ {
			// distinct values with a few ties, neither ascending nor descending
			v := float64((k*7)%(sp.N+5)) / 2
			steps = append(steps, []cmd.VerifC11In{{Name: "q1", Val: v}})
		}
		jobs = append(jobs, assignJob{c: spellingConfig(mode, sp), steps: steps, spelling: &spells[i]})
	}
	for i := 0; i < nAssign; i++ {
		c := assignConfig(rng)
		g := newValGen(rng, false)
		g.pBool = 0.15
		nsteps := 3 + rng.Intn(12)
		var steps [][]cmd.VerifC11In
		for k := 0; k < nsteps; k++ {
			var st []cmd.VerifC11In
			for _, in := range c.Inputs {
				if rng.Intn(10) < 7 {
					st = append(st, cmd.VerifC11In{Name: in, Val: assignInput(rng, g)})
				}
			}
			steps = append(steps, st)
		}
		jobs = append(jobs, assignJob{c: c, steps: steps})
	}
	for _, job := range jobs {
		c, steps := job.c, job.steps
		nsteps := len(steps)
		text := c.text()
		res := cmd.VerifC11Assign(text, "al", c.Inputs, steps)
		if job.spelling != nil {
			clauseCases = append(clauseCases, clauseCase{Cfg: text, Written: job.spelling.Text, Decimal: job.spelling.N,
				Mode: c.Clauses[0].Mode, ExpectAccepted: job.spelling.Accept, Accepted: res.ParseErr == "", Err: res.ParseErr})
			stats["clause-count-spellings"]++
		} else if res.ParseErr != "" {
			// every generated configuration is valid by construction
			clauseCases = append(clauseCases, clauseCase{Cfg: text, ExpectAccepted: true, Accepted: false, Err: res.ParseErr})
		}
		if res.ParseErr != "" {
			stats["assign-parse-rejected"]++
			continue
		}
		ac := assignCase{Cfg: text, Flat: c.Flat, Steps: steps, Results: res.Steps}
		var clauses []string
		for _, cl := range c.Clauses {
			clauses = append(clauses, fmt.Sprintf("{| as_target := %s; as_mode := %s; as_n := %d; as_expr := %s |}",
				coqStr(cl.Target), modeCoq[cl.Mode], cl.N, cl.E.Coq()))
		}
		ok := true
		var stepItems []string
		for k, st := range steps {
			sr := res.Steps[k]
			var ins []string
			env := map[string]interface{}{}
			for _, in := range st {
				s, o := coqVal(in.Val)
				ok = ok && o
				ins = append(ins, "("+audgen.CoqVar([2]string{"", in.Name})+", "+s+")")
				env[in.Name] = in.Val
			}
			status := 0
			if sr.Panic != "" {
				status = 2
			} else if sr.Err != "" {
				status = 1
			}
			stats[fmt.Sprintf("assign-step-status-%d", status)]++
			var vals, acts, prods []string
			var prodJSON []interface{}
			for _, cl := range c.Clauses {
				s, o := coqVal(sr.Vals[cl.Target])
				ok = ok && o
				vals = append(vals, "("+audgen.CoqVar([2]string{"", cl.Target})+", "+s+")")
				acts = append(acts, "("+audgen.CoqVar([2]string{"", cl.Target})+", "+vh.Bool(sr.Act[cl.Target])+")")
				if c.Flat {
					fresh := true
					for _, d := range cl.Deps {
						if _, present := env[d]; !present {
							fresh = false
						}
					}
					if !fresh {
						prods = append(prods, "PNot")
						prodJSON = append(prodJSON, "not-evaluated")
						continue
					}
					r, ce, ee, p := ev2.Eval(cl.E.Src(), env)
					if ce != "" || ee != "" || p != "" {
						prods = append(prods, "PErr")
						prodJSON = append(prodJSON, "error: "+ce+ee+p)
					} else {
						s, o := coqVal(r)
						ok = ok && o
						prods = append(prods, "(PVal "+s+")")
						prodJSON = append(prodJSON, r)
					}
				}
			}
			ac.Produced = append(ac.Produced, prodJSON)
			stepItems = append(stepItems, fmt.Sprintf("{| st_in := [%s]; st_status := %d; st_vals := [%s]; st_act := [%s]; st_produced := [%s] |}",
				strings.Join(ins, "; "), status, strings.Join(vals, "; "), strings.Join(acts, "; "), strings.Join(prods, "; ")))
		}
		if !ok {
			stats["assign-unrepresentable"]++
			continue
		}
		acfg := &audgen.Config{}
		item := fmt.Sprintf("{| as_cfg := %s;\n     as_inputs := [(\"\", \"q1\"); (\"\", \"q2\")];\n     as_clauses := [%s];\n     as_steps := [%s];\n     as_flat := %s |}",
			acfg.CoqCfg(nil, res.Watchers, res.ArrayVars), strings.Join(clauses, "; "), strings.Join(stepItems, ";\n       "), vh.Bool(c.Flat))
		assignItems = append(assignItems, item)
		assignCases = append(assignCases, ac)
		if c.Flat {
			stats["assign-flat"]++
		} else {
			stats["assign-chained"]++
		}
		note("a"+item, len(c.Clauses) >= 2 && nsteps >= 5)
	}
	ev2.Close()

	// ---- 2. chains through the real audition
	cg := &chainGen{r: rng, modalities: cmd.VerifModalities()}
	var chainItems []string
	var chainCases []chainCase
	corpus := corpusChains()
	for i := 0; i < nChain+len(corpus); i++ {
		var c *chainCfg
		var es []audgen.Event
		if i < len(corpus) {
			c, es = corpus[i].cfg, corpus[i].events
		} else {
			c = cg.config()
			es = cg.history(c)
		}
		text := c.text()
		sinks, perr := cmd.VerifSinks(text)
		if perr != "" {
			stats["chain-parse-rejected"]++
			clauseCases = append(clauseCases, clauseCase{Cfg: text, ExpectAccepted: true, Accepted: false, Err: perr})
			continue
		}
		es = audgen.FilterSinks(es, sinks)
		res := cmd.VerifAudition(text, audgen.ToVerifEvents(es), false, false)
		if res.ParseErr != "" {
			stats["chain-parse-rejected"]++
			clauseCases = append(clauseCases, clauseCase{Cfg: text, ExpectAccepted: true, Accepted: false, Err: res.ParseErr})
			continue
		}
		coll, judge := audgen.CoqOuts(res.Outs, len(es))
		var evs []string
		for k := range es {
			evs = append(evs, es[k].Coq())
		}
		var shapes []string
		byName := map[string]*audgen.Member{}
		for _, m := range c.Members {
			byName[m.Name] = m
			if m.HasState() {
				shapes = append(shapes, "("+coqStr(m.Name)+", "+shapeCoq(m)+")")
				stats["chain-cond-"+m.CondKind]++
			}
		}
		ac := &audgen.Config{Actors: c.Actors, Members: c.Members}
		aud := fmt.Sprintf("{| k_cfg := %s;\n     k_events := [%s];\n     k_coll := [%s];\n     k_judge := [%s];\n     k_status := %d;\n     k_shapes := [%s] |}",
			ac.CoqCfg(res.Members, res.Watchers, res.ArrayVars), strings.Join(evs, "; "),
			strings.Join(coll, "; "), strings.Join(judge, "; "), audgen.Status(&res), strings.Join(shapes, "; "))
		// final values
		var vals []string
		for _, k := range sortedKeys(res.Vals) {
			if k == "t" || k == "mood" || k == "moodt" {
				continue
			}
			vals = append(vals, "("+audgen.CoqVar(audgen.ParseVarString(k))+", "+audgen.CoqObsValue(1, res.Vals[k])+")")
		}
		// oracle-eligible variables and what their expressions produced
		var specs []string
		var specsJSON []map[string]interface{}
		okAll := true
		for _, d := range c.Defs {
			if d.Sig == nil {
				stats["chain-def-downstream"]++
				continue
			}
			stats["chain-def-base-"+d.Mode]++
			owner := c.Members[d.Owner]
			pr := produced(d, owner, es)
			var ps []string
			for _, p := range pr {
				s, ok := coqVal(p[1])
				okAll = okAll && ok
				ps = append(ps, fmt.Sprintf("(%d%%nat, %s)", p[0].(int), s))
			}
			specs = append(specs, fmt.Sprintf("{| v_var := %s; v_owner := %s; v_mode := %s; v_n := %d; v_produced := [%s] |}",
				coqStr(d.Name), coqStr(owner.Name), modeCoq[d.Mode], d.N, strings.Join(ps, "; ")))
			specsJSON = append(specsJSON, map[string]interface{}{"var": d.Name, "owner": owner.Name, "mode": d.Mode, "n": d.N, "produced": pr})
		}
		if !okAll {
			stats["chain-unrepresentable"]++
			continue
		}
		var watched []string
		var watchedCoq []string
		for _, d := range c.Defs {
			if len(res.Watchers[d.Name]) > 0 {
				watched = append(watched, d.Name)
				watchedCoq = append(watchedCoq, coqStr(d.Name))
			}
		}
		chainItems = append(chainItems, fmt.Sprintf("{| h_aud := %s;\n     h_vals := [%s];\n     h_specs := [%s];\n     h_may_abort := %s;\n     h_watched := [%s] |}",
			aud, strings.Join(vals, "; "), strings.Join(specs, ";\n       "), vh.Bool(c.MayAbort), strings.Join(watchedCoq, "; ")))
		chainCases = append(chainCases, chainCase{Cfg: text, Events: es, Result: res, Specs: specsJSON, Watched: watched, MayAbort: c.MayAbort})
		stats[fmt.Sprintf("chain-status-%d", audgen.Status(&res))]++
		stats["chain-members"] += len(res.Members)
		nstart, nobs := 0, 0
		for _, o := range res.Outs {
			if o.Kind == "judge" && strings.HasSuffix(o.Text, " starts auditing") {
				nstart++
			}
			if o.Kind == "obs" && !strings.Contains(o.Var, " ") {
				nobs++
			}
		}
		stats["chain-periods"] += nstart
		stats["chain-var-observations"] += nobs
		stats["chain-events"] += len(es)
		note("h"+text+fmt.Sprint(es), nobs >= 3 && nstart >= 2)
	}

	// ---- 1f. non-finite values as ordinary values (judged in Go, see nonfinite.go)
	var nfCases []nfCase
	nfCases = append(nfCases, nfCollectCases(rng, nNf, stats)...)
	nfCases = append(nfCases, nfAssignCases(rng, nNf+nNf/4, stats)...)
	nfCases = append(nfCases, nfAuditionCases(rng, nNf*2/3, stats)...)
	// computed arrays built with the comma operator (judged in Go, see tuples.go; own random stream)
	nfCases = append(nfCases, tupleCases(vh.Rng(*seed*1000+int64(*shard)+700000001), nNf/2, stats)...)
	nfBad := 0
	for _, c := range nfCases {
		if !c.Ok {
			nfBad++
		}
		if c.Pinned {
			stats["nonfinite-pinned-nan"]++
		}
		note("n"+fmt.Sprint(c.Input), true)
	}
	stats["nonfinite-failing"] = nfBad

	vh.WriteFile(*out, "cases.v",
		"Definition collect_cases : list collect_case := "+vh.ListNL(collectItems)+".\n"+
			"Definition fn_cases : list fn_case := "+vh.ListNL(fnItems)+".\n"+
			"Definition expr_cases : list expr_case := "+vh.ListNL(exprItems)+".\n"+
			"Definition assign_cases : list assign_case := "+vh.ListNL(assignItems)+".\n"+
			"Definition chain_cases : list chain_case := "+vh.ListNL(chainItems)+".\n")
	vh.WriteJSON(*out, "cases.json", map[string]interface{}{
		"collect": collectCases, "fn": fnCases, "expr": exprCases, "assign": assignCases, "chain": chainCases, "clause": clauseCases, "nonfinite": nfCases})
	var samples []interface{}
	if len(collectCases) > 0 {
		samples = append(samples, map[string]interface{}{"kind": "collect", "case": collectCases[len(collectCases)/2]})
	}
	if len(exprCases) > 0 {
		c := exprCases[len(exprCases)/2]
		samples = append(samples, map[string]interface{}{"kind": "expr", "src": c.Src, "env": c.Env, "result": c.Val, "result_kind": c.Kind})
	}
	if len(chainCases) > 0 {
		c := chainCases[len(chainCases)/2]
		samples = append(samples, map[string]interface{}{"kind": "chain", "config": c.Cfg, "events": c.Events, "final": c.Result.Vals})
	}
	vh.WriteJSON(*out, "summary.json", map[string]interface{}{
		"collect": len(collectCases), "fn": len(fnCases), "expr": len(exprCases), "assign": len(assignCases), "chain": len(chainCases), "clause": len(clauseCases), "nonfinite": len(nfCases),
		"cases": len(collectCases) + len(fnCases) + len(exprCases) + len(assignCases) + len(chainCases),
		"distinct_nontrivial": nontriv, "stats": stats, "samples": samples,
	})
}
