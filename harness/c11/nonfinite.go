package main

// Non-finite values (+Inf, -Inf, NaN) flowing through collects / computes as
// ordinary values.  The rationals of the Coq model cannot hold them, so these
// cases are judged here, in Go, against a reference written from the plain
// meaning: first / last N keep them positionally; top / bottom N order them
// as the extended reals (+Inf largest, -Inf smallest; sort + truncate); a
// computes variable holds the latest non-nil value, and an infinity or a NaN
// IS a value.  Where NaN makes "largest" meaningless the reference pins what
// the unchanged code does (Go's >= / <= are false on NaN, so NaN is inserted
// in front and later values are inserted before it; reflect.DeepEqual(NaN,
// NaN) is false, so every assignment of NaN is observed as a change): those
// cases are marked Pinned.

import (
	"fmt"
	"math"
	"math/rand"
	"reflect"
	"sort"
	"strings"

	"github.com/knz/shakespeare/pkg/cmd"
)

type nfCase struct {
	Family   string // collect assign audition
	Input    interface{}
	Expected interface{}
	Observed interface{}
	Ok       bool
	Pinned   bool // the expectation involves NaN: pinned behaviour of the unchanged code
	What     string
}

// jsonable renders non-finite floats as strings (encoding/json refuses them).
func jsonable(v interface{}) interface{} {
	switch x := v.(type) {
	case float64:
		if math.IsNaN(x) || math.IsInf(x, 0) {
			return fmt.Sprintf("%v", x)
		}
		return x
	case []interface{}:
		out := make([]interface{}, len(x))
		for i := range x {
			out[i] = jsonable(x[i])
		}
		return out
	case map[string]interface{}:
		out := map[string]interface{}{}
		for k, e := range x {
			out[k] = jsonable(e)
		}
		return out
	case []map[string]interface{}:
		out := make([]interface{}, len(x))
		for i := range x {
			out[i] = jsonable(x[i])
		}
		return out
	}
	return v
}

// nfEqual is deep equality with NaN equal to NaN.
func nfEqual(a, b interface{}) bool {
	switch x := a.(type) {
	case float64:
		y, ok := b.(float64)
		return ok && (x == y || (math.IsNaN(x) && math.IsNaN(y)))
	case []interface{}:
		y, ok := b.([]interface{})
		if !ok || len(x) != len(y) {
			return false
		}
		for i := range x {
			if !nfEqual(x[i], y[i]) {
				return false
			}
		}
		return true
	}
	return reflect.DeepEqual(a, b)
}

func hasNaN(vals []interface{}) bool {
	for _, v := range vals {
		if f, ok := v.(float64); ok && math.IsNaN(f) {
			return true
		}
	}
	return false
}

func asFloat(v interface{}) float64 {
	switch x := v.(type) {
	case float64:
		return x
	case bool:
		if x {
			return 1
		}
	}
	return 0
}

// refCollect: what a collected variable must hold after the accepted non-nil
// values vals (in order of arrival).
func refCollect(mode string, n int, vals []interface{}) []interface{} {
	out := []interface{}{}
	switch mode {
	case "first":
		for i := 0; i < len(vals) && i < n; i++ {
			out = append(out, vals[i])
		}
	case "last":
		i := len(vals) - n
		if i < 0 {
			i = 0
		}
		out = append(out, vals[i:]...)
	case "top", "bottom":
		fs := make([]float64, len(vals))
		for i, v := range vals {
			fs[i] = asFloat(v)
		}
		if !hasNaN(vals) {
			// the extended reals are totally ordered: sort, keep N
			sort.SliceStable(fs, func(i, j int) bool {
				if mode == "top" {
					return fs[i] > fs[j]
				}
				return fs[i] < fs[j]
			})
			if len(fs) > n {
				fs = fs[:n]
			}
			for _, f := range fs {
				out = append(out, f)
			}
			return out
		}
		// pinned: insertion behind the leading elements that compare >=
		// (<=) with the new one, then truncation
		var cur []float64
		for _, f := range fs {
			i := 0
			for i < len(cur) && ((mode == "top" && cur[i] >= f) || (mode == "bottom" && cur[i] <= f)) {
				i++
			}
			next := append([]float64{}, cur[:i]...)
			next = append(next, f)
			next = append(next, cur[i:]...)
			if len(next) > n {
				next = next[:n]
			}
			cur = next
		}
		for _, f := range cur {
			out = append(out, f)
		}
	}
	return out
}

var nfPool = []float64{math.Inf(1), math.Inf(-1), math.NaN(), 0, 1, -1, 2.5, 0.25, -3.25, 4}

func nfValue(r *rand.Rand, allowNaN bool) interface{} {
	switch r.Intn(12) {
	case 0:
		return nil
	case 1:
		return r.Intn(2) == 0
	}
	for {
		f := nfPool[r.Intn(len(nfPool))]
		if allowNaN || !math.IsNaN(f) {
			return f
		}
	}
}

// nfCollectCases: the real collectFns on sequences with non-finite values.
func nfCollectCases(r *rand.Rand, n int, stats map[string]int) []nfCase {
	var out []nfCase
	for i := 0; i < n; i++ {
		mode := []string{"first", "last", "top", "bottom"}[r.Intn(4)]
		N := 1 + r.Intn(4)
		allowNaN := i%3 == 0
		var xs []interface{}
		for k := r.Intn(12); k > 0; k-- {
			xs = append(xs, nfValue(r, allowNaN))
		}
		c := runCollect(mode, N, xs)
		ok := len(c.Obs) == len(xs) // (runCollect's alias check uses DeepEqual, which NaN defeats)
		var seen []interface{}
		var exp []interface{}
		for k, x := range xs {
			if x != nil {
				seen = append(seen, x)
			}
			exp = refCollect(mode, N, seen)
			if k >= len(c.Obs) || c.Obs[k].Kind != "arr" || !nfEqual(c.Obs[k].Arr, exp) {
				ok = false
			}
		}
		var obs []interface{}
		for _, o := range c.Obs {
			obs = append(obs, map[string]interface{}{"kind": o.Kind, "arr": o.Arr, "text": o.Text})
		}
		stats["nonfinite-collect"]++
		out = append(out, nfCase{Family: "collect", Ok: ok, Pinned: hasNaN(xs) && (mode == "top" || mode == "bottom"),
			Input:    jsonable(map[string]interface{}{"mode": mode, "n": N, "values": xs}),
			Expected: jsonable(exp), Observed: jsonable(obs),
			What:     fmt.Sprintf("collectFns[%s] N=%d on a sequence with infinities / NaN", mode, N)})
	}
	return out
}

// ---- flows through the real processAssignments

type nfClause struct {
	Target string
	Mode   string
	N      int
	Src    string
	Kind   string // inv neginv ratio id fn
	Fn     string // fn: count max min
	Of     string // fn: the array target it reads
}

func refFn(fn string, arr []interface{}) interface{} {
	switch fn {
	case "count":
		return float64(len(arr))
	case "max":
		if len(arr) == 0 {
			return nil
		}
		m := math.Inf(-1)
		for _, v := range arr {
			if x := asFloat(v); x > m {
				m = x
			}
		}
		return m
	case "min":
		if len(arr) == 0 {
			return nil
		}
		m := math.Inf(1)
		for _, v := range arr {
			if x := asFloat(v); x < m {
				m = x
			}
		}
		return m
	}
	panic("refFn")
}

func nfAssignCases(r *rand.Rand, n int, stats map[string]int) []nfCase {
	var out []nfCase
	for i := 0; i < n; i++ {
		var cls []nfClause
		nc := 1 + r.Intn(3)
		var arrays []string
		for k := 0; k < nc; k++ {
			cl := nfClause{Target: fmt.Sprintf("d%d", k+1)}
			cl.Kind = []string{"inv", "neginv", "ratio", "id", "inv"}[r.Intn(5)]
			switch cl.Kind {
			case "inv":
				cl.Src = "1 / q1"
			case "neginv":
				cl.Src = "-1 / q1"
			case "ratio":
				cl.Src = "q2 / q1"
			default:
				cl.Src = "q1"
			}
			if r.Intn(3) == 0 {
				cl.Mode = "single"
			} else {
				cl.Mode = []string{"first", "last", "top", "bottom"}[r.Intn(4)]
				cl.N = 1 + r.Intn(4)
				arrays = append(arrays, cl.Target)
			}
			cls = append(cls, cl)
		}
		if len(arrays) > 0 && r.Intn(2) == 0 {
			of := arrays[r.Intn(len(arrays))]
			fn := []string{"count", "max", "min"}[r.Intn(3)]
			cls = append(cls, nfClause{Target: "d9", Mode: "single", Kind: "fn", Fn: fn, Of: of, Src: fn + "(" + of + ")"})
		}
		var b strings.Builder
		b.WriteString("role r\n  :noop true\nend\ncast\n  x plays r\nend\naudience\n  zz computes q1 as t\n  zz computes q2 as t\n")
		for _, cl := range cls {
			if cl.Mode == "single" {
				fmt.Fprintf(&b, "  al computes %s as %s\n", cl.Target, cl.Src)
			} else {
				fmt.Fprintf(&b, "  al collects %s as %s %d %s\n", cl.Target, cl.Mode, cl.N, cl.Src)
			}
		}
		b.WriteString("end\n")
		text := b.String()
		q1s := []float64{0, 0, 1, 2, 4, -2, 0.5, math.Inf(1)}
		q2s := []float64{0, 0, 1, -1, 3}
		var steps [][]cmd.VerifC11In
		for k := 3 + r.Intn(8); k > 0; k-- {
			var st []cmd.VerifC11In
			if r.Intn(8) != 0 {
				st = append(st, cmd.VerifC11In{Name: "q1", Val: q1s[r.Intn(len(q1s))]})
			}
			if r.Intn(8) != 0 {
				st = append(st, cmd.VerifC11In{Name: "q2", Val: q2s[r.Intn(len(q2s))]})
			}
			steps = append(steps, st)
		}
		res := cmd.VerifC11Assign(text, "al", []string{"q1", "q2"}, steps)
		stats["nonfinite-assign"]++
		nc0 := nfCase{Family: "assign", What: "computes / collects clauses whose expression is infinite or NaN in some calls (1 / q1, -1 / q1, q2 / q1 with q1 = 0)",
			Input: jsonable(map[string]interface{}{"config": text, "steps": stepsJSON(steps)})}
		if res.ParseErr != "" {
			nc0.Ok, nc0.Observed = false, "refused: "+res.ParseErr
			out = append(out, nc0)
			continue
		}
		// reference
		cur := map[string]interface{}{}
		accepted := map[string][]interface{}{}
		assigned := map[string]bool{}
		for _, cl := range cls {
			if cl.Mode != "single" {
				cur[cl.Target] = []interface{}{}
			}
		}
		ok, pinned := true, false
		var exps, obss []map[string]interface{}
		for k, st := range steps {
			in := map[string]float64{}
			for _, s := range st {
				in[s.Name] = s.Val.(float64)
			}
			for _, cl := range cls {
				var v interface{}
				q1, has1 := in["q1"]
				q2, has2 := in["q2"]
				switch cl.Kind {
				case "inv":
					if !has1 {
						continue
					}
					v = 1 / q1
				case "neginv":
					if !has1 {
						continue
					}
					v = -1 / q1
				case "ratio":
					if !has1 || !has2 {
						continue
					}
					v = q2 / q1
				case "id":
					if !has1 {
						continue
					}
					v = q1
				case "fn":
					if !assigned[cl.Of] {
						continue
					}
					v = refFn(cl.Fn, cur[cl.Of].([]interface{}))
				}
				if f, isF := v.(float64); isF && math.IsNaN(f) {
					pinned = true
				}
				if cl.Mode == "single" {
					if v != nil {
						cur[cl.Target] = v
						assigned[cl.Target] = true
					}
					continue
				}
				if v != nil {
					accepted[cl.Target] = append(accepted[cl.Target], v)
				}
				cur[cl.Target] = refCollect(cl.Mode, cl.N, accepted[cl.Target])
				assigned[cl.Target] = true
			}
			exp := map[string]interface{}{}
			obs := map[string]interface{}{}
			sr := res.Steps[k]
			if sr.Err != "" || sr.Panic != "" {
				ok = false
				obs["error"] = sr.Err + sr.Panic
			}
			for _, cl := range cls {
				exp[cl.Target] = cur[cl.Target]
				obs[cl.Target] = sr.Vals[cl.Target]
				if !nfEqual(cur[cl.Target], sr.Vals[cl.Target]) {
					ok = false
				}
			}
			exps = append(exps, exp)
			obss = append(obss, obs)
		}
		nc0.Ok, nc0.Pinned, nc0.Expected, nc0.Observed = ok, pinned, jsonable(exps), jsonable(obss)
		out = append(out, nc0)
	}
	return out
}

func stepsJSON(steps [][]cmd.VerifC11In) []map[string]interface{} {
	var out []map[string]interface{}
	for _, st := range steps {
		m := map[string]interface{}{}
		for _, s := range st {
			m[s.Name] = s.Val
		}
		out = append(out, m)
	}
	return out
}

// ---- through the real audition

func nfAuditionCases(r *rand.Rand, n int, stats map[string]int) []nfCase {
	var out []nfCase
	for i := 0; i < n; i++ {
		type def struct {
			name, mode, src, kind string
			n                     int
		}
		var defs []def
		nd := 1 + r.Intn(3)
		for k := 0; k < nd; k++ {
			d := def{name: fmt.Sprintf("v%d", k+1)}
			d.kind = []string{"inv", "neginv", "ratio", "inv"}[r.Intn(4)]
			switch d.kind {
			case "inv":
				d.src = "1 / [x s]"
			case "neginv":
				d.src = "-1 / [x s]"
			default:
				d.src = "[y s] / [x s]"
			}
			if k == 0 && i%2 == 0 || r.Intn(3) == 0 {
				d.mode = "single"
			} else {
				d.mode = []string{"first", "last", "top", "bottom"}[r.Intn(4)]
				d.n = 1 + r.Intn(3)
			}
			defs = append(defs, d)
		}
		boFirst := r.Intn(2) == 0
		var b strings.Builder
		b.WriteString("role r\n  :noop true\n  spotlight true\n  signal s scalar at (?P<ts_now>)s=(?P<scalar>\\d+)\nend\ncast\n  x plays r\n  y plays r\nend\naudience\n")
		if boFirst {
			b.WriteString("  bo audits throughout\n")
		}
		b.WriteString("  al audits throughout\n")
		var arr string
		for _, d := range defs {
			if d.mode == "single" {
				fmt.Fprintf(&b, "  al computes %s as %s\n", d.name, d.src)
			} else {
				fmt.Fprintf(&b, "  al collects %s as %s %d %s\n", d.name, d.mode, d.n, d.src)
				arr = d.name
			}
			fmt.Fprintf(&b, "  ob watches %s\n", d.name)
		}
		fn := []string{"max", "min", "count"}[r.Intn(3)]
		if arr != "" {
			fmt.Fprintf(&b, "  bo computes m as %s(%s)\n", fn, arr)
		}
		b.WriteString("end\n")
		text := b.String()
		var evs []cmd.VerifEvent
		var evJSON []map[string]interface{}
		ts := 0.0
		for k := 2 + r.Intn(9); k > 0; k-- {
			ts += 0.5 * float64(1+r.Intn(3))
			ev := cmd.VerifEvent{Kind: "sig", Ts: ts}
			m := map[string]interface{}{}
			for _, a := range []string{"x", "y"} {
				if r.Intn(6) != 0 {
					v := float64(r.Intn(4))
					if r.Intn(3) == 0 {
						v = 0
					}
					ev.Values = append(ev.Values, cmd.VerifValue{Actor: a, Sig: "s", IsNum: true, Num: v})
					m[a+" s"] = v
				}
			}
			evs = append(evs, ev)
			evJSON = append(evJSON, m)
		}
		evs = append(evs, cmd.VerifEvent{Kind: "final", Ts: ts + 1})
		// samples of signals nobody listens to never reach the audition
		sinks, _ := cmd.VerifSinks(text)
		hasSink := map[string]bool{}
		for _, s := range sinks {
			hasSink[s] = true
		}
		for k := range evs {
			var keep []cmd.VerifValue
			for _, v := range evs[k].Values {
				if hasSink[v.Actor+" "+v.Sig] {
					keep = append(keep, v)
				}
			}
			evs[k].Values = keep
		}
		res := cmd.VerifAudition(text, evs, false, false)
		stats["nonfinite-audition"]++
		c := nfCase{Family: "audition", What: "collects / computes over 1 / [x s], -1 / [x s], [y s] / [x s] with zero samples, through the real audition",
			Input: jsonable(map[string]interface{}{"config": text, "samples_per_round": evJSON})}
		if res.ParseErr != "" || res.Panic != "" || res.AuditErr != "" {
			c.Ok, c.Observed = false, "parse: "+res.ParseErr+" panic: "+res.Panic+" error: "+res.AuditErr
			out = append(out, c)
			continue
		}
		// reference: al audits throughout, so every clause is evaluated in
		// every sample round in which its signals were sampled
		cur := map[string]interface{}{}
		accepted := map[string][]interface{}{}
		expObs := map[string][]string{} // observations of the computes variables: every assignment that is not DeepEqual to the stored value
		pinned := false
		for _, d := range defs {
			if d.mode != "single" {
				cur[d.name] = []interface{}{}
			}
		}
		for _, m := range evJSON {
			x, hasx := m["x s"]
			y, hasy := m["y s"]
			for _, d := range defs {
				var v float64
				switch d.kind {
				case "inv":
					if !hasx {
						continue
					}
					v = 1 / x.(float64)
				case "neginv":
					if !hasx {
						continue
					}
					v = -1 / x.(float64)
				default:
					if !hasx || !hasy {
						continue
					}
					v = y.(float64) / x.(float64)
				}
				if math.IsNaN(v) {
					pinned = true
				}
				if d.mode == "single" {
					if prev, ok := cur[d.name]; !ok || !reflect.DeepEqual(prev, interface{}(v)) {
						expObs[d.name] = append(expObs[d.name], fmt.Sprintf("%v", v))
					}
					cur[d.name] = v
					continue
				}
				accepted[d.name] = append(accepted[d.name], v)
				cur[d.name] = refCollect(d.mode, d.n, accepted[d.name])
			}
		}
		exp := map[string]string{}
		obs := map[string]string{}
		ok := true
		for _, d := range defs {
			e := "<nil>"
			if v, has := cur[d.name]; has {
				e = fmt.Sprintf("%v", v)
			}
			exp[d.name], obs[d.name] = e, res.Vals[d.name]
			if e != res.Vals[d.name] {
				ok = false
			}
			if d.mode == "single" {
				var got []string
				for _, o := range res.Outs {
					if o.Kind == "obs" && o.Var == d.name {
						got = append(got, o.Val)
					}
				}
				exp["observations of "+d.name] = strings.Join(expObs[d.name], " ")
				obs["observations of "+d.name] = strings.Join(got, " ")
				if strings.Join(expObs[d.name], " ") != strings.Join(got, " ") {
					ok = false
				}
			}
		}
		if arr != "" {
			e := "<nil>"
			if a := cur[arr].([]interface{}); len(accepted[arr]) > 0 {
				e = fmt.Sprintf("%v", refFn(fn, a))
			}
			exp["m"], obs["m"] = e, res.Vals["m"]
			if e != res.Vals["m"] {
				ok = false
			}
		}
		c.Ok, c.Pinned, c.Expected, c.Observed = ok, pinned, exp, obs
		out = append(out, c)
	}
	return out
}
