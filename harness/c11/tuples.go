package main

// Arrays built by `computes` clauses with the comma operator — `arr as ([x s],
// 2, 3)`, `arr2 as (arr, 4)` — and function calls that pass such an array plus
// extra arguments (`max(arr, 100)`), through the real audition.  The model's
// expressions have no tuple value, so these cases are judged here, in Go,
// against the plain meaning: values are immutable; a variable holds what its
// clause last gave it, whatever other clauses do with the arrays it was built
// from.  (The expression evaluator builds tuples and argument lists with an
// in-place append: a computed array of 3 elements has capacity 4, and an
// array stored with spare capacity lets a later append overwrite a cell that
// another variable still shares — the defects repaired in eeee4b8 / 7774142,
// reached here through computed arrays.)

import (
	"fmt"
	"math/rand"
	"strings"

	"github.com/knz/shakespeare/pkg/cmd"
)

type tupClause struct {
	Member string
	Name   string
	Kind   string    // tuple ext fn
	Consts []float64 // tuple: the constants after (before) [x s]; ext: the appended constants; fn: the extra argument
	XPos   int       // tuple: position of [x s]
	Of     string    // ext / fn: the array read
	Fn     string
	Extra  bool // fn: with an extra argument
}

func (c *tupClause) src() string {
	num := func(f float64) string { return fmt.Sprintf("%v", f) }
	switch c.Kind {
	case "tuple":
		var items []string
		for i, k := range c.Consts {
			if i == c.XPos {
				items = append(items, "[x s]")
			}
			items = append(items, num(k))
		}
		if c.XPos >= len(c.Consts) {
			items = append(items, "[x s]")
		}
		return "(" + strings.Join(items, ", ") + ")"
	case "ext":
		items := []string{c.Of}
		for _, k := range c.Consts {
			items = append(items, num(k))
		}
		return "(" + strings.Join(items, ", ") + ")"
	}
	if c.Extra {
		return c.Fn + "(" + c.Of + ", " + num(c.Consts[0]) + ")"
	}
	return c.Fn + "(" + c.Of + ")"
}

func tupFn(fn string, arr []float64) interface{} {
	if len(arr) == 0 {
		if fn == "count" {
			return 0.0
		}
		return nil
	}
	switch fn {
	case "count":
		return float64(len(arr))
	case "first":
		return arr[0]
	case "last":
		return arr[len(arr)-1]
	case "sum":
		s := 0.0
		for _, v := range arr {
			s += v
		}
		return s
	case "max":
		m := arr[0]
		for _, v := range arr {
			if v > m {
				m = v
			}
		}
		return m
	case "min":
		m := arr[0]
		for _, v := range arr {
			if v < m {
				m = v
			}
		}
		return m
	}
	panic("tupFn")
}

// eval computes every variable from the sample x (the plain meaning).
func tupEval(cls []tupClause, x float64) map[string]interface{} {
	vals := map[string]interface{}{}
	for _, c := range cls {
		switch c.Kind {
		case "tuple":
			var a []float64
			for i, k := range c.Consts {
				if i == c.XPos {
					a = append(a, x)
				}
				a = append(a, k)
			}
			if c.XPos >= len(c.Consts) {
				a = append(a, x)
			}
			vals[c.Name] = a
		case "ext":
			a := append([]float64{}, vals[c.Of].([]float64)...)
			vals[c.Name] = append(a, c.Consts...)
		default:
			a := append([]float64{}, vals[c.Of].([]float64)...)
			if c.Extra {
				a = append(a, c.Consts[0])
			}
			vals[c.Name] = tupFn(c.Fn, a)
		}
	}
	return vals
}

func tupFormat(v interface{}) string {
	if a, ok := v.([]float64); ok {
		items := make([]interface{}, len(a))
		for i := range a {
			items[i] = a[i]
		}
		return fmt.Sprintf("%v", items)
	}
	return fmt.Sprintf("%v", v)
}

func tupConfig(r *rand.Rand, fixed bool) (cls []tupClause, lines []string) {
	first, second := "a", "b"
	order := []string{"a", "b"}
	if !fixed && r.Intn(2) == 0 {
		order = []string{"b", "a"} // the reader is visited first: it reads one round late
	}
	for _, m := range order {
		lines = append(lines, m+" audits throughout")
	}
	if fixed {
		cls = []tupClause{
			{Member: first, Name: "arr", Kind: "tuple", Consts: []float64{2, 3}, XPos: 0},
			{Member: first, Name: "arr2", Kind: "ext", Of: "arr", Consts: []float64{4}},
			{Member: first, Name: "m", Kind: "fn", Fn: "max", Of: "arr", Extra: true, Consts: []float64{100}},
			{Member: second, Name: "s", Kind: "fn", Fn: "sum", Of: "arr2"},
			{Member: second, Name: "l", Kind: "fn", Fn: "last", Of: "arr2"},
		}
	} else {
		n := 1 + r.Intn(5)
		t := tupClause{Member: first, Name: "v1", Kind: "tuple", XPos: r.Intn(n + 1)}
		for i := 0; i < n; i++ {
			t.Consts = append(t.Consts, float64(r.Intn(9)))
		}
		cls = append(cls, t)
		arrays := []string{"v1"}
		fns := []string{"max", "min", "sum", "count", "last", "first"}
		for k := 2 + r.Intn(4); k > 0; k-- {
			name := fmt.Sprintf("v%d", len(cls)+1)
			of := arrays[r.Intn(len(arrays))]
			if r.Intn(2) == 0 {
				e := tupClause{Member: first, Name: name, Kind: "ext", Of: of}
				for i := 1 + r.Intn(2); i > 0; i-- {
					e.Consts = append(e.Consts, float64(10+r.Intn(9)))
				}
				cls = append(cls, e)
				arrays = append(arrays, name)
			} else {
				cls = append(cls, tupClause{Member: first, Name: name, Kind: "fn", Fn: fns[r.Intn(len(fns))], Of: of,
					Extra: r.Intn(4) != 0, Consts: []float64{float64(100 + r.Intn(9))}})
			}
		}
		for k := 1 + r.Intn(2); k > 0; k-- {
			cls = append(cls, tupClause{Member: second, Name: fmt.Sprintf("w%d", k), Kind: "fn",
				Fn: []string{"sum", "last", "count", "max", "first"}[r.Intn(5)], Of: arrays[r.Intn(len(arrays))]})
		}
	}
	for i := range cls {
		c := &cls[i]
		lines = append(lines, fmt.Sprintf("%s computes %s as %s", c.Member, c.Name, c.src()))
		lines = append(lines, "ob watches "+c.Name)
	}
	return cls, lines
}

func tupleCases(r *rand.Rand, n int, stats map[string]int) []nfCase {
	var out []nfCase
	for i := 0; i < n+1; i++ {
		cls, lines := tupConfig(r, i == 0)
		text := "role r\n  :noop true\n  spotlight true\n  signal s scalar at (?P<ts_now>)s=(?P<scalar>\\d+)\nend\ncast\n  x plays r\nend\naudience\n  " +
			strings.Join(lines, "\n  ") + "\nend\n"
		var evs []cmd.VerifEvent
		var xs []float64
		ts := 0.0
		for k := 1 + r.Intn(6); k > 0; k-- {
			ts += 0.5 * float64(1+r.Intn(3))
			if r.Intn(5) == 0 {
				evs = append(evs, cmd.VerifEvent{Kind: "mood", Ts: ts, Mood: []string{"red", "blue", "clear"}[r.Intn(3)]})
				continue
			}
			x := float64(r.Intn(8))
			xs = append(xs, x)
			evs = append(evs, cmd.VerifEvent{Kind: "sig", Ts: ts, Values: []cmd.VerifValue{{Actor: "x", Sig: "s", IsNum: true, Num: x}}})
		}
		evs = append(evs, cmd.VerifEvent{Kind: "final", Ts: ts + 1})
		res := cmd.VerifAudition(text, evs, false, false)
		stats["tuple-audition"]++
		c := nfCase{Family: "tuple", What: "computed arrays built with the comma operator, extended by a second variable and passed with an extra argument to a function, read by another member",
			Input: map[string]interface{}{"config": text, "samples of x": xs}}
		if res.ParseErr != "" || res.Panic != "" || res.AuditErr != "" {
			c.Ok, c.Observed = false, "parse: "+res.ParseErr+" panic: "+res.Panic+" error: "+res.AuditErr
			out = append(out, c)
			continue
		}
		exp := map[string]string{}
		obs := map[string]string{}
		ok := true
		for _, cl := range cls {
			// final value: what the clause gives for the last sample
			e := "<nil>"
			if len(xs) > 0 {
				e = tupFormat(tupEval(cls, xs[len(xs)-1])[cl.Name])
			}
			exp[cl.Name], obs[cl.Name] = e, res.Vals[cl.Name]
			if e != res.Vals[cl.Name] {
				ok = false
			}
			// observations: one per change of the value, in the order of the samples
			var want []string
			for _, x := range xs {
				s := tupFormat(tupEval(cls, x)[cl.Name])
				if len(want) == 0 || want[len(want)-1] != s {
					want = append(want, s)
				}
			}
			var got []string
			for _, o := range res.Outs {
				if o.Kind == "obs" && o.Var == cl.Name {
					got = append(got, o.Val)
				}
			}
			exp["observations of "+cl.Name] = strings.Join(want, " ; ")
			obs["observations of "+cl.Name] = strings.Join(got, " ; ")
			if strings.Join(want, " ; ") != strings.Join(got, " ; ") {
				ok = false
			}
		}
		c.Ok, c.Expected, c.Observed = ok, exp, obs
		out = append(out, c)
	}
	return out
}
