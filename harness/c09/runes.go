package main

import (
	"fmt"
	"math/rand"
	"path"
	"strings"
)

// storylineRuneCase: storylines and edit results holding multi-byte runes
// whose low byte, or whose individual UTF-8 bytes, equal defined scene
// letters (the storyline is checked and compiled byte by byte).
func storylineRuneCase(rng *rand.Rand) *input {
	ascii := "abcdxyz0159"
	var scenes []byte
	for len(scenes) < 2+rng.Intn(3) {
		c := ascii[rng.Intn(len(ascii))]
		if !strings.ContainsRune(string(scenes), rune(c)) {
			scenes = append(scenes, c)
		}
	}
	highScenes := rng.Intn(3) == 0
	var sb strings.Builder
	sb.WriteString("role doc\n  :cure true\nend\ncast\n  alice plays doc\nend\nscript\n")
	for _, c := range scenes {
		fmt.Fprintf(&sb, "  scene %c entails for alice: cure\n", c)
	}
	var high []byte
	if highScenes {
		// scene shorthands that are single bytes above 0x7f (Latin-1 letters):
		// they are also the bytes of the UTF-8 form of other letters
		high = [][]byte{{0xc2, 0xaa}, {0xc3, 0xa9}, {0xc5, 0xe1}, {0xc2, 0xb5, 0xba}}[rng.Intn(4)]
		for _, c := range high {
			sb.WriteString("  scene " + string([]byte{c}) + " mood starts red\n")
		}
	}
	collide := func() string {
		c := scenes[rng.Intn(len(scenes))]
		switch rng.Intn(5) {
		case 0:
			return string(rune(0x100 + int(c))) // low byte = the scene letter (U+0161 for a)
		case 1:
			return string(rune(0x200 + int(c)))
		case 2:
			return string(rune(0x1e00 + int(c)))
		case 3:
			return string(rune(0x10000 + int(c)))
		default:
			if len(high) > 0 {
				return string(high) // the bytes of this rune are defined scenes
			}
			return string(rune(0x400 + int(c)))
		}
	}
	piece := func() string {
		switch rng.Intn(6) {
		case 0:
			return collide()
		case 1:
			return "."
		case 2:
			return " "
		case 3:
			return string(scenes[rng.Intn(len(scenes))]) + "+" + string(scenes[rng.Intn(len(scenes))])
		default:
			return string(scenes[rng.Intn(len(scenes))])
		}
	}
	mk := func() string {
		var s strings.Builder
		s.WriteByte(scenes[0])
		for i := 0; i < 1+rng.Intn(6); i++ {
			s.WriteString(piece())
		}
		if rng.Intn(2) == 0 {
			s.WriteString(collide())
		}
		return strings.TrimSpace(s.String())
	}
	fault := "storyline"
	switch rng.Intn(4) {
	case 0: // the rune arrives through an edit
		fmt.Fprintf(&sb, "  storyline %c%c.%c\n  edit s/%c/%s/\n", scenes[0], scenes[1], scenes[0], scenes[0], collide())
		fault = "edit"
	case 1:
		sb.WriteString("  storyline " + mk() + "\n  storyline " + mk() + "\n")
		fault = "two-storylines"
	case 2:
		sb.WriteString("  storyline " + mk() + "\n  repeat from " + collide() + "\n")
		fault = "repeat-from"
	default:
		sb.WriteString("  storyline " + mk() + "\n")
	}
	sb.WriteString("end\n")
	return &input{Files: map[string]string{"m.cfg": sb.String()}, Main: "m.cfg", IP: []string{""}, Stream: "storyline-runes", Fault: fault}
}

// percentNames renames directories and files of an input to names holding a
// `%` (a printf verb if a path ever reaches a format string): in the file
// set, the main file, the -I list, the include clauses and the generator's
// expectations alike.
func percentNames(rng *rand.Rand, in *input) *input {
	for _, t := range in.Files {
		for _, l := range strings.Split(t, "\n") {
			if tl := strings.TrimLeft(l, " \t"); strings.HasPrefix(tl, "include ") && strings.Contains(tl, "~") {
				return in // names built from parameters cannot be renamed consistently
			}
		}
	}
	dirMap := map[string]string{"lib": "li%sb", "lib2": "lib%d2", "etc": "100%etc", "sub": "su%vb", "conf": "conf%20x", "adir": "a%sdir", "d": "d%"}
	ren := func(p string) string {
		if p == "" || p == "." {
			return p
		}
		cs := strings.Split(p, "/")
		for i, c := range cs {
			if n, ok := dirMap[c]; ok {
				cs[i] = n
			} else if strings.HasSuffix(c, ".cfg") && c != "nosuchfile.cfg" && c != "nothere.cfg" {
				cs[i] = strings.TrimSuffix(c, ".cfg") + "%s.c%dfg"
			}
		}
		return strings.Join(cs, "/")
	}
	out := &input{Files: map[string]string{}, Main: ren(in.Main), Defines: in.Defines, Stream: in.Stream, Fault: in.Fault + "+percent",
		HasExpect: in.HasExpect, ExpectCls: in.ExpectCls, ExpectAccept: in.ExpectAccept}
	for _, d := range in.Dirs {
		out.Dirs = append(out.Dirs, ren(d))
	}
	for _, p := range in.IP {
		out.IP = append(out.IP, ren(p))
	}
	for n, t := range in.Files {
		lines := strings.Split(t, "\n")
		for i, l := range lines {
			tl := strings.TrimLeft(l, " \t")
			if strings.HasPrefix(tl, "include ") && !strings.Contains(tl, "~") {
				name := strings.TrimPrefix(tl, "include ")
				lines[i] = l[:len(l)-len(tl)] + "include " + ren(name)
			}
		}
		out.Files[ren(n)] = strings.Join(lines, "\n")
	}
	out.ExpectPos = posT{ren(in.ExpectPos.File), in.ExpectPos.Line}
	for _, c := range in.ExpectChain {
		out.ExpectChain = append(out.ExpectChain, posT{ren(c.File), c.Line})
	}
	_ = path.Join
	return out
}
