package main

// Every experiment on the real parser runs in a CHILD process (this same
// binary re-executed with -child), one request line in, one result line out.
// A fatal runtime error of the parser (stack overflow, concurrent map write,
// os.Exit: none of them recoverable) therefore kills the child only: it is
// attributed to the case being run ("fatal") and the next case gets a fresh
// child.  A case that does not come back within the watchdog is killed for
// good ("timedout") instead of being left running.

import (
	"bufio"
	"encoding/gob"
	"fmt"
	"io"
	"os"
	"os/exec"
	"runtime"
	"runtime/debug"
	"strings"
	"sync"
	"syscall"
	"time"

	"github.com/knz/shakespeare/pkg/cmd"
)

type request struct {
	Kind string // parse | read | edit | pp
	In   *input
	Line string
	PP   *ppCase
}

type response struct {
	Obs    *obsT
	Read   *cmd.VerifC09ReadResult
	E, P   string
	Outs   []string
	Errs   []string
	PVars  [][2]string
	PErr   string
	PPanic string
}

// status of one remote call
type callStatus struct {
	OK      bool
	Timeout bool
	Fatal   string // first line of what the dying child wrote ("fatal error: stack overflow", ...)
}

// capBuf keeps the first bytes written to it.
type capBuf struct {
	mu  sync.Mutex
	buf []byte
}

func (c *capBuf) Write(p []byte) (int, error) {
	c.mu.Lock()
	if len(c.buf) < 16384 {
		n := 16384 - len(c.buf)
		if n > len(p) {
			n = len(p)
		}
		c.buf = append(c.buf, p[:n]...)
	}
	c.mu.Unlock()
	return len(p), nil
}

func (c *capBuf) String() string {
	c.mu.Lock()
	defer c.mu.Unlock()
	return string(c.buf)
}

type childProc struct {
	cmd    *exec.Cmd
	req    io.WriteCloser
	enc    *gob.Encoder // gob, not JSON: file contents are arbitrary bytes
	dec    *gob.Decoder
	stderr *capBuf
	done   chan struct{}
}

var theChild *childProc
var nTimeouts, nFatal int

func spawnChild() *childProc {
	exe, err := os.Executable()
	if err != nil {
		panic(err)
	}
	reqR, reqW, err := os.Pipe()
	if err != nil {
		panic(err)
	}
	respR, respW, err := os.Pipe()
	if err != nil {
		panic(err)
	}
	c := exec.Command(exe, "-child")
	c.Dir = os.Getenv("TMPDIR")            // an empty private directory: includes from <stdin> look into "." first
	c.ExtraFiles = []*os.File{reqR, respW} // fd 3, fd 4 in the child
	sb := &capBuf{}
	c.Stderr = sb
	c.Stdout = sb
	devnull, _ := os.Open(os.DevNull)
	c.Stdin = devnull
	if err := c.Start(); err != nil {
		panic(err)
	}
	reqR.Close()
	respW.Close()
	if devnull != nil {
		devnull.Close()
	}
	cp := &childProc{cmd: c, req: reqW, enc: gob.NewEncoder(reqW), dec: gob.NewDecoder(bufio.NewReaderSize(respR, 1<<20)), stderr: sb, done: make(chan struct{})}
	go func() { _ = c.Wait(); respR.Close(); close(cp.done) }()
	return cp
}

func (cp *childProc) kill() {
	_ = cp.cmd.Process.Kill()
	_ = cp.req.Close()
	<-cp.done
}

func fatalLine(stderr string, state string) string {
	for _, l := range strings.Split(stderr, "\n") {
		if strings.HasPrefix(l, "fatal error:") || strings.HasPrefix(l, "panic:") || strings.HasPrefix(l, "runtime:") {
			if len(l) > 300 {
				l = l[:300]
			}
			return l
		}
	}
	return "the process ended (" + state + ")"
}

// call sends one request to the child and waits for its answer.
func call(rq *request) (*response, callStatus) {
	if hung {
		return nil, callStatus{}
	}
	if theChild == nil {
		theChild = spawnChild()
	}
	cp := theChild
	type ans struct {
		rs  *response
		err error
	}
	ch := make(chan ans, 1)
	go func() {
		if err := cp.enc.Encode(rq); err != nil {
			ch <- ans{nil, err}
			return
		}
		var rs response
		err := cp.dec.Decode(&rs)
		ch <- ans{&rs, err}
	}()
	select {
	case a := <-ch:
		if a.err == nil {
			return a.rs, callStatus{OK: true}
		}
		// the child died while working on this case
		_ = cp.req.Close()
		<-cp.done
		theChild = nil
		nFatal++
		state := ""
		if cp.cmd.ProcessState != nil {
			state = cp.cmd.ProcessState.String()
		}
		if nFatal >= 25 {
			hung = true // something is thoroughly broken: enough failing inputs collected
		}
		return nil, callStatus{Fatal: fatalLine(cp.stderr.String(), state)}
	case <-time.After(watchdog):
		cp.kill()
		theChild = nil
		nTimeouts++
		if nTimeouts >= 3 {
			hung = true
		}
		return nil, callStatus{Timeout: true}
	}
}

func stopChild() {
	if theChild != nil {
		theChild.kill()
		theChild = nil
	}
}

// ---------------------------------------------------------------------------
// the child side

func childMain() {
	// requests on fd 3, answers on fd 4; fd 2 stays the parent's pipe so that
	// what the Go runtime prints when it gives up reaches the parent.
	dec := gob.NewDecoder(bufio.NewReaderSize(os.NewFile(3, "requests"), 1<<20))
	enc := gob.NewEncoder(os.NewFile(4, "answers"))
	debug.SetMaxStack(64 << 20) // a runaway recursion fails at 64 MB instead of 1 GB
	// Unbounded growth must be a clean failure of the case, not an OOM of the
	// machine: the child gives up at 1 GiB of heap (checked every 20 ms), and
	// the address space is capped as a backstop.
	go func() {
		var ms runtime.MemStats
		for {
			time.Sleep(20 * time.Millisecond)
			runtime.ReadMemStats(&ms)
			if ms.HeapAlloc > 1<<30 {
				fmt.Fprintf(realStderr, "fatal error: memory limit exceeded by the parser (heap %d MiB > 1024 MiB)\n", ms.HeapAlloc>>20)
				os.Exit(4)
			}
		}
	}()
	as := syscall.Rlimit{Cur: 12 << 30, Max: 12 << 30}
	_ = syscall.Setrlimit(syscall.RLIMIT_AS, &as)
	var rl syscall.Rlimit
	if syscall.Getrlimit(syscall.RLIMIT_NOFILE, &rl) == nil && rl.Cur > 4096 {
		rl.Cur = 4096
		_ = syscall.Setrlimit(syscall.RLIMIT_NOFILE, &rl)
	}
	for {
		var rq request
		if err := dec.Decode(&rq); err != nil {
			return
		}
		var rs response
		tick()
		switch rq.Kind {
		case "parse":
			o := observeLocal(rq.In)
			rs.Obs = &o
		case "read":
			r := readLocal(rq.In)
			rs.Read = &r
		case "edit":
			rs.E, rs.P = cmd.VerifC09ScriptLine(rq.Line)
		case "pp":
			rs.Outs, rs.Errs, rs.PVars, rs.PErr, rs.PPanic = cmd.VerifC20Preproc(rq.PP.Defines, rq.PP.paramText(), rq.PP.Strs)
		}
		if err := enc.Encode(&rs); err != nil {
			fmt.Fprintf(realStderr, "child: cannot answer: %v\n", err)
			os.Exit(3)
		}
	}
}

func readLocal(in *input) cmd.VerifC09ReadResult {
	var r cmd.VerifC09ReadResult
	for attempt := 0; ; attempt++ {
		r = cmd.VerifC09ReadAll(in.Files, in.Dirs, in.Main, in.Defines, in.IP, 200000)
		if (r.End == "setup" || strings.Contains(r.Err.ErrShort, "too many open files")) && attempt < 3 {
			releaseDescriptors()
			continue
		}
		break
	}
	return r
}
