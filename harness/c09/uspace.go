package main

import (
	"fmt"
	"math/rand"
	"strings"
)

// unicodeSpaces: White_Space characters that strings.TrimSpace / Fields treat
// as blanks while the regexp classes do not (\s is [\t\n\f\r ] only, so \S
// accepts all of these): U+000B, U+0085, U+00A0, U+1680, U+2000-200A, U+2028,
// U+2029, U+202F, U+205F, U+3000.
var unicodeSpaces = []rune{0x0b, 0x85, 0xa0, 0x1680, 0x2000, 0x2001, 0x2002, 0x2003, 0x2004, 0x2005, 0x2006,
	0x2007, 0x2008, 0x2009, 0x200a, 0x2028, 0x2029, 0x202f, 0x205f, 0x3000}

// unicodeSpaceCases writes one of these characters into ONE token position of
// the (valid) template configuration: instead of the token, before it, after
// it, twice, or instead of the blank that separates it from the previous
// token.  The scene shorthand positions get every character (exhaustive); the
// other positions are sampled.
func unicodeSpaceCases(rng *rand.Rand, n int) []*input {
	base := strings.Split(strings.TrimSuffix(renderTemplate(nil, "", nil), "\n"), "\n")
	type posn struct{ line, tok int }
	var all, shorthand []posn
	for li, l := range base {
		ts := strings.Fields(l)
		for ti := range ts {
			all = append(all, posn{li, ti})
			if ti == 1 && ts[0] == "scene" {
				shorthand = append(shorthand, posn{li, ti})
			}
		}
	}
	mk := func(p posn, u rune, variant int) *input {
		lines := append([]string{}, base...)
		l := lines[p.line]
		indent := l[:len(l)-len(strings.TrimLeft(l, " "))]
		ts := strings.Fields(l)
		us := string(u)
		sep := make([]string, len(ts))
		for i := range sep {
			sep[i] = " "
		}
		what := ""
		switch variant {
		case 0:
			ts[p.tok], what = us, "instead-of"
		case 1:
			ts[p.tok], what = us+ts[p.tok], "before"
		case 2:
			ts[p.tok], what = ts[p.tok]+us, "after"
		case 3:
			ts[p.tok], what = us+us, "twice"
		default:
			if p.tok > 0 {
				sep[p.tok] = us
			} else {
				indent = us
			}
			what = "as-separator"
		}
		var sb strings.Builder
		sb.WriteString(indent)
		for i, t := range ts {
			if i > 0 {
				sb.WriteString(sep[i])
			}
			sb.WriteString(t)
		}
		lines[p.line] = sb.String()
		return &input{Files: map[string]string{"m.cfg": strings.Join(lines, "\n") + "\n", "extra.cfg": "title from extra\n"},
			Main: "m.cfg", IP: []string{""}, Stream: "unicode-space",
			Fault: fmt.Sprintf("U+%04X %s token %d of %q", u, what, p.tok, strings.TrimSpace(base[p.line]))}
	}
	var out []*input
	if n == 0 {
		return nil
	}
	for _, p := range shorthand {
		for _, u := range unicodeSpaces {
			out = append(out, mk(p, u, 0))
		}
	}
	for len(out) < n {
		out = append(out, mk(all[rng.Intn(len(all))], unicodeSpaces[rng.Intn(len(unicodeSpaces))], rng.Intn(5)))
	}
	return out
}
