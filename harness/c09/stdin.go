package main

import (
	"io/ioutil"
	"math/rand"
	"os"
)

const stdinName = "<stdin>" // what the reader calls standard input in positions

// withStdin runs f while the process's standard input is a file holding text
// (the parser reads `-` and `include -` from os.Stdin).
func withStdin(text string, f func()) {
	tmp, err := ioutil.TempFile("", "shk-stdin")
	if err != nil {
		panic(err)
	}
	defer os.Remove(tmp.Name())
	if _, err := tmp.WriteString(text); err != nil {
		panic(err)
	}
	if _, err := tmp.Seek(0, 0); err != nil {
		panic(err)
	}
	old := os.Stdin
	os.Stdin = tmp
	defer func() { os.Stdin = old; tmp.Close() }()
	f()
}

// stdinCase lays a configuration out so that part of it arrives on standard
// input: the whole of it (the configuration is `-`, as `shakespeare -`), or a
// run of clauses in the middle (`include -` in m.cfg).  Returns the input, the
// placement of every clause and the physical files (the one named <stdin> is
// the standard input).
func stdinCase(rng *rand.Rand, cl []clause, fancy bool) (*input, []placed, map[string]*physFile) {
	in := &input{Files: map[string]string{}, IP: []string{""}, UseStdin: true}
	pl := make([]placed, len(cl))
	files := map[string]*physFile{}
	std := &physFile{name: stdinName}
	files[stdinName] = std
	put := func(f *physFile, i int, chain []posT) {
		if fancy && rng.Intn(8) == 0 {
			f.lines = append(f.lines, commentLines[rng.Intn(len(commentLines))])
		}
		pl[i] = placed{file: f.name, line: len(f.lines) + 1, chain: chain}
		f.lines = append(f.lines, renderClause(rng, cl[i], fancy)...)
	}
	if rng.Intn(2) == 0 {
		in.Main, in.Fault = "-", "main-is-stdin"
		for i := range cl {
			put(std, i, nil)
		}
	} else {
		in.Main, in.Fault = "m.cfg", "include-stdin"
		m := &physFile{name: "m.cfg"}
		files["m.cfg"] = m
		a := rng.Intn(len(cl))
		b := a + 1 + rng.Intn(len(cl)-a)
		for i := 0; i < a; i++ {
			put(m, i, nil)
		}
		m.lines = append(m.lines, []string{"include -", "  include -"}[rng.Intn(2)])
		chain := []posT{{"m.cfg", len(m.lines)}}
		for i := a; i < b; i++ {
			put(std, i, chain)
		}
		for i := b; i < len(cl); i++ {
			put(m, i, nil)
		}
	}
	if rng.Intn(4) == 0 && len(std.lines) > 0 && (len(std.lines) < 2 || std.lines[len(std.lines)-2] == "" || std.lines[len(std.lines)-2][len(std.lines[len(std.lines)-2])-1] != '\\') {
		std.noNL = true
	}
	in.rebuild(files)
	in.fixStdin()
	return in, pl, files
}

// fixStdin moves the pseudo-file <stdin> out of the file set.
func (in *input) fixStdin() {
	if t, ok := in.Files[stdinName]; ok {
		in.Stdin = t
		delete(in.Files, stdinName)
	}
}
