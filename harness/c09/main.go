// Harness for C09 (configuration reader robustness and truthful diagnostics)
// and C20 (parameters and includes): runs the REAL reader / parser of
// pkg/cmd on generated file sets through the verif hooks, under a watchdog,
// and writes the inputs with what was observed as Coq terms (cases_<k>.v, one
// per shard), as JSON (cases.json, for replays) and a summary.
//
// Streams (C09): grammar-derived valid texts laid out over files with
// includes, continuations, comments; the same with one fault at a known
// position; random mutations of them; arbitrary bytes; include graphs; the
// reader alone (every logical line with its position); the `edit` splitter.
// Streams (C20): `~p~` planted in every field of every clause kind under
// every definition mode; parseDefines/parameter/preprocReplace directly;
// include graphs with the expected reading order.
package main

import (
	"flag"
	"fmt"
	"os"
	"path"
	"regexp"
	"runtime"
	"sort"
	"strings"
	"time"

	"github.com/knz/shakespeare/pkg/cmd"
	"github.com/knz/shakespeare/verifharness/vh"
)

const modelRoot = "/r/t"

// realStderr keeps the process's standard error alive (and reachable) after
// os.Stderr is pointed at /dev/null to silence the parser's warnings.
var realStderr = os.Stderr

// ---------------------------------------------------------------------------
// observation

type obsT struct {
	Kind     string // accepted | rejected | panicked | timedout
	Phase    string
	Cls      int
	HasPos   bool
	Pos      posT
	Chain    []posT
	ChainBad bool
	Names    []string // undefined parameters named by the diagnostic
	Quoted   *string
	PVars    [][2]string
	Titles   []string
	Printed  string
	ErrShort string
	Panic    string
	PanicAt  string
}

// classify reads an error class off the message TEXT.  It is a note for the
// evidence and for the wording of reports only: no oracle and no comparison
// with the model depends on it (a reworded diagnostic must not alarm).
func classify(msg string) int {
	switch {
	case strings.Contains(msg, "EOF encountered while expecting line continuation"):
		return 2
	case strings.Contains(msg, "include depth limit exceeded"):
		return 3
	case strings.Contains(msg, "undefined parameter: "):
		return 4
	case strings.Contains(msg, "file does not exist"):
		return 5
	case strings.Contains(msg, "is a directory"):
		return 1
	case strings.Contains(msg, ": open ") && (strings.Contains(msg, "invalid argument") || strings.Contains(msg, "not a directory") || strings.Contains(msg, "file name too long")):
		return 6
	}
	return 7
}

var tildeNameRe = regexp.MustCompile(`~\w+~`)

// undefinedNames lists the ~name~ tokens a message mentions, whatever words
// stand around them.
func undefinedNames(msg string) []string {
	return tildeNameRe.FindAllString(msg, -1)
}

// toModel maps a path reported by the hook ("/r/t/..." already) unchanged.
func convPos(p cmd.VerifPos) posT { return posT{p.File, p.Line} }

var watchdog = 10 * time.Second

// hung is set after three cases did not come back (or 25 killed the parser):
// no further experiment is started; the harness writes out what it has.
var hung bool

var nObserved int

// openDescriptors counts this process's open file descriptors.
func openDescriptors() int {
	d, err := os.Open("/proc/self/fd")
	if err != nil {
		return 0
	}
	names, _ := d.Readdirnames(-1)
	d.Close()
	return len(names)
}

// tick is called before every experiment.  The parser never closes the files
// it opens (subreader.f is never set): their descriptors are released by
// finalizers only.  Keep them well below the limit (4096), so that a single
// configuration with a few hundred includes always has room.
func tick() {
	nObserved++
	if nObserved%40 == 0 {
		runtime.GC()
	}
	if openDescriptors() > 800 {
		releaseDescriptors()
	}
}

// releaseDescriptors collects until the finalizers have closed the leaked
// files (or two seconds have passed).
func releaseDescriptors() {
	for i := 0; i < 100; i++ {
		runtime.GC()
		time.Sleep(20 * time.Millisecond)
		if openDescriptors() < 100 {
			return
		}
	}
}

// observe runs one parse (parseDefines, newReader, parseCfg, compileV2 and the
// rendering of the diagnostic) in the child process.
func observe(in *input) obsT {
	if hung {
		return obsT{Kind: "skipped"}
	}
	rs, st := call(&request{Kind: "parse", In: in})
	switch {
	case st.OK:
		return *rs.Obs
	case st.Timeout:
		return obsT{Kind: "timedout"}
	case st.Fatal != "":
		return obsT{Kind: "fatal", Panic: st.Fatal}
	}
	return obsT{Kind: "skipped"}
}

// observeLocal is what the child does for one parse.
func observeLocal(in *input) obsT {
	var r cmd.VerifC09Result
	for attempt := 0; ; attempt++ {
		if in.UseStdin {
			withStdin(in.Stdin, func() { r = cmd.VerifC09Parse(in.Files, in.Dirs, in.Main, in.Defines, in.IP) })
		} else {
			r = cmd.VerifC09Parse(in.Files, in.Dirs, in.Main, in.Defines, in.IP)
		}
		// The parser never closes the files it opens (subreader.f is never
		// set); their descriptors are only released by finalizers.  When the
		// experiment could not be set up, or failed, for lack of descriptors,
		// collect and try again.
		if r.Phase == "setup" || strings.Contains(r.ErrShort, "too many open files") {
			releaseDescriptors()
			if attempt < 3 {
				continue // with the leaked descriptors released the outcome is the parser's own
			}
		}
		break
	}
	if r.Phase == "setup" {
		panic("cannot set up the experiment: " + r.Err)
	}
	o := obsT{Phase: r.Phase, PVars: r.PVars, Titles: r.Titles, Printed: r.Printed, ErrShort: r.ErrShort, Panic: r.Panic, PanicAt: r.PanicAt}
	switch {
	case r.Panic != "":
		o.Kind = "panicked"
	case r.Phase == "ok":
		o.Kind = "accepted"
	default:
		o.Kind = "rejected"
		o.HasPos, o.Pos, o.ChainBad = r.HasPos, convPos(r.Pos), r.ChainBad
		for _, c := range r.Chain {
			o.Chain = append(o.Chain, convPos(c))
		}
		if r.HasQuoted {
			q := r.Quoted
			o.Quoted = &q
		}
		switch r.Phase {
		case "defines":
			o.Cls = 32
		case "open":
			o.Cls = 21
			if strings.Contains(r.ErrShort, "file does not exist") {
				o.Cls = 20
			}
		case "compile":
			o.Cls = 30
		default:
			if r.HasPos {
				o.Cls = classify(r.ErrShort)
				o.Names = undefinedNames(strings.TrimPrefix(r.ErrShort, fmt.Sprintf("%s:%d: ", strings.Replace(r.Pos.File, "/r/t", "<tmp>", 1), r.Pos.Line)))
			} else {
				o.Cls = 31
			}
		}
	}
	return o
}

// ---------------------------------------------------------------------------
// Coq printing

func mpath(rel string) string {
	if strings.HasPrefix(rel, "/") || strings.HasPrefix(rel, "<") {
		return rel // already a model path (reported by the hook) or <stdin>
	}
	return path.Join(modelRoot, rel)
}

func coqPos(p posT) string {
	return fmt.Sprintf("(%s, %s)", bstr(mpath(p.File)), vh.Z(int64(p.Line)))
}

func coqPosList(ps []posT) string {
	var xs []string
	for _, p := range ps {
		xs = append(xs, coqPos(p))
	}
	return vh.List(xs)
}

func coqStrList(ss []string) string {
	var xs []string
	for _, s := range ss {
		xs = append(xs, bstr(s))
	}
	return vh.List(xs)
}

func coqPairs(ps [][2]string) string {
	var xs []string
	for _, p := range ps {
		xs = append(xs, "("+bstr(p[0])+", "+bstr(p[1])+")")
	}
	return vh.List(xs)
}

// coqFS prints the file system of the model: files, and every directory
// (ancestors of files, the explicit ones, the root and its ancestors).
func coqFS(in *input) (files string, dirs string) {
	var fs []string
	for _, n := range sortedNames(in.Files) {
		fs = append(fs, "("+bstr(mpath(n))+", "+bstr(in.Files[n])+")")
	}
	if in.UseStdin {
		fs = append(fs, "("+bstr(stdinName)+", "+bstr(in.Stdin)+")") // for the position oracle only
	}
	dset := map[string]bool{"/": true, "/r": true, modelRoot: true}
	for d := range dirsOf(in) {
		if d != "" && d != "." {
			dset[mpath(d)] = true
		}
	}
	var ds []string
	for d := range dset {
		ds = append(ds, d)
	}
	sort.Strings(ds)
	return vh.List(fs), coqStrList(ds)
}

func coqIP(in *input) string {
	var xs []string
	for _, p := range in.IP {
		xs = append(xs, bstr(path.Join(modelRoot, p)))
	}
	return vh.List(xs)
}

func coqObs(o obsT) string {
	switch o.Kind {
	case "accepted":
		return "(PAccepted " + coqPairs(o.PVars) + ")"
	case "panicked", "fatal":
		return "PPanicked"
	case "timedout":
		return "PTimedOut"
	}
	pos := "None"
	if o.HasPos {
		pos = "(Some " + coqPos(o.Pos) + ")"
	}
	q := "None"
	if o.Quoted != nil {
		q = "(Some " + bstr(*o.Quoted) + ")"
	}
	return fmt.Sprintf("(PRejected %d%%N %s %s %s %s %s)", o.Cls, pos, coqPosList(o.Chain), coqStrList(o.Names), q, vh.Bool(o.ChainBad))
}

func coqParseCase(in *input, o obsT) string {
	f, d := coqFS(in)
	exp := "None"
	if in.ExpectAccept {
		exp = "(Some (0%N, (U [], 0), []))"
	}
	if in.HasExpect {
		exp = fmt.Sprintf("(Some (%d%%N, %s, %s))", in.ExpectCls, coqPos(in.ExpectPos), coqPosList(in.ExpectChain))
	}
	return fmt.Sprintf("mkPC %s %s %s %s %s %s %s", f, d, bstr(in.Main), coqStrList(in.Defines), coqIP(in), coqObs(o), exp)
}

// ---------------------------------------------------------------------------

type parseRec struct {
	In  *input
	Obs obsT
}

type readRec struct {
	In     *input
	Events []cmd.VerifReadEvent
	End    string
	Err    obsT
}

type editRec struct {
	Cmd  string
	Line string
	Err  string
	Obs  int // 0 = got past the splitter, 1 = "invalid syntax", 2 = panic, 3 = the line is not an edit clause
	Pan  string
}

type ppRec struct {
	Case  ppCase
	Outs  []string
	Errs  [][]string // undefined names per string
	PVars [][2]string
	Panic string
	PErr  string
}

type plantedRec struct {
	Case        plantedCase
	Obs, RefObs obsT
	Same        bool
}

type graphRec struct {
	In         *input
	Obs        obsT
	Ref        refResult
	Spliced    *input // the same text with the included files written in place
	SplicedObs *obsT
	SpliceSame bool
}

func cksum(s string) uint64 {
	var a uint64
	for i := 0; i < len(s); i++ {
		a = (a*131 + uint64(s[i]) + 1) % 4294967291
	}
	return a
}

func main() {
	seed := flag.Int64("seed", 1, "")
	tier := flag.String("tier", "quick", "")
	out := flag.String("out", ".", "")
	prop := flag.String("prop", "c09", "c09 | c20")
	shards := flag.Int("shards", 8, "")
	corpus := flag.String("corpus", "", "directory of corpus cases (JSON inputs) run first")
	onlyCorpus := flag.Bool("only-corpus", false, "run the corpus cases only (replays)")
	child := flag.Bool("child", false, "serve experiments on fd 3/4 (internal)")
	flag.Parse()
	rng := vh.Rng(*seed)

	// The parser shells out to `git diff <file>` for every file it opens and
	// `include -` reads standard input: neither may reach the outside.
	os.Setenv("PATH", "/nonexistent")
	if devnull, err := os.Open(os.DevNull); err == nil {
		os.Stdin = devnull
	}
	if *child {
		os.Stderr, _ = os.OpenFile(os.DevNull, os.O_WRONLY, 0) // the parser prints warnings; fd 2 itself stays the parent's pipe
		childMain()
		return
	}
	priv, err := os.MkdirTemp("", "shk-c09-")
	if err != nil {
		panic(err)
	}
	defer os.RemoveAll(priv)
	os.Setenv("TMPDIR", priv) // inherited by the children
	defer stopChild()

	scale := 1
	if *tier == "thorough" {
		scale = 12
	}
	if *onlyCorpus {
		scale = 0
	}
	if *prop == "c20" {
		runC20(rng, scale, *out, *shards, *seed, *corpus)
		return
	}
	runC09(rng, scale, *out, *shards, *seed, *corpus)
}

// bstr prints a byte string packed 7 bytes per primitive integer:
// (U [n; w1; w2; ...]%uint63), see Corr/C09.v.
func bstr(s string) string {
	if len(s) == 0 {
		return "(U [])"
	}
	var sb strings.Builder
	fmt.Fprintf(&sb, "(U [%d", len(s))
	for i := 0; i < len(s); i += 7 {
		var w uint64
		for j := 0; j < 7; j++ {
			w <<= 8
			if i+j < len(s) {
				w |= uint64(s[i+j])
			}
		}
		fmt.Fprintf(&sb, "; %d", w)
	}
	sb.WriteString("]%uint63)")
	return sb.String()
}
