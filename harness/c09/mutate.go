package main

import (
	"math/rand"
	"sort"
	"strings"
)

var spliceTokens = []string{
	"end", "end\n", "include ", "include m.cfg\n", "include .\n", "include -\n", "role ", "cast\n", "script\n", "audience\n", "interpretation\n",
	"~x~", "~", "~~", "~par1~", "edit s/", "edit s/a\n", "edit s,a,b\n", "\\", "\\\n", " \\\n", ":", "#", "title ", "parameter ", " defaults to ",
	"storyline ", "+", "..", "expects always: ", " watches ", " plays ", "* play ", " with ", "repeat ", " times", "scene ", " entails for ", " every ",
	"\x00", "\xff", "\xc2\xa0", "\xe2\x80\xa8", "\x0b", "\xc2\x85", "\xe1\x9a\x80", "\xe2\x80\x83", "\xe2\x80\xaf", "\xe2\x81\x9f", "\xe3\x80\x80", "scene \xc2\xa0 mood starts red\n", "scene \xc2\x85 entails for ", "\r", "\r\n", "\t", "'", "\"", "[", "]", "(", ")", "(?P<", "$", "{", "}",
	"[]", "[ ]", "[   ] > 0", " expects always: [] ", "* play -1 ", "* play 0 ", "* play ~par1~ ", " play -3 ", "-1", "-9223372036854775808", "+2", "~u1~ ~u2~ ~u3~", "~a~~b~~c~~d~", "title ~x1~ ~x2~ ~x3~\n",
	" audits only while ", " collects ", " as last 3 ", " computes ", " as ", "t < 5 \\", "'unterminated", "[a b c]", "a.b", "1e999", "9999999999999999999999",
}

func sortedNames(m map[string]string) []string {
	var ns []string
	for n := range m {
		ns = append(ns, n)
	}
	sort.Strings(ns)
	return ns
}

// mutate applies 1-3 random mutations to the files of in (a copy).
func mutate(rng *rand.Rand, in *input) *input {
	out := &input{Files: map[string]string{}, Dirs: in.Dirs, Main: in.Main, Defines: in.Defines, IP: in.IP, Stream: "mutation"}
	for n, t := range in.Files {
		out.Files[n] = t
	}
	names := sortedNames(out.Files)
	var kinds []string
	n := 1 + rng.Intn(3)
	for i := 0; i < n; i++ {
		name := names[rng.Intn(len(names))]
		if rng.Intn(3) != 0 {
			name = in.Main
		}
		t := out.Files[name]
		lines := strings.SplitAfter(t, "\n")
		pos := func() int {
			if len(t) == 0 {
				return 0
			}
			return rng.Intn(len(t))
		}
		k := rng.Intn(12)
		switch k {
		case 0: // delete a byte run
			if len(t) > 0 {
				p := pos()
				q := p + 1 + rng.Intn(4)
				if q > len(t) {
					q = len(t)
				}
				t = t[:p] + t[q:]
			}
			kinds = append(kinds, "delete-bytes")
		case 1: // swap two bytes
			if len(t) > 1 {
				p, q := pos(), pos()
				b := []byte(t)
				b[p], b[q] = b[q], b[p]
				t = string(b)
			}
			kinds = append(kinds, "swap-bytes")
		case 2: // truncate
			t = t[:pos()]
			kinds = append(kinds, "truncate")
		case 3: // duplicate a line
			if len(lines) > 0 {
				p := rng.Intn(len(lines))
				lines = append(lines[:p+1], lines[p:]...)
				t = strings.Join(lines, "")
			}
			kinds = append(kinds, "duplicate-line")
		case 4: // delete a line
			if len(lines) > 0 {
				p := rng.Intn(len(lines))
				lines = append(append([]string{}, lines[:p]...), lines[p+1:]...)
				t = strings.Join(lines, "")
			}
			kinds = append(kinds, "delete-line")
		case 5: // swap two lines
			if len(lines) > 1 {
				p, q := rng.Intn(len(lines)), rng.Intn(len(lines))
				lines[p], lines[q] = lines[q], lines[p]
				t = strings.Join(lines, "")
			}
			kinds = append(kinds, "swap-lines")
		case 6: // backslash at a line end
			if len(lines) > 0 {
				p := rng.Intn(len(lines))
				l := lines[p]
				if strings.HasSuffix(l, "\n") {
					lines[p] = l[:len(l)-1] + "\\\n"
				} else {
					lines[p] = l + "\\"
				}
				t = strings.Join(lines, "")
			}
			kinds = append(kinds, "backslash-at-eol")
		case 7, 8: // splice a token
			p := pos()
			t = t[:p] + spliceTokens[rng.Intn(len(spliceTokens))] + t[p:]
			kinds = append(kinds, "splice-token")
		case 9: // replace a byte by a random byte
			if len(t) > 0 {
				b := []byte(t)
				b[pos()] = byte(rng.Intn(256))
				t = string(b)
			}
			kinds = append(kinds, "random-byte")
		case 10: // duplicate a byte run elsewhere
			if len(t) > 0 {
				p := pos()
				q := p + 1 + rng.Intn(12)
				if q > len(t) {
					q = len(t)
				}
				r := pos()
				t = t[:r] + t[p:q] + t[r:]
			}
			kinds = append(kinds, "duplicate-bytes")
		case 11: // drop the final newline / add a dangling continuation
			if rng.Intn(2) == 0 {
				t = strings.TrimSuffix(t, "\n")
			} else {
				t = t + " \\\n"
			}
			kinds = append(kinds, "eof-shape")
		}
		out.Files[name] = t
	}
	out.Fault = strings.Join(kinds, "+")
	return out
}

// arbitrary makes a main file of arbitrary bytes (several alphabets).
func arbitrary(rng *rand.Rand) *input {
	n := rng.Intn(120)
	var sb strings.Builder
	mode := rng.Intn(4)
	for sb.Len() < n {
		switch mode {
		case 0: // any byte
			sb.WriteByte(byte(rng.Intn(256)))
		case 1: // printable + newline
			c := byte(32 + rng.Intn(96))
			if rng.Intn(8) == 0 {
				c = '\n'
			}
			sb.WriteByte(c)
		case 2: // token soup
			sb.WriteString(spliceTokens[rng.Intn(len(spliceTokens))])
			if rng.Intn(3) == 0 {
				sb.WriteByte(' ')
			}
			if rng.Intn(4) == 0 {
				sb.WriteByte('\n')
			}
		case 3: // bytes with many newlines, backslashes and tildes
			const alpha = "ab \n\\~\t#:e1"
			sb.WriteByte(alpha[rng.Intn(len(alpha))])
		}
	}
	in := &input{Files: map[string]string{"m.cfg": sb.String()}, Main: "m.cfg", IP: []string{""}, Stream: "arbitrary"}
	if rng.Intn(4) == 0 {
		in.Dirs = []string{"d"}
	}
	if rng.Intn(4) == 0 {
		in.Defines = []string{"x=1", "par1=v"}
	}
	return in
}
