package main

import (
	"fmt"
	"math/rand"
	"strings"
)

// selfRefCase: parameters whose values hold ~name~ tokens.
func selfRefCase(rng *rand.Rand) *input {
	type def struct{ name, val string }
	wrap := func(ref string) string {
		return []string{"~%s~", "dear ~%s~", "~%s~ indeed", "x~%s~y", "~%s~~%s~", "a ~%s~ b ~%s~ c"}[rng.Intn(6)]
	}
	ref := func(n string) string {
		f := wrap(n)
		return fmt.Sprintf(f, toAny(n, strings.Count(f, "%s"))...)
	}
	var defs []def
	shape := []string{"self", "self", "cycle2", "cycle2", "cycle3", "undefined", "chain", "mixed"}[rng.Intn(8)]
	switch shape {
	case "self":
		defs = []def{{"who", ref("who")}}
	case "cycle2":
		defs = []def{{"a", ref("b")}, {"b", ref("a")}}
	case "cycle3":
		defs = []def{{"a", ref("b")}, {"b", ref("c")}, {"c", ref("a")}}
	case "undefined":
		defs = []def{{"a", ref("nope")}, {"who", "plain"}}
	case "chain":
		defs = []def{{"a", ref("b")}, {"b", "value"}}
	default:
		defs = []def{{"who", ref("who")}, {"a", ref("who")}, {"b", ref("a") + " " + ref("b")}}
	}
	in := &input{Files: map[string]string{}, Main: "m.cfg", IP: []string{""}, Stream: "self-reference", Fault: shape}
	var sb strings.Builder
	for _, d := range defs {
		if rng.Intn(2) == 0 {
			in.Defines = append(in.Defines, d.name+"="+d.val)
		} else {
			sb.WriteString("parameter " + d.name + " defaults to " + d.val + "\n")
		}
	}
	use := defs[rng.Intn(len(defs))].name
	n := 1 + rng.Intn(3)
	for i := 0; i < n; i++ {
		switch rng.Intn(7) {
		case 0:
			sb.WriteString("title hello ~" + use + "~\n")
		case 1:
			sb.WriteString("attention ~" + use + "~ and ~" + defs[0].name + "~\n")
		case 2:
			sb.WriteString("role doc\n  :cure true\nend\ncast\n  alice plays doc with X='~" + use + "~'\nend\n")
		case 3:
			sb.WriteString("audience\n  aud" + fmt.Sprint(i) + " expects always: t < 5 || '~" + use + "~' == 'x'\nend\n")
		case 4:
			sb.WriteString("include ~" + use + "~\n")
		case 5:
			sb.WriteString("script\n  repeat time ~" + use + "~\nend\n")
		default:
			sb.WriteString("author ~" + use + "~\n")
		}
	}
	in.Files["m.cfg"] = sb.String()
	return in
}

func toAny(s string, n int) []interface{} {
	var xs []interface{}
	for i := 0; i < n; i++ {
		xs = append(xs, s)
	}
	return xs
}
