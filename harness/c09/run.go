package main

import (
	"encoding/json"
	"fmt"
	"io/ioutil"
	"math/rand"
	"os"
	"path/filepath"
	"sort"
	"strings"
	"time"

	"github.com/knz/shakespeare/verifharness/vh"
)

type summaryT struct {
	Prop               string                    `json:"prop"`
	Counts             map[string]int            `json:"counts"`
	Outcomes           map[string]int            `json:"outcomes"`
	ByStream           map[string]map[string]int `json:"by_stream"`
	ClauseKinds        map[string]int            `json:"clause_kinds"`
	Faults             map[string]int            `json:"faults"`
	ErrClasses         map[string]int            `json:"error_classes"`
	GraphShapes        map[string]int            `json:"graph_shapes"`
	MaxIncludeDepth    int                       `json:"max_include_depth_reached"`
	SkippedEscape      int                       `json:"skipped_escaping_root"`
	GrammarAccepted    int                       `json:"grammar_texts_accepted"`
	GrammarTotal       int                       `json:"grammar_texts_total"`
	DistinctNontrivial int                       `json:"distinct_nontrivial"`
	Evaluations        int                       `json:"evaluations"`
	Samples            []string                  `json:"samples"`
	Shards             int                       `json:"shards"`
	Offsets            map[string][]int          `json:"offsets"`
	WallParse          float64                   `json:"wall_parse_s"`
}

func newSummary(prop string) *summaryT {
	return &summaryT{Prop: prop, Counts: map[string]int{}, Outcomes: map[string]int{}, ByStream: map[string]map[string]int{},
		ClauseKinds: map[string]int{}, Faults: map[string]int{}, ErrClasses: map[string]int{}, GraphShapes: map[string]int{}, Offsets: map[string][]int{}}
}

var clsNames = map[int]string{1: "read-error", 2: "eof-in-continuation", 3: "include-depth", 4: "undefined-parameter", 5: "include-not-found",
	6: "open-error", 7: "clause-rejected", 20: "main-not-found", 21: "main-open-error", 30: "compile-error", 31: "rejected-without-position", 32: "defines-error"}

func (s *summaryT) note(in *input, o obsT) {
	s.Outcomes[o.Kind]++
	if s.ByStream[in.Stream] == nil {
		s.ByStream[in.Stream] = map[string]int{}
	}
	s.ByStream[in.Stream][o.Kind]++
	if o.Kind == "rejected" {
		s.ErrClasses[clsNames[o.Cls]]++
	}
	if len(o.Chain)+1 > s.MaxIncludeDepth {
		s.MaxIncludeDepth = len(o.Chain) + 1
	}
}

func sample(in *input, o obsT) string {
	t := in.Files[in.Main]
	if len(t) > 160 {
		t = t[:160] + "..."
	}
	r := o.Kind
	if o.Kind == "rejected" {
		r = fmt.Sprintf("rejected(%s", clsNames[o.Cls])
		if o.HasPos {
			r += fmt.Sprintf(" at %s:%d chain %v", o.Pos.File, o.Pos.Line, o.Chain)
		}
		r += ")"
	}
	return fmt.Sprintf("[%s %s] %d files, main %q => %s", in.Stream, in.Fault, len(in.Files), t, r)
}

// shardRange returns [lo, hi) of shard k out of n over total items.
func shardRange(total, n, k int) (int, int) { return total * k / n, total * (k + 1) / n }

func loadCorpus(dir string) []*input {
	if dir == "" {
		return nil
	}
	ents, err := ioutil.ReadDir(dir)
	if err != nil {
		return nil
	}
	var res []*input
	var names []string
	for _, e := range ents {
		if strings.HasSuffix(e.Name(), ".json") {
			names = append(names, e.Name())
		}
	}
	sort.Strings(names)
	for _, n := range names {
		b, err := ioutil.ReadFile(filepath.Join(dir, n))
		if err != nil {
			continue
		}
		var in input
		if json.Unmarshal(b, &in) == nil && in.Main != "" {
			in.Stream = "corpus"
			in.Fault = strings.TrimSuffix(n, ".json")
			res = append(res, &in)
		}
	}
	return res
}

func distinct(recs []parseRec) int {
	seen := map[string]bool{}
	for _, r := range recs {
		var sb strings.Builder
		for _, n := range sortedNames(r.In.Files) {
			sb.WriteString(n + "\x00" + r.In.Files[n] + "\x01")
		}
		sb.WriteString(strings.Join(r.In.Defines, "\x02"))
		if len(sb.String()) >= 8 { // rule: at least 8 bytes of input
			seen[sb.String()] = true
		}
	}
	return len(seen)
}

func genEditCmd(rng *rand.Rand) string {
	seps := "/,|#:s ~\\"
	sep := string(seps[rng.Intn(len(seps))])
	parts := []string{"a", "ab", "", "a.c", "[", "(x", "b", "$1", "g", "é"}
	p := func() string { return parts[rng.Intn(len(parts))] }
	switch rng.Intn(12) {
	case 0:
		return "s" + sep + p() + sep + p() + sep
	case 1:
		return "s" + sep + p() + sep + p() + sep + "g"
	case 2:
		return "s" + sep + p() + sep + p() + sep + p()
	case 3:
		return "s" + sep + p() + sep + p() // missing final separator
	case 4:
		return "s" + sep + p() // only one separator
	case 5:
		return "s" + sep + p() + p() + p()
	case 6:
		return "s" + sep + p() + sep + p() + sep + "g" + sep + p()
	case 7:
		return p() + sep + p() + sep + p() + sep // does not start with s
	case 8:
		n := rng.Intn(6)
		b := make([]byte, n)
		for i := range b {
			b[i] = byte(rng.Intn(256))
		}
		return string(b)
	case 9:
		n := 2 + rng.Intn(6)
		b := make([]byte, n)
		for i := range b {
			b[i] = "s/ag\\"[rng.Intn(5)]
		}
		return string(b)
	case 10:
		return "s" + sep + sep + sep
	default:
		return "s" + sep + p() + sep + p() + sep + " g"
	}
}

func runC09(rng *rand.Rand, scale int, out string, shards int, seed int64, corpusDir string) {
	sum := newSummary("C09")
	var parse []parseRec
	var bases []*input
	t0 := time.Now()
	do := func(in *input) obsT {
		o := observe(in)
		if o.Kind == "skipped" {
			sum.Outcomes["skipped-after-hang"]++
			return o
		}
		parse = append(parse, parseRec{in, o})
		sum.note(in, o)
		if in.Fault != "" {
			sum.Faults[in.Stream+":"+strings.SplitN(in.Fault, "+", 2)[0]]++
		}
		return o
	}
	for _, in := range loadCorpus(corpusDir) {
		do(in)
	}
	// 1. grammar-derived texts
	for i := 0; i < 450*scale; i++ {
		cl := genConfig(rng)
		for _, c := range cl {
			sum.ClauseKinds[c.kind]++
		}
		in, _, _ := layoutConfig(rng, cl, i%2 == 1, i%3 != 0)
		in.Stream = "grammar"
		o := do(in)
		sum.GrammarTotal++
		if o.Kind == "accepted" {
			sum.GrammarAccepted++
		}
		bases = append(bases, in)
	}
	// 2. one fault at a known position
	for i := 0; i < 600*scale; i++ {
		cl := genConfig(rng)
		in, pl, files := layoutConfig(rng, cl, i%2 == 1, i%4 != 0)
		in.Stream = "single-fault"
		if hung {
			break
		}
		if observe(in).Kind != "accepted" {
			// the oracle "the first diagnostic is the planted fault" needs a base the parser accepts
			sum.Outcomes["single-fault-base-not-accepted"]++
			continue
		}
		if !injectFault(rng, in, cl, pl, files) {
			continue
		}
		if i%4 == 3 {
			in = percentNames(rng, in) // `%` in file and directory names
		}
		do(in)
	}
	// 3. mutations
	for i := 0; i < 1300*scale; i++ {
		m := mutate(rng, bases[rng.Intn(len(bases))])
		if escapesRoot(m) {
			sum.SkippedEscape++
			continue
		}
		do(m)
	}
	// 4. arbitrary bytes
	for i := 0; i < 500*scale; i++ {
		a := arbitrary(rng)
		if escapesRoot(a) {
			sum.SkippedEscape++
			continue
		}
		do(a)
	}
	// 5. include graphs
	var graphs []*input
	for i := 0; i < 260*scale; i++ {
		g := graphCase(rng, graphShapes[i%len(graphShapes)])
		if escapesRoot(g) {
			sum.SkippedEscape++
			continue
		}
		sum.GraphShapes[strings.SplitN(g.Fault, "-", 2)[0]]++
		ref := refExpand(g, dirsOf(g))
		if ref.Err && ref.Cls != 20 {
			g.HasExpect, g.ExpectCls, g.ExpectPos, g.ExpectChain = true, ref.Cls, ref.Pos, ref.Chain
		}
		if !ref.Err {
			g.ExpectAccept = true // titles, comments, resolvable includes nested at most ten deep
		}
		if i%3 == 2 {
			g = percentNames(rng, g)
		}
		do(g)
		graphs = append(graphs, g)
	}
	// 5c. the space characters on which the regexp classes \s/\S and
	// strings.TrimSpace / Fields disagree, in every single-token position
	for _, in := range unicodeSpaceCases(rng, 420*scale) {
		if hung {
			break
		}
		do(in)
	}
	// 5d. parameter values that mention parameters: themselves, each other in
	// cycles of 2-3, undefined ones; from -D and from defaults; used in a later
	// substituted clause.  Substitution is single-pass: all of these are legal.
	for i := 0; i < 160*scale; i++ {
		if hung {
			break
		}
		do(selfRefCase(rng))
	}
	// 5e. storylines / edits with multi-byte runes colliding with scene letters
	for i := 0; i < 150*scale; i++ {
		if hung {
			break
		}
		do(storylineRuneCase(rng))
	}
	// 5f. the real standard-input path: the configuration is `-`, or a file
	// says `include -`, with content on stdin; valid texts and one planted
	// fault each.  The Coq model takes stdin as empty, so these cases go to the
	// position / no-crash oracle only (stdin_cases).
	var stdins []parseRec
	for i := 0; i < 260*scale; i++ {
		if hung {
			break
		}
		cl := genConfig(rng)
		in, pl, files := stdinCase(rng, cl, i%2 == 1)
		in.Stream = "stdin"
		o := observe(in)
		if o.Kind == "skipped" {
			break
		}
		if i%3 != 0 && o.Kind == "accepted" {
			kind := in.Fault
			if !injectFault(rng, in, cl, pl, files) || in.Fault == "include-directory" {
				continue
			}
			in.fixStdin()
			in.Fault = kind + "+" + in.Fault
			in.Stream = "stdin-fault"
			o = observe(in)
			if o.Kind == "skipped" {
				break
			}
		}
		sum.note(in, o)
		sum.Faults[in.Stream+":"+in.Fault]++
		stdins = append(stdins, parseRec{in, o})
	}
	// 5b. cast multiplicities (bounded above), written out and through parameters
	mults := []string{"-9223372036854775808", "-2147483649", "-4", "-1", "0", "1", "2", "7", "40", "+2", "007", "-0", "1.5", "two", "", "~undefinedn~", "0x10", "1e2", "99999999999999999999", "-"}
	for i := 0; i < 140*scale; i++ {
		m := mults[rng.Intn(len(mults))]
		in := &input{Files: map[string]string{}, Main: "m.cfg", IP: []string{""}, Stream: "multiplicity", Fault: "play " + m}
		var sb strings.Builder
		written := m
		switch rng.Intn(4) {
		case 0:
			if m != "" {
				sb.WriteString("parameter n defaults to " + m + "\n")
				written = "~n~"
			}
		case 1:
			in.Defines = []string{"n=" + m}
			written = "~n~"
		}
		sb.WriteString("role doc\n  :cure true\nend\ncast\n")
		if rng.Intn(2) == 0 {
			sb.WriteString("  alice plays doc\n")
		}
		plural := []string{"", "s"}[rng.Intn(2)]
		env := []string{"", " with A=1"}[rng.Intn(2)]
		sb.WriteString("  dan* play " + written + " doc" + plural + env + "\n")
		if rng.Intn(2) == 0 {
			sb.WriteString("  eve* play 2 docs\n")
		}
		sb.WriteString("end\n")
		if rng.Intn(2) == 0 {
			sb.WriteString("script\n  scene a entails for every doc: cure\n  storyline a\nend\n")
		}
		in.Files["m.cfg"] = sb.String()
		do(in)
	}
	sum.WallParse = time.Since(t0).Seconds()

	// 6. the reader alone
	var reads []readRec
	readOne := func(in *input) {
		if hung {
			return
		}
		rs, st := call(&request{Kind: "read", In: in})
		if !st.OK {
			if st.Timeout {
				reads = append(reads, readRec{In: in, End: "runaway", Err: obsT{Kind: "timedout"}})
				sum.Outcomes["read-timeout"]++
			} else if st.Fatal != "" {
				reads = append(reads, readRec{In: in, End: "panic", Err: obsT{Kind: "fatal", Panic: st.Fatal}})
				sum.Outcomes["read-fatal"]++
			}
			return
		}
		r := *rs.Read
		if r.End == "setup" {
			sum.Outcomes["read-setup-failed"]++
			return
		}
		rr := readRec{In: in, End: r.End}
		for _, e := range r.Events {
			if !e.Skip {
				rr.Events = append(rr.Events, e)
			}
		}
		if r.End == "err" || r.End == "openerr" {
			o := obsT{Kind: "rejected", HasPos: r.Err.HasPos, Pos: convPos(r.Err.Pos), ErrShort: r.Err.ErrShort}
			for _, c := range r.Err.Chain {
				o.Chain = append(o.Chain, convPos(c))
			}
			o.Cls = classify(r.Err.ErrShort)
			if r.End == "openerr" {
				o.Cls = 21
				if strings.Contains(r.Err.ErrShort, "file does not exist") {
					o.Cls = 20
				}
			}
			o.Names = undefinedNames(r.Err.ErrShort)
			rr.Err = o
		}
		if r.End == "panic" {
			rr.Err = obsT{Kind: "panicked", Panic: r.Err.Panic, PanicAt: r.Err.PanicAt}
		}
		sum.Outcomes["read-"+r.End]++
		reads = append(reads, rr)
	}
	for i := 0; i < 420*scale; i++ {
		switch i % 3 {
		case 0:
			readOne(graphs[rng.Intn(len(graphs))])
		case 1:
			readOne(bases[rng.Intn(len(bases))])
		default:
			m := mutate(rng, bases[rng.Intn(len(bases))])
			if !escapesRoot(m) {
				readOne(m)
			}
		}
	}

	// 7. the edit splitter
	var edits []editRec
	for i := 0; i < 600*scale; i++ {
		if hung {
			break
		}
		c := genEditCmd(rng)
		line := "edit " + c
		switch rng.Intn(10) {
		case 0:
			line = "edit\t" + c
		case 1:
			line = "edit  " + c + " "
		case 2:
			line = "edit" + c
		}
		line = strings.TrimSpace(line)
		rs, st := call(&request{Kind: "edit", Line: line})
		if !st.OK {
			if st.Timeout {
				edits = append(edits, editRec{Cmd: c, Line: line, Obs: 2, Pan: "did not terminate"})
				sum.Outcomes["edit-timeout"]++
			} else if st.Fatal != "" {
				edits = append(edits, editRec{Cmd: c, Line: line, Obs: 2, Pan: "fatal: " + st.Fatal})
				sum.Outcomes["edit-fatal"]++
			}
			continue
		}
		e, p := rs.E, rs.P
		rec := editRec{Cmd: c, Line: line, Err: e, Pan: p}
		switch { // wording-free: no error / some error / crash
		case p != "":
			rec.Obs = 2
		case e != "":
			rec.Obs = 1
		}
		sum.Outcomes[fmt.Sprintf("edit-%d", rec.Obs)]++
		edits = append(edits, rec)
	}

	// 8. scene shorthands: `scene TOKEN mood starts red` for every single byte
	// and for the runes on which the regexp class \S and strings.TrimSpace
	// disagree (exhaustive; the same in both tiers)
	var shorts []editRec
	var toks []string
	for b := 0; b < 256; b++ {
		toks = append(toks, string([]byte{byte(b)}))
	}
	for _, r := range unicodeSpaces {
		toks = append(toks, string(r))
	}
	toks = append(toks, "\u00e9", "\u0416", "\u4e2d", "\U0001F600", "\u0661", "\u00b2")
	for _, tok := range toks {
		if hung || scale == 0 {
			break
		}
		line := "scene " + tok + " mood starts red"
		rs, st := call(&request{Kind: "edit", Line: line})
		rec := editRec{Cmd: tok, Line: line}
		switch {
		case st.Timeout:
			rec.Obs, rec.Pan = 2, "did not terminate"
		case st.Fatal != "":
			rec.Obs, rec.Pan = 2, "fatal: "+st.Fatal
		case !st.OK:
			continue
		default:
			rec.Err, rec.Pan = rs.E, rs.P
			switch {
			case rs.P != "":
				rec.Obs = 2
			case rs.E != "":
				rec.Obs = 1
			}
		}
		sum.Outcomes[fmt.Sprintf("shorthand-%d", rec.Obs)]++
		shorts = append(shorts, rec)
	}

	// ---- emit
	sum.Counts["parse"], sum.Counts["read"], sum.Counts["edit"], sum.Counts["shorthand"], sum.Counts["stdin"] = len(parse), len(reads), len(edits), len(shorts), len(stdins)
	sum.Evaluations = len(parse) + len(reads) + len(edits) + len(shorts) + len(stdins)
	sum.DistinctNontrivial = distinct(parse)
	sum.Shards = shards
	for k := 0; k < shards; k++ {
		var sb strings.Builder
		lo, hi := shardRange(len(parse), shards, k)
		sum.Offsets["parse"] = append(sum.Offsets["parse"], lo)
		var items []string
		for _, r := range parse[lo:hi] {
			items = append(items, coqParseCase(r.In, r.Obs))
		}
		sb.WriteString("Definition parse_cases : list parse_case := " + vh.ListNL(items) + ".\n")
		lo, hi = shardRange(len(reads), shards, k)
		sum.Offsets["read"] = append(sum.Offsets["read"], lo)
		items = nil
		for _, r := range reads[lo:hi] {
			items = append(items, coqReadCase(r))
		}
		sb.WriteString("Definition read_cases : list read_case := " + vh.ListNL(items) + ".\n")
		lo, hi = shardRange(len(edits), shards, k)
		sum.Offsets["edit"] = append(sum.Offsets["edit"], lo)
		items = nil
		for _, r := range edits[lo:hi] {
			items = append(items, fmt.Sprintf("(%s, %d%%N)", bstr(r.Line), r.Obs))
		}
		sb.WriteString("Definition edit_cases : list (list byte * N) := " + vh.ListNL(items) + ".\n")
		lo, hi = shardRange(len(stdins), shards, k)
		sum.Offsets["stdin"] = append(sum.Offsets["stdin"], lo)
		items = nil
		for _, r := range stdins[lo:hi] {
			items = append(items, coqParseCase(r.In, r.Obs))
		}
		sb.WriteString("Definition stdin_cases : list parse_case := " + vh.ListNL(items) + ".\n")
		lo, hi = shardRange(len(shorts), shards, k)
		sum.Offsets["shorthand"] = append(sum.Offsets["shorthand"], lo)
		items = nil
		for _, r := range shorts[lo:hi] {
			items = append(items, fmt.Sprintf("(%s, %d%%N)", bstr(r.Cmd), r.Obs))
		}
		sb.WriteString("Definition shorthand_cases : list (list byte * N) := " + vh.ListNL(items) + ".\n")
		vh.WriteFile(out, fmt.Sprintf("cases_%d.v", k), sb.String())
	}
	for i := 0; i < len(parse) && len(sum.Samples) < 14; i += 1 + len(parse)/14 {
		sum.Samples = append(sum.Samples, sample(parse[i].In, parse[i].Obs))
	}
	vh.WriteJSON(out, "cases.json", map[string]interface{}{"parse": parse, "read": reads, "edit": edits, "shorthand": shorts, "stdin": stdins, "seed": seed})
	vh.WriteJSON(out, "summary.json", sum)
	_ = os.Stdout
}

func ckChain(ch []posT) uint64 {
	var a uint64
	for _, p := range ch {
		a = (a*1000003 + cksum(mpath(p.File))*31 + uint64(p.Line) + 7) % 4294967291
	}
	return a
}

func coqReadCase(r readRec) string {
	f, d := coqFS(r.In)
	var evs []string
	for _, e := range r.Events {
		var ch []posT
		for _, c := range e.Chain {
			ch = append(ch, convPos(c))
		}
		evs = append(evs, fmt.Sprintf("(%d, %d, %d, %d)%%N", cksum(e.Line), e.Lineno, cksum(mpath(e.File)), ckChain(ch)))
	}
	end := "REStop"
	switch r.End {
	case "err", "openerr":
		end = "(REErr " + coqObs(r.Err) + ")"
	case "panic":
		end = "REPanic"
	case "runaway":
		end = "RERunaway"
	}
	return fmt.Sprintf("mkRC %s %s %s %s %s %s %s", f, d, bstr(r.In.Main), coqStrList(r.In.Defines), coqIP(r.In), vh.List(evs), end)
}
