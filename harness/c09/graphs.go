package main

import (
	"fmt"
	"math/rand"
	"path"
	"strings"
)

// refResult is what the documented semantics of `include` predicts for a
// file set made only of `title`, comment and `include` lines: the titles in
// reading order, or the first error with its position and include chain.
type refResult struct {
	Inlined []string // the text with every include clause replaced by the lines of the file
	Titles  []string
	Err     bool
	Cls     int
	Pos     posT
	Chain   []posT
}

// refExpand is the reference semantics: recursive textual inclusion, looking
// first next to the including file, then in the -I directories in order;
// more than ten nested files are refused.  It is written independently of the
// reader (recursion instead of a stack of readers).
func refExpand(in *input, isDir map[string]bool) refResult {
	var res refResult
	var main string
	found := false
	for _, p := range in.IP {
		c := path.Join(p, in.Main)
		if _, ok := in.Files[c]; ok {
			main, found = c, true
			break
		}
		if isDir[c] {
			res.Err, res.Cls, res.Pos = true, 1, posT{c, 1}
			return res
		}
	}
	if !found {
		res.Err, res.Cls = true, 20
		return res
	}
	var rec func(file string, depth int, chain []posT) bool
	rec = func(file string, depth int, chain []posT) bool {
		text := in.Files[file]
		lines := strings.Split(text, "\n")
		if strings.HasSuffix(text, "\n") {
			lines = lines[:len(lines)-1]
		}
		for i, l := range lines {
			l = strings.TrimSpace(l)
			raw := l
			l = strings.TrimSpace(l)
			if !strings.HasPrefix(l, "include ") {
				res.Inlined = append(res.Inlined, raw)
			}
			switch {
			case l == "" || strings.HasPrefix(l, "#"):
			case l == "end" || strings.HasPrefix(l, "role ") || strings.HasPrefix(l, ":") || strings.HasPrefix(l, "parameter "):
				// section structure of the few shapes that have one: no title, no include
			case strings.HasPrefix(l, "title "):
				res.Titles = append(res.Titles, strings.TrimSpace(strings.TrimPrefix(l, "title ")))
			case strings.HasPrefix(l, "include "):
				name := substDefines(strings.TrimPrefix(l, "include "), in.Defines)
				fail := func(cls int) bool {
					res.Err, res.Cls, res.Pos, res.Chain = true, cls, posT{file, i + 1}, chain
					return false
				}
				if depth >= 10 {
					return fail(3)
				}
				dirs := append([]string{path.Dir(file)}, in.IP...)
				var target string
				ok := false
				for _, d := range dirs {
					c := path.Join(d, name)
					if _, isf := in.Files[c]; isf {
						target, ok = c, true
						break
					}
					if isDir[c] {
						res.Err, res.Cls, res.Pos = true, 1, posT{c, 1}
						res.Chain = append([]posT{{file, i + 1}}, chain...)
						return false
					}
				}
				if !ok {
					return fail(5)
				}
				if !rec(target, depth+1, append([]posT{{file, i + 1}}, chain...)) {
					return false
				}
			default:
				res.Err, res.Cls, res.Pos, res.Chain = true, 7, posT{file, i + 1}, chain
				return false
			}
		}
		return true
	}
	rec(main, 1, nil)
	return res
}

// substDefines replaces ~name~ by the value of the first -D that defines it
// (the reference only ever sees names defined on the command line).
func substDefines(s string, defs []string) string {
	for _, d := range defs {
		i := strings.IndexByte(d, '=')
		if i < 0 {
			continue
		}
		tok := "~" + d[:i] + "~"
		seen := false
		for _, e := range defs {
			if e == d {
				break
			}
			if strings.HasPrefix(e, d[:i]+"=") {
				seen = true
			}
		}
		if !seen {
			s = strings.ReplaceAll(s, tok, d[i+1:])
		}
	}
	return s
}

func dirsOf(in *input) map[string]bool {
	d := map[string]bool{".": true, "": true}
	add := func(p string) {
		for p != "." && p != "/" && p != "" {
			d[p] = true
			p = path.Dir(p)
		}
	}
	for f := range in.Files {
		add(path.Dir(f))
	}
	for _, x := range in.Dirs {
		add(x)
	}
	return d
}

func titled(name string, body ...string) string {
	var sb strings.Builder
	for i, b := range body {
		if b == "" {
			fmt.Fprintf(&sb, "title %s.%d\n", name, i)
		} else {
			sb.WriteString(b + "\n")
		}
	}
	return sb.String()
}

// graphCase builds one include graph of the named shape.
func graphCase(rng *rand.Rand, shape string) *input {
	in := &input{Files: map[string]string{}, Main: "m.cfg", IP: []string{""}, Stream: "graph", Fault: shape}
	switch shape {
	case "chain":
		d := 1 + rng.Intn(12)
		for i := 1; i <= d; i++ {
			name := fmt.Sprintf("c%d.cfg", i)
			if i == 1 {
				name = "m.cfg"
			}
			if i < d {
				in.Files[name] = titled(name, "", fmt.Sprintf("include c%d.cfg", i+1), "")
			} else {
				in.Files[name] = titled(name, "", "")
			}
		}
		in.Fault = fmt.Sprintf("chain-%d", d)
	case "diamond":
		in.Files["m.cfg"] = titled("m", "", "include a.cfg", "", "include b.cfg", "")
		in.Files["a.cfg"] = titled("a", "", "include c.cfg", "")
		in.Files["b.cfg"] = titled("b", "include c.cfg", "")
		in.Files["c.cfg"] = titled("c", "", "")
	case "self":
		pre := rng.Intn(3)
		var body []string
		for i := 0; i < pre; i++ {
			body = append(body, "")
		}
		body = append(body, "include m.cfg", "")
		in.Files["m.cfg"] = titled("m", body...)
	case "mutual":
		in.Files["m.cfg"] = titled("m", "", "include b.cfg", "")
		in.Files["b.cfg"] = titled("b", "# comment", "", "include m.cfg")
	case "cycle3":
		in.Files["m.cfg"] = titled("m", "include sub/b.cfg")
		in.Files["sub/b.cfg"] = titled("b", "", "include c.cfg")
		in.Files["sub/c.cfg"] = titled("c", "include ../m.cfg", "")
	case "directory":
		in.Dirs = []string{"adir"}
		in.Files["m.cfg"] = titled("m", "", "include adir", "")
	case "directory-nested":
		in.Dirs = []string{"sub/adir"}
		in.Files["m.cfg"] = titled("m", "include sub/a.cfg", "")
		in.Files["sub/a.cfg"] = titled("a", "", "", "include adir")
	case "missing":
		in.Files["m.cfg"] = titled("m", "", "# c", "include nothere.cfg", "")
	case "only-I":
		in.IP = []string{"", "lib"}
		in.Files["m.cfg"] = titled("m", "", "include x.cfg", "")
		in.Files["lib/x.cfg"] = titled("libx", "")
	case "shadow-sibling":
		// the including file sits in conf/: conf/x.cfg wins over lib/x.cfg and x.cfg
		in.IP = []string{"lib", ""}
		in.Main = "conf/m.cfg"
		in.Files["conf/m.cfg"] = titled("m", "", "include x.cfg", "")
		in.Files["conf/x.cfg"] = titled("confx", "")
		in.Files["lib/x.cfg"] = titled("libx", "")
		in.Files["x.cfg"] = titled("rootx", "")
	case "leading-slash":
		// a name that starts with `/` is appended to each search directory like
		// any other: sibling first, then -I; it is NOT the file of that absolute
		// path (decoys: /etc/passwd exists on the machine, etc/passwd is ours)
		in.IP = []string{"", "lib"}
		switch rng.Intn(4) {
		case 0:
			in.Files["m.cfg"] = titled("m", "", "include /x.cfg", "include /sub/y.cfg", "")
			in.Files["x.cfg"] = titled("x", "")
			in.Files["sub/y.cfg"] = titled("y", "")
		case 1:
			in.Files["m.cfg"] = titled("m", "include /etc/passwd", "")
			in.Files["etc/passwd"] = titled("ourpasswd", "")
		case 2:
			in.Main = "conf/m.cfg"
			in.Files["conf/m.cfg"] = titled("m", "", "include /etc/passwd", "include /only.cfg")
			in.Files["conf/etc/passwd"] = titled("confpasswd", "")
			in.Files["etc/passwd"] = titled("rootpasswd", "")
			in.Files["lib/only.cfg"] = titled("libonly", "")
		default:
			in.Defines = []string{"root=/etc", "top="}
			in.Files["m.cfg"] = titled("m", "include ~root~/passwd", "include ~top~/x.cfg", "")
			in.Files["etc/passwd"] = titled("ourpasswd", "")
			in.Files["lib/x.cfg"] = titled("libx", "")
		}
	case "path-leak":
		// The search path is per clause: after a file of ANOTHER directory D has
		// itself included something (and has been read to its end), a later
		// include elsewhere of a name that exists in D must not find it there.
		switch rng.Intn(3) {
		case 0: // -I lib0 -I lib1: common.cfg comes from lib0 although lib1/part.cfg included from lib1 before
			in.IP = []string{"", "lib0", "lib1"}
			in.Files["m.cfg"] = titled("m", "", "include part.cfg", "", "include common.cfg", "")
			in.Files["lib1/part.cfg"] = titled("part", "", "include helper.cfg", "")
			in.Files["lib1/helper.cfg"] = titled("helper", "")
			in.Files["lib0/common.cfg"] = titled("lib0common", "")
			in.Files["lib1/common.cfg"] = titled("lib1common", "")
		case 1: // only.cfg exists only next to sub/part.cfg: the main file cannot include it
			in.IP = []string{"", "lib"}
			in.Files["m.cfg"] = titled("m", "include sub/part.cfg", "", "include only.cfg", "")
			in.Files["sub/part.cfg"] = titled("part", "include x.cfg", "")
			in.Files["sub/x.cfg"] = titled("x", "")
			in.Files["sub/only.cfg"] = titled("only", "")
		default: // ... nor can a file of a third directory
			in.IP = []string{"", "lib"}
			in.Files["m.cfg"] = titled("m", "include sub/part.cfg", "include other/q.cfg", "")
			in.Files["sub/part.cfg"] = titled("part", "", "include x.cfg")
			in.Files["sub/x.cfg"] = titled("x", "include y.cfg")
			in.Files["sub/y.cfg"] = titled("y", "")
			in.Files["other/q.cfg"] = titled("q", "", "include y.cfg", "")
			if rng.Intn(2) == 0 {
				in.Files["lib/y.cfg"] = titled("liby", "") // then it is the -I one, not sub/y.cfg
			}
		}
	case "wide":
		// many SEQUENTIAL includes at one level: the limit is on nesting, not on the number
		n := []int{10, 12, 25}[rng.Intn(3)]
		var body []string
		for i := 0; i < n; i++ {
			if rng.Intn(2) == 0 {
				body = append(body, "include leaf.cfg")
			} else {
				name := fmt.Sprintf("l%d.cfg", i)
				in.Files[name] = titled(name, "")
				body = append(body, "include "+name)
			}
			if rng.Intn(3) == 0 {
				body = append(body, "")
			}
		}
		in.Files["leaf.cfg"] = titled("leaf", "")
		in.Files["m.cfg"] = titled("m", body...)
		in.Fault = fmt.Sprintf("wide-%d", n)
	case "comb":
		// depth 3-4, several sequential includes at every level (a comb / a bushy
		// diamond); at most ~120 files opened in one parse (the parser does not
		// close them)
		d := 3 + rng.Intn(2)
		per := 4
		if d == 4 {
			per = 3
		}
		for lvl := 1; lvl <= d; lvl++ {
			name := fmt.Sprintf("k%d.cfg", lvl)
			if lvl == 1 {
				name = "m.cfg"
			}
			var body []string
			for j := 0; j < per; j++ {
				body = append(body, "")
				if lvl < d {
					body = append(body, fmt.Sprintf("include k%d.cfg", lvl+1))
				} else {
					body = append(body, "include leaf.cfg")
				}
			}
			in.Files[name] = titled(name, body...)
		}
		in.Files["leaf.cfg"] = titled("leaf", "")
	case "shadow-sibling-listed":
		// the including file's own directory is ALSO one of the -I directories,
		// listed after another one that has the name: it is still searched first
		if rng.Intn(2) == 0 {
			in.IP = []string{"lib", ""}
			in.Files["m.cfg"] = titled("m", "", "include x.cfg", "")
			in.Files["x.cfg"] = titled("rootx", "")
			in.Files["lib/x.cfg"] = titled("libx", "")
		} else {
			in.IP = []string{"lib", "conf", ""}
			in.Main = "conf/m.cfg"
			in.Files["conf/m.cfg"] = titled("m", "include sub/a.cfg", "include x.cfg")
			in.Files["conf/sub/a.cfg"] = titled("a", "", "include ../x.cfg")
			in.Files["conf/x.cfg"] = titled("confx", "")
			in.Files["lib/x.cfg"] = titled("libx", "")
			in.Files["x.cfg"] = titled("rootx", "")
		}
	case "shadow-order":
		// no sibling: the first -I directory that has it wins
		in.IP = []string{"lib", "lib2", ""}
		if rng.Intn(2) == 0 {
			in.IP = []string{"lib2", "lib", ""}
		}
		in.Main = "conf/m.cfg"
		in.Files["conf/m.cfg"] = titled("m", "include x.cfg", "")
		in.Files["lib/x.cfg"] = titled("libx", "")
		in.Files["lib2/x.cfg"] = titled("lib2x", "")
		in.Files["x.cfg"] = titled("rootx", "")
	case "sibling-of-includer":
		// b.cfg is looked up next to sub/a.cfg (the includer), not next to m.cfg
		in.IP = []string{"", "lib"}
		in.Files["m.cfg"] = titled("m", "include sub/a.cfg", "")
		in.Files["sub/a.cfg"] = titled("a", "", "include b.cfg")
		in.Files["sub/b.cfg"] = titled("subb", "")
		in.Files["b.cfg"] = titled("rootb", "")
		in.Files["lib/b.cfg"] = titled("libb", "")
	case "dotdot":
		in.Main = "conf/m.cfg"
		in.Files["conf/m.cfg"] = titled("m", "", "include ../x.cfg", "include ./y.cfg", "include sub//z.cfg")
		in.Files["x.cfg"] = titled("x", "")
		in.Files["conf/y.cfg"] = titled("y", "")
		in.Files["conf/sub/z.cfg"] = titled("z", "")
	case "no-final-newline":
		in.Files["m.cfg"] = "title m.0\ninclude a.cfg\ntitle m.2"
		in.Files["a.cfg"] = "title a.0\ninclude b.cfg"
		in.Files["b.cfg"] = "# nothing"
	case "nonl-title":
		// the included file ends with a clause and no newline
		in.Files["m.cfg"] = "title m.0\ninclude a.cfg\ntitle m.2\n"
		in.Files["a.cfg"] = "title a.0\ntitle a.1"
	case "nonl-end":
		// the included file ends with `end` and no newline: the section must be closed
		in.Files["m.cfg"] = "title m.0\nrole r\ninclude body.cfg\ntitle m.3\n"
		in.Files["body.cfg"] = "  :a true\nend"
	case "nonl-nested":
		in.Files["m.cfg"] = "include a.cfg\ntitle m.1"
		in.Files["a.cfg"] = "title a.0\ninclude b.cfg\n  title a.2"
		in.Files["b.cfg"] = "role r\n:x true\nend\ntitle b.3"
	case "empty-files":
		in.Files["m.cfg"] = "include a.cfg\ninclude a.cfg\ntitle m.2\n"
		in.Files["a.cfg"] = ""
	case "random":
		// random graph over up to 7 files in several directories, names may repeat across directories
		dirs := []string{"", "conf", "lib", "conf/sub"}
		in.IP = [][]string{{""}, {"", "lib"}, {"lib", ""}, {"lib", "conf", ""}}[rng.Intn(4)]
		names := []string{"a.cfg", "b.cfg", "c.cfg", "x.cfg"}
		n := 2 + rng.Intn(6)
		var fl []string
		for i := 0; i < n; i++ {
			f := path.Join(dirs[rng.Intn(len(dirs))], names[rng.Intn(len(names))])
			fl = append(fl, f)
		}
		in.Main = "m.cfg"
		if rng.Intn(3) == 0 {
			in.Main = "conf/m.cfg"
		}
		fl = append(fl, in.Main)
		if rng.Intn(4) == 0 {
			in.Dirs = []string{"conf/d"}
		}
		acyclic := rng.Intn(3) != 0
		for idx, f := range fl {
			var body []string
			k := 1 + rng.Intn(4)
			for j := 0; j < k; j++ {
				switch rng.Intn(5) {
				case 0, 1:
					body = append(body, "")
				case 2:
					body = append(body, "# c")
				default:
					tgt := names[rng.Intn(len(names))]
					switch rng.Intn(8) {
					case 0:
						tgt = "sub/" + tgt
					case 1:
						tgt = "../" + tgt
					case 2:
						tgt = "d"
					case 3:
						tgt = "conf/" + tgt
					}
					if acyclic && idx != len(fl)-1 && rng.Intn(2) == 0 {
						body = append(body, "")
					} else {
						body = append(body, "include "+tgt)
					}
				}
			}
			in.Files[f] = titled(strings.ReplaceAll(f, "/", "_"), body...)
		}
	}
	// any file may lack its final newline
	if shape != "no-final-newline" {
		for _, n := range sortedNames(in.Files) {
			if rng.Intn(3) == 0 {
				in.Files[n] = strings.TrimSuffix(in.Files[n], "\n")
			}
		}
	}
	return in
}

var graphShapes = []string{"leading-slash", "path-leak", "path-leak", "wide", "comb", "shadow-sibling-listed", "nonl-title", "nonl-end", "nonl-nested", "chain", "chain", "chain", "diamond", "self", "mutual", "cycle3", "directory", "directory-nested", "missing",
	"only-I", "shadow-sibling", "shadow-order", "sibling-of-includer", "dotdot", "no-final-newline", "empty-files", "random", "random", "random", "random"}

// escapesRoot says whether some include name of the file set could climb
// above the root directory (the model's file system stops there).
func escapesRoot(in *input) bool {
	for f, t := range in.Files {
		depth := strings.Count(f, "/")
		for _, l := range strings.Split(t, "\n") {
			if i := strings.Index(l, "include "); i >= 0 {
				if strings.Count(l, "..") > depth+1 {
					return true
				}
			}
		}
	}
	for _, d := range in.Defines {
		if strings.Contains(d, "..") {
			return true
		}
	}
	return false
}
