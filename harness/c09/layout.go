package main

import (
	"fmt"
	"math/rand"
	"path"
	"strings"
)

// input is one file set handed to the parser.
type input struct {
	Files   map[string]string // path relative to the root, no leading slash
	Dirs    []string          // extra (empty) directories
	Main    string
	Defines []string
	IP      []string // -I directories relative to the root ("" = the root)
	Stream  string   // which generator made it
	// UseStdin: the process's standard input holds Stdin while this input is
	// parsed (Main == "-", or some file says `include -`)
	UseStdin bool
	Stdin    string
	// generator's knowledge (oracle), when it has any
	HasExpect    bool
	ExpectAccept bool // the generator knows the configuration must be read through
	ExpectPos    posT
	ExpectChain  []posT
	ExpectCls    int
	Fault        string
}

type layouter struct {
	rng    *rand.Rand
	files  map[string]*physFile
	order  []string
	placed []placed
	nfile  int
	fancy  bool
	ip     []string
}

func (l *layouter) newFile(dir string) *physFile {
	l.nfile++
	name := path.Join(dir, fmt.Sprintf("f%d.cfg", l.nfile))
	f := &physFile{name: name}
	l.files[name] = f
	l.order = append(l.order, name)
	return f
}

// emit lays clauses[lo:hi] out into f (a file in directory dir at include
// depth `depth`, reached through chain), carving sub-ranges into included
// files.
func (l *layouter) emit(f *physFile, clauses []clause, lo, hi int, depth int, chain []posT) {
	dir := path.Dir(f.name)
	if dir == "." {
		dir = ""
	}
	i := lo
	for i < hi {
		if l.fancy && l.rng.Intn(8) == 0 {
			f.lines = append(f.lines, commentLines[l.rng.Intn(len(commentLines))])
		}
		if depth < 4 && hi-i >= 2 && l.rng.Intn(9) == 0 {
			// carve [i, j) into an included file
			j := i + 1 + l.rng.Intn(hi-i)
			var child *physFile
			var incName string
			switch l.rng.Intn(4) {
			case 0: // sibling
				child = l.newFile(dir)
				incName = path.Base(child.name)
			case 1: // sub-directory of the includer
				child = l.newFile(path.Join(dir, "sub"))
				incName = "sub/" + path.Base(child.name)
			case 2: // only through -I lib
				child = l.newFile("lib")
				incName = path.Base(child.name)
			default: // through the root entry of the search path, by a path
				child = l.newFile("etc")
				incName = "etc/" + path.Base(child.name)
			}
			indent := ""
			if l.fancy && l.rng.Intn(3) == 0 {
				indent = "  "
			}
			f.lines = append(f.lines, indent+"include "+incName)
			incLine := len(f.lines)
			l.emit(child, clauses, i, j, depth+1, append([]posT{{f.name, incLine}}, chain...))
			// no final newline — unless the last clause is continued: the reader
			// refuses a continued line that ends at EOF without a newline
			if l.rng.Intn(4) == 0 && !(len(child.lines) >= 2 && strings.HasSuffix(child.lines[len(child.lines)-2], "\\")) {
				child.noNL = true
			}
			i = j
			continue
		}
		ls := renderClause(l.rng, clauses[i], l.fancy)
		l.placed[i] = placed{file: f.name, line: len(f.lines) + 1, chain: chain}
		f.lines = append(f.lines, ls...)
		i++
	}
}

// layoutConfig turns clauses into an input.  The search path is
// ["", "lib"]; the main file is m.cfg in the root or in a sub-directory (then
// "etc/..." includes are found through the root entry of the path).
func layoutConfig(rng *rand.Rand, clauses []clause, fancy bool, includes bool) (*input, []placed, map[string]*physFile) {
	l := &layouter{rng: rng, files: map[string]*physFile{}, placed: make([]placed, len(clauses)), fancy: fancy}
	mainDir := ""
	if rng.Intn(4) == 0 {
		mainDir = "conf"
	}
	m := &physFile{name: path.Join(mainDir, "m.cfg")}
	l.files[m.name] = m
	depth := 1
	if !includes {
		depth = 99
	}
	l.emit(m, clauses, 0, len(clauses), depth, nil)
	in := &input{Files: map[string]string{}, Main: m.name, IP: []string{"", "lib"}}
	for n, f := range l.files {
		in.Files[n] = f.text()
	}
	return in, l.placed, l.files
}

func (in *input) rebuild(files map[string]*physFile) {
	in.Files = map[string]string{}
	for n, f := range files {
		in.Files[n] = f.text()
	}
}

var bogus = []string{"!!bogus clause!!", "role", "title", "end end", "plays", "this is not a clause", "=", "~~"}

// injectFault replaces or inserts one faulty line at a known position.
func injectFault(rng *rand.Rand, in *input, clauses []clause, pl []placed, files map[string]*physFile) bool {
	var cands []int
	for i, c := range clauses {
		if !c.header {
			cands = append(cands, i)
		}
	}
	if len(cands) == 0 {
		return false
	}
	k := cands[rng.Intn(len(cands))]
	p := pl[k]
	f := files[p.file]
	kind := rng.Intn(10)
	// how many physical lines does clause k occupy?
	n := 1
	for p.line-1+n-1 < len(f.lines) && strings.HasSuffix(f.lines[p.line-1+n-1], "\\") {
		n++
	}
	indent := ""
	if clauses[k].section != "" {
		indent = "  "
	}
	repl := func(s string) {
		// replace the n physical lines of clause k by one line
		nl := append([]string{}, f.lines[:p.line-1]...)
		nl = append(nl, s)
		nl = append(nl, f.lines[p.line-1+n:]...)
		f.lines = nl
	}
	in.HasExpect = true
	in.ExpectPos = posT{p.file, p.line}
	in.ExpectChain = p.chain
	switch {
	case kind < 5:
		repl(indent + bogus[rng.Intn(len(bogus))])
		in.ExpectCls, in.Fault = 7, "bogus-clause"
	case kind == 6:
		repl(indent + "include nosuchfile.cfg")
		in.ExpectCls, in.Fault = 5, "include-missing"
	case kind == 7 && clauses[k].section == "":
		repl("title ~nosuchparam~ here")
		in.ExpectCls, in.Fault = 4, "undefined-parameter"
	case kind == 5:
		// three or more undefined parameters in ONE clause (their errors are combined)
		u := "~u1~ and ~u2~ and ~u3~"
		if rng.Intn(2) == 0 {
			u += " ~u4~~u5~"
		}
		switch clauses[k].section {
		case "":
			repl("title " + u)
		case "cast":
			repl(indent + "zed plays ~u1~~u2~~u3~")
		case "script":
			repl(indent + "repeat ~u1~~u2~~u3~ times")
		case "audience":
			repl(indent + "zed expects always: ~u1~ + ~u2~ + ~u3~ > 0")
		default:
			repl(indent + bogus[0])
			in.ExpectCls, in.Fault = 7, "bogus-clause"
			in.rebuild(files)
			return true
		}
		in.ExpectCls, in.Fault = 4, "three-undefined-parameters"
	case kind == 8:
		// an unterminated continuation at the very end of this file: everything
		// from clause k on is dropped from the file
		f.lines = append(append([]string{}, f.lines[:p.line-1]...), indent+"title dangling \\")
		f.noNL = false
		in.ExpectCls, in.Fault = 2, "eof-in-continuation"
	default:
		repl(indent + "include .")
		in.ExpectCls, in.Fault = 1, "include-directory"
		// the diagnostic is positioned in the directory itself, line 1
		dir := path.Dir(p.file)
		if dir == "." {
			dir = ""
		}
		in.ExpectChain = append([]posT{{p.file, p.line}}, p.chain...)
		in.ExpectPos = posT{dir, 1}
	}
	in.rebuild(files)
	return true
}
