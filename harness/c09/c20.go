package main

import (
	"fmt"
	"math/rand"
	"strings"
)

// slot is one field of one clause kind in which `~p~` is planted.
type slot struct {
	Name  string
	Subst bool   // the manual lists the field as substituted
	Val   string // a value of p that keeps the configuration valid there
	Alt   string // another value (the losing definition in precedence tests)
	Text  string // what is written in the field ("~p~" possibly with context)
}

// The template.  {name} marks a field; fields not planted get their default.
var templateLines = []string{
	"title {title}",
	"attention {attention}",
	"author {author}",
	"parameter {pname} defaults to {pval}",
	"role {role}",
	"  :cure {actioncmd}",
	"  :{actionname} true",
	"  spotlight {spotlight}",
	"  cleanup {cleanup}",
	"  signal cures event at {sigre}",
	"  signal {signame} scalar at (?P<ts_now>)v (?P<scalar>\\d+)",
	"end",
	"role nurse extends {extends}",
	"end",
	"cast",
	"  alice plays {castrole}",
	"  bob* play {mul} docs",
	"  carol plays doc with {env}",
	"  {actorname} plays doc",
	"end",
	"script",
	"  {tempo}",
	"  scene a entails for every {sceneevery}: cure",
	"  scene b entails for {sceneactor}: {sceneaction}",
	"  scene c mood starts {mood}",
	"  storyline {storyline}",
	"  edit s/{editre}/b/",
	"  repeat from {repeatfrom}",
	"  repeat {count} times",
	"  repeat time {dur}",
	"end",
	"audience",
	"  {member} watches alice cures",
	"  obs watches every {watchevery} cures",
	"  obs2 watches alice {watchsig}",
	"  obs3 watches {watchactor} cures",
	"  obs measures {ylabel}",
	"  aud audits only while {auditexpr}",
	"  aud collects {cvar} as last 3 {cexpr}",
	"  aud collects bin2 as {cmode} 2 t",
	"  aud computes {pvar} as {pexpr}",
	"  aud expects {modality}: {expexpr}",
	"  w watches {wvar}",
	"  aud2 expects like {liketarget}",
	"  {helper} only helps",
	"  {measurer} measures things",
	"end",
	"interpretation",
	"  ignore {itarget} disappointment",
	"end",
	"include {incname}",
}

var defaults = map[string]string{
	"title": "a play", "attention": "fiction", "author": "nobody", "pname": "unusedpar", "pval": "whatever",
	"role": "doc", "actioncmd": "echo cured", "actionname": "extra", "spotlight": "tail -F log", "cleanup": "rm -f log",
	"sigre": "(?P<ts_now>)(?P<event>cured.*)", "signame": "level", "extends": "doc", "castrole": "doc", "mul": "2",
	"env": "A=1", "actorname": "dave", "tempo": "tempo 1s", "sceneevery": "doc", "sceneaction": "cure", "mood": "blue",
	"storyline": "ab c", "editre": "zz", "repeatfrom": "a", "count": "3", "dur": "10s", "member": "obs0",
	"watchevery": "doc", "watchsig": "cures", "ylabel": "cures per second", "auditexpr": "t < 100", "cvar": "bin",
	"cexpr": "t", "pvar": "last_t", "pexpr": "t * 2", "modality": "always", "expexpr": "t < 50", "wvar": "last_t",
	"itarget": "aud", "incname": "extra.cfg", "sceneactor": "alice", "watchactor": "alice", "cmode": "last",
	"liketarget": "aud", "helper": "aud", "measurer": "obs",
}

// slots: Subst = the field is in the manual's list of substituted places.
var slots = []slot{
	{Name: "title", Subst: true, Val: "VALX", Alt: "ALTX", Text: "the ~p~ play"},
	{Name: "attention", Subst: true, Val: "VALX", Alt: "ALTX", Text: "~p~"},
	{Name: "author", Subst: false, Val: "VALX", Alt: "ALTX", Text: "mr ~p~"},
	{Name: "pname", Subst: false, Val: "VALX", Alt: "ALTX", Text: "~p~"},
	{Name: "pval", Subst: false, Val: "VALX", Alt: "ALTX", Text: "x~p~y"},
	{Name: "role", Subst: true, Val: "doc", Alt: "doc2", Text: "~p~"},
	{Name: "actioncmd", Subst: false, Val: "VALX", Alt: "ALTX", Text: "echo ~p~ >>log"},
	{Name: "actionname", Subst: false, Val: "VALX", Alt: "ALTX", Text: "~p~"},
	{Name: "spotlight", Subst: false, Val: "VALX", Alt: "ALTX", Text: "tail -F ~p~"},
	{Name: "cleanup", Subst: false, Val: "VALX", Alt: "ALTX", Text: "rm -f ~p~"},
	{Name: "sigre", Subst: false, Val: "VALX", Alt: "ALTX", Text: "(?P<ts_now>)(?P<event>~p~.*)"},
	{Name: "signame", Subst: false, Val: "VALX", Alt: "ALTX", Text: "~p~"},
	{Name: "extends", Subst: true, Val: "doc", Alt: "nodoc", Text: "~p~"},
	{Name: "castrole", Subst: true, Val: "doc", Alt: "nodoc", Text: "~p~"},
	{Name: "mul", Subst: true, Val: "3", Alt: "1", Text: "~p~"},
	{Name: "env", Subst: true, Val: "B=VALX", Alt: "B=ALTX", Text: "~p~"},
	{Name: "actorname", Subst: false, Val: "VALX", Alt: "ALTX", Text: "~p~"},
	{Name: "tempo", Subst: false, Val: "2s", Alt: "3s", Text: "tempo ~p~"},
	{Name: "sceneevery", Subst: true, Val: "doc", Alt: "nodoc", Text: "~p~"},
	{Name: "sceneaction", Subst: false, Val: "cure", Alt: "extra", Text: "~p~"},
	{Name: "mood", Subst: false, Val: "VALX", Alt: "ALTX", Text: "~p~"},
	{Name: "storyline", Subst: false, Val: "ab", Alt: "c", Text: "a ~p~"},
	{Name: "editre", Subst: false, Val: "a", Alt: "c", Text: "~p~"},
	{Name: "repeatfrom", Subst: false, Val: "a", Alt: "c", Text: "~p~"},
	{Name: "count", Subst: true, Val: "7", Alt: "9", Text: "~p~"},
	{Name: "dur", Subst: true, Val: "42s", Alt: "43s", Text: "~p~"},
	{Name: "member", Subst: false, Val: "VALX", Alt: "ALTX", Text: "~p~"},
	{Name: "watchevery", Subst: true, Val: "doc", Alt: "nodoc", Text: "~p~"},
	{Name: "watchsig", Subst: false, Val: "cures", Alt: "level", Text: "~p~"},
	{Name: "ylabel", Subst: false, Val: "VALX", Alt: "ALTX", Text: "~p~ per second"},
	{Name: "auditexpr", Subst: true, Val: "77", Alt: "78", Text: "t < ~p~"},
	{Name: "cvar", Subst: false, Val: "VALX", Alt: "ALTX", Text: "~p~"},
	{Name: "cexpr", Subst: true, Val: "77", Alt: "78", Text: "t + ~p~"},
	{Name: "pvar", Subst: false, Val: "VALX", Alt: "ALTX", Text: "~p~"},
	{Name: "pexpr", Subst: true, Val: "77", Alt: "78", Text: "~p~ * t"},
	{Name: "modality", Subst: false, Val: "always", Alt: "never", Text: "~p~"},
	{Name: "expexpr", Subst: true, Val: "77", Alt: "78", Text: "t < ~p~ && true"},
	{Name: "wvar", Subst: false, Val: "last_t", Alt: "bin", Text: "~p~"},
	{Name: "itarget", Subst: false, Val: "aud", Alt: "obs", Text: "~p~"},
	{Name: "incname", Subst: true, Val: "extra", Alt: "nosuch", Text: "~p~.cfg"},
	// places the manual does NOT list: a defined p must change nothing there
	{Name: "sceneactor", Subst: false, Val: "alice", Alt: "carol", Text: "~p~"},
	{Name: "watchactor", Subst: false, Val: "alice", Alt: "carol", Text: "~p~"},
	{Name: "cmode", Subst: false, Val: "last", Alt: "top", Text: "~p~"},
	{Name: "liketarget", Subst: false, Val: "aud", Alt: "obs", Text: "~p~"},
	{Name: "helper", Subst: false, Val: "aud", Alt: "obs", Text: "~p~"},
	{Name: "measurer", Subst: false, Val: "obs", Alt: "aud", Text: "~p~"},
}

// extraVals: further values of p for substituted fields — keywords of the
// field, boundary numbers, other legal spellings.  Each is checked under -D
// and under an in-file default against the same text with the value written
// out (which may be accepted or rejected: only equality is required).  No
// value has leading/trailing blanks, a newline, a final backslash or a ~name~
// of its own: writing those out is not the same text.
var extraVals = map[string][]string{
	"title":      {"unconstrained", "always", "end", "~", "a  b", "include x", "100%"},
	"attention":  {"throughout", "#not a comment", "~~", "a\\b"},
	"extends":    {"doc"},
	"castrole":   {"nurse", "docs", "every"},
	"mul":        {"1", "0", "-1", "+2", "007", "two", "2.0"},
	"env":        {"unconstrained", "A=1 B=2", "with", "X='a b'; Y=2"},
	"sceneevery": {"nurse", "every", "docs"},
	"count":      {"0", "-1", "always", "007", "+4", "1e1"},
	"dur":        {"unconstrained", "5m", "0", "1h2m3s", "always", "-1s", "10", "Unconstrained"},
	"watchevery": {"nurse", "docs"},
	"auditexpr":  {"t", "true", "(1+2)", "'x'", "moodt", "throughout"},
	"cexpr":      {"t", "mood", "1e3", "true"},
	"pexpr":      {"2", "moodt", "(t)", "-1"},
	"expexpr":    {"always", "1", "moodt", "t"},
	"incname":    {"./extra", "sub/../extra", "extra.cfg/../extra"},
}

// gluedTexts: for the expression fields, references written directly against
// what precedes and follows them (no blank): after <= >= == != ( + - , before
// ) * and two references back to back.  Each is run with p from -D, from a
// default, and undefined.
var gluedBool = []string{"t<=~p~", "t>=~p~", "t==~p~", "t!=~p~", "(~p~)>t", "-~p~<t", "1+~p~>t", "~p~*2>t", "(t+~p~)>0", "t<~p~~p~", "t<~p~&&(-~p~)<t", "!(t>~p~)", "t<=~p~||t>=~p~"}
var gluedAny = []string{"t+~p~", "(~p~)", "-~p~", "~p~*t", "t<=~p~", "t!=~p~", "~p~~p~", "(t-~p~)*(~p~+1)", "t>=~p~ ? 1 : 0"}
var gluedTexts = map[string][]string{"auditexpr": gluedBool, "expexpr": gluedBool, "cexpr": gluedAny, "pexpr": gluedAny}

// defModes: how p is (not) defined.
var defModes = []string{"D", "F", "B", "N", "FF", "DD", "DF-tilde"}

// render builds the template text with slot s written as `text`.
func renderTemplate(s *slot, text string, preamble []string) string {
	var sb strings.Builder
	for _, p := range preamble {
		sb.WriteString(p + "\n")
	}
	for _, l := range templateLines {
		for {
			i := strings.IndexByte(l, '{')
			if i < 0 {
				break
			}
			j := strings.IndexByte(l[i:], '}') + i
			name := l[i+1 : j]
			v := defaults[name]
			if s != nil && name == s.Name {
				v = text
			}
			l = l[:i] + v + l[j+1:]
		}
		sb.WriteString(l + "\n")
	}
	return sb.String()
}

// plantedCase is one (slot, definition mode) experiment.
type plantedCase struct {
	Slot, Mode string
	Text       string // what is written in the field
	Value      string // extra-value experiments: the value of p
	NeedAccept bool   // the value was chosen to keep the configuration valid: it must be accepted
	Subst      bool
	Winner     string // the value p must have by the precedence rules ("" when undefined)
	In, Ref    *input // the planted configuration; the same with the winner's value written out
	Line       int    // physical line of the planted field in m.cfg
}

// makePlantedValue is makePlanted for another value of p (modes D and F).
func makePlantedValue(s slot, mode, val string) plantedCase {
	s.Val = val
	pc := makePlanted(s, mode)
	pc.Value, pc.NeedAccept = val, false
	return pc
}

func makePlanted(s slot, mode string) plantedCase {
	pc := plantedCase{Slot: s.Name, Mode: mode, Subst: s.Subst, NeedAccept: true}
	var pre, defs []string
	switch mode {
	case "D":
		defs, pc.Winner = []string{"p=" + s.Val}, s.Val
	case "F":
		pre, pc.Winner = []string{"parameter p defaults to " + s.Val}, s.Val
	case "B": // -D wins over the default
		defs, pre, pc.Winner = []string{"p=" + s.Val}, []string{"parameter p defaults to " + s.Alt}, s.Val
	case "N":
	case "FF": // the first `parameter` clause wins
		pre, pc.Winner = []string{"parameter p defaults to " + s.Val, "parameter p defaults to " + s.Alt}, s.Val
	case "DD": // the first -D wins
		defs, pc.Winner = []string{"p=" + s.Val, "p=" + s.Alt}, s.Val
	case "DF-tilde": // another parameter whose value mentions ~p~ does not disturb it, and is not re-expanded
		defs, pre, pc.Winner = []string{"q=~p~", "p=" + s.Val}, []string{"parameter q defaults to zz"}, s.Val
	}
	text := renderTemplate(&s, s.Text, pre)
	pc.Line = 0
	for i, l := range strings.Split(text, "\n") {
		if strings.Contains(l, "~p~") && !strings.HasPrefix(l, "parameter p ") {
			pc.Line = i + 1
			break
		}
	}
	extra := "title from extra\n"
	pc.In = &input{Files: map[string]string{"m.cfg": text, "extra.cfg": extra}, Main: "m.cfg", Defines: defs, IP: []string{""}, Stream: "planted"}
	refText := renderTemplate(&s, strings.ReplaceAll(s.Text, "~p~", pc.Winner), pre)
	if !s.Subst {
		// untouched field: the reference is the same text with p undefined
		refText = renderTemplate(&s, s.Text, nil)
	}
	pc.Ref = &input{Files: map[string]string{"m.cfg": refText, "extra.cfg": extra}, Main: "m.cfg", IP: []string{""}, Stream: "planted-ref"}
	if !s.Subst {
		pc.Ref.Defines = nil
	} else {
		pc.Ref.Defines = defs
	}
	return pc
}

// ppCase is one direct experiment on parseDefines / `parameter` / preprocReplace.
type ppCase struct {
	Defines []string
	Params  [][2]string // parameter clauses in order (name, value)
	Strs    []string
}

var ppNames = []string{"p", "q", "p1", "P_2", "x", "par", "_", "9", "~p~", "a~b", "pp"}
var ppVals = []string{"", "v", "VAL", "~p~", "a~p~b", "~", "~~", "~q~", "x=y", "1 2", "~q", "q~"}

func genPP(rng *rand.Rand) ppCase {
	var c ppCase
	nd := rng.Intn(4)
	for i := 0; i < nd; i++ {
		n := ppNames[rng.Intn(len(ppNames))]
		switch rng.Intn(6) {
		case 0:
			c.Defines = append(c.Defines, n) // no '='
		case 1:
			c.Defines = append(c.Defines, "="+ppVals[rng.Intn(len(ppVals))]) // empty name
		case 2: // -D values are taken as they are, outer blanks included
			c.Defines = append(c.Defines, n+"="+[]string{" ", " x", "x ", "  a b  ", "\t", " ~p~ ", "  "}[rng.Intn(7)])
		default:
			c.Defines = append(c.Defines, n+"="+ppVals[rng.Intn(len(ppVals))])
		}
	}
	np := rng.Intn(4)
	for i := 0; i < np; i++ {
		n := ppNames[rng.Intn(len(ppNames))]
		v := ppVals[rng.Intn(len(ppVals))]
		if v == "" {
			v = "e"
		}
		c.Params = append(c.Params, [2]string{n, v})
	}
	ns := 1 + rng.Intn(3)
	pieces := []string{"~", "~~", "~p~", "~q~", "~p1~", "~P_2~", "~x~", "~undefined~", "~9~", "~_~", "~pp~", "p", "q", " ", "a", "~p", "p~", "~p~q~", "~~p~~", "~p q~", "~é~", "~p-q~", "\n", "~par~", "~a~b~"}
	for i := 0; i < ns; i++ {
		var sb strings.Builder
		k := rng.Intn(7)
		for j := 0; j < k; j++ {
			sb.WriteString(pieces[rng.Intn(len(pieces))])
		}
		c.Strs = append(c.Strs, sb.String())
	}
	return c
}

func (c ppCase) paramText() string {
	var sb strings.Builder
	for _, p := range c.Params {
		fmt.Fprintf(&sb, "parameter %s defaults to %s\n", p[0], p[1])
	}
	return sb.String()
}
