package main

import (
	"fmt"
	"math/rand"
	"strings"
)

// clause is one logical line of a configuration, with the way it is laid out
// on physical lines.
type clause struct {
	text    string // the clause (no indentation, no continuation)
	kind    string // clause kind, for the coverage summary
	section string // "" (top level) | "role" | "cast" | "script" | "audience" | "interpretation"
	header  bool   // section header or `end`: never replaced by a fault
}

type roleInfo struct {
	name    string
	actions []string
	signals []sigInfo
	spot    bool
}
type sigInfo struct {
	name string
	typ  string // event | scalar | delta
}
type actorInfo struct {
	name string
	role *roleInfo
}

// cfgGen builds one valid configuration covering the clause kinds of the
// manual.  All choices come from rng.
type cfgGen struct {
	rng     *rand.Rand
	n       int
	roles   []*roleInfo
	actors  []actorInfo
	scenes  []byte
	members []string // audience members
	audExp  []string // members with an `expects`
	vars    []string
	kinds   map[string]int
}

func (g *cfgGen) id(prefix string) string {
	g.n++
	return fmt.Sprintf("%s%d", prefix, g.n)
}

func (g *cfgGen) pick(xs []string) string { return xs[g.rng.Intn(len(xs))] }

var words = []string{"a", "midsummer", "night", "dream", "of", "doctors", "and", "patients", "v2", "x-y", "100%", "(draft)"}

func (g *cfgGen) phrase() string {
	n := 1 + g.rng.Intn(4)
	var p []string
	for i := 0; i < n; i++ {
		p = append(p, g.pick(words))
	}
	return strings.Join(p, " ")
}

func (g *cfgGen) cmd() string {
	return g.pick([]string{"true", "echo hello >>log.txt", "sleep 0.1; echo done", "tail -F log.txt", "echo \"v $((RANDOM % 10))\"",
		"if test -e x; then echo y; fi", "printf 'a b\\n' | cat", "echo $i ${HOME}"})
}

func (g *cfgGen) add(out *[]clause, section, kind, text string, header bool) {
	*out = append(*out, clause{text: text, kind: kind, section: section, header: header})
}

func (g *cfgGen) topMisc(out *[]clause) {
	for g.rng.Intn(3) == 0 {
		switch g.rng.Intn(4) {
		case 0:
			g.add(out, "", "title", "title "+g.phrase(), false)
		case 1:
			g.add(out, "", "author", "author "+g.phrase(), false)
		case 2:
			g.add(out, "", "attention", "attention "+g.phrase(), false)
		case 3:
			g.add(out, "", "parameter", "parameter "+g.id("par")+" defaults to "+g.phrase(), false)
		}
	}
}

func (g *cfgGen) genRole(out *[]clause) {
	r := &roleInfo{name: g.id("role")}
	hdr := "role " + r.name
	if len(g.roles) > 0 && g.rng.Intn(3) == 0 {
		p := g.roles[g.rng.Intn(len(g.roles))]
		hdr += " extends " + p.name
		r.actions = append(r.actions, p.actions...)
		r.signals = append(r.signals, p.signals...)
		r.spot = p.spot
		g.add(out, "", "role-extends", hdr, true)
	} else {
		g.add(out, "", "role", hdr, true)
	}
	na := 1 + g.rng.Intn(3)
	for i := 0; i < na; i++ {
		a := g.id("act")
		r.actions = append(r.actions, a)
		g.add(out, "role", "action", ":"+a+" "+g.cmd(), false)
	}
	ns := g.rng.Intn(3)
	if ns > 0 || g.rng.Intn(2) == 0 {
		g.add(out, "role", "spotlight", "spotlight "+g.cmd(), false)
		r.spot = true
	}
	if g.rng.Intn(2) == 0 {
		g.add(out, "role", "cleanup", "cleanup "+g.cmd(), false)
	}
	for i := 0; i < ns; i++ {
		s := sigInfo{name: g.id("sig")}
		var re string
		switch g.rng.Intn(5) {
		case 0:
			s.typ, re = "event", `(?P<ts_now>)(?P<event>hello.*)`
		case 1:
			s.typ, re = "scalar", `(?P<ts_now>)v (?P<scalar>\d+)`
		case 2:
			s.typ, re = "delta", `(?P<ts_deltasecs>) d=(?P<delta>[0-9.]+)`
		case 3:
			s.typ, re = "event", `(?P<ts_log>) (?P<event>\S+) end`
		case 4:
			s.typ, re = "scalar", `^(?P<ts_rfc3339>)\s+(?P<scalar>-?\d+(?:\.\d+)?)$`
		}
		r.signals = append(r.signals, s)
		g.add(out, "role", "signal-"+s.typ, "signal "+s.name+" "+s.typ+" at "+re, false)
	}
	g.add(out, "role", "end", "end", true)
	g.roles = append(g.roles, r)
}

func (g *cfgGen) genCast(out *[]clause) {
	hdr := len(*out) // where the `cast` header goes
	g.add(out, "", "cast", "cast", true)
	n := 1 + g.rng.Intn(3)
	for i := 0; i < n || len(g.actors) == 0; i++ {
		r := g.roles[g.rng.Intn(len(g.roles))]
		name := g.id("actor")
		env := ""
		if g.rng.Intn(3) == 0 {
			env = " with " + g.pick([]string{"patient=alice", "A=1 B=2", "mode='x y'"})
		}
		if g.rng.Intn(3) != 0 {
			g.add(out, "cast", "cast-single", name+" plays "+r.name+env, false)
			g.actors = append(g.actors, actorInfo{name, r})
			continue
		}
		// a multiplicity: mostly small and positive, sometimes zero or negative
		// (accepted: no actor is defined), written out or through a parameter
		m := 1 + g.rng.Intn(3)
		kind := "cast-multi"
		switch g.rng.Intn(8) {
		case 0:
			m, kind = 0, "cast-multi-zero"
		case 1:
			m, kind = -1-g.rng.Intn(3), "cast-multi-negative"
		case 2:
			m, kind = 4+g.rng.Intn(9), "cast-multi-larger"
		}
		plural := ""
		if g.rng.Intn(2) == 0 {
			plural = "s"
		}
		ms := fmt.Sprintf("%d", m)
		if g.rng.Intn(3) == 0 {
			// `parameter` is a top-level clause: it goes before the `cast` header
			pn := g.id("n")
			pc := clause{text: "parameter " + pn + " defaults to " + ms, kind: "parameter-multiplicity"}
			rest := append([]clause{pc}, (*out)[hdr:]...)
			*out = append((*out)[:hdr], rest...)
			hdr++
			ms = "~" + pn + "~"
			kind += "-param"
		}
		g.add(out, "cast", kind, fmt.Sprintf("%s* play %s %s%s%s", name, ms, r.name, plural, env), false)
		for k := 1; k <= m; k++ {
			g.actors = append(g.actors, actorInfo{fmt.Sprintf("%s%d", name, k), r})
		}
	}
	g.add(out, "cast", "end", "end", true)
}

func (g *cfgGen) roleHasActor(r *roleInfo) bool {
	for _, a := range g.actors {
		if a.role == r {
			return true
		}
	}
	return false
}

func (g *cfgGen) actionsOf(r *roleInfo) string {
	n := 1 + g.rng.Intn(2)
	var as []string
	for i := 0; i < n; i++ {
		a := r.actions[g.rng.Intn(len(r.actions))]
		if g.rng.Intn(4) == 0 {
			a += "?"
		}
		as = append(as, a)
	}
	return strings.Join(as, "; ")
}

func (g *cfgGen) genScript(out *[]clause) {
	g.add(out, "", "script", "script", true)
	if g.rng.Intn(2) == 0 {
		g.add(out, "script", "tempo", "tempo "+g.pick([]string{"100ms", "1s", "1m30s", "0.5s"}), false)
	}
	ns := 1 + g.rng.Intn(4)
	letters := "abcdefghkmnpqrwxyz0123456789"
	for i := 0; i < ns; i++ {
		var ch byte
		for {
			ch = letters[g.rng.Intn(len(letters))]
			dup := false
			for _, c := range g.scenes {
				if c == ch {
					dup = true
				}
			}
			if !dup {
				break
			}
		}
		a := g.actors[g.rng.Intn(len(g.actors))]
		if g.rng.Intn(3) == 0 && g.roleHasActor(a.role) {
			g.add(out, "script", "scene-every", fmt.Sprintf("scene %c entails for every %s: %s", ch, a.role.name, g.actionsOf(a.role)), false)
		} else {
			g.add(out, "script", "scene-actor", fmt.Sprintf("scene %c entails for %s: %s", ch, a.name, g.actionsOf(a.role)), false)
		}
		g.scenes = append(g.scenes, ch)
		if g.rng.Intn(3) == 0 {
			g.add(out, "script", "scene-mood", fmt.Sprintf("scene %c mood %s %s", ch, g.pick([]string{"starts", "ends"}), g.pick([]string{"blue", "red", "clear"})), false)
		}
	}
	nl := 1 + g.rng.Intn(2)
	for i := 0; i < nl; i++ {
		var sb strings.Builder
		n := 1 + g.rng.Intn(6)
		for k := 0; k < n; k++ {
			switch g.rng.Intn(6) {
			case 0:
				sb.WriteByte('.')
			case 1:
				if k > 0 && sb.Len() > 0 && sb.String()[sb.Len()-1] != ' ' {
					sb.WriteByte(' ')
				}
				sb.WriteByte(g.scenes[g.rng.Intn(len(g.scenes))])
			case 2:
				if sb.Len() > 0 {
					last := sb.String()[sb.Len()-1]
					if last != ' ' && last != '+' && last != '.' {
						sb.WriteByte('+')
					}
				}
				sb.WriteByte(g.scenes[g.rng.Intn(len(g.scenes))])
			default:
				sb.WriteByte(g.scenes[g.rng.Intn(len(g.scenes))])
			}
		}
		sl := strings.TrimSpace(sb.String())
		if sl == "" {
			sl = string(g.scenes[0])
		}
		g.add(out, "script", "storyline", "storyline "+sl, false)
	}
	if g.rng.Intn(3) == 0 {
		a, b := g.scenes[g.rng.Intn(len(g.scenes))], g.scenes[g.rng.Intn(len(g.scenes))]
		sep := g.pick([]string{"/", ",", "|", "#"})
		fl := g.pick([]string{"", "g"})
		g.add(out, "script", "edit", fmt.Sprintf("edit s%s%c%s%c%c%s%s", sep, a, sep, a, b, sep, fl), false)
	}
	switch g.rng.Intn(7) {
	case 0:
		g.add(out, "script", "repeat-from", fmt.Sprintf("repeat from %c", g.scenes[g.rng.Intn(len(g.scenes))]), false)
	case 1:
		g.add(out, "script", "repeat-count", fmt.Sprintf("repeat %d times", g.rng.Intn(5)), false)
	case 2:
		g.add(out, "script", "repeat-always", "repeat always", false)
	case 3:
		g.add(out, "script", "repeat-time", "repeat time "+g.pick([]string{"5m", "10s", "unconstrained"}), false)
	}
	g.add(out, "script", "end", "end", true)
}

func (g *cfgGen) expr(allowVars bool) string {
	var atoms []string
	atoms = append(atoms, "t < 5", "t >= 0.5", "mood == 'blue'", "moodt > 1", "true", "(t + 1) * 2 < 100", "mood != 'red' && t > 0")
	for _, a := range g.actors {
		for _, s := range a.role.signals {
			if s.typ == "event" {
				atoms = append(atoms, fmt.Sprintf("[%s %s] == 'hello'", a.name, s.name))
			} else {
				atoms = append(atoms, fmt.Sprintf("[%s %s] > 3", a.name, s.name))
			}
		}
	}
	if allowVars {
		for _, v := range g.vars {
			atoms = append(atoms, v+" ?? 0 < 10")
		}
	}
	e := g.pick(atoms)
	if g.rng.Intn(4) == 0 {
		e = e + " || " + g.pick(atoms)
	}
	return e
}

func (g *cfgGen) genAudience(out *[]clause) {
	g.add(out, "", "audience", "audience", true)
	// observers
	no := g.rng.Intn(3)
	for i := 0; i < no; i++ {
		var cands []string
		typ := ""
		o := g.id("obs")
		for _, a := range g.actors {
			for _, s := range a.role.signals {
				t := "n"
				if s.typ == "event" {
					t = "e"
				}
				if typ == "" || typ == t {
					if g.rng.Intn(2) == 0 {
						typ = t
						if g.rng.Intn(4) == 0 {
							cands = append(cands, fmt.Sprintf("%s watches every %s %s", o, a.role.name, s.name))
						} else {
							cands = append(cands, fmt.Sprintf("%s watches %s %s", o, a.name, s.name))
						}
					}
				}
			}
		}
		if len(cands) == 0 {
			continue
		}
		for k, c := range cands {
			if k < 2 {
				kind := "watches-actor"
				if strings.Contains(c, " every ") {
					kind = "watches-every"
				}
				g.add(out, "audience", kind, c, false)
			}
		}
		g.members = append(g.members, o)
		if g.rng.Intn(2) == 0 {
			g.add(out, "audience", "measures", o+" measures "+g.phrase(), false)
		}
	}
	// auditors
	na := 1 + g.rng.Intn(2)
	for i := 0; i < na; i++ {
		u := g.id("aud")
		g.members = append(g.members, u)
		switch g.rng.Intn(4) {
		case 0:
			g.add(out, "audience", "audits-while", u+" audits only while "+g.expr(false), false)
		case 1:
			g.add(out, "audience", "audits-when", u+" audits only when "+g.expr(false), false)
		case 2:
			g.add(out, "audience", "audits-throughout", u+" audits throughout", false)
		}
		if g.rng.Intn(2) == 0 {
			v := g.id("var")
			g.add(out, "audience", "collects", fmt.Sprintf("%s collects %s as %s %d %s", u, v, g.pick([]string{"last", "first", "top", "bottom"}), 1+g.rng.Intn(4), g.expr(true)), false)
			g.vars = append(g.vars, v)
		}
		if g.rng.Intn(2) == 0 {
			v := g.id("var")
			g.add(out, "audience", "computes", fmt.Sprintf("%s computes %s as %s", u, v, g.pick([]string{"t", "t * 2", "moodt + 1", "1"})), false)
			g.vars = append(g.vars, v)
			if g.rng.Intn(2) == 0 {
				w := g.id("obs")
				g.add(out, "audience", "watches-var", w+" watches "+v, false)
				g.members = append(g.members, w)
			}
		}
		if g.rng.Intn(3) != 0 {
			g.add(out, "audience", "expects", fmt.Sprintf("%s expects %s: %s", u, g.pick([]string{"always", "never", "not always", "eventually", "always eventually", "eventually always", "once", "twice", "thrice", "at most once"}), g.expr(true)), false)
			g.audExp = append(g.audExp, u)
		} else if len(g.audExp) > 0 {
			g.add(out, "audience", "expects-like", u+" expects like "+g.pick(g.audExp), false)
			g.audExp = append(g.audExp, u)
		}
		if g.rng.Intn(4) == 0 {
			g.add(out, "audience", "only-helps", u+" only helps", false)
		}
	}
	g.add(out, "audience", "end", "end", true)
}

func (g *cfgGen) genInterpretation(out *[]clause) {
	g.add(out, "", "interpretation", "interpretation", true)
	n := 1 + g.rng.Intn(2)
	for i := 0; i < n; i++ {
		m := g.pick(g.members)
		switch g.rng.Intn(4) {
		case 0:
			g.add(out, "interpretation", "ignore-all", "ignore "+g.pick([]string{"disappointment", "satisfaction"}), false)
		case 1:
			g.add(out, "interpretation", "ignore-one", "ignore "+m+" "+g.pick([]string{"disappointment", "satisfaction"}), false)
		case 2:
			g.add(out, "interpretation", "foul-upon", "foul upon "+m+" "+g.pick([]string{"disappointment", "satisfaction"}), false)
		case 3:
			g.add(out, "interpretation", "require", "require "+m+" "+g.pick([]string{"disappointment", "satisfaction"}), false)
		}
	}
	g.add(out, "interpretation", "end", "end", true)
}

// genConfig returns the clauses of one valid configuration.
func genConfig(rng *rand.Rand) []clause {
	g := &cfgGen{rng: rng, kinds: map[string]int{}}
	var out []clause
	g.topMisc(&out)
	nr := 1 + rng.Intn(3)
	for i := 0; i < nr; i++ {
		g.genRole(&out)
		g.topMisc(&out)
	}
	g.genCast(&out)
	g.topMisc(&out)
	if rng.Intn(5) != 0 {
		g.genScript(&out)
		g.topMisc(&out)
	}
	if rng.Intn(5) != 0 {
		g.genAudience(&out)
		if len(g.members) > 0 && rng.Intn(2) == 0 {
			g.genInterpretation(&out)
		}
	}
	g.topMisc(&out)
	return out
}

// layout describes how clauses become physical lines of files.
type physFile struct {
	name  string
	lines []string // physical lines without terminator; the file is their join with "\n" (+ final "\n" unless noFinalNL)
	noNL  bool
}

func (f *physFile) text() string {
	s := strings.Join(f.lines, "\n")
	if len(f.lines) > 0 && !f.noNL {
		s += "\n"
	}
	return s
}

// placed says where a clause went.
type placed struct {
	file  string
	line  int // 1-based first physical line
	chain []posT
}

type posT struct {
	File string
	Line int
}

// renderClause lays one clause out on one or more physical lines.
func renderClause(rng *rand.Rand, c clause, fancy bool) []string {
	indent := ""
	if c.section != "" && !c.header {
		indent = "  "
	}
	if fancy && rng.Intn(6) == 0 {
		indent = strings.Repeat(" ", rng.Intn(5))
		if rng.Intn(3) == 0 {
			indent += "\t"
		}
	}
	t := c.text
	// continuation at a space (never inside the first word: keeps `include `, `title ` prefixes intact)
	if fancy && !c.header && rng.Intn(7) == 0 {
		var idx []int
		first := strings.IndexByte(t, ' ')
		if c.kind == "expects" { // the modality words must stay on one line
			first = strings.IndexByte(t, ':')
		}
		depth := 0 // never inside [actor signal]: the reference must stay on one line
		for i := first + 1; i < len(t); i++ {
			switch t[i] {
			case '[':
				depth++
			case ']':
				depth--
			}
			if t[i] == ' ' && i > first+1 && t[i-1] != ' ' && depth == 0 {
				idx = append(idx, i)
			}
		}
		if len(idx) > 0 {
			i := idx[rng.Intn(len(idx))]
			return []string{indent + t[:i] + " \\", indent + "   " + t[i+1:]}
		}
	}
	trail := ""
	if fancy && rng.Intn(10) == 0 {
		trail = strings.Repeat(" ", 1+rng.Intn(2))
	}
	return []string{indent + t + trail}
}

var commentLines = []string{"", "# a comment", "   ", "#", "  # indented comment", "\t"}
