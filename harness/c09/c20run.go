package main

import (
	"fmt"
	"math/rand"
	"strings"
	"time"

	"github.com/knz/shakespeare/verifharness/vh"
)

func sameOutcome(a, b obsT) bool {
	if a.Kind != b.Kind {
		return false
	}
	switch a.Kind {
	case "accepted":
		return a.Printed == b.Printed
	case "rejected":
		return a.ErrShort == b.ErrShort
	}
	return false
}

func hasName(ns []string, n string) bool {
	for _, x := range ns {
		if x == n {
			return true
		}
	}
	return false
}

func kindCode(o obsT) int {
	switch o.Kind {
	case "accepted":
		return 0
	case "rejected":
		return 1
	case "panicked":
		return 2
	}
	return 3
}

func runC20(rng *rand.Rand, scale int, out string, shards int, seed int64, corpusDir string) {
	sum := newSummary("C20")
	t0 := time.Now()
	var parse []parseRec
	for _, in := range loadCorpus(corpusDir) {
		o := observe(in)
		parse = append(parse, parseRec{in, o})
		sum.note(in, o)
	}

	// 1. ~p~ planted in every field x every definition mode
	var planted []plantedRec
	for _, s := range slots {
		if scale == 0 {
			break // replays: corpus only
		}
		type exp struct{ mode, val, text string }
		var exps []exp
		for _, m := range defModes {
			exps = append(exps, exp{m, "", ""})
		}
		for _, v := range extraVals[s.Name] {
			exps = append(exps, exp{"D", v, ""}, exp{"F", v, ""})
		}
		for _, t := range gluedTexts[s.Name] {
			exps = append(exps, exp{"D", "", t}, exp{"F", "", t}, exp{"N", "", t})
		}
		s0 := s
		for _, e := range exps {
			m := e.mode
			s := s0
			if e.text != "" {
				s.Text = e.text
			}
			pc := makePlanted(s, m)
			pc.Text = s.Text
			if e.val != "" {
				pc = makePlantedValue(s, m, e.val)
			}
			if !s.Subst {
				// reference of an untouched field: the same text, the definitions renamed away
				pc.Ref.Files["m.cfg"] = strings.ReplaceAll(pc.In.Files["m.cfg"], "parameter p defaults", "parameter p_unused defaults")
				pc.Ref.Defines = nil
				for _, d := range pc.In.Defines {
					if strings.HasPrefix(d, "p=") {
						d = "p_unused=" + d[2:]
					}
					pc.Ref.Defines = append(pc.Ref.Defines, d)
				}
			}
			if hung {
				break
			}
			rec := plantedRec{Case: pc, Obs: observe(pc.In), RefObs: observe(pc.Ref)}
			if rec.Obs.Kind == "skipped" || rec.RefObs.Kind == "skipped" {
				if rec.Obs.Kind == "timedout" {
					parse = append(parse, parseRec{pc.In, rec.Obs})
				}
				break
			}
			rec.Same = sameOutcome(rec.Obs, rec.RefObs)
			planted = append(planted, rec)
			sum.note(pc.In, rec.Obs)
			if e.val != "" {
				sum.Faults["planted-value:"+m]++
			} else if e.text != "" {
				sum.Faults["planted-glued:"+m]++
			} else {
				sum.Faults["planted:"+m]++
			}
			cls := "untouched"
			if s.Subst {
				cls = "substituted"
			}
			sum.ClauseKinds[cls+":"+s.Name]++
			in := pc.In
			if s.Subst && m == "N" {
				in.HasExpect, in.ExpectCls, in.ExpectPos = true, 4, posT{"m.cfg", pc.Line}
			}
			parse = append(parse, parseRec{in, rec.Obs})
		}
	}

	// 2. parseDefines / parameter / preprocReplace directly, and through `title`
	var pps []ppRec
	for i := 0; i < 1500*scale; i++ {
		c := genPP(rng)
		rec := ppRec{Case: c}
		if i%4 == 3 {
			// through the whole parser: one title per case
			s := c.Strs[0]
			if strings.ContainsAny(s, "\n") || strings.TrimSpace(s) != s || s == "" || strings.HasSuffix(s, "\\") {
				continue
			}
			c.Strs = []string{s}
			rec.Case = c
			in := &input{Files: map[string]string{"m.cfg": c.paramText() + "title " + s + "\n"}, Main: "m.cfg", Defines: c.Defines, IP: []string{""}, Stream: "pp-title"}
			o := observe(in)
			if o.Kind == "skipped" {
				continue
			}
			sum.note(in, o)
			parse = append(parse, parseRec{in, o})
			rec.PVars = o.PVars
			switch o.Kind {
			case "accepted":
				if len(o.Titles) != 1 {
					continue
				}
				rec.Outs, rec.Errs = []string{o.Titles[0]}, [][]string{nil}
			case "rejected":
				if !o.HasPos || o.Pos.Line != len(c.Params)+1 {
					continue // a `parameter` clause was rejected (bad identifier): not a preprocessing case
				}
				rec.Outs, rec.Errs = []string{""}, [][]string{o.Names}
			default:
				rec.Panic = o.Kind
			}
			pps = append(pps, rec)
			continue
		}
		if hung {
			break
		}
		rs, st := call(&request{Kind: "pp", PP: &c})
		if !st.OK {
			if !st.Timeout && st.Fatal == "" {
				break
			}
			// preprocessing did not terminate / killed the process: a failing input of its own
			rec.Panic = "did not terminate"
			if st.Fatal != "" {
				rec.Panic = "fatal: " + st.Fatal
			}
			for range c.Strs {
				rec.Outs = append(rec.Outs, "")
				rec.Errs = append(rec.Errs, nil)
			}
			pps = append(pps, rec)
			sum.Outcomes["pp-timeout-or-fatal"]++
			continue
		}
		outs, errs, pv, perr, pan := rs.Outs, rs.Errs, rs.PVars, rs.PErr, rs.PPanic
		rec.Outs, rec.PVars, rec.PErr, rec.Panic = outs, pv, perr, pan
		for _, e := range errs {
			rec.Errs = append(rec.Errs, undefinedNames(e))
		}
		if perr != "" {
			// a parameter clause was rejected (name is not an identifier): parsing stopped there
			sum.Outcomes["pp-param-rejected"]++
			continue
		}
		sum.Outcomes["pp"]++
		pps = append(pps, rec)
	}

	// 3. include graphs with the reference reading order
	var graphs []graphRec
	for i := 0; i < 600*scale; i++ {
		g := graphCase(rng, graphShapes[i%len(graphShapes)])
		if escapesRoot(g) {
			sum.SkippedEscape++
			continue
		}
		if i%6 == 5 {
			g = percentNames(rng, g) // `%` in file and directory names
		}
		if i%5 == 4 {
			// the include name comes from a parameter
			for n, t := range g.Files {
				g.Files[n] = strings.ReplaceAll(t, "include ", "include ~pre~")
			}
			switch rng.Intn(3) {
			case 0:
				g.Defines = []string{"pre="}
			case 1:
				g.Files[g.Main] = "parameter pre defaults to ./\n" + g.Files[g.Main]
				g.Defines = []string{"other=1"}
			default:
				g.Defines = []string{"pre=./", "pre=nowhere/"}
			}
			g.Fault += "+param"
		}
		sum.GraphShapes[strings.SplitN(g.Fault, "-", 2)[0]]++
		var ref refResult
		if strings.Contains(g.Fault, "+param") {
			// reference on the text with the parameter written out
			h := *g
			h.Files = map[string]string{}
			for n, t := range g.Files {
				t = strings.ReplaceAll(t, "include ~pre~", "include ")
				t = strings.ReplaceAll(t, "parameter pre defaults to ./\n", "# parameter\n")
				h.Files[n] = t
			}
			ref = refExpand(&h, dirsOf(&h))
		} else {
			ref = refExpand(g, dirsOf(g))
		}
		if ref.Err && ref.Cls != 20 {
			g.HasExpect, g.ExpectCls, g.ExpectPos, g.ExpectChain = true, ref.Cls, ref.Pos, ref.Chain
		}
		o := observe(g)
		if o.Kind == "skipped" {
			break
		}
		sum.note(g, o)
		gr := graphRec{In: g, Obs: o, Ref: ref, SpliceSame: true}
		if !ref.Err {
			// include = splice: the same text with every included file written in
			// place of its clause must read the same
			sp := &input{Files: map[string]string{"m.cfg": strings.Join(ref.Inlined, "\n") + "\n"}, Main: "m.cfg", Defines: g.Defines, IP: []string{""}, Stream: "graph-inlined"}
			so := observe(sp)
			if so.Kind == "skipped" {
				break
			}
			gr.Spliced, gr.SplicedObs = sp, &so
			gr.SpliceSame = sameOutcome(o, so)
		}
		graphs = append(graphs, gr)
		parse = append(parse, parseRec{g, o})
	}
	sum.WallParse = time.Since(t0).Seconds()

	// ---- emit
	sum.Counts["parse"], sum.Counts["planted"], sum.Counts["pp"], sum.Counts["graph"] = len(parse), len(planted), len(pps), len(graphs)
	sum.Evaluations = len(parse) + len(planted) + len(pps) + len(graphs)
	sum.DistinctNontrivial = distinct(parse) + len(pps)
	sum.Shards = shards
	for k := 0; k < shards; k++ {
		var sb strings.Builder
		lo, hi := shardRange(len(parse), shards, k)
		sum.Offsets["parse"] = append(sum.Offsets["parse"], lo)
		var items []string
		for _, r := range parse[lo:hi] {
			items = append(items, coqParseCase(r.In, r.Obs))
		}
		sb.WriteString("Definition parse_cases : list parse_case := " + vh.ListNL(items) + ".\n")

		lo, hi = shardRange(len(planted), shards, k)
		sum.Offsets["planted"] = append(sum.Offsets["planted"], lo)
		items = nil
		for _, r := range planted[lo:hi] {
			defined := r.Case.Mode != "N"
			posOK := r.Obs.HasPos && r.Obs.Pos.File == modelRoot+"/m.cfg" && r.Obs.Pos.Line == r.Case.Line
			items = append(items, fmt.Sprintf("mkPL %s %s %s %d%%N %d%%N %s %s %s %d%%N",
				vh.Bool(r.Case.Subst), vh.Bool(defined), vh.Bool(r.Case.NeedAccept), kindCode(r.Obs), r.Obs.Cls,
				vh.Bool(r.Obs.Kind == "rejected" && strings.Contains(r.Obs.ErrShort, "~p~")), vh.Bool(posOK), vh.Bool(r.Same), kindCode(r.RefObs)))
		}
		sb.WriteString("Definition planted_cases : list planted_case := " + vh.ListNL(items) + ".\n")

		lo, hi = shardRange(len(pps), shards, k)
		sum.Offsets["pp"] = append(sum.Offsets["pp"], lo)
		items = nil
		for _, r := range pps[lo:hi] {
			var res []string
			for i, s := range r.Case.Strs {
				var o, e string
				if i < len(r.Outs) {
					o = r.Outs[i]
				}
				var names []string
				if i < len(r.Errs) {
					names = r.Errs[i]
				}
				e = coqStrList(names)
				res = append(res, fmt.Sprintf("(%s, %s, %s)", bstr(s), bstr(o), e))
			}
			items = append(items, fmt.Sprintf("mkPP %s %s %s %s %s", coqStrList(r.Case.Defines), coqPairs(r.Case.Params), coqPairs(r.PVars), vh.List(res), vh.Bool(r.Panic != "")))
		}
		sb.WriteString("Definition pp_cases : list pp_case := " + vh.ListNL(items) + ".\n")

		lo, hi = shardRange(len(graphs), shards, k)
		sum.Offsets["graph"] = append(sum.Offsets["graph"], lo)
		items = nil
		for _, r := range graphs[lo:hi] {
			exp := "None"
			if !r.Ref.Err {
				exp = "(Some " + coqStrList(r.Ref.Titles) + ")"
			}
			items = append(items, fmt.Sprintf("(%s, %s, %s, %s)", coqParseCase(r.In, r.Obs), exp, coqStrList(r.Obs.Titles), vh.Bool(r.SpliceSame)))
		}
		sb.WriteString("Definition graph_cases : list graph_case := " + vh.ListNL(items) + ".\n")
		vh.WriteFile(out, fmt.Sprintf("cases_%d.v", k), sb.String())
	}
	for i := 0; i < len(parse) && len(sum.Samples) < 14; i += 1 + len(parse)/14 {
		sum.Samples = append(sum.Samples, sample(parse[i].In, parse[i].Obs))
	}
	vh.WriteJSON(out, "cases.json", map[string]interface{}{"parse": parse, "planted": planted, "pp": pps, "graph": graphs, "seed": seed})
	vh.WriteJSON(out, "summary.json", sum)
}
