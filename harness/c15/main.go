// Harness for C15: drives the REAL stop.Stopper.
//
// Controlled mode: a generated list of harness operations is executed one at
// a time.  Task and worker bodies block until the harness releases them;
// Stop, Quiesce, RunTask and RunLimitedAsyncTask run in goroutines of their
// own.  After every operation the harness waits until the real Stopper has
// advanced as far as it can: it polls the observable state until it equals
// what a small bookkeeping twin (type twin, below) predicts, with a long
// time-out, and then samples once more after a short grace period.  The twin
// only decides how long to wait -- what is written out is always what the
// real Stopper showed.  So a loaded machine makes the harness slower, never
// the observations different; a Stopper that never reaches the predicted
// state costs one time-out and is written out as it is.
//
// Free mode: goroutines call the API at random with random pauses while one
// or several goroutines call Stop and Quiesce; only the event history is
// written (for the ordering oracle).  Meant to be built with -race.
//
// Every event is appended to a log under a lock, together with a sample of
// the three channels and the semaphore lengths taken while holding that
// lock, so that events and samples are totally ordered.
//
// Output: cases.v (Coq), cases.json (replays), summary.json.
package main

import (
	"context"
	"encoding/json"
	"errors"
	"flag"
	"fmt"
	"os"
	"runtime"
	"strings"
	"sync"
	"sync/atomic"
	"time"

	"math/rand"

	"github.com/knz/shakespeare/pkg/crdb/log"
	"github.com/knz/shakespeare/pkg/crdb/stop"
	"github.com/knz/shakespeare/verifharness/vh"
)

// ---------------------------------------------------------------- event log

type sample struct {
	Q, S, D bool
	Lens    []int
}

type event struct {
	K    string  // start ret begin end wstart wend addcall addret close stopcall stopret quicall quiret obs
	ID   int     // task / worker / closer / call number
	Sem  int     // start: semaphore index or -1
	Ret  string  // ret: nil unavailable throttled canceled
	Upto int     `json:",omitempty"` // idle, busy: number of events logged before NumTasks() was called
	N    int     `json:",omitempty"` // busy: what NumTasks() returned (> 0)
	Sync bool    `json:",omitempty"` // start: RunTask (returns after runPostlude)
	OnQ  bool    `json:",omitempty"` // ctx: from WithCancelOnQuiesce (else WithCancelOnStop)
	Canc bool    `json:",omitempty"` // ctx: Err() != nil, read after the sample was taken
	Smp  *sample `json:",omitempty"`
}

type evlog struct {
	mu   sync.Mutex
	pan  []string // panics caught in goroutines calling the Stopper
	evs  []event
	s    *stop.Stopper
	sems []chan struct{}
}

func closed(ch <-chan struct{}) bool {
	select {
	case <-ch:
		return true
	default:
		return false
	}
}

// add appends an event; withSample takes the sample under the log lock, in
// the order stopped, stop, quiesce, semaphores (so that stopped => stop =>
// quiesce can be demanded of a single sample, and a length read after
// ShouldStop was seen closed is a length after the close).
func (l *evlog) add(k string, id int, sem int, ret string, withSample bool) {
	l.mu.Lock()
	e := event{K: k, ID: id, Sem: sem, Ret: ret}
	if withSample {
		sm := &sample{}
		sm.D = closed(l.s.IsStopped())
		sm.S = closed(l.s.ShouldStop())
		sm.Q = closed(l.s.ShouldQuiesce())
		for _, c := range l.sems {
			sm.Lens = append(sm.Lens, len(c))
		}
		e.Smp = sm
	}
	l.evs = append(l.evs, e)
	l.mu.Unlock()
}

// guard is deferred in every goroutine that calls into the Stopper: a panic
// of the Stopper (close of closed channel, negative WaitGroup counter) is
// recorded as part of the case instead of killing the harness.
func (l *evlog) guard(what string) {
	if r := recover(); r != nil {
		l.mu.Lock()
		l.pan = append(l.pan, fmt.Sprintf("%s: %v", what, r))
		l.mu.Unlock()
	}
}

func (l *evlog) panics() []string {
	l.mu.Lock()
	defer l.mu.Unlock()
	return append([]string(nil), l.pan...)
}

// bodyPanic is what a task or worker body of the harness panics with.
type bodyPanic struct{ id int }

// newStopper builds the Stopper with an OnPanic handler, so that a panicking
// body is recovered by s.Recover and the Stopper lives on.  Anything else
// the handler is given is a panic of the Stopper itself and is recorded.
func newStopper(l *evlog) *stop.Stopper {
	s := stop.NewStopper(stop.OnPanic(func(v interface{}) {
		if _, ok := v.(bodyPanic); ok {
			return
		}
		l.mu.Lock()
		l.pan = append(l.pan, fmt.Sprintf("recovered by the Stopper's handler: %v", v))
		l.mu.Unlock()
	}))
	l.s = s
	return s
}

// idle probes NumTasks(): if it is 0, an "idle" event says so, together with
// how many events had been logged before the call (those had happened
// before the moment NumTasks was 0) and a sample taken afterwards.
func (l *evlog) idle() {
	l.mu.Lock()
	upto := len(l.evs)
	l.mu.Unlock()
	n := l.s.NumTasks()
	kind := "idle"
	if n != 0 {
		kind = "busy"
	}
	l.mu.Lock()
	sm := &sample{}
	sm.D = closed(l.s.IsStopped())
	sm.S = closed(l.s.ShouldStop())
	sm.Q = closed(l.s.ShouldQuiesce())
	for _, c := range l.sems {
		sm.Lens = append(sm.Lens, len(c))
	}
	l.evs = append(l.evs, event{K: kind, Sem: -1, Upto: upto, N: n, Smp: sm})
	l.mu.Unlock()
}

// ctxSample logs whether context x is cancelled; the channels are sampled
// first, the context is read afterwards, both under the log lock.
func (l *evlog) ctxSample(x int, onq bool, ctx context.Context) {
	l.mu.Lock()
	sm := &sample{}
	sm.D = closed(l.s.IsStopped())
	sm.S = closed(l.s.ShouldStop())
	sm.Q = closed(l.s.ShouldQuiesce())
	for _, c := range l.sems {
		sm.Lens = append(sm.Lens, len(c))
	}
	l.evs = append(l.evs, event{K: "ctx", ID: x, Sem: -1, OnQ: onq, Canc: ctx.Err() != nil, Smp: sm})
	l.mu.Unlock()
}

// start logs that Run*Task number id is about to be called.
func (l *evlog) start(id, sem int, sync bool) {
	l.mu.Lock()
	l.evs = append(l.evs, event{K: "start", ID: id, Sem: sem, Sync: sync})
	l.mu.Unlock()
}

func (l *evlog) snapshot() []event {
	l.mu.Lock()
	defer l.mu.Unlock()
	out := make([]event, len(l.evs))
	copy(out, l.evs)
	return out
}

// errBody is what the callbacks handed to RunTaskWithErr return: the task's
// own error, which the Stopper passes through.  The call was accepted and
// ran to its end: towards the model and the oracle that is "nil".
var errBody = errors.New("the task's own error")

func errName(err error) string {
	switch err {
	case nil, errBody:
		return "nil"
	case stop.ErrUnavailable:
		return "unavailable"
	case stop.ErrThrottled:
		return "throttled"
	case context.Canceled:
		return "canceled"
	}
	return "other:" + err.Error()
}

type closerT struct {
	id    int
	calls int32
	l     *evlog
}

func (c *closerT) Close() {
	atomic.AddInt32(&c.calls, 1)
	c.l.add("close", c.id, -1, "", true)
}

// ---------------------------------------------------------------- operations

type hop struct {
	K    string // task limited release panic relstop worker wrelease wpanic wrelstop addcloser withcancel cancelfn stop quiesce
	N    int    // task / worker / ctx index, or semaphore index for limited
	B    bool   // task: async; limited: wait; withcancel: on quiesce
	Ctx  int    // task, limited, stop, quiesce: index of the WithCancelOn* context passed, or -1 (background)
	Tail bool   // part of the closing tail of the sequence
}

func (o hop) coq() string {
	switch o.K {
	case "task":
		c := "None"
		if o.Ctx >= 0 {
			c = fmt.Sprintf("(Some %d)", o.Ctx)
		}
		return "HTask " + vh.Bool(o.B) + " " + c
	case "limited":
		c := "None"
		if o.Ctx >= 0 {
			c = fmt.Sprintf("(Some %d)", o.Ctx)
		}
		return fmt.Sprintf("HLimited %d %s %s", o.N, vh.Bool(o.B), c)
	case "release":
		return fmt.Sprintf("HRelease %d", o.N)
	case "panic":
		return fmt.Sprintf("HPanic %d", o.N)
	case "relstop":
		return fmt.Sprintf("HRelStop %d", o.N)
	case "wrelstop":
		return fmt.Sprintf("HWRelStop %d", o.N)
	case "worker":
		return "HWorker"
	case "wrelease":
		return fmt.Sprintf("HWRelease %d", o.N)
	case "wpanic":
		return fmt.Sprintf("HWPanic %d", o.N)
	case "addcloser":
		return "HAddCloser"
	case "withcancel":
		return "HWithCancel " + vh.Bool(o.B)
	case "cancelfn":
		return fmt.Sprintf("HCancelFn %d", o.N)
	case "stop", "quiesce":
		c := "None"
		if o.Ctx >= 0 {
			c = fmt.Sprintf("(Some %d)", o.Ctx)
		}
		if o.K == "stop" {
			return "HStop " + c
		}
		return "HQuiesce " + c
	}
	panic("bad op " + o.K)
}

func (o hop) String() string { return o.coq() }

// ---------------------------------------------------------------- observations

type obs struct {
	Rets    []string // per task: "" while the call has not returned
	Begun   []bool
	Q, S, D bool
	NTasks  int
	Calls   []int
	Ctx     []bool
	Lens    []int
	SRets   []bool
	Snap    stop.VerifSnap
	// not compared: did the wait for the predicted state time out
	TimedOut bool `json:",omitempty"`
}

func zz(n int) string { return fmt.Sprintf("(%d)%%Z", n) }

func bools(b []bool) string {
	var it []string
	for _, x := range b {
		it = append(it, vh.Bool(x))
	}
	return vh.List(it)
}

func ints(b []int) string {
	var it []string
	for _, x := range b {
		it = append(it, zz(x))
	}
	return vh.List(it)
}

var retCoq = map[string]string{"": "None", "nil": "(Some RNil)", "unavailable": "(Some RUnavailable)",
	"throttled": "(Some RThrottled)", "canceled": "(Some RCanceled)"}

func retTerm(r string) string {
	if t, ok := retCoq[r]; ok {
		return t
	}
	// an error value the model does not know: printed as a return the model
	// never predicts together with a nil (any disagreement is a disagreement)
	return "(Some RThrottled)"
}

func (o obs) coq() string {
	var rs []string
	for _, r := range o.Rets {
		rs = append(rs, retTerm(r))
	}
	sn := o.Snap
	return fmt.Sprintf("Obs %s %s %s %s %s %s %s %s %s %s (%s, %s, %s, %s, %s, %s)",
		vh.List(rs), bools(o.Begun), vh.Bool(o.Q), vh.Bool(o.S), vh.Bool(o.D), zz(o.NTasks),
		ints(o.Calls), bools(o.Ctx), ints(o.Lens), bools(o.SRets),
		vh.Bool(sn.Quiescing), zz(sn.NumTasks), vh.Bool(sn.StopCalled), zz(sn.NumClosers),
		zz(sn.NumQCancel), zz(sn.NumSCancel))
}

func smpCoq(m *sample) string {
	return fmt.Sprintf("(%s, %s, %s, %s)", vh.Bool(m.Q), vh.Bool(m.S), vh.Bool(m.D), ints(m.Lens))
}

var retName = map[string]string{"nil": "RNil", "unavailable": "RUnavailable", "throttled": "RThrottled", "canceled": "RCanceled"}

func (e event) coq() string {
	switch e.K {
	case "start":
		if e.Sem >= 0 {
			return fmt.Sprintf("EStart %d %s (Some %d)", e.ID, vh.Bool(e.Sync), e.Sem)
		}
		return fmt.Sprintf("EStart %d %s None", e.ID, vh.Bool(e.Sync))
	case "ret":
		r, ok := retName[e.Ret]
		if !ok {
			r = "RThrottled"
		}
		return fmt.Sprintf("ERet %d %s %s", e.ID, r, smpCoq(e.Smp))
	case "begin":
		return fmt.Sprintf("EBegin %d %s", e.ID, smpCoq(e.Smp))
	case "end":
		return fmt.Sprintf("EEnd %d %s", e.ID, smpCoq(e.Smp))
	case "wstart":
		return fmt.Sprintf("EWStart %d %s", e.ID, smpCoq(e.Smp))
	case "wend":
		return fmt.Sprintf("EWEnd %d %s", e.ID, smpCoq(e.Smp))
	case "addcall":
		return fmt.Sprintf("EAddCall %d %s", e.ID, smpCoq(e.Smp))
	case "addret":
		return fmt.Sprintf("EAddRet %d %s", e.ID, smpCoq(e.Smp))
	case "close":
		return fmt.Sprintf("EClose %d %s", e.ID, smpCoq(e.Smp))
	case "stopcall":
		return fmt.Sprintf("EStopCall %d", e.ID)
	case "stopret":
		return fmt.Sprintf("EStopRet %d %s", e.ID, smpCoq(e.Smp))
	case "quicall":
		return fmt.Sprintf("EQuiCall %d", e.ID)
	case "quiret":
		return fmt.Sprintf("EQuiRet %d %s", e.ID, smpCoq(e.Smp))
	case "obs":
		return "EObs " + smpCoq(e.Smp)
	case "idle":
		return fmt.Sprintf("EIdle %d %s", e.Upto, smpCoq(e.Smp))
	case "busy":
		return fmt.Sprintf("EBusy %d %s %s", e.Upto, zz(e.N), smpCoq(e.Smp))
	case "final":
		return "EFinal " + smpCoq(e.Smp)
	case "ctx":
		return fmt.Sprintf("ECtx %d %s %s %s", e.ID, vh.Bool(e.OnQ), vh.Bool(e.Canc), smpCoq(e.Smp))
	case "ctxfn":
		return fmt.Sprintf("ECtxFn %d", e.ID)
	}
	panic("bad event " + e.K)
}

func eventsCoq(evs []event) string {
	var it []string
	for _, e := range evs {
		it = append(it, e.coq())
	}
	return vh.List(it)
}

// ---------------------------------------------------------------- the twin
//
// Bookkeeping of what the harness itself has done, used (1) by the generator
// to pick applicable operations ("release a task that is running") and (2) by
// settle to know what to wait for.  It is never written to the cases.

type twTask struct {
	limited, sync bool
	sem, ctx      int
	state         string // waiting running done refused
	ret           string
	ambig         bool // ErrUnavailable or context.Canceled, Go's select may pick either
	begun         bool
}
type twCloser struct {
	listed bool
	calls  int
}
type twCtx struct{ onq, cancelled, registered, noop bool }
type twThread struct {
	isStop bool
	state  string // tasks workers returned
}
type twin struct {
	caps                                   []int
	lens                                   []int
	quiescing, stopCalled, stopCh, stopped bool
	numTasks, wg                           int
	tasks                                  []*twTask
	workers                                []bool // live
	closers                                []*twCloser
	ctxs                                   []*twCtx
	threads                                []*twThread
}

func (t *twin) ctxDone(c int) bool { return c >= 0 && t.ctxs[c].cancelled }

func (t *twin) cancelRegistered(onq bool) {
	for _, c := range t.ctxs {
		if c.registered && c.onq == onq {
			c.cancelled = true
		}
	}
}

// tryLimited: what a limited call does given the current state; false if it
// stays blocked in the second select.
func (t *twin) tryLimited(k *twTask, first, wait bool) bool {
	room := t.lens[k.sem] < t.caps[k.sem]
	cd := t.ctxDone(k.ctx)
	switch {
	case cd && t.quiescing:
		k.state, k.ret, k.ambig = "refused", "unavailable", true
	case cd:
		k.state, k.ret = "refused", "canceled"
	case t.quiescing:
		k.state, k.ret = "refused", "unavailable"
	case room:
		t.lens[k.sem]++
		t.numTasks++
		k.state, k.ret, k.begun = "running", "nil", true
	case first && !wait:
		k.state, k.ret = "refused", "throttled"
	default:
		k.state = "waiting"
		return false
	}
	return true
}

func (t *twin) closure() {
	for changed := true; changed; {
		changed = false
		for _, k := range t.tasks {
			if k.state == "waiting" && t.tryLimited(k, false, true) {
				changed = true
			}
		}
		for _, th := range t.threads {
			switch {
			case th.state == "tasks" && t.numTasks == 0:
				if th.isStop {
					t.cancelRegistered(false)
					t.stopCh = true
					th.state = "workers"
				} else {
					th.state = "returned"
				}
				changed = true
			case th.state == "workers" && t.wg == 0:
				for _, c := range t.closers {
					if c.listed {
						c.calls++
					}
				}
				t.stopped = true
				th.state = "returned"
				changed = true
			}
		}
	}
}

func (t *twin) apply(o hop) {
	switch o.K {
	case "task":
		k := &twTask{sync: !o.B, sem: -1, ctx: -1}
		if t.quiescing {
			k.state, k.ret = "refused", "unavailable"
		} else {
			t.numTasks++
			k.state, k.begun = "running", true
			if o.B {
				k.ret = "nil"
			}
		}
		t.tasks = append(t.tasks, k)
	case "limited":
		k := &twTask{limited: true, sem: o.N, ctx: o.Ctx}
		t.tryLimited(k, true, o.B)
		t.tasks = append(t.tasks, k)
	case "relstop", "wrelstop":
		// the body calls Stop itself -- only generated when a Stop call has
		// been made already, so this one returns at once -- then returns
		t.threads = append(t.threads, &twThread{isStop: true, state: "returned"})
		if o.K == "relstop" {
			t.apply(hop{K: "release", N: o.N})
		} else {
			t.apply(hop{K: "wrelease", N: o.N})
		}
		return
	case "release", "panic":
		// a panicking body takes the same deferred path: <-sem, runPostlude,
		// Recover (handler); RunTask then returns nil
		k := t.tasks[o.N]
		k.state, k.ret = "done", "nil"
		if k.limited {
			t.lens[k.sem]--
		}
		t.numTasks--
	case "worker":
		t.workers = append(t.workers, true)
		t.wg++
	case "wrelease", "wpanic":
		t.workers[o.N] = false
		t.wg--
	case "addcloser":
		if t.stopCh {
			t.closers = append(t.closers, &twCloser{calls: 1})
		} else {
			t.closers = append(t.closers, &twCloser{listed: true})
		}
	case "withcancel":
		cl := t.stopCh
		if o.B {
			cl = t.quiescing
		}
		t.ctxs = append(t.ctxs, &twCtx{onq: o.B, cancelled: cl, registered: !cl, noop: cl})
	case "cancelfn":
		c := t.ctxs[o.N]
		if !c.noop {
			c.cancelled, c.registered = true, false
		}
	case "stop":
		if t.stopCalled {
			t.threads = append(t.threads, &twThread{isStop: true, state: "returned"})
		} else {
			t.stopCalled = true
			t.cancelRegistered(true)
			t.quiescing = true
			t.threads = append(t.threads, &twThread{isStop: true, state: "tasks"})
		}
	case "quiesce":
		t.cancelRegistered(true)
		t.quiescing = true
		t.threads = append(t.threads, &twThread{state: "tasks"})
	}
	t.closure()
}

func (t *twin) expected() (obs, []bool) {
	var o obs
	var ambig []bool
	for _, k := range t.tasks {
		o.Rets = append(o.Rets, k.ret)
		o.Begun = append(o.Begun, k.begun)
		ambig = append(ambig, k.ambig)
	}
	o.Q, o.S, o.D, o.NTasks = t.quiescing, t.stopCh, t.stopped, t.numTasks
	nl, nq, ns := 0, 0, 0
	for _, c := range t.closers {
		o.Calls = append(o.Calls, c.calls)
		if c.listed {
			nl++
		}
	}
	for _, c := range t.ctxs {
		o.Ctx = append(o.Ctx, c.cancelled)
		if c.registered && c.onq {
			nq++
		}
		if c.registered && !c.onq {
			ns++
		}
	}
	o.Lens = append(o.Lens, t.lens...)
	for _, th := range t.threads {
		o.SRets = append(o.SRets, th.state == "returned")
	}
	o.Snap = stop.VerifSnap{Quiescing: t.quiescing, NumTasks: t.numTasks, StopCalled: t.stopCalled,
		NumClosers: nl, NumQCancel: nq, NumSCancel: ns}
	return o, ambig
}

func (t *twin) runningTasks() []int {
	var r []int
	for i, k := range t.tasks {
		if k.state == "running" {
			r = append(r, i)
		}
	}
	return r
}
func (t *twin) liveWorkers() []int {
	var r []int
	for i, w := range t.workers {
		if w {
			r = append(r, i)
		}
	}
	return r
}
func (t *twin) waiterOn(sem int) bool {
	for _, k := range t.tasks {
		if k.state == "waiting" && k.sem == sem {
			return true
		}
	}
	return false
}
func (t *twin) anyWaiter() bool {
	for _, k := range t.tasks {
		if k.state == "waiting" {
			return true
		}
	}
	return false
}

func eqObs(a, b obs, ambig []bool) bool {
	if len(a.Rets) != len(b.Rets) || len(a.Begun) != len(b.Begun) || len(a.Calls) != len(b.Calls) ||
		len(a.Ctx) != len(b.Ctx) || len(a.Lens) != len(b.Lens) || len(a.SRets) != len(b.SRets) {
		return false
	}
	for i := range a.Rets {
		if a.Rets[i] != b.Rets[i] {
			qc := func(s string) bool { return s == "unavailable" || s == "canceled" }
			if !(i < len(ambig) && ambig[i] && qc(a.Rets[i]) && qc(b.Rets[i])) {
				return false
			}
		}
		if a.Begun[i] != b.Begun[i] {
			return false
		}
	}
	for i := range a.Calls {
		if a.Calls[i] != b.Calls[i] {
			return false
		}
	}
	for i := range a.Ctx {
		if a.Ctx[i] != b.Ctx[i] {
			return false
		}
	}
	for i := range a.Lens {
		if a.Lens[i] != b.Lens[i] {
			return false
		}
	}
	for i := range a.SRets {
		if a.SRets[i] != b.SRets[i] {
			return false
		}
	}
	return a.Q == b.Q && a.S == b.S && a.D == b.D && a.NTasks == b.NTasks && a.Snap == b.Snap
}

// ---------------------------------------------------------------- controlled runs

type taskRec struct {
	release chan struct{}
	panics  int32 // set before release is closed: the body panics instead of returning
	stopID  int32 // set (> 0: call number + 1) before release is closed: the body calls Stop first
	stopFlg *int32
	begun   int32
	ret     atomic.Value
}
type wstopRec struct {
	stopID  int32 // > 0: the worker's body calls Stop (call number + 1) before it returns
	stopFlg *int32
}
type ctxRec struct {
	ctx    context.Context
	cancel func()
	onq    bool
}

type ctl struct {
	s       *stop.Stopper
	sems    []chan struct{}
	l       *evlog
	tasks   []*taskRec
	wrel    []chan struct{}
	wpanic  []*int32
	wstops  []*wstopRec
	closers []*closerT
	ctxs    []ctxRec
	calls   []*int32
	ncall   int
}

var (
	settleTimeout  = int64(20 * time.Second)
	settleTimeouts int64
	grace          = 150 * time.Microsecond
)

func (c *ctl) observe() obs {
	var o obs
	for _, t := range c.tasks {
		r, _ := t.ret.Load().(string)
		o.Rets = append(o.Rets, r)
		o.Begun = append(o.Begun, atomic.LoadInt32(&t.begun) != 0)
	}
	o.D = closed(c.s.IsStopped())
	o.S = closed(c.s.ShouldStop())
	o.Q = closed(c.s.ShouldQuiesce())
	o.NTasks = c.s.NumTasks()
	for _, cl := range c.closers {
		o.Calls = append(o.Calls, int(atomic.LoadInt32(&cl.calls)))
	}
	for _, x := range c.ctxs {
		o.Ctx = append(o.Ctx, x.ctx.Err() != nil)
	}
	for _, sm := range c.sems {
		o.Lens = append(o.Lens, len(sm))
	}
	for _, r := range c.calls {
		o.SRets = append(o.SRets, atomic.LoadInt32(r) != 0)
	}
	o.Snap = c.s.VerifSnapshot()
	return o
}

func (c *ctl) settle(exp obs, ambig []bool) obs {
	deadline := time.Now().Add(time.Duration(atomic.LoadInt64(&settleTimeout)))
	timedOut := false
	for spins := 0; ; spins++ {
		o := c.observe()
		if eqObs(exp, o, ambig) {
			break
		}
		if time.Now().After(deadline) {
			timedOut = true
			if atomic.AddInt64(&settleTimeouts, 1) >= 2 {
				// only a Stopper that misbehaves gets here; do not spend
				// 20 s on each of its further misbehaviours
				atomic.StoreInt64(&settleTimeout, int64(400*time.Millisecond))
			}
			break
		}
		if spins < 50 {
			runtime.Gosched()
		} else {
			time.Sleep(20 * time.Microsecond)
		}
	}
	// grace: anything that should NOT have happened yet gets a chance to show
	runtime.Gosched()
	time.Sleep(grace)
	o := c.observe()
	o.TimedOut = timedOut
	return o
}

// bodyStop: a task or worker body calls Stop itself, as a goroutine that
// reacts to ShouldQuiesce / ShouldStop "to make sure we shut down" may do.
// Only done when a Stop call has been made before: this one must return at
// once.
func (c *ctl) bodyStop(k int, done *int32) {
	c.l.add("stopcall", k, -1, "", false)
	c.s.Stop(context.Background())
	atomic.StoreInt32(done, 1)
	c.l.add("stopret", k, -1, "", true)
}

// newCall registers a further Stop / Quiesce call of this case.
func (c *ctl) newCall() (int, *int32) {
	k := c.ncall
	c.ncall++
	done := new(int32)
	c.calls = append(c.calls, done)
	return k, done
}

func (c *ctl) body(i int, t *taskRec) func(context.Context) {
	return func(context.Context) {
		atomic.StoreInt32(&t.begun, 1)
		c.l.add("begin", i, -1, "", true)
		<-t.release
		if k := atomic.LoadInt32(&t.stopID); k > 0 {
			c.bodyStop(int(k)-1, t.stopFlg)
		}
		c.l.add("end", i, -1, "", true)
		if atomic.LoadInt32(&t.panics) != 0 {
			panic(bodyPanic{i})
		}
	}
}

func (c *ctl) do(o hop) {
	bg := context.Background()
	switch o.K {
	case "task":
		i := len(c.tasks)
		t := &taskRec{release: make(chan struct{})}
		c.tasks = append(c.tasks, t)
		async := o.B
		tctx := bg
		if o.Ctx >= 0 {
			// possibly cancelled already: RunTask / RunAsyncTask must not care
			tctx = c.ctxs[o.Ctx].ctx
		}
		go func() {
			defer c.l.guard("RunTask")
			c.l.start(i, -1, !async)
			var err error
			if async {
				err = c.s.RunAsyncTask(tctx, fmt.Sprintf("t%d", i), c.body(i, t))
			} else {
				if i%2 == 0 {
					err = c.s.RunTask(tctx, fmt.Sprintf("t%d", i), c.body(i, t))
				} else {
					// same accounting, callback with an error result: it
					// returns a non-nil error (or panics, on command)
					b := c.body(i, t)
					err = c.s.RunTaskWithErr(tctx, fmt.Sprintf("t%d", i), func(ctx context.Context) error {
						b(ctx)
						return errBody
					})
				}
			}
			t.ret.Store(errName(err))
			c.l.add("ret", i, -1, errName(err), true)
		}()
	case "limited":
		i := len(c.tasks)
		t := &taskRec{release: make(chan struct{})}
		c.tasks = append(c.tasks, t)
		ctx := bg
		if o.Ctx >= 0 {
			ctx = c.ctxs[o.Ctx].ctx
		}
		sem, wait := o.N, o.B
		go func() {
			defer c.l.guard("RunLimitedAsyncTask")
			c.l.start(i, sem, false)
			err := c.s.RunLimitedAsyncTask(ctx, fmt.Sprintf("l%d", i), c.sems[sem], wait, c.body(i, t))
			t.ret.Store(errName(err))
			c.l.add("ret", i, -1, errName(err), true)
		}()
	case "release":
		close(c.tasks[o.N].release)
	case "panic":
		atomic.StoreInt32(&c.tasks[o.N].panics, 1)
		close(c.tasks[o.N].release)
	case "relstop":
		k, done := c.newCall()
		c.tasks[o.N].stopFlg = done
		atomic.StoreInt32(&c.tasks[o.N].stopID, int32(k+1))
		close(c.tasks[o.N].release)
	case "wrelstop":
		k, done := c.newCall()
		c.wstops[o.N].stopFlg = done
		atomic.StoreInt32(&c.wstops[o.N].stopID, int32(k+1))
		close(c.wrel[o.N])
	case "worker":
		w := len(c.wrel)
		rel := make(chan struct{})
		pf := new(int32)
		c.wrel = append(c.wrel, rel)
		c.wpanic = append(c.wpanic, pf)
		ws := &wstopRec{}
		c.wstops = append(c.wstops, ws)
		c.s.RunWorker(bg, func(context.Context) {
			<-rel
			if k := atomic.LoadInt32(&ws.stopID); k > 0 {
				c.bodyStop(int(k)-1, ws.stopFlg)
			}
			c.l.add("wend", w, -1, "", true)
			if atomic.LoadInt32(pf) != 0 {
				panic(bodyPanic{w})
			}
		})
		c.l.add("wstart", w, -1, "", true)
	case "wrelease":
		close(c.wrel[o.N])
	case "wpanic":
		atomic.StoreInt32(c.wpanic[o.N], 1)
		close(c.wrel[o.N])
	case "addcloser":
		cl := &closerT{id: len(c.closers), l: c.l}
		c.closers = append(c.closers, cl)
		c.l.add("addcall", cl.id, -1, "", true)
		c.s.AddCloser(cl)
		c.l.add("addret", cl.id, -1, "", true)
	case "withcancel":
		var x ctxRec
		x.onq = o.B
		if o.B {
			x.ctx, x.cancel = c.s.WithCancelOnQuiesce(bg)
		} else {
			x.ctx, x.cancel = c.s.WithCancelOnStop(bg)
		}
		c.ctxs = append(c.ctxs, x)
	case "cancelfn":
		c.l.add("ctxfn", o.N, -1, "", false)
		c.ctxs[o.N].cancel()
	case "stop", "quiesce":
		k := c.ncall
		c.ncall++
		done := new(int32)
		c.calls = append(c.calls, done)
		isStop := o.K == "stop"
		sctx := bg
		if o.Ctx >= 0 {
			// live, cancelled already, or cancelled while Stop / Quiesce
			// waits: they must not care
			sctx = c.ctxs[o.Ctx].ctx
		}
		go func() {
			defer c.l.guard("Stop/Quiesce")
			if isStop {
				c.l.add("stopcall", k, -1, "", false)
				c.s.Stop(sctx)
				atomic.StoreInt32(done, 1)
				c.l.add("stopret", k, -1, "", true)
			} else {
				c.l.add("quicall", k, -1, "", false)
				c.s.Quiesce(sctx)
				atomic.StoreInt32(done, 1)
				c.l.add("quiret", k, -1, "", true)
			}
		}()
	}
}

type ctlCase struct {
	Panics   []string `json:",omitempty"`
	Caps     []int
	Ops      []string
	OpsJ     []hop // the same operations, structured (input of -mode replay)
	Obs      []obs
	Events   []event
	Stuck    bool   `json:",omitempty"` // the harness' own call into the Stopper never returned
	StuckAt  string `json:",omitempty"`
	Racing   bool   // a Stop or Quiesce was called while a task ran, a worker lived or a limited call waited
	TimedOut bool
}

// pickTaskCtx: the context handed to RunTask / RunAsyncTask: background, or
// (4 times in 10) one of the WithCancelOn* contexts, preferably one that is
// cancelled already.
func pickTaskCtx(rng *rand.Rand, tw *twin) int {
	if len(tw.ctxs) == 0 || rng.Intn(10) >= 4 {
		return -1
	}
	var dead []int
	for i, c := range tw.ctxs {
		if c.cancelled {
			dead = append(dead, i)
		}
	}
	if len(dead) > 0 && rng.Intn(3) != 0 {
		return dead[rng.Intn(len(dead))]
	}
	return rng.Intn(len(tw.ctxs))
}

// genOps draws one operation sequence of total length <= maxLen (closing
// tail included): the twin says which operations are applicable.
func genOps(rng *rand.Rand, caps []int, maxLen int) ([]hop, bool) {
	tw := &twin{caps: caps, lens: make([]int, len(caps))}
	var ops []hop
	racing := false
	tailNeed := func() int {
		n := len(tw.runningTasks()) + len(tw.liveWorkers())
		for _, k := range tw.tasks {
			if k.state == "waiting" {
				n++
			}
		}
		if !tw.stopCalled {
			n++
		}
		return n
	}
	target := 4 + rng.Intn(maxLen-3)
	for len(ops) < target {
		var o hop
		switch r := rng.Intn(100); {
		case r < 8:
			o = hop{K: "task", B: false, Ctx: -1}
			o.Ctx = pickTaskCtx(rng, tw)
		case r < 18:
			o = hop{K: "task", B: true, Ctx: -1}
			o.Ctx = pickTaskCtx(rng, tw)
		case r < 36:
			o = hop{K: "limited", N: rng.Intn(len(caps)), B: rng.Intn(2) == 0, Ctx: -1}
			if len(tw.ctxs) > 0 && rng.Intn(3) == 0 {
				o.Ctx = rng.Intn(len(tw.ctxs))
			}
			// two waiters on one semaphore: which one gets a freed slot is Go's choice
			if o.B && tw.waiterOn(o.N) {
				o.B = false
			}
		case r < 56:
			run := tw.runningTasks()
			if len(run) == 0 {
				continue
			}
			o = hop{K: "release", N: run[rng.Intn(len(run))]}
			if rng.Intn(4) == 0 {
				o.K = "panic"
			} else if tw.stopCalled && rng.Intn(3) == 0 {
				o.K = "relstop"
			}
		case r < 64:
			o = hop{K: "worker"}
		case r < 72:
			lw := tw.liveWorkers()
			if len(lw) == 0 {
				continue
			}
			o = hop{K: "wrelease", N: lw[rng.Intn(len(lw))]}
			if rng.Intn(5) == 0 {
				o.K = "wpanic"
			} else if tw.stopCalled && rng.Intn(3) == 0 {
				o.K = "wrelstop"
			}
		case r < 80:
			o = hop{K: "addcloser"}
		case r < 87:
			o = hop{K: "withcancel", B: rng.Intn(2) == 0}
		case r < 92:
			if len(tw.ctxs) == 0 {
				continue
			}
			o = hop{K: "cancelfn", N: rng.Intn(len(tw.ctxs))}
		case r < 97:
			o = hop{K: "stop", Ctx: pickTaskCtx(rng, tw)}
		default:
			o = hop{K: "quiesce", Ctx: pickTaskCtx(rng, tw)}
		}
		// would the closing tail still fit?
		probe := 1
		if o.K == "task" || o.K == "limited" || o.K == "worker" {
			probe = 2
		}
		if len(ops)+probe+tailNeed() > maxLen {
			break
		}
		if (o.K == "stop" || o.K == "quiesce") && (len(tw.runningTasks()) > 0 || len(tw.liveWorkers()) > 0 || tw.anyWaiter()) {
			racing = true
		}
		tw.apply(o)
		ops = append(ops, o)
		if o.K == "withcancel" && rng.Intn(5) < 2 && len(ops)+1+tailNeed() <= maxLen {
			// a context that is already cancelled when it is handed to a later submission
			o2 := hop{K: "cancelfn", N: len(tw.ctxs) - 1}
			tw.apply(o2)
			ops = append(ops, o2)
		}
	}
	// closing tail, in a random order: Stop if not called yet, every running
	// task and live worker released (so that no goroutine stays behind)
	for {
		var cand []hop
		if !tw.stopCalled {
			cand = append(cand, hop{K: "stop", Tail: true, Ctx: pickTaskCtx(rng, tw)})
		}
		for _, i := range tw.runningTasks() {
			cand = append(cand, hop{K: "release", N: i, Tail: true})
		}
		for _, w := range tw.liveWorkers() {
			cand = append(cand, hop{K: "wrelease", N: w, Tail: true})
		}
		if len(cand) == 0 {
			break
		}
		o := cand[rng.Intn(len(cand))]
		if o.K == "release" && rng.Intn(5) == 0 {
			o.K = "panic"
		} else if o.K == "release" && tw.stopCalled && rng.Intn(4) == 0 {
			o.K = "relstop"
		}
		if o.K == "wrelease" && rng.Intn(6) == 0 {
			o.K = "wpanic"
		} else if o.K == "wrelease" && tw.stopCalled && rng.Intn(4) == 0 {
			o.K = "wrelstop"
		}
		if o.K == "stop" && (len(tw.runningTasks()) > 0 || len(tw.liveWorkers()) > 0 || tw.anyWaiter()) {
			racing = true
		}
		tw.apply(o)
		ops = append(ops, o)
	}
	return ops, racing
}

var caseTimeout = int64(120 * time.Second)

// runCtl executes one operation sequence.  It runs under a watchdog: a
// Stopper that dead-locks (for instance by panicking with its mutex held)
// would block the harness' own calls for ever; the case is then abandoned,
// marked Stuck, and keeps the operations executed so far.
func runCtl(caps []int, ops []hop) ctlCase {
	var mu sync.Mutex
	res := ctlCase{Caps: caps}
	c := &ctl{}
	for _, n := range caps {
		c.sems = append(c.sems, make(chan struct{}, n))
	}
	c.l = &evlog{sems: c.sems}
	s := newStopper(c.l)
	c.s = s
	done := make(chan struct{})
	go func() {
		defer close(done)
		tw := &twin{caps: caps, lens: make([]int, len(caps))}
		ctxKey := ""
		for _, o := range ops {
			mu.Lock()
			res.StuckAt = o.coq()
			mu.Unlock()
			c.do(o)
			tw.apply(o)
			exp, ambig := tw.expected()
			ob := c.settle(exp, ambig)
			c.l.idle()
			// the contexts, whenever a channel or a context changed state
			key := fmt.Sprint(ob.Q, ob.S, ob.Ctx)
			if key != ctxKey {
				ctxKey = key
				for x, cr := range c.ctxs {
					c.l.ctxSample(x, cr.onq, cr.ctx)
				}
			}
			mu.Lock()
			res.Ops = append(res.Ops, o.coq())
			res.OpsJ = append(res.OpsJ, o)
			res.Obs = append(res.Obs, ob)
			if ob.TimedOut {
				res.TimedOut = true
			}
			mu.Unlock()
		}
		if tw.stopCalled && len(tw.runningTasks()) == 0 && len(tw.liveWorkers()) == 0 && !tw.anyWaiter() {
			// every body has been told to return, Stop has been called and
			// the harness has waited for the Stopper to settle
			c.l.add("final", 0, -1, "", true)
		}
	}()
	select {
	case <-done:
		mu.Lock()
		res.StuckAt = ""
	case <-time.After(time.Duration(atomic.LoadInt64(&caseTimeout))):
		// only a Stopper that misbehaves gets here
		atomic.StoreInt64(&caseTimeout, int64(5*time.Second))
		mu.Lock()
		res.Stuck = true
	}
	c.l.add("obs", 0, -1, "", true)
	out := ctlCase{Caps: caps, Stuck: res.Stuck, StuckAt: res.StuckAt, TimedOut: res.TimedOut}
	out.Ops = append(out.Ops, res.Ops...)
	out.OpsJ = append(out.OpsJ, res.OpsJ...)
	out.Obs = append(out.Obs, res.Obs...)
	mu.Unlock()
	out.Events = c.l.snapshot()
	out.Panics = c.l.panics()
	return out
}

func (c ctlCase) coq() string {
	var caps, obsl []string
	for _, n := range c.Caps {
		caps = append(caps, fmt.Sprintf("%d", n))
	}
	for _, o := range c.Obs {
		obsl = append(obsl, o.coq())
	}
	return "(" + vh.List(caps) + ", " + vh.List(c.Ops) + ", " + vh.List(obsl) + ", " + eventsCoq(c.Events) + ")"
}

// ---------------------------------------------------------------- free runs

type freeCase struct {
	Panics []string `json:",omitempty"`
	NSems  int
	Caps   []int
	Events []event
	Hang   bool
	Storm  bool
	Flood  bool
	Stops  int
	Quis   int
}

func pause(rng *rand.Rand) {
	switch rng.Intn(4) {
	case 0:
	case 1:
		runtime.Gosched()
	default:
		time.Sleep(time.Duration(rng.Intn(150)) * time.Microsecond)
	}
}

var hangTimeout = int64(60 * time.Second)

func runFree(seed int64) freeCase {
	rng := rand.New(rand.NewSource(seed))
	caps := []int{1 + rng.Intn(2), 1 + rng.Intn(3)}
	var sems []chan struct{}
	for _, n := range caps {
		sems = append(sems, make(chan struct{}, n))
	}
	l := &evlog{sems: sems}
	s := newStopper(l)
	var taskID, workerID, closerID, callID, ctxID int32
	var wg sync.WaitGroup // every goroutine the harness itself starts
	bg := context.Background()
	nStops := 1 + rng.Intn(3)
	nQuis := rng.Intn(2)
	res := freeCase{NSems: len(caps), Caps: caps, Stops: nStops, Quis: nQuis}

	// a body: runs for a moment, or until the stopper says quiesce (bounded)
	// a task that reacts to ShouldQuiesce, or a worker that reacts to
	// ShouldStop, by calling Stop itself "to make sure we shut down"
	redundantStop := func() {
		id := int(atomic.AddInt32(&callID, 1)) - 1
		l.add("stopcall", id, -1, "", false)
		s.Stop(bg)
		l.add("stopret", id, -1, "", true)
	}
	var spawnWorker func(r *rand.Rand, depth int)
	mkBody := func(i int, r *rand.Rand) func(context.Context) {
		mode, d := r.Intn(3), time.Duration(r.Intn(300))*time.Microsecond
		var wr *rand.Rand
		if r.Intn(5) == 0 {
			wr = rand.New(rand.NewSource(r.Int63()))
		}
		panics := r.Intn(7) == 0
		stops := r.Intn(4) == 0
		return func(context.Context) {
			l.add("begin", i, -1, "", true)
			if wr != nil {
				// RunWorker from inside an accepted task: Stop cannot have
				// reached stop.Wait() yet (it waits for this task first)
				spawnWorker(wr, 1)
			}
			switch mode {
			case 0:
			case 1:
				time.Sleep(d)
			default:
				select {
				case <-s.ShouldQuiesce():
					// with no plain Quiesce caller about, the quiesce channel
					// is closed by a Stop call only: a further one returns at once
					if stops && nQuis == 0 {
						redundantStop()
					}
				case <-time.After(3 * time.Millisecond):
				}
				time.Sleep(d / 4)
			}
			l.add("end", i, -1, "", true)
			if panics {
				panic(bodyPanic{i})
			}
		}
	}
	spawnWorker = func(r *rand.Rand, depth int) {
		w := int(atomic.AddInt32(&workerID, 1)) - 1
		mode, d := r.Intn(3), time.Duration(r.Intn(200))*time.Microsecond
		child := depth < 2 && r.Intn(4) == 0
		wpanics := r.Intn(8) == 0
		wstops := r.Intn(5) == 0
		cr := rand.New(rand.NewSource(r.Int63()))
		s.RunWorker(bg, func(context.Context) {
			switch mode {
			case 0:
				time.Sleep(d)
			default:
				// the usual pattern: work until told to stop
				<-s.ShouldStop()
				if wstops {
					redundantStop()
				}
				time.Sleep(d / 2)
			}
			if child {
				// a worker may start another one while it is itself counted
				spawnWorker(cr, depth+1)
			}
			l.add("wend", w, -1, "", true)
			if wpanics {
				panic(bodyPanic{w})
			}
		})
		l.add("wstart", w, -1, "", true)
	}
	// RunWorker racing with Stop's stop.Wait() at counter zero is outside the
	// WaitGroup contract (sync panics "WaitGroup misuse" under the race
	// detector): direct calls are made only in a prologue that is over before
	// any Stop call; later workers are started from inside tasks and workers.
	var prologue sync.WaitGroup
	actor := func(r *rand.Rand, n int) {
		defer wg.Done()
		defer l.guard("actor")
		var once sync.Once
		defer once.Do(prologue.Done)
		var cancels []func()
		var ctxs []context.Context
		var cids []int
		var conq []bool
		// the context handed to RunTask / RunAsyncTask: background, or one of
		// this actor's WithCancelOn* contexts, cancelled or not
		pickCtx := func() context.Context {
			if len(ctxs) > 0 && r.Intn(3) == 0 {
				return ctxs[r.Intn(len(ctxs))]
			}
			return bg
		}
		for k := r.Intn(3); k > 0; k-- {
			spawnWorker(r, 0)
		}
		once.Do(prologue.Done)
		for k := 0; k < n; k++ {
			pause(r)
			switch x := r.Intn(100); {
			case x < 15:
				i := int(atomic.AddInt32(&taskID, 1)) - 1
				l.start(i, -1, true)
				var err error
				if b := mkBody(i, r); r.Intn(2) == 0 {
					err = s.RunTask(pickCtx(), "t", b)
				} else {
					fails := r.Intn(3) != 0
					err = s.RunTaskWithErr(pickCtx(), "t", func(ctx context.Context) error {
						b(ctx)
						if fails {
							return errBody
						}
						return nil
					})
				}
				l.add("ret", i, -1, errName(err), true)
			case x < 35:
				i := int(atomic.AddInt32(&taskID, 1)) - 1
				l.start(i, -1, false)
				err := s.RunAsyncTask(pickCtx(), "a", mkBody(i, r))
				l.add("ret", i, -1, errName(err), true)
			case x < 68:
				i := int(atomic.AddInt32(&taskID, 1)) - 1
				sem := r.Intn(len(sems))
				ctx := bg
				if len(ctxs) > 0 && r.Intn(3) == 0 {
					ctx = ctxs[r.Intn(len(ctxs))]
				}
				l.start(i, sem, false)
				err := s.RunLimitedAsyncTask(ctx, "l", sems[sem], r.Intn(2) == 0, mkBody(i, r))
				l.add("ret", i, -1, errName(err), true)
			case x < 84:
				cl := &closerT{id: int(atomic.AddInt32(&closerID, 1)) - 1, l: l}
				l.add("addcall", cl.id, -1, "", true)
				s.AddCloser(cl)
				l.add("addret", cl.id, -1, "", true)
			case x < 92:
				var ctx context.Context
				var cancel func()
				onq := r.Intn(2) == 0
				if onq {
					ctx, cancel = s.WithCancelOnQuiesce(bg)
				} else {
					ctx, cancel = s.WithCancelOnStop(bg)
				}
				cid := int(atomic.AddInt32(&ctxID, 1)) - 1
				l.ctxSample(cid, onq, ctx)
				ctxs = append(ctxs, ctx)
				cancels = append(cancels, cancel)
				cids = append(cids, cid)
				conq = append(conq, onq)
				if r.Intn(3) == 0 {
					l.add("ctxfn", cid, -1, "", false)
					cancel() // already cancelled when handed to a later submission
				}
			case x < 96:
				if len(cancels) > 0 {
					k := r.Intn(len(cancels))
					l.add("ctxfn", cids[k], -1, "", false)
					cancels[k]()
				}
			default:
				l.add("obs", 0, -1, "", true)
				for k := range ctxs {
					l.ctxSample(cids[k], conq[k], ctxs[k])
				}
			}
		}
		for k, c := range cancels {
			l.ctxSample(cids[k], conq[k], ctxs[k])
			l.add("ctxfn", cids[k], -1, "", false)
			c()
		}
	}
	// One history in three is a "storm": no ordinary actors, but many
	// WithCancelOnQuiesce contexts (Quiesce cancels them under the mutex, so
	// it holds the mutex for a while before and after it sets quiescing) and
	// one or two goroutines that call RunTask back to back from just before
	// the first Stop / Quiesce call until they are refused.  A call that is
	// let in although quiescing was already set slips past the drain.  A
	// body that finds ShouldQuiesce closed lingers, so that it is still
	// running when a Stopper that let it in late closes the stop channel.
	storm := rng.Intn(3) == 0
	res.Storm = storm
	goCh := make(chan struct{})
	var goOnce sync.Once
	var stormCancels []func()
	nActors := 3 + rng.Intn(5)
	if storm {
		nActors = 0
		for k := 128 + rng.Intn(384); k > 0; k-- {
			_, cancel := s.WithCancelOnQuiesce(bg)
			stormCancels = append(stormCancels, cancel)
		}
		for h := 1 + rng.Intn(2); h > 0; h-- {
			wg.Add(1)
			go func() {
				defer wg.Done()
				defer l.guard("hammer")
				<-goCh
				for k := 0; k < 150; k++ {
					i := int(atomic.AddInt32(&taskID, 1)) - 1
					l.start(i, -1, true)
					err := s.RunTask(bg, "h", func(context.Context) {
						l.add("begin", i, -1, "", true)
						if closed(s.ShouldQuiesce()) {
							time.Sleep(300 * time.Microsecond)
						}
						l.add("end", i, -1, "", true)
					})
					l.add("ret", i, -1, errName(err), true)
					if err != nil {
						break
					}
				}
			}()
		}
	}
	// One ordinary history in four is a "flood": thousands of
	// WithCancelOnStop contexts, and one or two workers that wait for
	// ShouldStop and at once read a few dozen of those contexts: every one
	// must be cancelled by then (Stop cancels them before it closes the
	// channel; with so many, a Stop that closes first is caught in the act).
	var floodCancels []func()
	if !storm && rng.Intn(4) == 0 {
		res.Flood = true
		nf := 3000 + rng.Intn(3000)
		fctx := make([]context.Context, nf)
		for k := 0; k < nf; k++ {
			var cancel func()
			fctx[k], cancel = s.WithCancelOnStop(bg)
			floodCancels = append(floodCancels, cancel)
		}
		for h := 1 + rng.Intn(2); h > 0; h-- {
			w := int(atomic.AddInt32(&workerID, 1)) - 1
			wr := rand.New(rand.NewSource(rng.Int63()))
			s.RunWorker(bg, func(context.Context) {
				<-s.ShouldStop()
				for k := 0; k < 40; k++ {
					// (a fresh small number per reading: the cancel
					// functions of these contexts are not called before the end)
					l.ctxSample(int(atomic.AddInt32(&ctxID, 1))-1, false, fctx[wr.Intn(nf)])
				}
				l.add("wend", w, -1, "", true)
			})
			l.add("wstart", w, -1, "", true)
		}
	}
	for a := 0; a < nActors; a++ {
		wg.Add(1)
		prologue.Add(1)
		go actor(rand.New(rand.NewSource(rng.Int63())), 4+rng.Intn(14))
	}
	// bystanders sampling the channels
	wg.Add(1)
	go func(r *rand.Rand) {
		defer wg.Done()
		for k := 0; k < 30; k++ {
			time.Sleep(time.Duration(r.Intn(120)) * time.Microsecond)
			if k%2 == 0 {
				l.add("obs", 0, -1, "", true)
			} else {
				l.idle()
			}
		}
	}(rand.New(rand.NewSource(rng.Int63())))
	// the stoppers
	for k := 0; k < nStops+nQuis; k++ {
		wg.Add(1)
		isStop := k < nStops
		delay := time.Duration(rng.Intn(1500)) * time.Microsecond
		if storm {
			delay = time.Duration(10+rng.Intn(150)) * time.Microsecond
		}
		// the context handed to Stop / Quiesce: background, one that is
		// cancelled already, or one cancelled a moment later (possibly while
		// the call waits for the tasks): Stop and Quiesce must not care
		sctx, scancel := context.WithCancel(bg)
		smode := rng.Intn(4)
		sdelay := time.Duration(rng.Intn(600)) * time.Microsecond
		go func() {
			defer wg.Done()
			defer l.guard("Stop/Quiesce")
			defer scancel()
			prologue.Wait()
			switch smode {
			case 0:
				scancel()
			case 1:
				time.AfterFunc(delay+sdelay, scancel)
			}
			goOnce.Do(func() { close(goCh) })
			if storm {
				// a timer may fire late by more than the hammering lasts: spin
				for t0 := time.Now(); time.Since(t0) < delay; {
					runtime.Gosched()
				}
			} else {
				time.Sleep(delay)
			}
			id := int(atomic.AddInt32(&callID, 1)) - 1
			if isStop {
				l.add("stopcall", id, -1, "", false)
				s.Stop(sctx)
				l.add("stopret", id, -1, "", true)
			} else {
				l.add("quicall", id, -1, "", false)
				s.Quiesce(sctx)
				l.add("quiret", id, -1, "", true)
			}
		}()
	}
	done := make(chan struct{})
	go func() {
		wg.Wait()
		<-s.IsStopped()
		for _, c := range stormCancels {
			c()
		}
		for _, c := range floodCancels {
			c()
		}
		close(done)
	}()
	select {
	case <-done:
	case <-time.After(time.Duration(atomic.LoadInt64(&hangTimeout))):
		// only a Stopper that misbehaves gets here
		res.Hang = true
		atomic.StoreInt64(&hangTimeout, int64(time.Second))
	}
	if !res.Hang {
		// let the goroutines the Stopper itself started (async bodies) finish logging
		deadline := time.Now().Add(20 * time.Second)
		for s.NumTasks() != 0 && time.Now().Before(deadline) {
			time.Sleep(50 * time.Microsecond)
		}
	}
	if !res.Hang {
		l.idle()
	}
	l.add("obs", 0, -1, "", true)
	res.Events = l.snapshot()
	res.Panics = l.panics()
	return res
}

// lateWorker replays the model's witness c15_all_workers_done_refuted on the
// real Stopper: a closer that blocks holds Stop between stop.Wait() and
// close(stopped); a worker started then is still running when the stopper
// reports itself stopped.  (Not a violation of what C15's theorem states --
// it is the boundary of the WaitGroup contract -- recorded in the evidence.)
func lateWorker() map[string]interface{} {
	bg := context.Background()
	s := stop.NewStopper()
	gate, entered, rel := make(chan struct{}), make(chan struct{}), make(chan struct{})
	s.AddCloser(stop.CloserFn(func() { close(entered); <-gate }))
	go s.Stop(bg)
	res := map[string]interface{}{"replayed": false}
	select {
	case <-entered:
	case <-time.After(20 * time.Second):
		close(gate)
		return res
	}
	running := int32(1)
	s.RunWorker(bg, func(context.Context) { <-rel; atomic.StoreInt32(&running, 0) })
	close(gate)
	select {
	case <-s.IsStopped():
	case <-time.After(20 * time.Second):
		close(rel)
		return res
	}
	res["replayed"] = true
	res["stopped_closed_while_worker_running"] = atomic.LoadInt32(&running) == 1
	close(rel)
	return res
}

// ---------------------------------------------------------------- main

type logT struct{}

func (logT) Fatal(a ...interface{})        { panic(fmt.Sprint(a...)) }
func (logT) Failed() bool                  { return false }
func (logT) Error(...interface{})          {}
func (logT) Errorf(string, ...interface{}) {}
func (logT) Name() string                  { return "verifc15" }
func (logT) Log(...interface{})            {}
func (logT) Logf(string, ...interface{})   {}

// handlerProbe: a limited task on a one-slot semaphore panics; the Stopper's
// OnPanic handler samples the semaphore and NumTasks and then quiesces the
// Stopper.  "A limited task holds its semaphore slot exactly while it runs"
// and "tasks drained" cover the handler too: when it runs, the task's body is
// over, so the slot is free, the task is no longer counted, and a Quiesce
// from the handler returns.
func handlerProbe() map[string]interface{} {
	var mu sync.Mutex
	res := map[string]interface{}{"ran": false}
	set := func(k string, v interface{}) { mu.Lock(); res[k] = v; mu.Unlock() }
	snap := func() map[string]interface{} {
		mu.Lock()
		defer mu.Unlock()
		cp := map[string]interface{}{}
		for k, v := range res {
			cp[k] = v
		}
		return cp
	}
	sem := make(chan struct{}, 1)
	done := make(chan struct{})
	var s *stop.Stopper
	s = stop.NewStopper(stop.OnPanic(func(v interface{}) {
		set("sem_len_in_handler", len(sem))
		set("num_tasks_in_handler", s.NumTasks())
		q := make(chan struct{})
		go func() { s.Quiesce(context.Background()); close(q) }()
		select {
		case <-q:
			set("quiesce_from_handler_returned", true)
		case <-time.After(3 * time.Second):
			set("quiesce_from_handler_returned", false)
		}
		close(done)
	}))
	err := s.RunLimitedAsyncTask(context.Background(), "probe", sem, true, func(context.Context) { panic(bodyPanic{-7}) })
	if err != nil {
		set("start_error", err.Error())
		return snap()
	}
	select {
	case <-done:
		set("ran", true)
	case <-time.After(10 * time.Second):
	}
	return snap()
}

func main() {
	seed := flag.Int64("seed", 1, "")
	tier := flag.String("tier", "quick", "")
	out := flag.String("out", ".", "")
	mode := flag.String("mode", "ctl", "ctl: controlled schedules; free: free-running histories (build with -race)")
	nOverride := flag.Int("n", 0, "number of cases (0: by tier)")
	par := flag.Int("par", 4, "controlled cases run in parallel")
	in := flag.String("in", "", "replay: JSON file holding Caps and OpsJ of one controlled case")
	budget := flag.Int("budget", 0, "seconds after which no further case is started (0: 240 quick, 1800 thorough); only a misbehaving Stopper makes a run that long")
	flag.Parse()

	sc := log.ScopeWithoutShowLogs(logT{})
	defer sc.Close(logT{})
	rng := vh.Rng(*seed)
	if *budget == 0 {
		*budget = 240
		if *tier == "thorough" {
			*budget = 1800
		}
	}
	deadline := time.Now().Add(time.Duration(*budget) * time.Second)

	if *mode == "free" {
		n := 120
		if *tier == "thorough" {
			n = 2500
		}
		if *nOverride > 0 {
			n = *nOverride
		}
		var cases []freeCase
		var items []string
		hangs, nev, npan := 0, 0, 0
		distinct := map[string]bool{}
		for i := 0; i < n && time.Now().Before(deadline); i++ {
			c := runFree(rng.Int63())
			if c.Hang {
				hangs++
			}
			if len(c.Panics) > 0 {
				npan++
			}
			nev += len(c.Events)
			cases = append(cases, c)
			var cs []string
			for _, n := range c.Caps {
				cs = append(cs, fmt.Sprintf("%d", n))
			}
			items = append(items, fmt.Sprintf("(%s, %s)", vh.List(cs), eventsCoq(c.Events)))
			if len(c.Events) >= 20 {
				distinct[eventsCoq(c.Events)] = true
			}
		}
		vh.WriteFile(*out, "cases.v", "Definition free_cases : list free_case := "+vh.ListNL(items)+".\n")
		vh.WriteJSON(*out, "cases.json", map[string]interface{}{"free": cases})
		vh.WriteJSON(*out, "summary.json", map[string]interface{}{
			"free": len(cases), "planned": n, "hangs": hangs, "panics": npan, "events": nev, "distinct_nontrivial": len(distinct),
			"samples": []interface{}{cases[0]},
		})
		return
	}

	if *mode == "replay" {
		raw, err := os.ReadFile(*in)
		if err != nil {
			panic(err)
		}
		var rc struct {
			Caps []int
			OpsJ []hop
		}
		if err := json.Unmarshal(raw, &rc); err != nil {
			panic(err)
		}
		n := 3
		if *nOverride > 0 {
			n = *nOverride
		}
		var cases []ctlCase
		var items []string
		for i := 0; i < n; i++ {
			c := runCtl(rc.Caps, rc.OpsJ)
			cases = append(cases, c)
			items = append(items, c.coq())
		}
		vh.WriteFile(*out, "cases.v", "Definition ctl_cases : list ctl_case := "+vh.ListNL(items)+".\n")
		vh.WriteJSON(*out, "cases.json", map[string]interface{}{"ctl": cases})
		vh.WriteJSON(*out, "summary.json", map[string]interface{}{"ctl": len(cases)})
		return
	}

	n, maxLen := 600, 25
	if *tier == "thorough" {
		n, maxLen = 6000, 40
	}
	if *nOverride > 0 {
		n = *nOverride
	}
	type job struct {
		caps []int
		ops  []hop
		rac  bool
	}
	jobs := make([]job, n)
	for i := range jobs {
		caps := []int{1, 2}
		if rng.Intn(4) == 0 {
			caps = []int{1 + rng.Intn(2), 1 + rng.Intn(3)}
		}
		ops, rac := genOps(rng, caps, maxLen)
		jobs[i] = job{caps, ops, rac}
	}
	cases := make([]ctlCase, n)
	var wg sync.WaitGroup
	next := int32(-1)
	for p := 0; p < *par; p++ {
		wg.Add(1)
		go func() {
			defer wg.Done()
			for {
				i := int(atomic.AddInt32(&next, 1))
				if i >= n || !time.Now().Before(deadline) {
					return
				}
				cases[i] = runCtl(jobs[i].caps, jobs[i].ops)
				cases[i].Racing = jobs[i].rac
			}
		}()
	}
	wg.Wait()

	var items []string
	distinct := map[string]bool{}
	kinds := map[string]int{}
	// cases not run because the time budget was used up (never on a sane Stopper)
	planned := n
	for len(cases) > 0 && cases[len(cases)-1].Caps == nil {
		cases = cases[:len(cases)-1]
	}
	for i := range cases {
		if cases[i].Caps == nil {
			cases[i] = ctlCase{Caps: jobs[i].caps, Stuck: true, StuckAt: "not run: time budget used up"}
		}
	}
	nops, racing, timed, maxOps, npan := 0, 0, 0, 0, 0
	for i, c := range cases {
		if len(c.Panics) > 0 || c.Stuck {
			npan++
		}
		items = append(items, c.coq())
		nops += len(c.Ops)
		if len(c.Ops) > maxOps {
			maxOps = len(c.Ops)
		}
		if c.Racing {
			racing++
			distinct[strings.Join(c.Ops, ";")+fmt.Sprint(c.Caps)] = true
		}
		if c.TimedOut {
			timed++
		}
		for _, o := range jobs[i].ops {
			kinds[o.K]++
		}
	}
	vh.WriteFile(*out, "cases.v", "Definition ctl_cases : list ctl_case := "+vh.ListNL(items)+".\n")
	vh.WriteJSON(*out, "cases.json", map[string]interface{}{"ctl": cases})
	si := 0
	for i, c := range cases {
		if c.Racing && len(c.Ops) >= 12 && len(c.Obs) > 0 {
			si = i
			break
		}
	}
	vh.WriteJSON(*out, "summary.json", map[string]interface{}{
		"ctl": len(cases), "planned": planned, "ops": nops, "max_ops": maxOps, "racing": racing, "settle_timeouts": timed, "panics": npan,
		"op_kinds": kinds, "distinct_nontrivial": len(distinct), "late_worker_replay": lateWorker(), "handler_probe": handlerProbe(),
		"samples": []interface{}{map[string]interface{}{"caps": cases[si].Caps, "ops": cases[si].Ops,
			"observations": len(cases[si].Obs), "events": cases[si].Events}},
	})
	if timed > 0 {
		fmt.Fprintf(os.Stderr, "c15: %d cases had a settle time-out\n", timed)
	}
}
