// Harness for C01: drives the real processFsmStateChange (through the verif
// hook) with every observation sequence up to a length bound for every
// accepted modality, plus random longer ones and raw label sequences.
package main

import (
	"encoding/json"
	"flag"
	"fmt"
	"io/ioutil"
	"strings"
	"sync"
	"time"

	"github.com/knz/shakespeare/pkg/cmd"
	"github.com/knz/shakespeare/verifharness/vh"
)

type periodCase struct {
	Name  string
	Trace []bool
	Codes []int
	Panic string
}
type rawCase struct {
	Name   string
	Labels []string
	Codes  []int
	Panic  string
}

func codes(c []int, p string) string {
	if p != "" {
		return "None"
	}
	var xs []string
	for _, x := range c {
		xs = append(xs, fmt.Sprintf("%d", x))
	}
	return "(Some " + vh.List(xs) + "%Z)"
}

func coqStr(s string) string { return "\"" + strings.ReplaceAll(s, "\"", "\"\"") + "\"" }

var runner *cmd.VerifFsmRunner

func runPeriod(name string, tr []bool) periodCase {
	labels := make([]string, 0, len(tr)+1)
	for _, b := range tr {
		if b {
			labels = append(labels, "t")
		} else {
			labels = append(labels, "f")
		}
	}
	labels = append(labels, "end")
	c, p := runner.Run(name, labels)
	return periodCase{name, tr, c, p}
}

// runAuditionPeriods plays one configuration with one auditor `al expects
// <modality>: <pred>` that audits only while the mood is red, and one
// activation period per trace: mood red, one sample per observation (5 = the
// predicate holds, 1 = it does not), mood clear (or, for the last period,
// possibly the end of the play).  Returns one period case per trace with the
// result codes reported in that period.
func runAuditionPeriods(modality string, traces [][]bool, withT bool, lastClosedByFinal bool) []periodCase {
	pred := "[x s] > 3"
	if withT {
		pred = "([x s] > 3) && (t >= 0)"
	}
	cfg := "role r\n  :noop true\n  spotlight true\n  signal s scalar at (?P<ts_now>)s=(?P<scalar>\\d+)\nend\n" +
		"cast\n  x plays r\nend\naudience\n  al audits only while mood == 'red'\n  al expects " + modality + ": " + pred + "\nend\n"
	var evs []cmd.VerifEvent
	ts := 0.0
	type span struct{ from, to int }
	var spans []span
	for k, tr := range traces {
		ts += 0.5
		from := len(evs)
		evs = append(evs, cmd.VerifEvent{Kind: "mood", Ts: ts, Mood: "red"})
		for _, b := range tr {
			ts += 0.5
			v := 1.0
			if b {
				v = 5.0
			}
			evs = append(evs, cmd.VerifEvent{Kind: "sig", Ts: ts, Values: []cmd.VerifValue{{Actor: "x", Sig: "s", IsNum: true, Num: v}}})
		}
		ts += 0.5
		if k == len(traces)-1 && lastClosedByFinal {
			spans = append(spans, span{from, len(evs)})
		} else {
			spans = append(spans, span{from, len(evs)})
			evs = append(evs, cmd.VerifEvent{Kind: "mood", Ts: ts, Mood: "clear"})
		}
	}
	evs = append(evs, cmd.VerifEvent{Kind: "final", Ts: ts + 1.2871})
	res := cmd.VerifAuditLoop(cfg, evs, false)
	var out []periodCase
	for k, tr := range traces {
		pc := periodCase{Name: modality, Trace: tr, Panic: res.Panic}
		if res.ParseErr != "" {
			pc.Panic = "parse: " + res.ParseErr
		}
		if res.AuditErr != "" {
			pc.Panic = "audit error: " + res.AuditErr
		}
		for _, o := range res.Outs {
			if o.Kind == "report" && o.Auditor == "al" && o.Round >= spans[k].from && o.Round <= spans[k].to {
				pc.Codes = append(pc.Codes, o.Result)
			}
		}
		out = append(out, pc)
	}
	return out
}

const roleText = "role r\n  :noop true\n  spotlight true\n  signal s scalar at (?P<ts_now>)s=(?P<scalar>\\d+)\nend\ncast\n  x plays r\nend\n"

func sample(ts float64, b bool) cmd.VerifEvent {
	v := 1.0
	if b {
		v = 5.0
	}
	return cmd.VerifEvent{Kind: "sig", Ts: ts, Values: []cmd.VerifValue{{Actor: "x", Sig: "s", IsNum: true, Num: v}}}
}

func reportsOf(res *cmd.VerifAuditionResult, who string) []int {
	var c []int
	for _, o := range res.Outs {
		if o.Kind == "report" && o.Auditor == who {
			c = append(c, o.Result)
		}
	}
	return c
}

func problem(res *cmd.VerifAuditionResult, allowAuditErr bool) string {
	if res.Panic != "" {
		return res.Panic
	}
	if res.ParseErr != "" {
		return "parse: " + res.ParseErr
	}
	if res.AuditErr != "" && !allowAuditErr {
		return "audit error: " + res.AuditErr
	}
	return ""
}

// runThroughout: `al audits throughout` with a predicate over a signal only;
// the single period spans the whole play (also when NO sample ever arrives:
// the empty observation sequence must still be judged at the end).
func runThroughout(modality string, tr []bool) periodCase {
	cfg := roleText + "audience\n  al audits throughout\n  al expects " + modality + ": [x s] > 3\nend\n"
	var evs []cmd.VerifEvent
	ts := 0.0
	for _, b := range tr {
		ts += 0.5
		evs = append(evs, sample(ts, b))
	}
	evs = append(evs, cmd.VerifEvent{Kind: "final", Ts: ts + 1.2871})
	res := cmd.VerifAuditLoop(cfg, evs, false)
	return periodCase{Name: modality, Trace: tr, Codes: reportsOf(&res, "al"), Panic: problem(&res, false)}
}

// runTimePredicate: the predicate is over t (`t < K` or `t >= K`), which is
// assigned in EVERY round, the initial one and the final one included: the
// observation sequence is true^a false^b (or its negation), and the last
// observation falls on the very round that ends the period.
func runTimePredicate(modality string, a, b int, negated bool) periodCase {
	// rounds at t = 0 (initial), 1, 2, ... , and the final one
	n := a + b // total observations: the initial round, n-2 plain rounds, the final round
	if n < 2 {
		return periodCase{Name: modality, Trace: nil, Codes: nil, Panic: "skip"}
	}
	k := float64(a) - 0.5 // t < k holds for the first a rounds (t = 0 .. a-1)
	pred := fmt.Sprintf("t < %g", k)
	if negated {
		pred = fmt.Sprintf("t >= %g", k)
	}
	cfg := roleText + "audience\n  al audits throughout\n  al expects " + modality + ": " + pred + "\nend\n"
	var evs []cmd.VerifEvent
	for i := 1; i <= n-2; i++ { // rounds 1 .. n-2
		evs = append(evs, cmd.VerifEvent{Kind: "sig", Ts: float64(i)})
	}
	evs = append(evs, cmd.VerifEvent{Kind: "final", Ts: float64(n-1) + 0.2871})
	res := cmd.VerifAuditLoop(cfg, evs, false)
	var tr []bool
	for i := 0; i < n; i++ {
		t := float64(i)
		if i == n-1 {
			t += 0.2871
		}
		v := t < k
		if negated {
			v = !v
		}
		tr = append(tr, v)
	}
	return periodCase{Name: modality, Trace: tr, Codes: reportsOf(&res, "al"), Panic: problem(&res, false)}
}

// runWithFailingNeighbour: a second auditor, declared after al, whose
// activation condition fails to evaluate as soon as the signal is sampled: the
// audit loop returns with an error, and its deferred final round must still
// give al's open period its end-of-period judgement.
func runWithFailingNeighbour(modality string, tr []bool) periodCase {
	cfg := roleText + "audience\n  al audits throughout\n  al expects " + modality + ": [x s] > 3\n" +
		"  zz audits only while ([x s] > 100) || (mood > 3)\n  zz expects always: true\nend\n"
	var evs []cmd.VerifEvent
	ts := 0.0
	for _, b := range tr {
		ts += 0.5
		evs = append(evs, sample(ts, b))
	}
	evs = append(evs, cmd.VerifEvent{Kind: "final", Ts: ts + 1.2871})
	res := cmd.VerifAuditLoop(cfg, evs, false)
	// the loop stops at the first sample: al has observed exactly that one
	obs := tr
	if len(tr) > 1 {
		obs = tr[:1]
	}
	return periodCase{Name: modality, Trace: obs, Codes: reportsOf(&res, "al"), Panic: problem(&res, true)}
}

// runClearMoodPeriods: `al audits only while mood == 'clear'` with a predicate
// over moodt.  Moods: clear [0,3) red [3,5) clear [5,9) blue [9,end).  Every
// mood change is two rounds: one that closes the old mood (old mood, moodt =
// its duration) and one that opens the new one (moodt = 0); both are
// observations of a period that is open, and the second one is also the round
// that closes al's period.  Two periods: moodt = 0, 3, 0 and moodt = 0, 4, 0.
func runClearMoodPeriods(modality string, k float64, negated bool) []periodCase {
	pred := fmt.Sprintf("moodt < %g", k)
	if negated {
		pred = fmt.Sprintf("moodt >= %g", k)
	}
	cfg := roleText + "audience\n  al audits only while mood == 'clear'\n  al expects " + modality + ": " + pred + "\nend\n"
	evs := []cmd.VerifEvent{
		{Kind: "mood", Ts: 3, Mood: "red"},
		{Kind: "mood", Ts: 5, Mood: "clear"},
		{Kind: "mood", Ts: 9, Mood: "blue"},
		{Kind: "final", Ts: 10.2871},
	}
	res := cmd.VerifAuditLoop(cfg, evs, false)
	holds := func(moodt float64) bool { return (moodt < k) != negated }
	traces := [][]bool{{holds(0), holds(3), holds(0)}, {holds(0), holds(4), holds(0)}}
	spans := [][2]int{{-1000, 0}, {1, 2}}
	var out []periodCase
	for i, tr := range traces {
		pc := periodCase{Name: modality, Trace: tr, Panic: problem(&res, false)}
		for _, o := range res.Outs {
			if o.Kind == "report" && o.Auditor == "al" && o.Round >= spans[i][0] && o.Round <= spans[i][1] {
				pc.Codes = append(pc.Codes, o.Result)
			}
		}
		out = append(out, pc)
	}
	return out
}

const roleText2 = "role r\n  :noop true\n  spotlight true\n  signal s scalar at (?P<ts_now>)s=(?P<scalar>\\d+)\n  signal a scalar at (?P<ts_now>)a=(?P<scalar>\\d+)\nend\ncast\n  x plays r\nend\n"

// runSignalActivated: `al audits only while [x a] > 3`, predicate over [x s].
// A line of the spotlight carries both signals: the round of such a line is an
// observation.  Rounds that do not sample the activation signal (a line with
// s only, a mood change) leave al alone: the period stays open and nothing is
// observed.  The last element of tr is observed in the round where a drops
// (a = 1), which closes the period.
func runSignalActivated(modality string, tr []bool) periodCase {
	return runSignalActivatedEnd(modality, tr, false)
}

// with openAtEnd the activation signal never drops: the period is still open
// when the play ends and the final round (which samples nothing) closes it.
func runSignalActivatedEnd(modality string, tr []bool, openAtEnd bool) periodCase {
	cfg := roleText2 + "audience\n  al audits only while [x a] > 3\n  al expects " + modality + ": [x s] > 3\nend\n"
	val := func(b bool) float64 {
		if b {
			return 5
		}
		return 1
	}
	var evs []cmd.VerifEvent
	ts := 0.0
	for i, b := range tr {
		ts += 0.5
		a := 5.0
		if i == len(tr)-1 && !openAtEnd {
			a = 1
		}
		evs = append(evs, cmd.VerifEvent{Kind: "sig", Ts: ts, Values: []cmd.VerifValue{
			{Actor: "x", Sig: "a", IsNum: true, Num: a}, {Actor: "x", Sig: "s", IsNum: true, Num: val(b)}}})
		if i < len(tr)-1 {
			// a line with s only, carrying the opposite value, and now and then a mood change
			ts += 0.25
			evs = append(evs, cmd.VerifEvent{Kind: "sig", Ts: ts, Values: []cmd.VerifValue{{Actor: "x", Sig: "s", IsNum: true, Num: val(!b)}}})
			if i%2 == 0 {
				ts += 0.25
				evs = append(evs, cmd.VerifEvent{Kind: "mood", Ts: ts, Mood: []string{"red", "clear"}[(i/2)%2]})
			}
		}
	}
	evs = append(evs, cmd.VerifEvent{Kind: "final", Ts: ts + 1.2871})
	res := cmd.VerifAuditLoop(cfg, evs, false)
	obs := tr
	if len(tr) == 1 && !openAtEnd {
		// a = 1 from the start: al never audits
		obs = nil
	}
	pc := periodCase{Name: modality, Trace: obs, Codes: reportsOf(&res, "al"), Panic: problem(&res, false)}
	if len(tr) == 1 && !openAtEnd && len(pc.Codes) == 0 && pc.Panic == "" {
		pc.Panic = "skip"
	}
	return pc
}

// runSometimesFailing: `al audits throughout`, predicate `[x s] > 3`, and samples
// that are sometimes not numbers (tr element 2): the comparison then fails to
// evaluate; the round is reported as an error and is not an observation.
func runSometimesFailing(modality string, tr []int) period3Case {
	cfg := roleText + "audience\n  al audits throughout\n  al expects " + modality + ": [x s] > 3\nend\n"
	var evs []cmd.VerifEvent
	ts := 0.0
	for _, b := range tr {
		ts += 0.5
		v := cmd.VerifValue{Actor: "x", Sig: "s", IsNum: true, Num: 1}
		switch b {
		case 1:
			v.Num = 5
		case 2:
			v = cmd.VerifValue{Actor: "x", Sig: "s", IsNum: false, Str: "oops"}
		}
		evs = append(evs, cmd.VerifEvent{Kind: "sig", Ts: ts, Values: []cmd.VerifValue{v}})
	}
	evs = append(evs, cmd.VerifEvent{Kind: "final", Ts: ts + 1.2871})
	res := cmd.VerifAuditLoop(cfg, evs, false)
	return period3Case{Name: modality, Trace: tr, Codes: reportsOf(&res, "al"), Panic: problem(&res, false)}
}

// runSlowCollector: the same play against a collector that takes 160 ms per event
// behind a channel of capacity 1 must deliver exactly the reports of the play
// against a fast collector: the audit loop waits for the collector.
type slowCase struct {
	Name       string
	Fast, Slow []string
	Problem    string
}

func runSlowCollector(modality string) slowCase {
	cfg := roleText + "audience\n"
	for _, a := range []string{"a1", "a2"} {
		cfg += "  " + a + " audits throughout\n  " + a + " expects " + modality + ": [x s] > 3\n"
	}
	cfg += "end\n"
	var evs []cmd.VerifEvent
	ts := 0.0
	for _, b := range []bool{true, false, true} {
		ts += 0.5
		evs = append(evs, sample(ts, b))
	}
	evs = append(evs, cmd.VerifEvent{Kind: "final", Ts: ts + 1.2871})
	fast := cmd.VerifAuditLoop(cfg, evs, false)
	c := slowCase{Name: modality, Problem: problem(&fast, false)}
	for _, o := range fast.Outs {
		if o.Kind == "report" {
			c.Fast = append(c.Fast, fmt.Sprintf("%s:%d", o.Auditor, o.Result))
		}
	}
	// slower than any patience the audit loop could reasonably have for a busy collector
	slow, prob := cmd.VerifSlowCollector(cfg, evs, 1, 160*time.Millisecond)
	c.Slow = slow
	if prob != "" {
		c.Problem = prob
	}
	return c
}

// runNonBoolean: a predicate whose value is not a boolean (`[x s]`, a number)
// does not hold: every round is an observation of false (evalBool).
func runNonBoolean(modality string, n int) period3Case {
	cfg := roleText + "audience\n  al audits throughout\n  al expects " + modality + ": [x s]\nend\n"
	var evs []cmd.VerifEvent
	ts := 0.0
	var tr []int
	for i := 0; i < n; i++ {
		ts += 0.5
		evs = append(evs, sample(ts, i%2 == 0))
		tr = append(tr, 0)
	}
	evs = append(evs, cmd.VerifEvent{Kind: "final", Ts: ts + 1.2871})
	res := cmd.VerifAuditLoop(cfg, evs, false)
	return period3Case{Name: modality, Trace: tr, Codes: reportsOf(&res, "al"), Panic: problem(&res, false)}
}

// runSharedPredicate: two auditors with the SAME predicate text over a variable
// that a member declared BETWEEN them computes from the sample of the round:
// `al` (before) sees the value of the previous round, `bo` (after) the value of
// this round; in the final round both see the last value.  Each is judged on
// its own observations.
func runSharedPredicate(modality string, tr []bool) []periodCase {
	// members are ordered by first mention: al, mid, bo
	cfg := roleText + "audience\n  al audits throughout\n" +
		"  mid computes v as [x s]\n" +
		"  al expects " + modality + ": v > 3\n" +
		"  bo audits throughout\n  bo expects " + modality + ": v > 3\nend\n"
	var evs []cmd.VerifEvent
	ts := 0.0
	for _, b := range tr {
		ts += 0.5
		evs = append(evs, sample(ts, b))
	}
	evs = append(evs, cmd.VerifEvent{Kind: "final", Ts: ts + 1.2871})
	res := cmd.VerifAuditLoop(cfg, evs, false)
	// al: nothing in the first round (v not assigned yet), then the previous round's value, and the last one in the final round
	alObs := append([]bool(nil), tr...)
	boObs := append([]bool(nil), tr...)
	if len(tr) > 0 {
		boObs = append(boObs, tr[len(tr)-1])
	}
	return []periodCase{
		{Name: modality, Trace: alObs, Codes: reportsOf(&res, "al"), Panic: problem(&res, false)},
		{Name: modality, Trace: boObs, Codes: reportsOf(&res, "bo"), Panic: problem(&res, false)},
	}
}

// runOnlyHelps: an auditor that `only helps` (no plot of its own) is judged
// and reported like any other.
func runOnlyHelps(modality string, tr []bool) periodCase {
	cfg := roleText + "audience\n  al audits throughout\n  al expects " + modality + ": [x s] > 3\n  al only helps\nend\n"
	var evs []cmd.VerifEvent
	ts := 0.0
	for _, b := range tr {
		ts += 0.5
		evs = append(evs, sample(ts, b))
	}
	evs = append(evs, cmd.VerifEvent{Kind: "final", Ts: ts + 1.2871})
	res := cmd.VerifAuditLoop(cfg, evs, false)
	return periodCase{Name: modality, Trace: tr, Codes: reportsOf(&res, "al"), Panic: problem(&res, false)}
}

// runTwoOfOneModality: two auditors of the SAME modality audit during the same
// activation periods (mood red) with complementary predicates: a sample of 5
// makes al's predicate hold and bo's fail, a sample of 1 the reverse.  Each
// period of each auditor is judged on that auditor's own observations only
// (evaluators are per auditor and per period, never shared or recycled).
func runTwoOfOneModality(modality string, traces [][]bool) []periodCase {
	cfg := roleText + "audience\n  al audits only while mood == 'red'\n  al expects " + modality + ": [x s] > 3\n" +
		"  bo audits only while mood == 'red'\n  bo expects " + modality + ": [x s] < 3\nend\n"
	var evs []cmd.VerifEvent
	ts := 0.0
	type span struct{ from, to int }
	var spans []span
	for _, tr := range traces {
		ts += 0.5
		from := len(evs)
		evs = append(evs, cmd.VerifEvent{Kind: "mood", Ts: ts, Mood: "red"})
		for _, b := range tr {
			ts += 0.5
			evs = append(evs, sample(ts, b))
		}
		ts += 0.5
		spans = append(spans, span{from, len(evs)})
		evs = append(evs, cmd.VerifEvent{Kind: "mood", Ts: ts, Mood: "clear"})
	}
	evs = append(evs, cmd.VerifEvent{Kind: "final", Ts: ts + 1.2871})
	res := cmd.VerifAuditLoop(cfg, evs, false)
	var out []periodCase
	for k, tr := range traces {
		neg := make([]bool, len(tr))
		for i, b := range tr {
			neg[i] = !b
		}
		for _, who := range []string{"al", "bo"} {
			pc := periodCase{Name: modality, Trace: tr, Panic: problem(&res, false)}
			if who == "bo" {
				pc.Trace = neg
			}
			for _, o := range res.Outs {
				if o.Kind == "report" && o.Auditor == who && o.Round >= spans[k].from && o.Round <= spans[k].to {
					pc.Codes = append(pc.Codes, o.Result)
				}
			}
			out = append(out, pc)
		}
	}
	return out
}

// runLateStamps: the observations are what the auditor sees, whatever the time
// stamps say: samples stamped by the monitored program can carry an OLDER time
// than an event handled before them (a slow actor's line, a line stamped
// before a mood change that was processed first); every one of them is still
// an observation.  `al audits throughout`, one sample per observation, every
// second one stamped earlier than its predecessor, and a mood change stamped
// later than the sample that follows it.
func runLateStamps(modality string, tr []bool) periodCase {
	cfg := roleText + "audience\n  al audits throughout\n  al expects " + modality + ": [x s] > 3\nend\n"
	var evs []cmd.VerifEvent
	ts := 1.0
	for i, b := range tr {
		ts += 0.5
		if i == 1 {
			evs = append(evs, cmd.VerifEvent{Kind: "mood", Ts: ts + 0.4, Mood: "red"})
		}
		st := ts
		if i%2 == 1 {
			st = ts - 0.9
		}
		evs = append(evs, sample(st, b))
	}
	evs = append(evs, cmd.VerifEvent{Kind: "final", Ts: ts + 1.2871})
	res := cmd.VerifAuditLoop(cfg, evs, false)
	return periodCase{Name: modality, Trace: tr, Codes: reportsOf(&res, "al"), Panic: problem(&res, false)}
}

// runComputedPredicate: the predicate is over a variable the auditor itself
// computes from the sample of the round (own assignments come first), and the
// periods are delimited by a second signal sampled in the same rounds: a = 1
// keeps the period open, a = 0 closes it, and the value that comes with the
// closing sample is still observed in that period.  One period per trace
// (traces of length >= 1).
func runComputedPredicate(modality string, traces [][]bool) []periodCase {
	cfg := "role r\n  :noop true\n  spotlight true\n  signal s scalar at (?P<ts_now>)s=(?P<scalar>\\d+)\n  signal a scalar at (?P<ts_now>)a=(?P<scalar>\\d+)\nend\ncast\n  x plays r\nend\n" +
		"audience\n  al audits only while [x a] > 0\n  al computes v as [x s]\n  al expects " + modality + ": v > 3\nend\n"
	var evs []cmd.VerifEvent
	ts := 0.0
	type span struct{ from, to int }
	var spans []span
	for _, tr := range traces {
		from := len(evs)
		for i, b := range tr {
			ts += 0.5
			v, a := 1.0, 1.0
			if b {
				v = 5.0
			}
			if i == len(tr)-1 {
				a = 0.0
			}
			evs = append(evs, cmd.VerifEvent{Kind: "sig", Ts: ts, Values: []cmd.VerifValue{
				{Actor: "x", Sig: "a", IsNum: true, Num: a}, {Actor: "x", Sig: "s", IsNum: true, Num: v}}})
		}
		spans = append(spans, span{from, len(evs) - 1})
	}
	evs = append(evs, cmd.VerifEvent{Kind: "final", Ts: ts + 1.2871})
	res := cmd.VerifAuditLoop(cfg, evs, false)
	var out []periodCase
	for k, tr := range traces {
		pc := periodCase{Name: modality, Trace: tr, Panic: problem(&res, false)}
		if len(tr) == 1 {
			// a period that would open and close in the same round never opens
			pc.Trace = nil
			pc.Panic = "skip"
		}
		for _, o := range res.Outs {
			if o.Kind == "report" && o.Auditor == "al" && o.Round >= spans[k].from && o.Round <= spans[k].to {
				pc.Codes = append(pc.Codes, o.Result)
			}
		}
		out = append(out, pc)
	}
	return out
}

// runConditionalCompute: the predicate depends on a variable set by a
// conditional `computes` (a ternary without else yields nothing in the rounds
// where the condition fails: the variable keeps its value and stays usable).
// The first sample (9) sets k = 0; afterwards k is not assigned any more and
// `[x s] + k > 3` is observed with every sample.
func runConditionalCompute(modality string, tr []bool) periodCase {
	cfg := roleText + "audience\n  al audits throughout\n  al computes k as ([x s] > 8) ? 0\n  al expects " + modality + ": ([x s] + k) > 3\nend\n"
	var evs []cmd.VerifEvent
	ts := 0.5
	evs = append(evs, cmd.VerifEvent{Kind: "sig", Ts: ts, Values: []cmd.VerifValue{{Actor: "x", Sig: "s", IsNum: true, Num: 9}}})
	for _, b := range tr {
		ts += 0.5
		evs = append(evs, sample(ts, b))
	}
	evs = append(evs, cmd.VerifEvent{Kind: "final", Ts: ts + 1.2871})
	res := cmd.VerifAuditLoop(cfg, evs, false)
	obs := append([]bool{true}, tr...)
	return periodCase{Name: modality, Trace: obs, Codes: reportsOf(&res, "al"), Panic: problem(&res, false)}
}

// runTwoClauses: the auditor has two computes clauses over different signals
// and the predicate reads the later one; the events only ever sample the later
// clause's signal: the first clause has nothing to do in any round, the
// second one and the predicate are processed all the same.  A computed
// variable is observed once more in the final round.
func runTwoClauses(modality string, tr []bool) periodCase {
	cfg := "role r\n  :noop true\n  spotlight true\n  signal s scalar at (?P<ts_now>)s=(?P<scalar>\\d+)\n  signal a scalar at (?P<ts_now>)a=(?P<scalar>\\d+)\nend\ncast\n  x plays r\nend\n" +
		"audience\n  al audits throughout\n  al computes u as [x a] * 2\n  al computes v as [x s]\n  al expects " + modality + ": v > 3\nend\n"
	var evs []cmd.VerifEvent
	ts := 0.0
	for _, b := range tr {
		ts += 0.5
		evs = append(evs, sample(ts, b))
	}
	evs = append(evs, cmd.VerifEvent{Kind: "final", Ts: ts + 1.2871})
	res := cmd.VerifAuditLoop(cfg, evs, false)
	obs := append([]bool(nil), tr...)
	if len(tr) > 0 {
		obs = append(obs, tr[len(tr)-1])
	}
	return periodCase{Name: modality, Trace: obs, Codes: reportsOf(&res, "al"), Panic: problem(&res, false)}
}

type period3Case struct {
	Name  string
	Trace []int // 0 false, 1 true, 2 the predicate does not evaluate
	Codes []int
	Panic string
}

func main() {
	seed := flag.Int64("seed", 1, "")
	tier := flag.String("tier", "quick", "")
	out := flag.String("out", ".", "")
	extra := flag.String("extra", "", "JSON file: [{\"Name\":..., \"Trace\":[...]}] run first")
	flag.Parse()
	rng := vh.Rng(*seed)
	defer cmd.VerifLogScope()()
	runner = cmd.VerifNewFsmRunner()
	defer runner.Close()

	names := cmd.VerifModalities()
	maxLen := 7
	nRandom, nRaw := 40, 30
	if *tier == "thorough" {
		maxLen, nRandom, nRaw = 11, 400, 300
	}
	// the documented names are always tried, accepted or not
	documented := []string{"always", "never", "not always", "eventually", "always eventually",
		"eventually always", "once", "twice", "thrice", "at most once"}
	tryNames := append([]string(nil), names...)
	for _, d := range documented {
		found := false
		for _, n := range names {
			if n == d {
				found = true
			}
		}
		if !found {
			tryNames = append(tryNames, d)
		}
	}
	var periods []periodCase
	if *extra != "" {
		var ex []periodCase
		b, err := ioutil.ReadFile(*extra)
		if err != nil {
			panic(err)
		}
		if err := json.Unmarshal(b, &ex); err != nil {
			panic(err)
		}
		for _, e := range ex {
			periods = append(periods, runPeriod(e.Name, e.Trace))
		}
	}
	for _, n := range tryNames {
		for l := 0; l <= maxLen; l++ {
			for bits := 0; bits < 1<<uint(l); bits++ {
				tr := make([]bool, l)
				for i := range tr {
					tr[i] = bits&(1<<uint(i)) != 0
				}
				periods = append(periods, runPeriod(n, tr))
			}
		}
		for i := 0; i < nRandom; i++ {
			l := maxLen + 1 + rng.Intn(200)
			p := []float64{0.5, 0.05, 0.95, 0.2}[rng.Intn(4)]
			tr := make([]bool, l)
			for j := range tr {
				tr[j] = rng.Float64() < p
			}
			periods = append(periods, runPeriod(n, tr))
		}
	}
	var raws []rawCase
	alphabet := []string{"t", "f", "end", "reset", "t", "f", "bogus"}
	for _, n := range append(tryNames, "no such modality", "") {
		for i := 0; i < nRaw; i++ {
			l := rng.Intn(12)
			ls := make([]string, l)
			for j := range ls {
				ls[j] = alphabet[rng.Intn(len(alphabet))]
				if ls[j] == "bogus" && rng.Intn(3) != 0 {
					ls[j] = "t"
				}
			}
			c, p := runner.Run(n, ls)
			raws = append(raws, rawCase{n, ls, c, p})
		}
	}

	// ---- the same property through the whole audition: checkEvent ->
	// checkEventForAuditor -> checkExpect / checkActivationPeriodEnd, with
	// several activation periods per play
	var audPeriods []periodCase
	audMax := 4
	nAudRandom := 6
	if *tier == "thorough" {
		audMax, nAudRandom = 6, 40
	}
	for _, n := range names {
		var traces [][]bool
		for l := 0; l <= audMax; l++ {
			for bits := 0; bits < 1<<uint(l); bits++ {
				tr := make([]bool, l)
				for i := range tr {
					tr[i] = bits&(1<<uint(i)) != 0
				}
				traces = append(traces, tr)
			}
		}
		for i := 0; i < nAudRandom; i++ {
			tr := make([]bool, audMax+1+rng.Intn(12))
			for j := range tr {
				tr[j] = rng.Intn(2) == 0
			}
			traces = append(traces, tr)
		}
		rng.Shuffle(len(traces), func(i, j int) { traces[i], traces[j] = traces[j], traces[i] })
		// plays of three periods each
		for i := 0; i < len(traces); i += 3 {
			var group [][]bool
			for j := i; j < i+3 && j < len(traces); j++ {
				group = append(group, traces[j])
			}
			audPeriods = append(audPeriods, runAuditionPeriods(n, group, rng.Intn(2) == 0, rng.Intn(2) == 0)...)
		}
		// one period spanning the play, possibly without any sample
		for l := 0; l <= 3; l++ {
			for bits := 0; bits < 1<<uint(l); bits++ {
				tr := make([]bool, l)
				for i := range tr {
					tr[i] = bits&(1<<uint(i)) != 0
				}
				audPeriods = append(audPeriods, runThroughout(n, tr))
				if l >= 2 {
					audPeriods = append(audPeriods, runSharedPredicate(n, tr)...)
					audPeriods = append(audPeriods, runOnlyHelps(n, tr))
				}
				if l >= 1 {
					audPeriods = append(audPeriods, runWithFailingNeighbour(n, tr))
				}
			}
		}
		// two auditors of one modality auditing side by side, three periods per play
		{
			var small [][]bool
			for l := 0; l <= 3; l++ {
				for bits := 0; bits < 1<<uint(l); bits++ {
					tr := make([]bool, l)
					for i := range tr {
						tr[i] = bits&(1<<uint(i)) != 0
					}
					small = append(small, tr)
				}
			}
			for _, step := range []int{1, 4, 7} {
				for i := 0; i < len(small); i += 3 {
					var group [][]bool
					for j := 0; j < 3; j++ {
						group = append(group, small[(i+j*step)%len(small)])
					}
					audPeriods = append(audPeriods, runTwoOfOneModality(n, group)...)
				}
			}
		}
		// samples stamped earlier than their predecessors; predicates over a variable computed by
		// the auditor, periods closed by a signal sampled in the same round; conditional computes
		for l := 2; l <= 4; l++ {
			for bits := 0; bits < 1<<uint(l); bits++ {
				tr := make([]bool, l)
				for i := range tr {
					tr[i] = bits&(1<<uint(i)) != 0
				}
				audPeriods = append(audPeriods, runLateStamps(n, tr))
				if l <= 3 {
					audPeriods = append(audPeriods, runTwoClauses(n, tr))
				}
				if l <= 3 {
					audPeriods = append(audPeriods, runConditionalCompute(n, tr))
				}
			}
		}
		{
			var small [][]bool
			for l := 2; l <= 3; l++ {
				for bits := 0; bits < 1<<uint(l); bits++ {
					tr := make([]bool, l)
					for i := range tr {
						tr[i] = bits&(1<<uint(i)) != 0
					}
					small = append(small, tr)
				}
			}
			for i := 0; i < len(small); i += 3 {
				var group [][]bool
				for j := 0; j < 3; j++ {
					group = append(group, small[(i+j*5)%len(small)])
				}
				for _, pc := range runComputedPredicate(n, group) {
					if pc.Panic != "skip" {
						audPeriods = append(audPeriods, pc)
					}
				}
			}
		}
		// predicates over moodt, periods delimited by the clear mood
		for _, k := range []float64{-1, 1, 3.5, 10} {
			for _, neg := range []bool{false, true} {
				audPeriods = append(audPeriods, runClearMoodPeriods(n, k, neg)...)
			}
		}
		// activation by a signal, with rounds that do not sample it
		for l := 2; l <= 4; l++ {
			for bits := 0; bits < 1<<uint(l); bits++ {
				tr := make([]bool, l)
				for i := range tr {
					tr[i] = bits&(1<<uint(i)) != 0
				}
				if pc := runSignalActivated(n, tr); pc.Panic != "skip" {
					audPeriods = append(audPeriods, pc)
				}
				if l <= 3 {
					audPeriods = append(audPeriods, runSignalActivatedEnd(n, tr, true))
				}
			}
		}
		// predicates over t: the last observation is made in the final round
		for a := 0; a <= 3; a++ {
			for b := 0; b <= 2; b++ {
				if a+b == 0 {
					continue
				}
				for _, neg := range []bool{false, true} {
					if pc := runTimePredicate(n, a, b, neg); pc.Panic != "skip" {
						audPeriods = append(audPeriods, pc)
					}
				}
			}
		}
	}

	// predicates that fail to evaluate in some rounds: every trace over {f, t, error} up to length 4 with at least one error
	var p3 []period3Case
	for _, n := range names {
		for l := 1; l <= 4; l++ {
			tot := 1
			for i := 0; i < l; i++ {
				tot *= 3
			}
			for code := 0; code < tot; code++ {
				tr := make([]int, l)
				x, hasErr := code, false
				for i := range tr {
					tr[i] = x % 3
					x /= 3
					hasErr = hasErr || tr[i] == 2
				}
				if hasErr && (l <= 3 || rng.Intn(3) == 0) {
					p3 = append(p3, runSometimesFailing(n, tr))
				}
			}
		}
		p3 = append(p3, runNonBoolean(n, 1), runNonBoolean(n, 3))
	}

	// a slow collector must not lose reports
	var slows []slowCase
	slowNames := []string{"always", "once"}
	if *tier == "thorough" {
		slowNames = names
	}
	slows = make([]slowCase, len(slowNames))
	var swg sync.WaitGroup
	for i, n := range slowNames {
		swg.Add(1)
		go func(i int, n string) {
			defer swg.Done()
			slows[i] = runSlowCollector(n)
		}(i, n)
	}
	swg.Wait()

	var sb strings.Builder
	var items []string
	for _, n := range names {
		items = append(items, coqStr(n))
	}
	sb.WriteString("Definition accepted_names : list string := " + vh.List(items) + ".\n")
	items = nil
	for _, c := range periods {
		var bs []string
		for _, b := range c.Trace {
			bs = append(bs, vh.Bool(b))
		}
		items = append(items, "("+coqStr(c.Name)+", "+vh.List(bs)+", "+codes(c.Codes, c.Panic)+")")
	}
	sb.WriteString("Definition period_cases : list period_case := " + vh.ListNL(items) + ".\n")
	items = nil
	for _, c := range audPeriods {
		var bs []string
		for _, b := range c.Trace {
			bs = append(bs, vh.Bool(b))
		}
		items = append(items, "("+coqStr(c.Name)+", "+vh.List(bs)+", "+codes(c.Codes, c.Panic)+")")
	}
	sb.WriteString("Definition audition_period_cases : list period_case := " + vh.ListNL(items) + ".\n")
	items = nil
	for _, c := range p3 {
		var bs []string
		for _, b := range c.Trace {
			bs = append(bs, []string{"(Some false)", "(Some true)", "None"}[b])
		}
		items = append(items, "("+coqStr(c.Name)+", "+vh.List(bs)+", "+codes(c.Codes, c.Panic)+")")
	}
	sb.WriteString("Definition period3_cases : list period3_case := " + vh.ListNL(items) + ".\n")
	items = nil
	for _, c := range raws {
		var ls []string
		for _, l := range c.Labels {
			ls = append(ls, coqStr(l))
		}
		items = append(items, "("+coqStr(c.Name)+", "+vh.List(ls)+", "+codes(c.Codes, c.Panic)+")")
	}
	sb.WriteString("Definition raw_cases : list raw_case := " + vh.ListNL(items) + ".\n")
	vh.WriteFile(*out, "cases.v", sb.String())
	vh.WriteJSON(*out, "cases.json", map[string]interface{}{"accepted": names, "period": periods, "raw": raws, "audition_period": audPeriods, "period3": p3, "slow_collector": slows})
	distinct := map[string]bool{}
	nontriv := 0
	dis := 0
	for _, c := range periods {
		k := fmt.Sprint(c.Name, c.Trace)
		if !distinct[k] {
			distinct[k] = true
			if len(c.Trace) >= 2 {
				nontriv++
			}
		}
		for _, x := range c.Codes {
			if x == 2 {
				dis++
				break
			}
		}
	}
	vh.WriteJSON(*out, "summary.json", map[string]interface{}{
		"accepted": names, "period": len(periods), "raw": len(raws), "max_exhaustive_len": maxLen,
		"audition_period": len(audPeriods), "audition_max_exhaustive_len": audMax,
		"distinct_nontrivial": nontriv, "periods_with_disappointment": dis,
		"samples": []interface{}{periods[len(periods)/3], periods[len(periods)-1], raws[len(raws)/2]},
	})
}
