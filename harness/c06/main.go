// Harness for C06: runs the real storyline / edit handling (parseScript ->
// validateStoryLine, combineStoryLines, regexp edit), the real compileV2 and
// the real printSteps on generated script sections, and the real combineActs
// on pairs of acts; writes the inputs with everything observed as Coq terms
// (cases_<shard>.v) and as JSON (cases.json, for replays).
package main

import (
	"bytes"
	"encoding/json"
	"flag"
	"fmt"
	"io/ioutil"
	"math/rand"
	"os"
	"os/exec"
	"path/filepath"
	"regexp"
	"sort"
	"strconv"
	"strings"
	"time"

	"github.com/knz/shakespeare/pkg/cmd"
	"github.com/knz/shakespeare/verifharness/vh"
)

// ---------------------------------------------------------------------------
// script description (what the generator produced, structured)

type castEntry struct {
	Name string // actor name, or prefix for a multiple entry
	Role string
	Mul  int // 0 = single
}

type clause struct {
	Kind    string   // "entails" | "mstart" | "mend" | "story" | "edit" | "tempo"
	Char    string   // scene (entails, mstart, mend)
	Every   bool     // entails: target is `every <role>`
	Target  string   // entails: actor or role
	Actions []string // entails: as written (`?` included)
	Mood    string
	Text    string // story: text after the keyword; tempo: duration
	Pat     string // edit: literal pattern
	Repl    string // edit: literal replacement
	G       bool   // edit: trailing g
	Sep     string // edit: separator character
	Line    string // the rendered clause
}

type scriptCase struct {
	Stream   string
	Cast     []castEntry
	Preamble string
	Clauses  []clause
	TempoNs  int64
	Res      cmd.VerifC06Result
	Events   []pevent
	PrintErr string
	CLI      string // "", "same", "differs: ..."
}

type pairCase struct {
	A1, A2 string
	Obs    string
	Panic  string
}

type pevent struct {
	Kind   string // act, wait, meanwhile, do, mood
	I      int64
	Story  string
	HasSt  bool
	Ns     int64
	Actor  string
	Action string
	FailOk bool
	Mood   string
}

var roleActions = map[string][]string{
	"doctor": {"cure", "sleep", "op"},
	"nurse":  {"help", "rest"},
	"idle":   {"nap"},
}
var roleOrder = []string{"doctor", "nurse", "idle"}

func preambleOf(cast []castEntry) string {
	var b strings.Builder
	for _, r := range roleOrder {
		fmt.Fprintf(&b, "role %s\n", r)
		for _, a := range roleActions[r] {
			fmt.Fprintf(&b, "  :%s true\n", a)
		}
		b.WriteString("end\n")
	}
	b.WriteString("cast\n")
	for _, e := range cast {
		if e.Mul == 0 {
			fmt.Fprintf(&b, "  %s plays %s\n", e.Name, e.Role)
		} else {
			fmt.Fprintf(&b, "  %s* play %d %ss\n", e.Name, e.Mul, e.Role)
		}
	}
	b.WriteString("end\n")
	return b.String()
}

// expanded cast: (actor, role) in cfg.actorNames order
func expandCast(cast []castEntry) [][2]string {
	var r [][2]string
	for _, e := range cast {
		if e.Mul == 0 {
			r = append(r, [2]string{e.Name, e.Role})
		} else {
			for i := 1; i <= e.Mul; i++ {
				r = append(r, [2]string{e.Name + strconv.Itoa(i), e.Role})
			}
		}
	}
	return r
}

func render(c *clause) {
	switch c.Kind {
	case "entails":
		t := c.Target
		if c.Every {
			t = "every " + c.Target
		}
		c.Line = fmt.Sprintf("scene %s entails for %s: %s", c.Char, t, strings.Join(c.Actions, "; "))
	case "mstart":
		c.Line = fmt.Sprintf("scene %s mood starts %s", c.Char, c.Mood)
	case "mend":
		c.Line = fmt.Sprintf("scene %s mood ends %s", c.Char, c.Mood)
	case "story":
		c.Line = "storyline " + c.Text
	case "tempo":
		c.Line = "tempo " + c.Text
	case "edit":
		g := ""
		if c.G {
			g = "g"
		}
		c.Line = "edit s" + c.Sep + regexp.QuoteMeta(c.Pat) + c.Sep + c.Repl + c.Sep + g
	}
}

// ---------------------------------------------------------------------------
// running a case through the real code

var errRe1 = regexp.MustCompile(`^in act (\d+): cannot use \+ at beginning of act`)
var errRe2 = regexp.MustCompile(`^in act (\d+): cannot use \+ at end of act`)
var errRe3 = regexp.MustCompile(`^in act (\d+): sequence \+\+ is invalid`)
var errRe4 = regexp.MustCompile(`^in act (\d+), scene . not defined`)

func errCode(msg string) int64 {
	for k, re := range []*regexp.Regexp{errRe1, errRe2, errRe3, errRe4} {
		if m := re.FindStringSubmatch(msg); m != nil {
			n, _ := strconv.ParseInt(m[1], 10, 64)
			return 10*n + int64(k+1)
		}
	}
	return 999
}

var pActRe = regexp.MustCompile(`^# -- ACT (\d+)(?:: (.*))? --$`)
var pLineRe = regexp.MustCompile(`^# +(\d+):  (.*)$`)
var pWaitRe = regexp.MustCompile(`^\(wait until (.*)\)$`)
var pMoodRe = regexp.MustCompile(`^\(mood: (.*)\)$`)
var pDoRe = regexp.MustCompile(`^([^:()]+): (.*)([!?])$`)

func parsePrinted(text string) ([]pevent, string) {
	var evs []pevent
	lines := strings.Split(strings.TrimSuffix(text, "\n"), "\n")
	if len(lines) < 2 || lines[0] != "# play" || lines[len(lines)-1] != "# end" {
		return nil, "missing # play / # end frame"
	}
	for _, l := range lines[1 : len(lines)-1] {
		if strings.HasPrefix(l, "# -- REPEATING") {
			continue
		}
		if m := pActRe.FindStringSubmatch(l); m != nil {
			k, _ := strconv.ParseInt(m[1], 10, 64)
			evs = append(evs, pevent{Kind: "act", I: k, Story: m[2], HasSt: strings.Contains(l, ": ")})
			continue
		}
		m := pLineRe.FindStringSubmatch(l)
		if m == nil {
			return nil, "unreadable line: " + l
		}
		i, _ := strconv.ParseInt(m[1], 10, 64)
		body := m[2]
		if body == "(meanwhile)" {
			evs = append(evs, pevent{Kind: "meanwhile", I: i})
		} else if w := pWaitRe.FindStringSubmatch(body); w != nil {
			d, err := time.ParseDuration(w[1])
			if err != nil {
				return nil, "unreadable duration: " + l
			}
			evs = append(evs, pevent{Kind: "wait", I: i, Ns: int64(d)})
		} else if w := pMoodRe.FindStringSubmatch(body); w != nil {
			evs = append(evs, pevent{Kind: "mood", I: i, Mood: w[1]})
		} else if w := pDoRe.FindStringSubmatch(body); w != nil {
			evs = append(evs, pevent{Kind: "do", I: i, Actor: w[1], Action: w[2], FailOk: w[3] == "?"})
		} else {
			return nil, "unreadable line: " + l
		}
	}
	return evs, ""
}

func runScript(sc *scriptCase) {
	sc.Preamble = preambleOf(sc.Cast)
	var lines []string
	for i := range sc.Clauses {
		render(&sc.Clauses[i])
		lines = append(lines, sc.Clauses[i].Line)
	}
	sc.Res = cmd.VerifC06Script(sc.Preamble, lines)
	if sc.Res.PreambleErr != "" {
		panic("generator produced a bad preamble: " + sc.Res.PreambleErr + "\n" + sc.Preamble)
	}
	if sc.Res.FullErr == "" && sc.Res.FullPanic == "" {
		sc.Events, sc.PrintErr = parsePrinted(sc.Res.Printed)
	}
}

func fullText(sc *scriptCase) string {
	var b strings.Builder
	b.WriteString(sc.Preamble)
	b.WriteString("script\n")
	for _, c := range sc.Clauses {
		b.WriteString("  " + c.Line + "\n")
	}
	b.WriteString("end\n")
	return b.String()
}

// runCLI runs the real binary with -n -p and compares its "# play" dump with
// what the hook's printSteps call produced.
func runCLI(bin string, sc *scriptCase, dir string) {
	f := filepath.Join(dir, "c.cfg")
	if err := ioutil.WriteFile(f, []byte(fullText(sc)), 0644); err != nil {
		panic(err)
	}
	c := exec.Command(bin, "-n", "-p", "c.cfg")
	c.Dir = dir
	var out, errb bytes.Buffer
	c.Stdout = &out
	c.Stderr = &errb
	err := c.Run()
	if _, isExit := err.(*exec.ExitError); err != nil && !isExit {
		// the binary could not be started at all (not a verdict of the CLI)
		sc.CLI = "skipped: cannot run the binary: " + err.Error()
		return
	}
	accepted := sc.Res.FullErr == "" && sc.Res.FullPanic == ""
	if !accepted {
		if err == nil {
			sc.CLI = "differs: CLI accepts what the hook refuses"
		} else {
			sc.CLI = "same"
		}
		return
	}
	if err != nil {
		sc.CLI = "differs: CLI refuses: " + errb.String()
		return
	}
	s := out.String()
	i := strings.Index(s, "# play\n")
	if i < 0 {
		sc.CLI = "differs: no # play in CLI output"
		return
	}
	if s[i:] != sc.Res.Printed {
		sc.CLI = "differs: dump differs"
		return
	}
	sc.CLI = "same"
}

// ---------------------------------------------------------------------------
// Coq printing

func coqStrList(l []string) string {
	var it []string
	for _, s := range l {
		it = append(it, vh.Str(s))
	}
	return vh.List(it)
}

// Names (actors, roles, actions, moods) come from a small vocabulary; each is
// defined once per file (`Definition w3 := [x62; x6f; x62].`) and referred to
// by its identifier: the time coqc needs is proportional to the size of the
// terms, and the names are most of it.
var vocab = map[string]string{}
var vocabOrder []string

func W(s string) string {
	if id, ok := vocab[s]; ok {
		return id
	}
	id := fmt.Sprintf("w%d", len(vocab))
	vocab[s] = id
	vocabOrder = append(vocabOrder, s)
	return id
}

func vocabDefs() string {
	var b strings.Builder
	for _, s := range vocabOrder {
		fmt.Fprintf(&b, "Definition %s : list byte := %s.\n", vocab[s], vh.Str(s))
	}
	return b.String()
}

func coqWList(l []string) string {
	var it []string
	for _, s := range l {
		it = append(it, W(s))
	}
	return vh.List(it)
}

func coqClause(c *clause) string {
	switch c.Kind {
	case "entails":
		t := "(TActor " + W(c.Target) + ")"
		if c.Every {
			t = "(TEvery " + W(c.Target) + ")"
		}
		return fmt.Sprintf("CEntails x%02x %s %s", c.Char[0], t, coqWList(c.Actions))
	case "mstart":
		return fmt.Sprintf("CMoodStart x%02x %s", c.Char[0], W(c.Mood))
	case "mend":
		return fmt.Sprintf("CMoodEnd x%02x %s", c.Char[0], W(c.Mood))
	case "story":
		return "CStoryline " + vh.Str(c.Text)
	case "edit":
		return "CEdit (lit_replace " + vh.Str(c.Pat) + " " + vh.Str(c.Repl) + ")"
	}
	panic("coqClause: " + c.Kind)
}

func coqPlay(p [][]cmd.VerifScene, nilActor [][][]bool) string {
	var acts []string
	for ai, a := range p {
		var scs []string
		for si, s := range a {
			var ls []string
			for li, l := range s.Lines {
				var sts []string
				for _, st := range l.Steps {
					sts = append(sts, fmt.Sprintf("mkStep %s %s %s", vh.Bool(st.Typ == 1), W(st.Action), vh.Bool(st.FailOk)))
				}
				ls = append(ls, fmt.Sprintf("mkLine %s %s", vh.Option(!nilActor[ai][si][li], W(l.Actor)), vh.List(sts)))
			}
			scs = append(scs, fmt.Sprintf("mkScene %s %s", vh.Z(s.WaitUntilNs), vh.List(ls)))
		}
		acts = append(acts, vh.List(scs))
	}
	return vh.List(acts)
}

func coqEvents(evs []pevent) string {
	var it []string
	for _, e := range evs {
		switch e.Kind {
		case "act":
			it = append(it, fmt.Sprintf("PAct %d %s", e.I, vh.Option(e.HasSt, vh.Str(e.Story))))
		case "wait":
			it = append(it, fmt.Sprintf("PWait %d %s", e.I, vh.Z(e.Ns)))
		case "meanwhile":
			it = append(it, fmt.Sprintf("PMeanwhile %d", e.I))
		case "do":
			it = append(it, fmt.Sprintf("PDo %d %s %s %s", e.I, W(e.Actor), W(e.Action), vh.Bool(e.FailOk)))
		case "mood":
			it = append(it, fmt.Sprintf("PMood %d %s", e.I, W(e.Mood)))
		}
	}
	return vh.List(it)
}

func coqCase(sc *scriptCase) string {
	var cast []string
	for _, e := range expandCast(sc.Cast) {
		cast = append(cast, "("+W(e[0])+", "+W(e[1])+")")
	}
	var cmds, edits, trace, lets []string
	storyId := map[string]string{}
	story := func(l []string) string {
		k := strings.Join(l, " ")
		if id, ok := storyId[k]; ok {
			return id
		}
		id := fmt.Sprintf("t%d", len(storyId))
		storyId[k] = id
		lets = append(lets, fmt.Sprintf("let %s := %s in ", id, coqStrList(l)))
		return id
	}
	for i := range sc.Clauses {
		c := &sc.Clauses[i]
		if c.Kind == "tempo" {
			continue
		}
		cmds = append(cmds, coqClause(c))
		if c.Kind == "edit" {
			edits = append(edits, "("+vh.Str(c.Pat)+", "+vh.Str(c.Repl)+")")
		}
	}
	// the trace skips tempo clauses (they never touch the storyline); a
	// refused tempo clause would be a generator bug.
	si := 0
	for i := range sc.Clauses {
		if si >= len(sc.Res.Steps) {
			break
		}
		st := sc.Res.Steps[si]
		si++
		if sc.Clauses[i].Kind == "tempo" {
			if st.Err != "" || st.Panic != "" {
				panic("tempo clause refused: " + sc.Clauses[i].Line)
			}
			continue
		}
		switch {
		case st.Panic != "":
			trace = append(trace, "Panic")
		case st.Err != "":
			trace = append(trace, fmt.Sprintf("Err %d%%N", errCode(st.Err)))
		default:
			trace = append(trace, "Ok "+story(st.StoryLine))
		}
	}
	final := "None"
	if sc.Res.FullErr == "" && sc.Res.FullPanic == "" && sc.PrintErr == "" {
		final = fmt.Sprintf("(Some (mkFinal %s %s %s))", story(sc.Res.StoryLine),
			coqPlay(sc.Res.Play, sc.Res.NilActor), coqEvents(sc.Events))
	}
	return strings.Join(lets, "") + fmt.Sprintf("mkCase %s %s %s %s %s %s", vh.List(cast), vh.Z(sc.TempoNs), vh.List(cmds), vh.List(edits), vh.List(trace), final)
}

// ---------------------------------------------------------------------------
// generators

type gen struct {
	rng *rand.Rand
}

func (g *gen) pick(l []string) string { return l[g.rng.Intn(len(l))] }
func (g *gen) chance(p float64) bool  { return g.rng.Float64() < p }

var tempos = []string{"1s", "100ms", "0s", "1m30s", "250us", "1.5s", "2h", "7ns", "3ms"}
var moods = []string{"red", "blue", "green", "clear", "dark"}

func (g *gen) cast() []castEntry {
	var c []castEntry
	n := 1 + g.rng.Intn(3)
	used := map[string]bool{}
	for len(c) < n {
		role := []string{"doctor", "nurse"}[g.rng.Intn(2)]
		var e castEntry
		if g.chance(0.5) {
			e = castEntry{Name: g.pick([]string{"bob", "alice", "carl", "dora"}), Role: role}
		} else {
			e = castEntry{Name: g.pick([]string{"d", "n", "x"}), Role: role, Mul: 1 + g.rng.Intn(3)}
		}
		if used[e.Name] {
			continue
		}
		used[e.Name] = true
		c = append(c, e)
	}
	return c
}

func (g *gen) actions(role string, allowEmpty bool) []string {
	n := 1 + g.rng.Intn(3)
	if allowEmpty && g.chance(0.08) {
		n = 0
	}
	var a []string
	for i := 0; i < n; i++ {
		x := g.pick(roleActions[role])
		if g.chance(0.35) {
			x += "?"
		}
		a = append(a, x)
	}
	return a
}

// one definition clause for scene ch; defining = must make the scene defined
func (g *gen) sceneDef(ch string, cast []castEntry, defining bool) clause {
	ex := expandCast(cast)
	for {
		switch g.rng.Intn(10) {
		case 0, 1:
			return clause{Kind: "mstart", Char: ch, Mood: g.pick(moods)}
		case 2, 3:
			return clause{Kind: "mend", Char: ch, Mood: g.pick(moods)}
		case 4, 5, 6:
			a := ex[g.rng.Intn(len(ex))]
			return clause{Kind: "entails", Char: ch, Target: a[0], Actions: g.actions(a[1], true)}
		default:
			role := g.pick([]string{"doctor", "nurse", "doctor", "nurse", "idle"})
			has := false
			for _, a := range ex {
				if a[1] == role {
					has = true
				}
			}
			if !has && (defining || !g.chance(0.3)) {
				continue
			}
			return clause{Kind: "entails", Char: ch, Every: true, Target: role, Actions: g.actions(role, true)}
		}
	}
}

// a random act over the given scene characters
func (g *gen) act(scenes string, maxCols int, us bool) string {
	var b strings.Builder
	n := 1 + g.rng.Intn(maxCols)
	for k := 0; k < n; k++ {
		m := 1
		if g.chance(0.3) {
			m = 2 + g.rng.Intn(2)
		}
		for j := 0; j < m; j++ {
			if j > 0 {
				b.WriteByte('+')
				if us && g.chance(0.05) {
					b.WriteByte('_')
				}
			}
			if g.chance(0.25) {
				b.WriteByte('.')
			} else {
				b.WriteByte(scenes[g.rng.Intn(len(scenes))])
			}
		}
		if us && g.chance(0.15) {
			b.WriteByte('_')
		}
	}
	return b.String()
}

func (g *gen) storyText(scenes string, maxActs, maxCols int) string {
	n := 1 + g.rng.Intn(maxActs)
	var b strings.Builder
	for i := 0; i < n; i++ {
		if i > 0 {
			b.WriteString(strings.Repeat(" ", 1+g.rng.Intn(2)))
			if g.chance(0.1) {
				b.WriteString("_ ")
			}
		}
		b.WriteString(g.act(scenes, maxCols, true))
	}
	return b.String()
}

// break a valid clause text
func (g *gen) spoil(t string, scenes string) string {
	pos := g.rng.Intn(len(t) + 1)
	ins := g.pick([]string{"+", "++", "z", "+", " +", "+ "})
	return strings.TrimSpace(t[:pos] + ins + t[pos:])
}

const sceneAlphabet = "abcdef12"

func (g *gen) randomScript(stream string) *scriptCase {
	sc := &scriptCase{Stream: stream, Cast: g.cast(), TempoNs: int64(time.Second)}
	nsc := 1 + g.rng.Intn(5)
	perm := g.rng.Perm(len(sceneAlphabet))
	scenes := ""
	for i := 0; i < nsc; i++ {
		scenes += string(sceneAlphabet[perm[i]])
	}
	var cl []clause
	for i := 0; i < len(scenes); i++ {
		cl = append(cl, g.sceneDef(scenes[i:i+1], sc.Cast, true))
		for g.chance(0.55) {
			cl = append(cl, g.sceneDef(scenes[i:i+1], sc.Cast, false))
		}
	}
	// shuffle the definitions (all come before the first storyline)
	for i := len(cl) - 1; i > 0; i-- {
		j := g.rng.Intn(i + 1)
		cl[i], cl[j] = cl[j], cl[i]
	}
	// make sure every scene is defined by the shuffled order regardless of
	// role-less entails: the defining clause exists somewhere before the story.
	nst := 1 + g.rng.Intn(4)
	maxActs, maxCols := 1+g.rng.Intn(4), 1+g.rng.Intn(10)
	for i := 0; i < nst; i++ {
		t := g.storyText(scenes, maxActs, maxCols)
		if g.chance(0.04) {
			t = g.spoil(t, scenes)
		}
		if g.chance(0.02) {
			t = strings.Replace(t, " ", " \t", 1)
		}
		cl = append(cl, clause{Kind: "story", Text: t})
		if g.chance(0.2) {
			cl = append(cl, g.sceneDef(scenes[g.rng.Intn(len(scenes)):][:1], sc.Cast, false))
		}
		if g.chance(0.25) {
			cl = append(cl, g.edit(scenes))
		}
	}
	if g.chance(0.8) {
		t := g.pick(tempos)
		d, _ := time.ParseDuration(t)
		sc.TempoNs = int64(d)
		pos := g.rng.Intn(len(cl) + 1)
		cl = append(cl[:pos], append([]clause{{Kind: "tempo", Text: t}}, cl[pos:]...)...)
	}
	sc.Clauses = cl
	runScript(sc)
	return sc
}

func (g *gen) edit(scenes string) clause {
	palpha := scenes + scenes + ".+ "
	n := 1 + g.rng.Intn(2)
	var p, r strings.Builder
	for i := 0; i < n; i++ {
		p.WriteByte(palpha[g.rng.Intn(len(palpha))])
	}
	ralpha := scenes + scenes + scenes + ".+_ "
	m := g.rng.Intn(4)
	for i := 0; i < m; i++ {
		r.WriteByte(ralpha[g.rng.Intn(len(ralpha))])
	}
	pat := p.String()
	if strings.TrimSpace(pat) == "" && g.chance(0.7) {
		pat = scenes[:1]
	}
	return clause{Kind: "edit", Pat: pat, Repl: r.String(), G: g.chance(0.3), Sep: g.pick([]string{"/", "/", "/", ",", "|"})}
}

// fixed definitions for the small-shape streams: a and b with entails for a
// single actor and for every member of a two-actor role, several entails per
// scene, an entail without actions, mood starts and ends.
func smallDefs() ([]castEntry, []clause) {
	cast := []castEntry{{Name: "bob", Role: "doctor"}, {Name: "n", Role: "nurse", Mul: 2}}
	cl := []clause{
		{Kind: "entails", Char: "a", Target: "bob", Actions: []string{"cure", "sleep?"}},
		{Kind: "mstart", Char: "a", Mood: "blue"},
		{Kind: "entails", Char: "b", Every: true, Target: "nurse", Actions: []string{"help"}},
		{Kind: "entails", Char: "b", Target: "bob", Actions: []string{"op?"}},
		{Kind: "entails", Char: "b", Target: "n1", Actions: nil},
		{Kind: "mend", Char: "b", Mood: "red"},
		{Kind: "mstart", Char: "b", Mood: "green"},
	}
	return cast, cl
}

func allStrings(alpha string, maxLen int) []string {
	res := []string{""}
	last := []string{""}
	for l := 1; l <= maxLen; l++ {
		var next []string
		for _, s := range last {
			for i := 0; i < len(alpha); i++ {
				next = append(next, s+string(alpha[i]))
			}
		}
		res = append(res, next...)
		last = next
	}
	return res
}

func smallScript(stream string, texts []string, edits []clause, tempo string) *scriptCase {
	cast, cl := smallDefs()
	d, _ := time.ParseDuration(tempo)
	sc := &scriptCase{Stream: stream, Cast: cast, TempoNs: int64(d)}
	cl = append(cl, clause{Kind: "tempo", Text: tempo})
	for _, t := range texts {
		cl = append(cl, clause{Kind: "story", Text: t})
	}
	cl = append(cl, edits...)
	sc.Clauses = cl
	runScript(sc)
	return sc
}

func validAct(a string) bool {
	if a == "" || a[0] == '+' || a[len(a)-1] == '+' || strings.Contains(a, "++") {
		return false
	}
	return true
}

func doPair(a1, a2 string) pairCase {
	r, p := cmd.VerifC06CombineActs(a1, a2)
	return pairCase{a1, a2, r, p}
}

// jcase is a script case in cases.json / in a replay file: Cast, Clauses and
// TempoNs are enough to run it again.
type jcase struct {
	Stream   string
	Cast     []castEntry
	Clauses  []clause
	Text     string
	TempoNs  int64
	FullErr  string
	Panic    string
	Story    []string
	PrintErr string
}

// replay runs the single case of a replay file again and writes it as
// cases_0.v / pairs.v.
func replay(file, out string) {
	data, err := ioutil.ReadFile(file)
	if err != nil {
		panic(err)
	}
	var r struct {
		Input     *jcase
		PairInput *pairCase
	}
	if err := json.Unmarshal(data, &r); err != nil {
		panic(err)
	}
	pairs := "[]"
	var names []string
	var sb strings.Builder
	if r.PairInput != nil {
		c := doPair(r.PairInput.A1, r.PairInput.A2)
		pairs = vh.List([]string{fmt.Sprintf("(%s, %s, %s)", vh.Str(c.A1), vh.Str(c.A2), vh.Option(c.Panic == "", vh.Str(c.Obs)))})
		fmt.Printf("combineActs(%q, %q) = %q %s\n", c.A1, c.A2, c.Obs, c.Panic)
	}
	if r.Input != nil {
		sc := &scriptCase{Stream: "replay", Cast: r.Input.Cast, Clauses: r.Input.Clauses, TempoNs: r.Input.TempoNs}
		runScript(sc)
		fmt.Printf("%s\nerror: %q panic: %q\nstoryline: %q\n%s", fullText(sc), sc.Res.FullErr, sc.Res.FullPanic, sc.Res.StoryLine, sc.Res.Printed)
		body := coqCase(sc)
		fmt.Fprintf(&sb, "Definition c0 : c06_case := %s.\n", body)
		names = append(names, "c0")
	}
	sb.WriteString("Definition script_cases : list c06_case := " + vh.List(names) + ".\n")
	vh.WriteFile(out, "cases_0.v", vocabDefs()+sb.String())
	vh.WriteFile(out, "pairs_0.v", "Definition pair_cases : list pair_case := "+pairs+".\n")
}

// ---------------------------------------------------------------------------

func main() {
	seed := flag.Int64("seed", 1, "")
	tier := flag.String("tier", "quick", "")
	out := flag.String("out", ".", "")
	bin := flag.String("bin", "", "the real shakespeare binary (for the -n -p cross-check)")
	shardSize := flag.Int("shard", 320, "script cases per cases_<i>.v")
	replayFile := flag.String("replay", "", "run the case of this replay file only")
	flag.Parse()
	if *replayFile != "" {
		replay(*replayFile, *out)
		return
	}
	// parseScript prints "warning: there is no actor playing role ..." to
	// os.Stderr for the role-without-actors clauses the generator produces.
	if dn, err := os.OpenFile(os.DevNull, os.O_WRONLY, 0); err == nil {
		os.Stderr = dn
	}
	rng := vh.Rng(*seed)
	g := &gen{rng: rng}
	thorough := *tier == "thorough"

	// ---- pair cases: real combineActs on pairs of valid acts
	var pairs []pairCase
	smallActs := []string{}
	for _, s := range allStrings("ab.+", 4) {
		if validAct(s) {
			smallActs = append(smallActs, s)
		}
	}
	pairsExhaustive := false
	if thorough {
		pairsExhaustive = true
		for _, a1 := range smallActs {
			for _, a2 := range smallActs {
				pairs = append(pairs, doPair(a1, a2))
			}
		}
	} else {
		for i := 0; i < 1500; i++ {
			pairs = append(pairs, doPair(smallActs[rng.Intn(len(smallActs))], smallActs[rng.Intn(len(smallActs))]))
		}
	}
	nrp := 800
	if thorough {
		nrp = 20000
	}
	for i := 0; i < nrp; i++ {
		pairs = append(pairs, doPair(g.act("abcdef", 1+rng.Intn(10), false), g.act("abcdef", 1+rng.Intn(10), false)))
	}
	for _, a := range []string{"", "a", ".", "a+b"} { // the empty act (never produced by the parser; TestCombine has it)
		pairs = append(pairs, doPair("", a), doPair(a, ""))
	}

	// ---- script cases
	var scripts []*scriptCase
	// (1) single clauses, every text up to 6 bytes over {a,b,.,+,_,' '} that the
	//     reader passes on unchanged (no leading/trailing space, not empty)
	var clauseTexts []string
	for _, s := range allStrings("ab.+_ ", 6) {
		if s == "" || s[0] == ' ' || s[len(s)-1] == ' ' {
			continue
		}
		clauseTexts = append(clauseTexts, s)
	}
	singleExhaustive := false
	if thorough {
		singleExhaustive = true
		for _, t := range clauseTexts {
			scripts = append(scripts, smallScript("single-clause", []string{t}, nil, "1s"))
		}
	} else {
		for i := 0; i < 700; i++ {
			scripts = append(scripts, smallScript("single-clause", []string{clauseTexts[rng.Intn(len(clauseTexts))]}, nil, g.pick(tempos)))
		}
	}
	// (2) two or three clauses of up to two acts of up to 5 bytes over {a,b,.,+,_}
	var acts5 []string
	for _, s := range allStrings("ab.+_", 5) {
		if s != "" {
			acts5 = append(acts5, s)
		}
	}
	var acts3valid []string
	for _, s := range allStrings("ab.+_", 3) {
		if t := strings.Replace(s, "_", "", -1); validAct(t) {
			acts3valid = append(acts3valid, s)
		}
	}
	twoExhaustive := false
	if thorough {
		twoExhaustive = true
		// every pair of single-act clauses with valid acts of up to 3 bytes
		for _, a := range acts3valid {
			for _, b := range acts3valid {
				scripts = append(scripts, smallScript("two-clauses-exhaustive", []string{a, b}, nil, "100ms"))
			}
		}
	}
	nsmall := 1100
	if thorough {
		nsmall = 40000
	}
	pickAct := func() string {
		for {
			a := acts5[rng.Intn(len(acts5))]
			if validAct(strings.Replace(a, "_", "", -1)) || g.chance(0.03) {
				return a
			}
		}
	}
	for i := 0; i < nsmall; i++ {
		ncl := 2 + rng.Intn(2)
		var texts []string
		for j := 0; j < ncl; j++ {
			t := pickAct()
			if g.chance(0.5) {
				t += " " + pickAct()
			}
			texts = append(texts, t)
		}
		var edits []clause
		if g.chance(0.25) {
			edits = append(edits, g.edit("ab"))
		}
		scripts = append(scripts, smallScript("small-shapes", texts, edits, g.pick(tempos)))
	}
	// (3) random larger scripts
	nrand := 700
	if thorough {
		nrand = 30000
	}
	for i := 0; i < nrand; i++ {
		scripts = append(scripts, g.randomScript("random"))
	}

	// ---- CLI cross-check on a sample
	ncli, cliDiff := 0, []string{}
	if *bin != "" {
		dir, err := ioutil.TempDir("", "shk-c06-cli")
		if err != nil {
			panic(err)
		}
		want := 40
		if thorough {
			want = 400
		}
		for k := 0; k < want; k++ {
			sc := scripts[rng.Intn(len(scripts))]
			if sc.CLI != "" {
				continue
			}
			runCLI(*bin, sc, dir)
			ncli++
			if sc.CLI != "same" && !strings.HasPrefix(sc.CLI, "skipped:") {
				cliDiff = append(cliDiff, sc.CLI+"\n"+fullText(sc))
			}
		}
		os.RemoveAll(dir)
	}

	// ---- write
	var items []string
	for _, c := range pairs {
		items = append(items, fmt.Sprintf("(%s, %s, %s)", vh.Str(c.A1), vh.Str(c.A2), vh.Option(c.Panic == "", vh.Str(c.Obs))))
	}
	const pairShard = 4000 // a longer list literal overflows coqc's stack
	npairShards := 0
	for lo := 0; lo < len(items); lo += pairShard {
		hi := lo + pairShard
		if hi > len(items) {
			hi = len(items)
		}
		vh.WriteFile(*out, fmt.Sprintf("pairs_%d.v", npairShards), "Definition pair_cases : list pair_case := "+vh.ListNL(items[lo:hi])+".\n")
		npairShards++
	}
	nshards := 0
	var shardTexts []string
	for lo := 0; lo < len(scripts); lo += *shardSize {
		hi := lo + *shardSize
		if hi > len(scripts) {
			hi = len(scripts)
		}
		var sb strings.Builder
		var names []string
		for i, sc := range scripts[lo:hi] {
			n := fmt.Sprintf("c%d", i)
			names = append(names, n)
			fmt.Fprintf(&sb, "Definition %s : c06_case := %s.\n", n, coqCase(sc))
		}
		sb.WriteString("Definition script_cases : list c06_case := " + vh.List(names) + ".\n")
		shardTexts = append(shardTexts, sb.String())
		nshards++
	}
	for i, t := range shardTexts {
		vh.WriteFile(*out, fmt.Sprintf("cases_%d.v", i), vocabDefs()+t)
	}

	var js []jcase
	for _, sc := range scripts {
		js = append(js, jcase{sc.Stream, sc.Cast, sc.Clauses, fullText(sc), sc.TempoNs, sc.Res.FullErr, sc.Res.FullPanic,
			sc.Res.StoryLine, sc.PrintErr})
	}
	vh.WriteJSON(*out, "cases.json", map[string]interface{}{"pairs": pairs, "scripts": js, "shard": *shardSize, "pair_shard": pairShard})

	// ---- summary
	streams := map[string]int{}
	nontriv := map[string]bool{}
	accepted, refused, withEdit, withMood, withPlus, panics, printErrs := 0, 0, 0, 0, 0, 0, 0
	maxCols, maxActs := 0, 0
	for _, sc := range scripts {
		streams[sc.Stream]++
		if sc.Res.FullPanic != "" {
			panics++
		}
		for _, st := range sc.Res.Steps {
			if st.Panic != "" {
				panics++
			}
		}
		if sc.PrintErr != "" {
			printErrs++
		}
		if sc.Res.FullErr != "" || sc.Res.FullPanic != "" {
			refused++
			continue
		}
		accepted++
		nStory, hasEdit := 0, false
		for _, c := range sc.Clauses {
			if c.Kind == "story" {
				nStory++
			}
			if c.Kind == "edit" {
				hasEdit = true
			}
		}
		if hasEdit {
			withEdit++
		}
		plus, mood := false, strings.Contains(sc.Res.Printed, "(mood: ")
		for _, a := range sc.Res.StoryLine {
			if strings.Contains(a, "+") {
				plus = true
			}
			if len(a) > maxCols {
				maxCols = len(a)
			}
		}
		if len(sc.Res.StoryLine) > maxActs {
			maxActs = len(sc.Res.StoryLine)
		}
		if plus {
			withPlus++
		}
		if mood {
			withMood++
		}
		if (nStory >= 2 || hasEdit) && (plus || mood) {
			nontriv[fullText(sc)] = true
		}
	}
	for _, p := range pairs {
		if p.Panic != "" {
			panics++
		}
		if len(p.A1) >= 2 && len(p.A2) >= 2 {
			nontriv["p"+p.A1+"/"+p.A2] = true
		}
	}
	var samples []interface{}
	for _, i := range []int{0, len(scripts) / 2, len(scripts) - 1} {
		sc := scripts[i]
		samples = append(samples, map[string]interface{}{"stream": sc.Stream, "script": fullText(sc), "storyline": sc.Res.StoryLine, "printed": sc.Res.Printed, "err": sc.Res.FullErr})
	}
	samples = append(samples, pairs[0], pairs[len(pairs)-1])
	var sn []string
	for k := range streams {
		sn = append(sn, k)
	}
	sort.Strings(sn)
	vh.WriteJSON(*out, "summary.json", map[string]interface{}{
		"pairs": len(pairs), "scripts": len(scripts), "shards": nshards, "pair_shards": npairShards,
		"streams": streams, "accepted": accepted, "refused": refused,
		"with_edit": withEdit, "with_mood": withMood, "with_plus_group": withPlus,
		"max_act_bytes": maxCols, "max_acts": maxActs,
		"panics": panics, "print_parse_errors": printErrs,
		"pairs_exhaustive_len4": pairsExhaustive, "single_clause_exhaustive_len6": singleExhaustive,
		"two_clauses_exhaustive_len3": twoExhaustive,
		"small_valid_acts_len4": len(smallActs),
		"cli_checked": ncli, "cli_differs": cliDiff,
		"distinct_nontrivial": len(nontriv),
		"samples": samples,
	})
}
