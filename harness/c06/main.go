// Harness for C06: runs the real storyline / edit handling (parseScript ->
// validateStoryLine, combineStoryLines, regexp edit), the real compileV2 and
// the real printSteps on generated script sections, and the real combineActs
// on pairs of acts; writes the inputs with everything observed as Coq terms
// (cases_<shard>.v) and as JSON (cases.json, for replays).
package main

import (
	"bytes"
	"encoding/json"
	"flag"
	"fmt"
	"io/ioutil"
	"math/rand"
	"os"
	"os/exec"
	"path/filepath"
	"regexp"
	"sort"
	"strconv"
	"strings"
	"time"

	"github.com/knz/shakespeare/pkg/cmd"
	"github.com/knz/shakespeare/verifharness/vh"
)

// ---------------------------------------------------------------------------
// script description (what the generator produced, structured)

type castEntry struct {
	Name string // actor name, or prefix for a multiple entry
	Role string
	Mul  int // 0 = single
}

type clause struct {
	Kind    string   // "entails" | "mstart" | "mend" | "story" | "edit" (literal pattern) | "redit" (regular expression, result supplied) | "pedit" (regular expression with its Coq twin) | "tempo"
	Char    string   // scene (entails, mstart, mend)
	Every   bool     // entails: target is `every <role>`
	Target  string   // entails: actor or role
	Actions []string // entails: as written (`?` included)
	Mood    string
	Text    string // story: text after the keyword; tempo: duration
	Pat     string // edit: literal pattern
	Repl    string // edit: literal replacement
	G       bool   // edit: trailing g
	Sep     string // edit: separator character
	Result  string // redit: regexp.ReplaceAllString(joined previous storyline), computed by the harness
	Ast     string // pedit: the pattern Pat written again as a term of Model/Regex.v
	Hire    []castEntry // cast: a further cast section between script sections
	Line    string // the rendered clause
}

type scriptCase struct {
	Stream   string
	Cast     []castEntry
	Preamble string
	Clauses  []clause
	TempoNs  int64
	Res      cmd.VerifC06Result
	CLI      string // "", "same", "differs: ..."
}

type pairCase struct {
	A1, A2 string
	Obs    string
	Panic  string
}

var roleActions = map[string][]string{
	"doctor": {"cure", "sleep", "op"},
	"nurse":  {"help", "rest"},
	"idle":   {"nap"},
}
var roleOrder = []string{"doctor", "nurse", "idle"}

func preambleOf(cast []castEntry) string {
	var b strings.Builder
	for _, r := range roleOrder {
		fmt.Fprintf(&b, "role %s\n", r)
		for _, a := range roleActions[r] {
			fmt.Fprintf(&b, "  :%s true\n", a)
		}
		b.WriteString("end\n")
	}
	b.WriteString("cast\n")
	for _, e := range cast {
		if e.Mul == 0 {
			fmt.Fprintf(&b, "  %s plays %s\n", e.Name, e.Role)
		} else {
			fmt.Fprintf(&b, "  %s* play %d %ss\n", e.Name, e.Mul, e.Role)
		}
	}
	b.WriteString("end\n")
	return b.String()
}

// expanded cast: (actor, role) in cfg.actorNames order
func expandCast(cast []castEntry) [][2]string {
	var r [][2]string
	for _, e := range cast {
		if e.Mul == 0 {
			r = append(r, [2]string{e.Name, e.Role})
		} else {
			for i := 1; i <= e.Mul; i++ {
				r = append(r, [2]string{e.Name + strconv.Itoa(i), e.Role})
			}
		}
	}
	return r
}

func render(c *clause) {
	switch c.Kind {
	case "entails":
		t := c.Target
		if c.Every {
			t = "every " + c.Target
		}
		c.Line = fmt.Sprintf("scene %s entails for %s: %s", c.Char, t, strings.Join(c.Actions, "; "))
	case "mstart":
		c.Line = fmt.Sprintf("scene %s mood starts %s", c.Char, c.Mood)
	case "mend":
		c.Line = fmt.Sprintf("scene %s mood ends %s", c.Char, c.Mood)
	case "story":
		c.Line = "storyline " + c.Text
	case "tempo":
		c.Line = "tempo " + c.Text
	case "edit":
		g := ""
		if c.G {
			g = "g"
		}
		c.Line = "edit s" + c.Sep + regexp.QuoteMeta(c.Pat) + c.Sep + c.Repl + c.Sep + g
	case "redit", "pedit":
		c.Line = "edit s/" + c.Pat + "/" + c.Repl + "/"
	case "cast":
		var ls []string
		for _, e := range c.Hire {
			if e.Mul == 0 {
				ls = append(ls, fmt.Sprintf("%s plays %s", e.Name, e.Role))
			} else {
				ls = append(ls, fmt.Sprintf("%s* play %d %ss", e.Name, e.Mul, e.Role))
			}
		}
		c.Line = strings.Join(ls, "\n")
	}
}

// ---------------------------------------------------------------------------
// running a case through the real code

var errRe1 = regexp.MustCompile(`^in act (\d+): cannot use \+ at beginning of act`)
var errRe2 = regexp.MustCompile(`^in act (\d+): cannot use \+ at end of act`)
var errRe3 = regexp.MustCompile(`^in act (\d+): sequence \+\+ is invalid`)
var errRe4 = regexp.MustCompile(`(?s)^in act (\d+), scene . not defined`)

func errCode(msg string) int64 {
	for k, re := range []*regexp.Regexp{errRe1, errRe2, errRe3, errRe4} {
		if m := re.FindStringSubmatch(msg); m != nil {
			n, _ := strconv.ParseInt(m[1], 10, 64)
			return 10*n + int64(k+1)
		}
	}
	return 999
}

func runScript(sc *scriptCase) {
	sc.Preamble = preambleOf(sc.Cast)
	var lines []string
	var isCast []bool
	for i := range sc.Clauses {
		render(&sc.Clauses[i])
		lines = append(lines, sc.Clauses[i].Line)
		isCast = append(isCast, sc.Clauses[i].Kind == "cast")
	}
	sc.Res = cmd.VerifC06Sections(sc.Preamble, lines, isCast, fullText(sc))
	if sc.Res.PreambleErr != "" {
		panic("generator produced a bad preamble: " + sc.Res.PreambleErr + "\n" + sc.Preamble)
	}
	// regular-expression edits: Go's regexp is not modelled; the substituted
	// text is computed here, from the storyline the hook reported before the
	// clause, and handed to the model and the oracle.
	for i := range sc.Clauses {
		if sc.Clauses[i].Kind != "redit" {
			continue
		}
		var prev []string
		if i > 0 && i-1 < len(sc.Res.Steps) {
			prev = sc.Res.Steps[i-1].StoryLine
		}
		sc.Clauses[i].Result = regexp.MustCompile(sc.Clauses[i].Pat).ReplaceAllString(strings.Join(prev, " "), sc.Clauses[i].Repl)
	}
}

func fullText(sc *scriptCase) string {
	var b strings.Builder
	b.WriteString(sc.Preamble)
	// a "cast" clause closes the script section, is a cast section of its
	// own, and a new script section follows
	b.WriteString("script\n")
	for _, c := range sc.Clauses {
		if c.Kind == "cast" {
			b.WriteString("end\ncast\n")
			for _, l := range strings.Split(c.Line, "\n") {
				b.WriteString("  " + l + "\n")
			}
			b.WriteString("end\nscript\n")
			continue
		}
		// a clause that holds newlines is written over several lines with the
		// reader's backslash continuation (which leaves the newline in place)
		b.WriteString("  " + strings.Replace(c.Line, "\n", "\\\n", -1) + "\n")
	}
	b.WriteString("end\n")
	return b.String()
}

// runCLI runs the real binary with -n -p and compares its "# play" dump with
// what the hook's printSteps call produced.
func runCLI(bin string, sc *scriptCase, dir string) {
	f := filepath.Join(dir, "c.cfg")
	if err := ioutil.WriteFile(f, []byte(fullText(sc)), 0644); err != nil {
		panic(err)
	}
	c := exec.Command(bin, "-n", "-p", "c.cfg")
	c.Dir = dir
	var out, errb bytes.Buffer
	c.Stdout = &out
	c.Stderr = &errb
	err := c.Run()
	if _, isExit := err.(*exec.ExitError); err != nil && !isExit {
		// the binary could not be started at all (not a verdict of the CLI)
		sc.CLI = "skipped: cannot run the binary: " + err.Error()
		return
	}
	accepted := sc.Res.FullErr == "" && sc.Res.FullPanic == ""
	if !accepted {
		if err == nil {
			sc.CLI = "differs: CLI accepts what the hook refuses"
		} else {
			sc.CLI = "same"
		}
		return
	}
	if err != nil {
		sc.CLI = "differs: CLI refuses: " + errb.String()
		return
	}
	s := out.String()
	i := strings.Index(s, "# play\n")
	if i < 0 {
		sc.CLI = "differs: no # play in CLI output"
		return
	}
	if s[i:] != sc.Res.Printed {
		sc.CLI = "differs: dump differs"
		return
	}
	sc.CLI = "same"
}

// ---------------------------------------------------------------------------
// Coq printing

func coqStrList(l []string) string {
	var it []string
	for _, s := range l {
		it = append(it, vh.Str(s))
	}
	return vh.List(it)
}

// Names (actors, roles, actions, moods) come from a small vocabulary; each is
// defined once per file (`Definition w3 := [x62; x6f; x62].`) and referred to
// by its identifier: the time coqc needs is proportional to the size of the
// terms, and the names are most of it.
var vocab = map[string]string{}
var vocabOrder []string

func W(s string) string {
	if id, ok := vocab[s]; ok {
		return id
	}
	id := fmt.Sprintf("w%d", len(vocab))
	vocab[s] = id
	vocabOrder = append(vocabOrder, s)
	return id
}

// The printed dump is carried line by line through the same kind of
// dictionary (pure compression: join_lines of the listed lines is the text,
// byte for byte; checked here before writing).
var lineVocab = map[string]string{}
var lineOrder []string

func coqText(text string) string {
	if text == "" {
		return "[]"
	}
	if !strings.HasSuffix(text, "\n") {
		return vh.Str(text) // not a sequence of full lines: carried verbatim
	}
	lines := strings.Split(strings.TrimSuffix(text, "\n"), "\n")
	var ids []string
	var re strings.Builder
	for _, l := range lines {
		id, ok := lineVocab[l]
		if !ok {
			id = fmt.Sprintf("ln%d", len(lineVocab))
			lineVocab[l] = id
			lineOrder = append(lineOrder, l)
		}
		ids = append(ids, id)
		re.WriteString(l + "\n")
	}
	if re.String() != text {
		panic("coqText: lines do not reassemble to the text")
	}
	return "(join_lines " + vh.List(ids) + ")"
}

// lineDefs returns the definitions of the lines met since the last call and
// starts a new dictionary (one per cases file).
func lineDefs() string {
	var b strings.Builder
	for _, s := range lineOrder {
		fmt.Fprintf(&b, "Definition %s : list byte := %s.\n", lineVocab[s], vh.Str(s))
	}
	lineVocab = map[string]string{}
	lineOrder = nil
	return b.String()
}

func vocabDefs() string {
	var b strings.Builder
	for _, s := range vocabOrder {
		fmt.Fprintf(&b, "Definition %s : list byte := %s.\n", vocab[s], vh.Str(s))
	}
	return b.String()
}

func coqWList(l []string) string {
	var it []string
	for _, s := range l {
		it = append(it, W(s))
	}
	return vh.List(it)
}

func coqClause(c *clause) string {
	switch c.Kind {
	case "entails":
		t := "(TActor " + W(c.Target) + ")"
		if c.Every {
			t = "(TEvery " + W(c.Target) + ")"
		}
		return fmt.Sprintf("CEntails x%02x %s %s", c.Char[0], t, coqWList(c.Actions))
	case "cast":
		var it []string
		for _, e := range expandCast(c.Hire) {
			it = append(it, "("+W(e[0])+", "+W(e[1])+")")
		}
		return "CCast " + vh.List(it)
	case "mstart":
		return fmt.Sprintf("CMoodStart x%02x %s", c.Char[0], W(c.Mood))
	case "mend":
		return fmt.Sprintf("CMoodEnd x%02x %s", c.Char[0], W(c.Mood))
	case "story":
		return "CStoryline " + vh.Str(c.Text)
	case "edit":
		return "CEdit (lit_replace " + vh.Str(c.Pat) + " " + vh.Str(c.Repl) + ")"
	case "redit":
		return "CEdit (fun _ => " + vh.Str(c.Result) + ")"
	case "pedit":
		return "CEdit (re_replace " + c.Ast + " " + vh.Str(c.Repl) + ")"
	}
	panic("coqClause: " + c.Kind)
}

func coqPlay(p [][]cmd.VerifScene, nilActor [][][]bool) string {
	var acts []string
	for ai, a := range p {
		var scs []string
		for si, s := range a {
			var ls []string
			for li, l := range s.Lines {
				var sts []string
				for _, st := range l.Steps {
					sts = append(sts, fmt.Sprintf("mkStep %s %s %s", vh.Bool(st.Typ == 1), W(st.Action), vh.Bool(st.FailOk)))
				}
				ls = append(ls, fmt.Sprintf("mkLine %s %s", vh.Option(!nilActor[ai][si][li], W(l.Actor)), vh.List(sts)))
			}
			scs = append(scs, fmt.Sprintf("mkScene %s %s", vh.Z(s.WaitUntilNs), vh.List(ls)))
		}
		acts = append(acts, vh.List(scs))
	}
	return vh.List(acts)
}

func coqCase(sc *scriptCase) string {
	var cast []string
	for _, e := range expandCast(sc.Cast) {
		cast = append(cast, "("+W(e[0])+", "+W(e[1])+")")
	}
	var cmds, edits, trace, lets []string
	storyId := map[string]string{}
	story := func(l []string) string {
		k := strings.Join(l, " ")
		if id, ok := storyId[k]; ok {
			return id
		}
		id := fmt.Sprintf("t%d", len(storyId))
		storyId[k] = id
		lets = append(lets, fmt.Sprintf("let %s := %s in ", id, coqStrList(l)))
		return id
	}
	for i := range sc.Clauses {
		c := &sc.Clauses[i]
		if c.Kind == "tempo" {
			continue
		}
		cmds = append(cmds, coqClause(c))
		if c.Kind == "edit" {
			edits = append(edits, "ELit "+vh.Str(c.Pat)+" "+vh.Str(c.Repl))
		}
		if c.Kind == "redit" {
			edits = append(edits, "EText "+vh.Str(c.Result))
		}
		if c.Kind == "pedit" {
			edits = append(edits, "ERe "+c.Ast+" "+vh.Str(c.Repl))
		}
	}
	// the trace skips tempo clauses (they never touch the storyline); a
	// refused tempo clause would be a generator bug.
	si := 0
	for i := range sc.Clauses {
		if si >= len(sc.Res.Steps) {
			break
		}
		st := sc.Res.Steps[si]
		si++
		if sc.Clauses[i].Kind == "tempo" {
			if st.Err != "" || st.Panic != "" {
				panic("tempo clause refused: " + sc.Clauses[i].Line)
			}
			continue
		}
		switch {
		case st.Panic != "":
			trace = append(trace, "Panic")
		case st.Err != "":
			trace = append(trace, fmt.Sprintf("Err %d%%N", errCode(st.Err)))
		default:
			trace = append(trace, "Ok "+story(st.StoryLine))
		}
	}
	final := "None"
	if sc.Res.FullErr == "" && sc.Res.FullPanic == "" {
		final = fmt.Sprintf("(Some (mkFinal %s %s %s))", story(sc.Res.StoryLine),
			coqPlay(sc.Res.Play, sc.Res.NilActor), coqText(sc.Res.Printed))
	}
	return strings.Join(lets, "") + fmt.Sprintf("mkCase %s %s %s %s %s %s", vh.List(cast), vh.Z(sc.TempoNs), vh.List(cmds), vh.List(edits), vh.List(trace), final)
}

// ---------------------------------------------------------------------------
// generators

type gen struct {
	rng *rand.Rand
}

func (g *gen) pick(l []string) string { return l[g.rng.Intn(len(l))] }
func (g *gen) chance(p float64) bool  { return g.rng.Float64() < p }

// Scene times are compared in nanoseconds (int64(scene.waitUntil)) and, in the
// printed dump, as text; sub-millisecond and non-integral tempos make both
// comparisons bite.
var tempos = []string{"1s", "100ms", "0s", "1m30s", "250us", "1.5s", "2h", "7ns", "3ms", "2500us", "1.5ms", "999999ns", "1h", "1h0m0.000000001s", "33.333ms"}
var moods = []string{"red", "blue", "green", "clear", "dark"}

func (g *gen) cast() []castEntry {
	var c []castEntry
	n := 1 + g.rng.Intn(3)
	used := map[string]bool{}
	for len(c) < n {
		role := []string{"doctor", "nurse"}[g.rng.Intn(2)]
		var e castEntry
		if g.chance(0.5) {
			e = castEntry{Name: g.pick([]string{"bob", "alice", "carl", "dora"}), Role: role}
		} else {
			e = castEntry{Name: g.pick([]string{"d", "n", "x"}), Role: role, Mul: 1 + g.rng.Intn(3)}
		}
		if used[e.Name] {
			continue
		}
		used[e.Name] = true
		c = append(c, e)
	}
	return c
}

// separators between acts that are more than blanks (every one contains a blank)
var wsSeps = []string{" \n            ", " \t", "\n ", " \n\t ", "  \n", " \n \n  ", "\t \t"}

// hire returns 1-2 further cast entries whose names are not in use yet.
func (g *gen) hire(cast []castEntry) []castEntry {
	used := map[string]bool{}
	for _, e := range cast {
		used[e.Name] = true
	}
	var h []castEntry
	n := 1 + g.rng.Intn(2)
	for len(h) < n {
		role := g.pick([]string{"doctor", "nurse", "doctor", "nurse", "idle"})
		var e castEntry
		if g.chance(0.6) {
			e = castEntry{Name: g.pick([]string{"eve", "fay", "gus", "hal"}), Role: role}
		} else {
			e = castEntry{Name: g.pick([]string{"k", "m", "q"}), Role: role, Mul: 1 + g.rng.Intn(2)}
		}
		if used[e.Name] {
			continue
		}
		used[e.Name] = true
		h = append(h, e)
	}
	return h
}

func insertClause(cl []clause, pos int, c clause) []clause {
	return append(cl[:pos], append([]clause{c}, cl[pos:]...)...)
}

func (g *gen) actions(role string, allowEmpty bool) []string {
	n := 1 + g.rng.Intn(3)
	if allowEmpty && g.chance(0.08) {
		n = 0
	}
	var a []string
	for i := 0; i < n; i++ {
		x := g.pick(roleActions[role])
		if g.chance(0.35) {
			x += "?"
		}
		a = append(a, x)
	}
	return a
}

// one definition clause for scene ch; defining = must make the scene defined
func (g *gen) sceneDef(ch string, cast []castEntry, defining bool) clause {
	ex := expandCast(cast)
	for {
		switch g.rng.Intn(10) {
		case 0, 1:
			return clause{Kind: "mstart", Char: ch, Mood: g.pick(moods)}
		case 2, 3:
			return clause{Kind: "mend", Char: ch, Mood: g.pick(moods)}
		case 4, 5, 6:
			a := ex[g.rng.Intn(len(ex))]
			return clause{Kind: "entails", Char: ch, Target: a[0], Actions: g.actions(a[1], true)}
		default:
			role := g.pick([]string{"doctor", "nurse", "doctor", "nurse", "idle"})
			has := false
			for _, a := range ex {
				if a[1] == role {
					has = true
				}
			}
			if !has && (defining || !g.chance(0.3)) {
				continue
			}
			return clause{Kind: "entails", Char: ch, Every: true, Target: role, Actions: g.actions(role, true)}
		}
	}
}

// a random act over the given scene characters
func (g *gen) act(scenes string, maxCols int, us bool) string {
	var b strings.Builder
	n := 1 + g.rng.Intn(maxCols)
	for k := 0; k < n; k++ {
		m := 1
		if g.chance(0.3) {
			m = 2 + g.rng.Intn(2)
		}
		for j := 0; j < m; j++ {
			if j > 0 {
				b.WriteByte('+')
				if us && g.chance(0.05) {
					b.WriteByte('_')
				}
			}
			if g.chance(0.25) {
				b.WriteByte('.')
			} else {
				b.WriteByte(scenes[g.rng.Intn(len(scenes))])
			}
		}
		if us && g.chance(0.15) {
			b.WriteByte('_')
		}
	}
	return b.String()
}

func (g *gen) storyText(scenes string, maxActs, maxCols int) string {
	n := 1 + g.rng.Intn(maxActs)
	var b strings.Builder
	for i := 0; i < n; i++ {
		if i > 0 {
			b.WriteString(strings.Repeat(" ", 1+g.rng.Intn(2)))
			if g.chance(0.1) {
				b.WriteString("_ ")
			}
		}
		b.WriteString(g.act(scenes, maxCols, true))
	}
	return b.String()
}

// break a valid clause text
func (g *gen) spoil(t string, scenes string) string {
	pos := g.rng.Intn(len(t) + 1)
	ins := g.pick([]string{"+", "++", "z", "+", " +", "+ "})
	return strings.TrimSpace(t[:pos] + ins + t[pos:])
}

const sceneAlphabet = "abcdef12"

func (g *gen) randomScript(stream string) *scriptCase {
	sc := &scriptCase{Stream: stream, Cast: g.cast(), TempoNs: int64(time.Second)}
	nsc := 1 + g.rng.Intn(5)
	perm := g.rng.Perm(len(sceneAlphabet))
	scenes := ""
	for i := 0; i < nsc; i++ {
		scenes += string(sceneAlphabet[perm[i]])
	}
	var cl []clause
	for i := 0; i < len(scenes); i++ {
		cl = append(cl, g.sceneDef(scenes[i:i+1], sc.Cast, true))
		for g.chance(0.55) {
			cl = append(cl, g.sceneDef(scenes[i:i+1], sc.Cast, false))
		}
	}
	// shuffle the definitions (all come before the first storyline)
	for i := len(cl) - 1; i > 0; i-- {
		j := g.rng.Intn(i + 1)
		cl[i], cl[j] = cl[j], cl[i]
	}
	// make sure every scene is defined by the shuffled order regardless of
	// role-less entails: the defining clause exists somewhere before the story.
	nst := 1 + g.rng.Intn(4)
	maxActs, maxCols := 1+g.rng.Intn(4), 1+g.rng.Intn(10)
	for i := 0; i < nst; i++ {
		t := g.storyText(scenes, maxActs, maxCols)
		if g.chance(0.04) {
			t = g.spoil(t, scenes)
		}
		if g.chance(0.08) {
			// acts separated by more than blanks: continuation lines, tabs
			t = strings.Replace(t, " ", g.pick(wsSeps), 1+g.rng.Intn(3))
		}
		if g.chance(0.01) {
			t = strings.Replace(t, " ", g.pick([]string{"\t", "\n", "\n\t"}), 1) // no blank in the run: outside the oracle's domain
		}
		cl = append(cl, clause{Kind: "story", Text: t})
		if g.chance(0.2) {
			cl = append(cl, g.sceneDef(scenes[g.rng.Intn(len(scenes)):][:1], sc.Cast, false))
		}
		if g.chance(0.25) {
			if g.chance(0.25) {
				cl = append(cl, g.patternEdit(scenes))
			} else if g.chance(0.2) {
				e := [][2]string{{`(.)\+(.)`, "$2+$1"}, {" +", " "}, {`\.+`, "."}, {"^.", scenes[:1]}, {"[^ ]+$", scenes[:1] + "+" + scenes[:1]},
					{`(\S)(\S)`, "$1 $2"}}[g.rng.Intn(6)]
				cl = append(cl, clause{Kind: "redit", Pat: e[0], Repl: e[1]})
			} else {
				cl = append(cl, g.edit(scenes))
			}
		}
	}
	if g.chance(0.35) {
		// a further cast section in the middle of the script: `every <role>`
		// is used before and after the role gains actors; the clauses already
		// there only name actors of the first cast, the ones appended may name
		// anybody
		h := g.hire(sc.Cast)
		role := h[0].Role
		pos := g.rng.Intn(len(cl) + 1)
		pick := func() string { return scenes[g.rng.Intn(len(scenes)):][:1] }
		cl = insertClause(cl, pos, clause{Kind: "cast", Hire: h})
		cl = insertClause(cl, g.rng.Intn(pos+1), clause{Kind: "entails", Char: pick(), Every: true, Target: role, Actions: g.actions(role, false)})
		cl = insertClause(cl, pos+2+g.rng.Intn(len(cl)-pos-1), clause{Kind: "entails", Char: pick(), Every: true, Target: role, Actions: g.actions(role, false)})
		full := append(append([]castEntry{}, sc.Cast...), h...)
		for g.chance(0.6) {
			cl = append(cl, g.sceneDef(pick(), full, false))
		}
		cl = append(cl, clause{Kind: "story", Text: g.storyText(scenes, maxActs, maxCols)})
	}
	if g.chance(0.8) {
		t := g.pick(tempos)
		d, _ := time.ParseDuration(t)
		sc.TempoNs = int64(d)
		pos := g.rng.Intn(len(cl) + 1)
		cl = insertClause(cl, pos, clause{Kind: "tempo", Text: t})
	}
	sc.Clauses = cl
	runScript(sc)
	return sc
}

func (g *gen) edit(scenes string) clause {
	palpha := scenes + scenes + ".+ "
	n := 1 + g.rng.Intn(2)
	var p, r strings.Builder
	for i := 0; i < n; i++ {
		p.WriteByte(palpha[g.rng.Intn(len(palpha))])
	}
	ralpha := scenes + scenes + scenes + ".+_ "
	m := g.rng.Intn(4)
	for i := 0; i < m; i++ {
		r.WriteByte(ralpha[g.rng.Intn(len(ralpha))])
	}
	pat := p.String()
	if strings.TrimSpace(pat) == "" && g.chance(0.7) {
		pat = scenes[:1]
	}
	return clause{Kind: "edit", Pat: pat, Repl: r.String(), G: g.chance(0.3), Sep: g.pick([]string{"/", "/", "/", ",", "|"})}
}

// Edits whose replacement introduces `+`, `.`, `_` and blanks: merges that
// create new groups, split or join acts, pad.
var litEdits = [][2]string{
	{"a", "a+b"}, {"a", "a b"}, {"b", "_b_"}, {"b", "."}, {"ab", "a.b"}, {"a", " a "}, {" ", "+"}, {" ", ""},
	{"+", " "}, {".", "_"}, {"a", "b+a+."}, {"b", "a  b"}, {"+", "+.+"}, {".", ". ."}, {"a", "_"}, {"b", "+"},
	{"a", "a_+_a"}, {" ", " . "}, {"ba", "b+a"}, {"a+b", "b"},
}

// Real regular expressions (classes, repetition, anchors, groups with $n in
// the replacement); see runScript for how their result reaches the model.
var reEdits = [][2]string{
	{"a.", "ab"}, {"(a)(b)", "$2$1"}, {"[ab]", "."}, {"a+", "a"}, {`\.+`, "."}, {`(.)\+(.)`, "$2+$1"},
	{"^.", "a"}, {".$", "b"}, {"b*", "_"}, {"(a|b)", "$1+$1"}, {`([ab])\.`, "$1 $1"}, {" +", " "}, {`\b`, "_"},
	{"[^ ]+", "a"}, {"(?i)A", "b"}, {"a{2,}", "a.a"},
}

// rx is a regular expression written twice: as Go pattern text and as a term
// of Model/Regex.v (the oracle's own matcher, leftmost-first).  Everything
// composite is wrapped in a non-capturing group so that the two always parse
// alike; repetition is only applied to expressions that cannot match the
// empty string (the subset the Coq matcher claims).
type rx struct {
	pat, ast string
	nullable bool
	// simple: bytes, `.`, sets and their concatenations only.  Repetition is
	// applied to simple expressions only: the oracle's matcher backtracks, and
	// nested or ambiguous repetition ((a+)+, (a|a)*) would cost it exponential
	// time on the longer storylines.
	simple bool
}

func rxChr(c byte) rx {
	return rx{regexp.QuoteMeta(string(c)), fmt.Sprintf("(Chr x%02x)", c), false, true}
}
func rxAny() rx { return rx{".", "Any", false, true} }
func rxSet(neg bool, cs string) rx {
	var it []string
	for i := 0; i < len(cs); i++ {
		it = append(it, fmt.Sprintf("x%02x", cs[i]))
	}
	p := "["
	if neg {
		p += "^"
	}
	return rx{p + regexp.QuoteMeta(cs) + "]", "(Set_ " + vh.Bool(neg) + " " + vh.List(it) + ")", false, true}
}
func rxEps() rx { return rx{"(?:)", "Eps", true, false} }
func rxBol() rx { return rx{"^", "Bol", true, false} }
func rxEol() rx { return rx{"$", "Eol", true, false} }
func rxAlt(a, b rx) rx {
	return rx{"(?:" + a.pat + "|" + b.pat + ")", "(Alt " + a.ast + " " + b.ast + ")", a.nullable || b.nullable, false}
}
func rxCat(a, b rx) rx {
	return rx{a.pat + b.pat, "(Cat " + a.ast + " " + b.ast + ")", a.nullable && b.nullable, a.simple && b.simple}
}
func rxStar(greedy bool, a rx) rx {
	q := "*"
	if !greedy {
		q = "*?"
	}
	return rx{"(?:" + a.pat + ")" + q, "(Star " + vh.Bool(greedy) + " " + a.ast + ")", true, false}
}
func rxPlus(greedy bool, a rx) rx {
	q := "+"
	if !greedy {
		q = "+?"
	}
	return rx{"(?:" + a.pat + ")" + q, "(Plus " + vh.Bool(greedy) + " " + a.ast + ")", a.nullable, false}
}
func rxOpt(greedy bool, a rx) rx {
	q := "?"
	if !greedy {
		q = "??"
	}
	return rx{"(?:" + a.pat + ")" + q, "(Opt " + vh.Bool(greedy) + " " + a.ast + ")", true, false}
}

// a fixed corpus where leftmost-first and leftmost-longest, greedy and lazy,
// empty and non-empty matches differ
func rxCorpus(x, y byte) []rx {
	a, b, sp := rxChr(x), rxChr(y), rxChr(' ')
	return []rx{
		rxAlt(a, rxCat(a, b)),                         // a|ab
		rxAlt(rxCat(a, b), a),                         // ab|a
		rxCat(sp, rxCat(b, rxStar(false, rxAny()))),   // " b.*?"
		rxCat(b, rxStar(true, rxAny())),               // b.*
		rxCat(b, rxStar(true, rxSet(true, " "))),      // b[^ ]*
		rxStar(false, a), rxStar(true, a), rxStar(true, b), // a*? a* b*
		rxPlus(false, a), rxPlus(true, a),             // a+? a+
		rxOpt(true, rxCat(a, rxAny())), rxOpt(false, a), // (a.)? a??
		rxBol(), rxEol(), rxCat(rxBol(), rxAny()), rxCat(rxAny(), rxEol()),
		rxCat(rxAlt(a, rxCat(a, b)), rxAlt(b, rxEps())), // (a|ab)(b|)
		rxStar(true, sp), rxPlus(true, sp),              // " *" " +"
		rxStar(true, rxCat(a, b)),                       // (ab)*
		rxAlt(rxChr('.'), rxChr('+')),                   // \.|\+
		rxCat(rxSet(false, string([]byte{x, y})), rxChr('+')), // [ab]\+
		rxAlt(rxEps(), a),                               // |a
		rxCat(a, rxAlt(rxEps(), b)),                     // a(|b)
		rxCat(rxStar(false, rxAny()), b),                // .*?b
		rxCat(rxStar(true, rxAny()), b),                 // .*b
	}
}

// a random expression of the subset over the bytes of alpha
func (g *gen) rx(depth int, alpha string) rx {
	if depth <= 0 || g.chance(0.3) {
		switch g.rng.Intn(8) {
		case 0:
			return rxAny()
		case 1:
			return rxSet(g.chance(0.3), alpha[:1+g.rng.Intn(len(alpha))])
		case 2:
			return []rx{rxBol(), rxEol(), rxEps()}[g.rng.Intn(3)]
		default:
			return rxChr(alpha[g.rng.Intn(len(alpha))])
		}
	}
	switch g.rng.Intn(6) {
	case 0:
		return rxAlt(g.rx(depth-1, alpha), g.rx(depth-1, alpha))
	case 1, 2:
		return rxCat(g.rx(depth-1, alpha), g.rx(depth-1, alpha))
	case 3:
		for {
			if a := g.rx(depth-1, alpha); !a.nullable && a.simple {
				return rxStar(g.chance(0.5), a)
			}
		}
	case 4:
		for {
			if a := g.rx(depth-1, alpha); !a.nullable && a.simple {
				return rxPlus(g.chance(0.5), a)
			}
		}
	default:
		return rxOpt(g.chance(0.5), g.rx(depth-1, alpha))
	}
}

// an edit whose pattern has a Coq twin; the replacement is literal
func (g *gen) patternEdit(scenes string) clause {
	var r rx
	if g.chance(0.6) {
		x, y := scenes[0], scenes[len(scenes)-1]
		c := rxCorpus(x, y)
		r = c[g.rng.Intn(len(c))]
	} else {
		r = g.rx(3, scenes+". +")
	}
	ralpha := scenes + scenes + ".+_ "
	var rp strings.Builder
	for i, m := 0, g.rng.Intn(3); i < m; i++ {
		rp.WriteByte(ralpha[g.rng.Intn(len(ralpha))])
	}
	return clause{Kind: "pedit", Pat: r.pat, Ast: r.ast, Repl: rp.String()}
}

func (g *gen) shapeEdit() clause {
	if g.chance(0.4) {
		return g.patternEdit("ab")
	}
	if g.chance(0.5) {
		e := litEdits[g.rng.Intn(len(litEdits))]
		return clause{Kind: "edit", Pat: e[0], Repl: e[1], G: g.chance(0.3), Sep: "/"}
	}
	e := reEdits[g.rng.Intn(len(reEdits))]
	return clause{Kind: "redit", Pat: e[0], Repl: e[1]}
}

// fixed definitions for the small-shape streams: a and b with entails for a
// single actor and for every member of a two-actor role, several entails per
// scene, an entail without actions, mood starts and ends.
func smallDefs() ([]castEntry, []clause) {
	cast := []castEntry{{Name: "bob", Role: "doctor"}, {Name: "n", Role: "nurse", Mul: 2}}
	cl := []clause{
		{Kind: "entails", Char: "a", Target: "bob", Actions: []string{"cure", "sleep?"}},
		{Kind: "mstart", Char: "a", Mood: "blue"},
		{Kind: "entails", Char: "b", Every: true, Target: "nurse", Actions: []string{"help"}},
		{Kind: "entails", Char: "b", Target: "bob", Actions: []string{"op?"}},
		{Kind: "entails", Char: "b", Target: "n1", Actions: nil},
		{Kind: "mend", Char: "b", Mood: "red"},
		{Kind: "mstart", Char: "b", Mood: "green"},
	}
	return cast, cl
}

func allStrings(alpha string, maxLen int) []string {
	res := []string{""}
	last := []string{""}
	for l := 1; l <= maxLen; l++ {
		var next []string
		for _, s := range last {
			for i := 0; i < len(alpha); i++ {
				next = append(next, s+string(alpha[i]))
			}
		}
		res = append(res, next...)
		last = next
	}
	return res
}

func smallScript(stream string, texts []string, edits []clause, tempo string) *scriptCase {
	cast, cl := smallDefs()
	d, _ := time.ParseDuration(tempo)
	sc := &scriptCase{Stream: stream, Cast: cast, TempoNs: int64(d)}
	cl = append(cl, clause{Kind: "tempo", Text: tempo})
	for _, t := range texts {
		cl = append(cl, clause{Kind: "story", Text: t})
	}
	cl = append(cl, edits...)
	sc.Clauses = cl
	runScript(sc)
	return sc
}

func validAct(a string) bool {
	if a == "" || a[0] == '+' || a[len(a)-1] == '+' || strings.Contains(a, "++") {
		return false
	}
	return true
}

func doPair(a1, a2 string) pairCase {
	r, p := cmd.VerifC06CombineActs(a1, a2)
	return pairCase{a1, a2, r, p}
}

// jcase is a script case in cases.json / in a replay file: Cast, Clauses and
// TempoNs are enough to run it again.
type jcase struct {
	Stream   string
	Cast     []castEntry
	Clauses  []clause
	Text     string
	TempoNs  int64
	FullErr  string
	Panic    string
	Story    []string
}

// replay runs the single case of a replay file again and writes it as
// cases_0.v / pairs.v.
func replay(file, out string) {
	data, err := ioutil.ReadFile(file)
	if err != nil {
		panic(err)
	}
	var r struct {
		Input     *jcase
		PairInput *pairCase
	}
	if err := json.Unmarshal(data, &r); err != nil {
		panic(err)
	}
	pairs := "[]"
	var names []string
	var sb strings.Builder
	if r.PairInput != nil {
		c := doPair(r.PairInput.A1, r.PairInput.A2)
		pairs = vh.List([]string{fmt.Sprintf("(%s, %s, %s)", vh.Str(c.A1), vh.Str(c.A2), vh.Option(c.Panic == "", vh.Str(c.Obs)))})
		fmt.Printf("combineActs(%q, %q) = %q %s\n", c.A1, c.A2, c.Obs, c.Panic)
	}
	if r.Input != nil {
		sc := &scriptCase{Stream: "replay", Cast: r.Input.Cast, Clauses: r.Input.Clauses, TempoNs: r.Input.TempoNs}
		runScript(sc)
		fmt.Printf("%s\nerror: %q panic: %q\nstoryline: %q\n%s", fullText(sc), sc.Res.FullErr, sc.Res.FullPanic, sc.Res.StoryLine, sc.Res.Printed)
		body := coqCase(sc)
		fmt.Fprintf(&sb, "Definition c0 : c06_case := %s.\n", body)
		names = append(names, "c0")
	}
	sb.WriteString("Definition script_cases : list c06_case := " + vh.List(names) + ".\n")
	vh.WriteFile(out, "cases_0.v", vocabDefs()+lineDefs()+sb.String())
	vh.WriteFile(out, "pairs_0.v", "Definition pair_cases : list pair_case := "+pairs+".\n")
}

// ---------------------------------------------------------------------------

func main() {
	seed := flag.Int64("seed", 1, "")
	tier := flag.String("tier", "quick", "")
	out := flag.String("out", ".", "")
	bin := flag.String("bin", "", "the real shakespeare binary (for the -n -p cross-check)")
	shardSize := flag.Int("shard", 1500, "at most this many script cases per cases_<i>.v")
	shardBytes := flag.Int("shardbytes", 900000, "at most about this many bytes of cases per cases_<i>.v")
	replayFile := flag.String("replay", "", "run the case of this replay file only")
	flag.Parse()
	if *replayFile != "" {
		replay(*replayFile, *out)
		return
	}
	// parseScript prints "warning: there is no actor playing role ..." to
	// os.Stderr for the role-without-actors clauses the generator produces.
	if dn, err := os.OpenFile(os.DevNull, os.O_WRONLY, 0); err == nil {
		os.Stderr = dn
	}
	rng := vh.Rng(*seed)
	g := &gen{rng: rng}
	thorough := *tier == "thorough"

	// ---- pair cases: real combineActs on pairs of valid acts
	var pairs []pairCase
	smallActs := []string{}
	for _, s := range allStrings("ab.+", 4) {
		if validAct(s) {
			smallActs = append(smallActs, s)
		}
	}
	pairsExhaustive := false
	if thorough {
		pairsExhaustive = true
		for _, a1 := range smallActs {
			for _, a2 := range smallActs {
				pairs = append(pairs, doPair(a1, a2))
			}
		}
	} else {
		for i := 0; i < 1500; i++ {
			pairs = append(pairs, doPair(smallActs[rng.Intn(len(smallActs))], smallActs[rng.Intn(len(smallActs))]))
		}
	}
	nrp := 800
	if thorough {
		nrp = 20000
	}
	for i := 0; i < nrp; i++ {
		pairs = append(pairs, doPair(g.act("abcdef", 1+rng.Intn(10), false), g.act("abcdef", 1+rng.Intn(10), false)))
	}
	for _, a := range []string{"", "a", ".", "a+b"} { // the empty act (never produced by the parser; TestCombine has it)
		pairs = append(pairs, doPair("", a), doPair(a, ""))
	}

	// ---- script cases
	var scripts []*scriptCase
	// (1) single clauses, every text up to 6 bytes over {a,b,.,+,_,' '} that the
	//     reader passes on unchanged (no leading/trailing space, not empty)
	var clauseTexts []string
	for _, s := range allStrings("ab.+_ ", 6) {
		if s == "" || s[0] == ' ' || s[len(s)-1] == ' ' {
			continue
		}
		clauseTexts = append(clauseTexts, s)
	}
	singleExhaustive := false
	if thorough {
		singleExhaustive = true
		for _, t := range clauseTexts {
			scripts = append(scripts, smallScript("single-clause", []string{t}, nil, "1s"))
		}
	} else {
		for i := 0; i < 450; i++ {
			scripts = append(scripts, smallScript("single-clause", []string{clauseTexts[rng.Intn(len(clauseTexts))]}, nil, g.pick(tempos)))
		}
	}
	// (2) two or three clauses of up to two acts of up to 5 bytes over {a,b,.,+,_}
	var acts5 []string
	for _, s := range allStrings("ab.+_", 5) {
		if s != "" {
			acts5 = append(acts5, s)
		}
	}
	var acts3valid []string
	for _, s := range allStrings("ab.+_", 3) {
		if t := strings.Replace(s, "_", "", -1); validAct(t) {
			acts3valid = append(acts3valid, s)
		}
	}
	twoExhaustive := false
	if thorough {
		twoExhaustive = true
		// every pair of single-act clauses with valid acts of up to 3 bytes
		for _, a := range acts3valid {
			for _, b := range acts3valid {
				scripts = append(scripts, smallScript("two-clauses-exhaustive", []string{a, b}, nil, "100ms"))
			}
		}
	}
	nsmall := 650
	if thorough {
		nsmall = 40000
	}
	pickAct := func() string {
		for {
			a := acts5[rng.Intn(len(acts5))]
			if validAct(strings.Replace(a, "_", "", -1)) || g.chance(0.03) {
				return a
			}
		}
	}
	for i := 0; i < nsmall; i++ {
		ncl := 2 + rng.Intn(2)
		var texts []string
		for j := 0; j < ncl; j++ {
			t := pickAct()
			if g.chance(0.5) {
				t += " " + pickAct()
			}
			texts = append(texts, t)
		}
		var edits []clause
		if g.chance(0.25) {
			edits = append(edits, g.edit("ab"))
		}
		scripts = append(scripts, smallScript("small-shapes", texts, edits, g.pick(tempos)))
	}
	// (2b) edits that reshape the storyline: literal replacements introducing
	//      `+`, `.`, `_`, blanks, and real regular expressions, between clauses
	nshape := 350
	if thorough {
		nshape = 15000
	}
	for i := 0; i < nshape; i++ {
		cast, cl := smallDefs()
		t := g.pick(tempos)
		d, _ := time.ParseDuration(t)
		sc := &scriptCase{Stream: "edit-shapes", Cast: cast, TempoNs: int64(d)}
		cl = append(cl, clause{Kind: "tempo", Text: t})
		nst := 1 + rng.Intn(3)
		for j := 0; j < nst; j++ {
			txt := pickAct()
			for g.chance(0.45) {
				txt += " " + pickAct()
			}
			cl = append(cl, clause{Kind: "story", Text: txt})
			if j == 0 || g.chance(0.5) {
				cl = append(cl, g.shapeEdit())
			}
		}
		sc.Clauses = cl
		runScript(sc)
		scripts = append(scripts, sc)
	}
	// (2c) a cast section between script sections: scenes a and b are defined
	//      for `every <role>`, the role gains actors, then they (and c) are
	//      defined again for `every <role>` and for newcomers
	nlate := 250
	if thorough {
		nlate = 10000
	}
	for i := 0; i < nlate; i++ {
		cast, cl := smallDefs()
		t := g.pick(tempos)
		d, _ := time.ParseDuration(t)
		sc := &scriptCase{Stream: "late-cast", Cast: cast, TempoNs: int64(d)}
		cl = append(cl, clause{Kind: "tempo", Text: t})
		if g.chance(0.7) {
			cl = append(cl, clause{Kind: "story", Text: pickAct()})
		}
		nh := 1 + rng.Intn(2)
		for k := 0; k < nh; k++ {
			full := cast
			h := g.hire(full)
			cast = append(append([]castEntry{}, cast...), h...)
			cl = append(cl, clause{Kind: "cast", Hire: h})
			nd := 1 + rng.Intn(3)
			for j := 0; j < nd; j++ {
				role := g.pick([]string{h[0].Role, "doctor", "nurse"})
				ch := g.pick([]string{"a", "b", "a", "b", "c"})
				if g.chance(0.75) {
					cl = append(cl, clause{Kind: "entails", Char: ch, Every: true, Target: role, Actions: g.actions(role, false)})
				} else {
					cl = append(cl, g.sceneDef(ch, cast, false))
				}
			}
			txt := pickAct()
			if g.chance(0.4) {
				txt += " " + pickAct()
			}
			if g.chance(0.5) {
				txt = strings.Replace(txt, "b", "c", 1)
			}
			cl = append(cl, clause{Kind: "story", Text: txt})
		}
		sc.Clauses = cl
		runScript(sc)
		scripts = append(scripts, sc)
	}
	// (2d) storyline clauses written over several lines / with tabs: the same
	//      acts as on one line
	nml := 200
	if thorough {
		nml = 8000
	}
	for i := 0; i < nml; i++ {
		nc := 1 + rng.Intn(3)
		var texts []string
		for j := 0; j < nc; j++ {
			t := pickAct()
			for k, n := 0, 1+rng.Intn(3); k < n; k++ {
				sep := " "
				if g.chance(0.75) {
					sep = g.pick(wsSeps)
				}
				t += sep + pickAct()
			}
			texts = append(texts, t)
		}
		var edits []clause
		if g.chance(0.2) {
			edits = append(edits, g.shapeEdit())
		}
		scripts = append(scripts, smallScript("multi-line", texts, edits, g.pick(tempos)))
	}
	// (2e) a storyline seeded by edits: the first clauses are edits of the EMPTY
	//      storyline with patterns that match the empty string
	nef := 200
	if thorough {
		nef = 8000
	}
	emptyRx := []rx{rxCat(rxBol(), rxEol()), rxBol(), rxEol(), rxEps(), rxStar(true, rxChr('a')), rxAlt(rxChr('a'), rxEps()), rxStar(false, rxAny())}
	for i := 0; i < nef; i++ {
		cast, cl := smallDefs()
		t := g.pick(tempos)
		d, _ := time.ParseDuration(t)
		sc := &scriptCase{Stream: "edits-first", Cast: cast, TempoNs: int64(d)}
		cl = append(cl, clause{Kind: "tempo", Text: t})
		r := emptyRx[rng.Intn(len(emptyRx))]
		seed := pickAct()
		if g.chance(0.5) {
			seed += " " + pickAct()
		}
		cl = append(cl, clause{Kind: "pedit", Pat: r.pat, Ast: r.ast, Repl: seed})
		if g.chance(0.5) {
			cl = append(cl, g.shapeEdit())
		}
		for g.chance(0.6) {
			cl = append(cl, clause{Kind: "story", Text: pickAct()})
			if g.chance(0.3) {
				cl = append(cl, g.shapeEdit())
			}
		}
		sc.Clauses = cl
		runScript(sc)
		scripts = append(scripts, sc)
	}
	// (3) random larger scripts
	nrand := 600
	if thorough {
		nrand = 30000
	}
	for i := 0; i < nrand; i++ {
		scripts = append(scripts, g.randomScript("random"))
	}

	// ---- CLI cross-check on a sample
	ncli, cliDiff := 0, []string{}
	if *bin != "" {
		dir, err := ioutil.TempDir("", "shk-c06-cli")
		if err != nil {
			panic(err)
		}
		want := 40
		if thorough {
			want = 400
		}
		for k := 0; k < want; k++ {
			sc := scripts[rng.Intn(len(scripts))]
			if sc.CLI != "" {
				continue
			}
			runCLI(*bin, sc, dir)
			ncli++
			if sc.CLI != "same" && !strings.HasPrefix(sc.CLI, "skipped:") {
				cliDiff = append(cliDiff, sc.CLI+"\n"+fullText(sc))
			}
		}
		os.RemoveAll(dir)
	}

	// ---- write
	var items []string
	for _, c := range pairs {
		items = append(items, fmt.Sprintf("(%s, %s, %s)", vh.Str(c.A1), vh.Str(c.A2), vh.Option(c.Panic == "", vh.Str(c.Obs))))
	}
	const pairShard = 4000 // a longer list literal overflows coqc's stack
	npairShards := 0
	for lo := 0; lo < len(items); lo += pairShard {
		hi := lo + pairShard
		if hi > len(items) {
			hi = len(items)
		}
		vh.WriteFile(*out, fmt.Sprintf("pairs_%d.v", npairShards), "Definition pair_cases : list pair_case := "+vh.ListNL(items[lo:hi])+".\n")
		npairShards++
	}
	// Shards hold consecutive cases and are balanced by the size of their Coq
	// text (coqc's time is proportional to it): at most shardBytes each, and
	// at least 8 shards when there is enough to share out.
	sizes := make([]int, len(scripts))
	total := 0
	for i, sc := range scripts {
		sizes[i] = len(coqCase(sc))
		total += sizes[i]
	}
	lineDefs() // forget the dictionary of the sizing pass
	target := total/8 + 1
	if target > *shardBytes {
		target = *shardBytes
	}
	nshards := 0
	var shardTexts []string
	for lo := 0; lo < len(scripts); {
		hi, acc := lo, 0
		for hi < len(scripts) && (hi == lo || acc+sizes[hi] <= target) && hi-lo < *shardSize {
			acc += sizes[hi]
			hi++
		}
		var sb strings.Builder
		var names []string
		for i, sc := range scripts[lo:hi] {
			n := fmt.Sprintf("c%d", i)
			names = append(names, n)
			fmt.Fprintf(&sb, "Definition %s : c06_case := %s.\n", n, coqCase(sc))
		}
		sb.WriteString("Definition script_cases : list c06_case := " + vh.List(names) + ".\n")
		shardTexts = append(shardTexts, lineDefs()+sb.String())
		nshards++
		lo = hi
	}
	for i, t := range shardTexts {
		vh.WriteFile(*out, fmt.Sprintf("cases_%d.v", i), vocabDefs()+t)
	}

	var js []jcase
	for _, sc := range scripts {
		js = append(js, jcase{sc.Stream, sc.Cast, sc.Clauses, fullText(sc), sc.TempoNs, sc.Res.FullErr, sc.Res.FullPanic,
			sc.Res.StoryLine})
	}
	vh.WriteJSON(*out, "cases.json", map[string]interface{}{"pairs": pairs, "scripts": js, "shard": *shardSize, "pair_shard": pairShard})

	// ---- summary
	streams := map[string]int{}
	nontriv := map[string]bool{}
	accepted, refused, withEdit, withMood, withPlus, panics := 0, 0, 0, 0, 0, 0
	maxCols, maxActs := 0, 0
	for _, sc := range scripts {
		streams[sc.Stream]++
		if sc.Res.FullPanic != "" {
			panics++
		}
		for _, st := range sc.Res.Steps {
			if st.Panic != "" {
				panics++
			}
		}
		if sc.Res.FullErr != "" || sc.Res.FullPanic != "" {
			refused++
			continue
		}
		accepted++
		nStory, hasEdit := 0, false
		for _, c := range sc.Clauses {
			if c.Kind == "story" {
				nStory++
			}
			if c.Kind == "edit" || c.Kind == "redit" || c.Kind == "pedit" {
				hasEdit = true
			}
		}
		if hasEdit {
			withEdit++
		}
		plus, mood := false, strings.Contains(sc.Res.Printed, "(mood: ")
		for _, a := range sc.Res.StoryLine {
			if strings.Contains(a, "+") {
				plus = true
			}
			if len(a) > maxCols {
				maxCols = len(a)
			}
		}
		if len(sc.Res.StoryLine) > maxActs {
			maxActs = len(sc.Res.StoryLine)
		}
		if plus {
			withPlus++
		}
		if mood {
			withMood++
		}
		if (nStory >= 2 || hasEdit) && (plus || mood) {
			nontriv[fullText(sc)] = true
		}
	}
	for _, p := range pairs {
		if p.Panic != "" {
			panics++
		}
		if len(p.A1) >= 2 && len(p.A2) >= 2 {
			nontriv["p"+p.A1+"/"+p.A2] = true
		}
	}
	var samples []interface{}
	for _, i := range []int{0, len(scripts) / 2, len(scripts) - 1} {
		sc := scripts[i]
		samples = append(samples, map[string]interface{}{"stream": sc.Stream, "script": fullText(sc), "storyline": sc.Res.StoryLine, "printed": sc.Res.Printed, "err": sc.Res.FullErr})
	}
	samples = append(samples, pairs[0], pairs[len(pairs)-1])
	var sn []string
	for k := range streams {
		sn = append(sn, k)
	}
	sort.Strings(sn)
	vh.WriteJSON(*out, "summary.json", map[string]interface{}{
		"pairs": len(pairs), "scripts": len(scripts), "shards": nshards, "pair_shards": npairShards,
		"streams": streams, "accepted": accepted, "refused": refused,
		"with_edit": withEdit, "with_mood": withMood, "with_plus_group": withPlus,
		"max_act_bytes": maxCols, "max_acts": maxActs,
		"panics": panics,
		"pairs_exhaustive_len4": pairsExhaustive, "single_clause_exhaustive_len6": singleExhaustive,
		"two_clauses_exhaustive_len3": twoExhaustive,
		"small_valid_acts_len4": len(smallActs),
		"cli_checked": ncli, "cli_differs": cliDiff,
		"distinct_nontrivial": len(nontriv),
		"samples": samples,
	})
}
