package main

import (
	"fmt"
	"strconv"
	"strings"
	"time"
)

// ---------------------------------------------------------------------------
// Reading the printed configuration (printCfg without comments) back into
// clauses, and writing such clauses in printCfg's exact format.  The harness
// checks renderCanon(parsePrinted(text)) == text on every case, so the clause
// list handed to Coq stands for the printed bytes.
//
// In a printed clause list: role clauses have no extends; cast clauses have
// no star; entails / watches name one actor; tempo / repeattime hold the
// printed duration text; repeatcount the printed number.

func splitLogical(text string) ([]string, error) {
	if text != "" && !strings.HasSuffix(text, "\n") {
		return nil, fmt.Errorf("no final newline")
	}
	phys := strings.Split(strings.TrimSuffix(text, "\n"), "\n")
	if text == "" {
		phys = nil
	}
	var out []string
	cur := ""
	cont := false
	for _, l := range phys {
		if cont {
			cur += "\n" + l
		} else {
			cur = l
		}
		if strings.HasSuffix(l, "\\") {
			cur = cur[:len(cur)-1]
			cont = true
			continue
		}
		cont = false
		out = append(out, cur)
	}
	if cont {
		return nil, fmt.Errorf("dangling continuation")
	}
	return out, nil
}

func cut(s, sep string) (string, string, bool) {
	i := strings.Index(s, sep)
	if i < 0 {
		return s, "", false
	}
	return s[:i], s[i+len(sep):], true
}

func parsePrinted(text string) ([]Clause, error) {
	lines, err := splitLogical(text)
	if err != nil {
		return nil, err
	}
	var cl []Clause
	sec := ""
	var role *Clause
	for _, l := range lines {
		if sec == "" {
			switch {
			case strings.HasPrefix(l, "title "):
				cl = append(cl, Clause{K: "title", Text: l[6:]})
			case strings.HasPrefix(l, "author "):
				cl = append(cl, Clause{K: "author", Text: l[7:]})
			case strings.HasPrefix(l, "attention "):
				cl = append(cl, Clause{K: "attention", Text: l[10:]})
			case strings.HasPrefix(l, "role "):
				sec = "role"
				role = &Clause{K: "role", Name: l[5:]}
			case l == "cast" || l == "script" || l == "audience" || l == "interpretation":
				sec = l
			default:
				return nil, fmt.Errorf("top level: %q", l)
			}
			continue
		}
		if l == "end" {
			if sec == "role" {
				cl = append(cl, *role)
				role = nil
			}
			sec = ""
			continue
		}
		if !strings.HasPrefix(l, "  ") {
			return nil, fmt.Errorf("section %s: %q", sec, l)
		}
		l = l[2:]
		switch sec {
		case "role":
			switch {
			case strings.HasPrefix(l, "cleanup "):
				role.Lines = append(role.Lines, RoleLine{K: "cleanup", Text: l[8:]})
			case strings.HasPrefix(l, "spotlight "):
				role.Lines = append(role.Lines, RoleLine{K: "spotlight", Text: l[10:]})
			case strings.HasPrefix(l, "signal "):
				name, rest, ok := cut(l[7:], " ")
				if !ok {
					return nil, fmt.Errorf("signal: %q", l)
				}
				typ, re, ok := cut(rest, " at ")
				if !ok || (typ != "event" && typ != "scalar" && typ != "delta") {
					return nil, fmt.Errorf("signal: %q", l)
				}
				role.Lines = append(role.Lines, RoleLine{K: "signal", Name: name, Typ: typ, Text: re})
			case strings.HasPrefix(l, ":"):
				name, cmd, ok := cut(l[1:], " ")
				if !ok {
					return nil, fmt.Errorf("action: %q", l)
				}
				role.Lines = append(role.Lines, RoleLine{K: "action", Name: name, Text: cmd})
			default:
				return nil, fmt.Errorf("role line: %q", l)
			}
		case "cast":
			name, rest, ok := cut(l, " plays ")
			if !ok {
				return nil, fmt.Errorf("cast: %q", l)
			}
			rn, env, _ := cut(rest, " with ")
			if strings.Contains(rn, " ") {
				return nil, fmt.Errorf("cast: %q", l)
			}
			cl = append(cl, Clause{K: "cast", Name: name, Name2: rn, Text: env})
		case "script":
			switch {
			case strings.HasPrefix(l, "tempo "):
				cl = append(cl, Clause{K: "tempo", Text: l[6:]})
			case strings.HasPrefix(l, "storyline "):
				cl = append(cl, Clause{K: "storyline", Text: l[10:]})
			case strings.HasPrefix(l, "repeat from "):
				cl = append(cl, Clause{K: "repeatfrom", Text: l[12:]})
			case strings.HasPrefix(l, "# (") && len(cl) > 0 && cl[len(cl)-1].K == "repeatfrom" && cl[len(cl)-1].Flag == "":
				// the one comment printCfg emits even without comments
				var n int
				if l == "# (no matching act, nothing is repeated)" {
					cl[len(cl)-1].Flag = "#0"
				} else if _, err := fmt.Sscanf(l, "# (repeating act %d and following)", &n); err == nil && n > 0 &&
					l == fmt.Sprintf("# (repeating act %d and following)", n) {
					cl[len(cl)-1].Flag = "#" + strconv.Itoa(n)
				} else {
					return nil, fmt.Errorf("script comment: %q", l)
				}
			case strings.HasPrefix(l, "repeat time "):
				cl = append(cl, Clause{K: "repeattime", Text: l[12:]})
			case l == "repeat always":
				cl = append(cl, Clause{K: "repeatalways"})
			case strings.HasPrefix(l, "repeat ") && strings.HasSuffix(l, " times"):
				cl = append(cl, Clause{K: "repeatcount", Text: l[7 : len(l)-6]})
			case strings.HasPrefix(l, "scene ") && len(l) > 8 && l[7] == ' ':
				ch, rest := l[6:7], l[8:]
				switch {
				case strings.HasPrefix(rest, "mood starts "):
					cl = append(cl, Clause{K: "moodstart", Name: ch, Text: rest[12:]})
				case strings.HasPrefix(rest, "mood ends "):
					cl = append(cl, Clause{K: "moodend", Name: ch, Text: rest[10:]})
				case strings.HasPrefix(rest, "entails for "):
					actor, acts, ok := cut(rest[12:], ": ")
					if !ok {
						return nil, fmt.Errorf("entails: %q", l)
					}
					c := Clause{K: "entails", Name: ch, Name2: actor}
					if acts != "" {
						c.List = strings.Split(acts, "; ")
					}
					cl = append(cl, c)
				default:
					return nil, fmt.Errorf("scene: %q", l)
				}
			default:
				return nil, fmt.Errorf("script: %q", l)
			}
		case "audience":
			m, rest, ok := cut(l, " ")
			if !ok {
				return nil, fmt.Errorf("audience: %q", l)
			}
			switch {
			case rest == "audits throughout":
				cl = append(cl, Clause{K: "auditsall", M: m})
			case strings.HasPrefix(rest, "audits only while "):
				cl = append(cl, Clause{K: "audits", M: m, Text: rest[18:]})
			case strings.HasPrefix(rest, "computes "):
				v, e, ok := cut(rest[9:], " as ")
				if !ok {
					return nil, fmt.Errorf("computes: %q", l)
				}
				cl = append(cl, Clause{K: "computes", M: m, Name: v, Text: e})
			case strings.HasPrefix(rest, "collects "):
				v, r2, ok := cut(rest[9:], " as ")
				if !ok {
					return nil, fmt.Errorf("collects: %q", l)
				}
				mode, r3, ok1 := cut(r2, " ")
				n, e, ok2 := cut(r3, " ")
				if !ok1 || !ok2 {
					return nil, fmt.Errorf("collects: %q", l)
				}
				cl = append(cl, Clause{K: "collects", M: m, Name: v, Text2: mode, N: n, Text: e})
			case strings.HasPrefix(rest, "expects "):
				mod, e, ok := cut(rest[8:], ": ")
				if !ok {
					return nil, fmt.Errorf("expects: %q", l)
				}
				cl = append(cl, Clause{K: "expects", M: m, Text2: mod, Text: e})
			case strings.HasPrefix(rest, "watches "):
				toks := strings.Split(rest[8:], " ")
				switch len(toks) {
				case 1:
					cl = append(cl, Clause{K: "watchvar", M: m, Name: toks[0]})
				case 2:
					cl = append(cl, Clause{K: "watches", M: m, Name2: toks[0], Name: toks[1]})
				default:
					return nil, fmt.Errorf("watches: %q", l)
				}
			case strings.HasPrefix(rest, "measures "):
				cl = append(cl, Clause{K: "measures", M: m, Text: rest[9:]})
			case rest == "only helps":
				cl = append(cl, Clause{K: "onlyhelps", M: m})
			default:
				return nil, fmt.Errorf("audience: %q", l)
			}
		case "interpretation":
			var mode string
			switch {
			case strings.HasPrefix(l, "ignore "):
				mode, l = "ignore", l[7:]
			case strings.HasPrefix(l, "foul upon "):
				mode, l = "foul", l[10:]
			case strings.HasPrefix(l, "require "):
				mode, l = "require", l[8:]
			default:
				return nil, fmt.Errorf("interpretation: %q", l)
			}
			m, res, ok := cut(l, " ")
			if !ok || (res != "disappointment" && res != "satisfaction") {
				return nil, fmt.Errorf("interpretation: %q", l)
			}
			cl = append(cl, Clause{K: "interp", Text: mode, Name2: m, Text2: res})
		}
	}
	if sec != "" {
		return nil, fmt.Errorf("unterminated section %s", sec)
	}
	return cl, nil
}

// renderCanon writes a printed clause list in printCfg's format (sections in
// the printer's fixed order; the clause list must be in that order).
func renderCanon(cl []Clause) string {
	var b strings.Builder
	open := ""
	closeSec := func() {
		if open != "" {
			b.WriteString("end\n")
			open = ""
		}
	}
	scriptSeen := false
	openScript := func() {
		if !scriptSeen {
			closeSec()
			b.WriteString("script\n")
			open = "script"
			scriptSeen = true
		}
	}
	for _, c := range cl {
		sec := c.section()
		if sec == "top" {
			closeSec()
			if c.K == "role" {
				b.WriteString("role " + c.Name + "\n")
				for _, l := range c.Lines {
					b.WriteString("  " + roleLinePlain(l) + "\n")
				}
				b.WriteString("end\n")
			} else {
				b.WriteString(c.K + " " + c.Text + "\n")
			}
			continue
		}
		if sec == "script" {
			openScript()
		} else if sec != open {
			if (sec == "audience" || sec == "interpretation") && !scriptSeen {
				openScript()
			}
			closeSec()
			b.WriteString(sec + "\n")
			open = sec
		}
		b.WriteString("  " + plainLine(c) + "\n")
		if c.K == "repeatfrom" && strings.HasPrefix(c.Flag, "#") {
			if c.Flag == "#0" {
				b.WriteString("  # (no matching act, nothing is repeated)\n")
			} else {
				b.WriteString("  # (repeating act " + c.Flag[1:] + " and following)\n")
			}
		}
	}
	if !scriptSeen {
		openScript()
	}
	closeSec()
	return b.String()
}

// ---------------------------------------------------------------------------
// small helpers shared with the Coq emission

func parseDur(s string) (int64, bool) {
	d, err := time.ParseDuration(s)
	if err != nil {
		return 0, false
	}
	return int64(d), true
}

func atoi(s string) (int64, bool) {
	n, err := strconv.Atoi(s)
	return int64(n), err == nil
}
