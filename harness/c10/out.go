package main

import (
	"encoding/json"
	"fmt"
	"sort"
	"strings"

	"github.com/knz/shakespeare/verifharness/vh"
)

type summary struct {
	Seed                int64
	Tier                string
	Cases               int
	Accepted            int
	Rejected            int
	RejectedByRisk      map[string]int
	Fails               map[string]int // by signature
	Risks               map[string]int
	Kinds               map[string]int // clause kinds over accepted cases
	WithParams          int
	WithIncludes        int
	WithExtends         int
	WithMultiActor      int
	WithMultiLine       int
	WithMergedStory     int
	WithEdit            int
	WithRepeat          int
	WithLike            int
	WithInterp          int
	InterleavedAudience int
	InCoq               int
	PrintedUnparsed     int
	DistinctNontrivial  int
	Shards              int
	Samples             []string
	FailIdx             []int
	CoqIds              []int // case ids in the Coq shards, in order
	Unreadable          []int // accepted cases without planted text-level shape whose printed text the harness could not read back
}

type summariser struct {
	s        *summary
	distinct map[string]bool
}

func newSummariser(seed int64, tier string) *summariser {
	return &summariser{s: &summary{Seed: seed, Tier: tier, RejectedByRisk: map[string]int{}, Fails: map[string]int{},
		Risks: map[string]int{}, Kinds: map[string]int{}}, distinct: map[string]bool{}}
}

// add accounts for one case (called before the case is lightened).
func (z *summariser) add(i int, c *Case) {
	s := z.s
	s.Cases++
	if c.Risk != "" {
		s.Risks[c.Risk]++
	}
	if c.Fail != "" {
		s.Fails[c.Sig]++
		s.FailIdx = append(s.FailIdx, i)
	}
	if !c.A.Accepted {
		s.Rejected++
		s.RejectedByRisk[c.Risk]++
		return
	}
	s.Accepted++
	if c.PrintedA == nil {
		s.PrintedUnparsed++
		if !c.TextRisk {
			s.Unreadable = append(s.Unreadable, i)
		}
	}
	kinds := map[string]bool{}
	story := 0
	multiline := false
	lastM := ""
	seenM := map[string]bool{}
	interleaved := false
	for _, cl := range c.Raw {
		kinds[cl.K] = true
		s.Kinds[cl.K]++
		if cl.K == "storyline" {
			story++
		}
		if cl.K == "role" {
			if cl.Name2 != "" {
				kinds["extends"] = true
			}
			for _, l := range cl.Lines {
				if containsNL(l.Text) {
					multiline = true
				}
			}
		}
		if cl.K == "cast" {
			if cl.Star {
				kinds["multi"] = true
			}
			if containsNL(cl.Text) {
				multiline = true
			}
		}
		if cl.section() == "audience" {
			if cl.M != lastM {
				if seenM[cl.M] {
					interleaved = true
				}
				lastM = cl.M
			}
			seenM[cl.M] = true
		}
	}
	b2i := func(b bool) int {
		if b {
			return 1
		}
		return 0
	}
	s.WithParams += b2i(len(c.Params) > 0)
	s.WithIncludes += b2i(len(c.Files) > 1)
	s.WithExtends += b2i(kinds["extends"])
	s.WithMultiActor += b2i(kinds["multi"])
	s.WithMultiLine += b2i(multiline)
	s.WithMergedStory += b2i(story > 1)
	s.WithEdit += b2i(kinds["edit"])
	s.WithRepeat += b2i(kinds["repeatfrom"])
	s.WithLike += b2i(kinds["expectslike"])
	s.WithInterp += b2i(kinds["interp"] || kinds["ignoreall"])
	s.InterleavedAudience += b2i(interleaved)
	// non-trivial: accepted, has a cast, a non-empty play and an audience
	if c.A.Cfg != nil && len(c.A.Cfg.Actors) > 0 && len(c.A.Cfg.Play) > 0 && len(c.A.Cfg.Audience) > 0 {
		z.distinct[c.A.Printed] = true
	}
	if len(s.Samples) < 3 && len(c.Files) > 1 && len(c.Params) > 0 {
		s.Samples = append(s.Samples, c.Files["m.cfg"])
	}
}

func containsNL(s string) bool {
	for i := 0; i < len(s); i++ {
		if s[i] == '\n' {
			return true
		}
	}
	return false
}

// lighten drops what is not needed once a case is summarised and emitted.
func lighten(c *Case) {
	c.A.Cfg, c.A.Full, c.A.Annot, c.A.Asm = nil, "", "", nil
	c.R2.Cfg, c.R2.Full, c.R2.Annot = nil, "", ""
	c.B, c.R3 = obs{}, obs{}
	c.PrintedA, c.Printed2 = nil, nil
}

// run generates count cases, streaming: shards of shardSize cases in the
// Coq domain are written as they fill up; cases.json keeps every case in the
// quick tier, the failing ones and a sample otherwise (any other can be
// regenerated: `c10 -seed S -tier T -dump ID`).
func run(count int, seed int64, tier, out string, dump int, fixed []*Case) {
	r := vh.Rng(seed)
	z := newSummariser(seed, tier)
	keep := map[string]*Case{}
	var shard strings.Builder
	var names []string
	shards := 0
	flush := func() {
		if len(names) == 0 {
			return
		}
		fmt.Fprintf(&shard, "Definition cases : list c10_case := %s.\n", vh.ListNL(names))
		vh.WriteFile(out, fmt.Sprintf("cases_%d.v", shards), shard.String())
		shards++
		shard.Reset()
		names = nil
	}
	for i := 0; i < count; i++ {
		var c *Case
		if fixed != nil {
			c = fixed[i]
		} else {
			c = buildCase(i, r, tier)
		}
		if dump == i {
			b, _ := json.MarshalIndent(c, "", " ")
			fmt.Println(string(b))
			return
		}
		z.add(i, c)
		c.InCoq = inCoqDomain(c)
		if c.InCoq {
			n := fmt.Sprintf("c%d", len(names))
			names = append(names, n)
			fmt.Fprintf(&shard, "(* case %d *)\n%s\n", c.Id, coqCase(n, c))
			z.s.InCoq++
			z.s.CoqIds = append(z.s.CoqIds, i)
			if len(names) == shardSize {
				flush()
			}
		}
		lighten(c)
		if tier != "thorough" || c.Fail != "" || i%50 == 0 {
			keep[fmt.Sprint(c.Id)] = c
		}
	}
	flush()
	z.s.Shards = shards
	z.s.DistinctNontrivial = len(z.distinct)
	sort.Ints(z.s.FailIdx)
	vh.WriteJSON(out, "summary.json", z.s)
	vh.WriteJSON(out, "cases.json", map[string]interface{}{"cases": keep})
}
