package main

import (
	"fmt"
	"sort"

	"github.com/knz/shakespeare/verifharness/vh"
)

type summary struct {
	Seed                int64
	Tier                string
	Cases               int
	Accepted            int
	Rejected            int
	RejectedByRisk      map[string]int
	Fails               map[string]int // by signature
	Risks               map[string]int
	Kinds               map[string]int // clause kinds over accepted cases
	WithParams          int
	WithIncludes        int
	WithExtends         int
	WithMultiActor      int
	WithMultiLine       int
	WithMergedStory     int
	WithEdit            int
	WithRepeat          int
	WithLike            int
	WithInterp          int
	InterleavedAudience int
	InCoq               int
	PrintedUnparsed     int
	DistinctNontrivial  int
	Shards              int
	Samples             []string
	FailIdx             []int
	CoqIds              []int // case ids in the Coq shards, in order
}

func summarise(cases []*Case, seed int64, tier string) *summary {
	s := &summary{Seed: seed, Tier: tier, Cases: len(cases), RejectedByRisk: map[string]int{}, Fails: map[string]int{},
		Risks: map[string]int{}, Kinds: map[string]int{}}
	distinct := map[string]bool{}
	for i, c := range cases {
		if c.Risk != "" {
			s.Risks[c.Risk]++
		}
		if c.Fail != "" {
			s.Fails[c.Sig]++
			s.FailIdx = append(s.FailIdx, i)
		}
		if !c.A.Accepted {
			s.Rejected++
			s.RejectedByRisk[c.Risk]++
			continue
		}
		s.Accepted++
		if c.PrintedA == nil {
			s.PrintedUnparsed++
		}
		if c.InCoq {
			s.InCoq++
		}
		kinds := map[string]bool{}
		story := 0
		multiline := false
		lastM, switches := "", 0
		seenM := map[string]bool{}
		interleaved := false
		for _, cl := range c.Raw {
			kinds[cl.K] = true
			s.Kinds[cl.K]++
			if cl.K == "storyline" {
				story++
			}
			if cl.K == "role" {
				if cl.Name2 != "" {
					kinds["extends"] = true
				}
				for _, l := range cl.Lines {
					if containsNL(l.Text) {
						multiline = true
					}
				}
			}
			if cl.K == "cast" && (cl.Star || containsNL(cl.Text)) {
				if cl.Star {
					kinds["multi"] = true
				}
				if containsNL(cl.Text) {
					multiline = true
				}
			}
			if cl.section() == "audience" {
				if cl.M != lastM {
					if seenM[cl.M] {
						interleaved = true
					}
					switches++
					lastM = cl.M
				}
				seenM[cl.M] = true
			}
		}
		b2i := func(b bool) int {
			if b {
				return 1
			}
			return 0
		}
		s.WithParams += b2i(len(c.Params) > 0)
		s.WithIncludes += b2i(len(c.Files) > 1)
		s.WithExtends += b2i(kinds["extends"])
		s.WithMultiActor += b2i(kinds["multi"])
		s.WithMultiLine += b2i(multiline)
		s.WithMergedStory += b2i(story > 1)
		s.WithEdit += b2i(kinds["edit"])
		s.WithRepeat += b2i(kinds["repeatfrom"])
		s.WithLike += b2i(kinds["expectslike"])
		s.WithInterp += b2i(kinds["interp"] || kinds["ignoreall"])
		s.InterleavedAudience += b2i(interleaved)
		// non-trivial: accepted, has a cast, a non-empty play and an audience
		if c.A.Cfg != nil && len(c.A.Cfg.Actors) > 0 && len(c.A.Cfg.Play) > 0 && len(c.A.Cfg.Audience) > 0 {
			distinct[c.A.Printed] = true
		}
	}
	s.DistinctNontrivial = len(distinct)
	for i := 0; i < len(cases) && len(s.Samples) < 3; i++ {
		if cases[i].A.Accepted && len(cases[i].Files) > 1 && len(cases[i].Params) > 0 {
			s.Samples = append(s.Samples, cases[i].Files["m.cfg"])
		}
	}
	sort.Ints(s.FailIdx)
	return s
}

func containsNL(s string) bool {
	for i := 0; i < len(s); i++ {
		if s[i] == '\n' {
			return true
		}
	}
	return false
}

func writeAll(cases []*Case, out string, seed int64, tier string) {
	s := summarise(cases, seed, tier)
	s.Shards = writeCoq(cases, out)
	s.InCoq = 0
	for i, c := range cases {
		if c.InCoq {
			s.InCoq++
			s.CoqIds = append(s.CoqIds, i)
		}
	}
	vh.WriteJSON(out, "summary.json", s)
	// cases.json: by case id.  Every case in the quick tier; in the larger
	// tiers the failing ones and a sample (any other can be regenerated:
	// `c10 -seed S -tier T -dump ID`).
	keep := map[string]*Case{}
	for i, c := range cases {
		if tier != "thorough" || c.Fail != "" || i%50 == 0 {
			keep[fmt.Sprint(c.Id)] = c
		}
	}
	vh.WriteJSON(out, "cases.json", map[string]interface{}{"cases": keep})
}
