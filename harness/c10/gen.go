package main

import (
	"fmt"
	"math/rand"
	"strconv"
	"strings"
)

// ---------------------------------------------------------------------------
// Clauses: one value per accepted line kind, fields already split.  A role is
// one clause (header + its lines): its definition is atomic for the parser.
//
// Field use per kind K:
//
//	title author attention : Text
//	param                  : Name, Text (default value)
//	role                   : Name, Name2 (extends, "" = none), Lines
//	cast                   : Name (actor), Star, Text2 (multiplicity, "" = `plays`), Name2 (role), Text (with-env)
//	tempo                  : Text (duration)
//	entails                : Name (scene char), Every, Name2 (actor or role), List (actions, `?` included)
//	moodstart moodend      : Name (scene char), Text (mood)
//	storyline              : Text
//	edit                   : Text (pattern), Text2 (replacement)   [Flag: separator + optional g]
//	repeatfrom             : Text (regexp)
//	repeatcount repeattime : Text
//	repeatalways           : -
//	watches                : M, Every, Name2 (actor or role), Name (signal)
//	watchvar               : M, Name (variable)
//	measures               : M, Text
//	onlyhelps              : M
//	audits                 : M, Text (expression)   [Flag: "when" or "while"]
//	auditsall              : M                       (audits throughout)
//	expects                : M, Text2 (modality), Text (expression)
//	expectslike            : M, Name2 (target member)
//	collects               : M, Name (variable), Text2 (mode), N, Text (expression)
//	computes               : M, Name (variable), Text (expression)
//	ignoreall              : Text2 (disappointment|satisfaction)
//	interp                 : Text (ignore|foul|require), Name2 (member), Text2 (result)
type RoleLine struct {
	K    string // action | spotlight | cleanup | signal
	Name string // action / signal name
	Typ  string // signal type
	Text string // command / regexp
}

type Clause struct {
	K     string
	M     string     `json:",omitempty"`
	Name  string     `json:",omitempty"`
	Name2 string     `json:",omitempty"`
	Every bool       `json:",omitempty"`
	Star  bool       `json:",omitempty"`
	Text  string     `json:",omitempty"`
	Text2 string     `json:",omitempty"`
	N     string     `json:",omitempty"`
	List  []string   `json:",omitempty"`
	Lines []RoleLine `json:",omitempty"`
	Flag  string     `json:",omitempty"`
}

func (c Clause) section() string {
	switch c.K {
	case "title", "author", "attention", "param", "role":
		return "top"
	case "cast":
		return "cast"
	case "tempo", "entails", "moodstart", "moodend", "storyline", "edit", "repeatfrom", "repeatcount", "repeattime", "repeatalways":
		return "script"
	case "ignoreall", "interp":
		return "interpretation"
	}
	return "audience"
}

// ---------------------------------------------------------------------------
// generator state

type gSig struct{ name, typ string }
type gRole struct {
	name      string
	actions   []string
	sigs      []gSig
	spotlight bool
}
type gActor struct{ name, role string }
type gMember struct {
	name               string
	idx                int
	hasCond, hasExpect bool
	expectDeps         []string // variables / signal refs ("v" or "actor sig") of its own expects expression
	watching           map[string]bool
}
type gVar struct {
	name    string
	array   bool
	definer int // member index, -1 = builtin
}

type gen struct {
	r        *rand.Rand
	risk     string // "" = none; see risks
	roles    []*gRole
	actors   []gActor
	scenes   []byte
	used     []byte // scene chars used in a storyline so far
	members  []*gMember
	vars     []gVar
	cl       []Clause
	names    map[string]bool
	hasStory bool
	hasFrom  bool
	notes    []string
}

// risks: shapes known to break the reload (listed findings), planted at a low
// rate; "stale-repeat" and "like-unshielded" are shapes that used to break it
// (repaired in /repo) and stay as regression shapes.
// "inherit-signal" is a near-miss: a role that extends another and declares an
// inherited signal again must be refused at first load; should it ever be
// accepted, the reload oracle applies (its flattened print has the signal
// twice).
var risks = []string{"order", "stale-repeat", "param-in-value", "param-empty", "param-space",
	"newline-field", "ts-twice", "like-unshielded", "inherit-signal"}

func (g *gen) p(x float64) bool       { return g.r.Float64() < x }
func (g *gen) pick(l []string) string { return l[g.r.Intn(len(l))] }

var roleNamePool = []string{"doctor", "nurse", "patient", "surgeon", "r2d2", "idle_", "Clerk", "médecin", "w", "road", "porch", "db"}
var actorNamePool = []string{"bob", "alice", "carol", "dave", "eve", "n1_", "x", "Zed", "srv", "elmstreet", "theporch", "医"}
var memberNamePool = []string{"al", "beth", "candice", "david", "ed", "fay", "gus", "hal", "obs_1", "aud2"}
var varNamePool = []string{"v", "w", "last_t", "bin", "acc", "lat", "cnt", "x1", "y_"}
var actionNamePool = []string{"cure", "sleep", "op", "help", "rest", "nap", "go", "a1", "car", "~k~", "put$"}
var sigNamePool = []string{"cure", "op", "feel", "lat", "qps", "ev", "temp", "ride", "s", "~z~", "err="}
var moodPool = []string{"blue", "red", "clear", "rain", "m1", "~"}
var modalities = []string{"always", "never", "once", "twice", "thrice", "not always", "eventually", "eventually always", "always eventually", "at most once"}
var titlePool = []string{"100%s sure", "rate %d%% of %[1]d", "a midsummer's dream", "traffic # test", "Title: with colon", "x", "café au lait", "role model", "end", "say \"hi\" & <bye>", "50% off; now"}
var authorPool = []string{"%!s(author) 5%", "shakespeare", "knz <knz@example.com>", "~p~ is not expanded here", "a # b", "J. R. \"Bob\" Dobbs"}
var attentionPool = []string{"load %d%% %v", "this is fiction", "see http://x/y?z=1#frag", "do not run on prod", "attention attention"}
var labelPool = []string{"cpu %", "%s per %[1]d", "time", "latency (ms)", "events / s", "~p~ raw", "y # label", "expects always: no"}
var cmdPool = []string{"date +%s.%N", "printf 'load %d%%\\n' 5", "echo %!s %[1]d 100%", "true", "echo a", "echo medecine >>actions.log", "tail -F actions.log", "echo $i; sleep 0.1",
	"printf 'a\\\\n' # not a comment", "echo ~p~ stays", "rm -f *.log", "echo \"x y\"  z", "touch log; tail -F log | sed -e 's/a/b/'"}
var multiCmdPool = []string{"date +%s \n  && printf '%d%%' 3", "echo a \n  && echo b", "for i in 1 2; do \n  echo $i\n done", "cat <<EOF\nfoo\n# bar\nEOF",
	"echo one\necho two", "echo a \\\\\n b", "if true; then \n\techo t\nfi"}
var envPool = []string{"FMT=%s.%N P=50%", "R=%d%% Q=%[1]d", "A=1", "patient=alice", "X=\"a b\" Y=2", "PATH=/bin:$PATH", "K='q' # c", "a=1 with b=2"}
var multiEnvPool = []string{"A=1 \n  B=2", "X=1\nY=2"}
var durPool = []string{"1s", "300ms", "1500ms", "2m", "1h", "100us", "1m30s", "0s", "10ms", "2.5s", "1h0m0s", "1.5s", "250us", "7ns"}

func (g *gen) fresh(pool []string) string {
	for i := 0; i < 50; i++ {
		n := g.pick(pool)
		if i > 20 {
			n = n + strconv.Itoa(g.r.Intn(90)+2)
		}
		if !g.names[n] {
			g.names[n] = true
			return n
		}
	}
	n := fmt.Sprintf("n%d", len(g.names))
	g.names[n] = true
	return n
}

func (g *gen) cmd() string {
	if g.p(0.3) {
		return g.pick(multiCmdPool)
	}
	return g.pick(cmdPool)
}

var tsGroups = []string{"(?P<ts_now>)", "(?P<ts_log>)", "(?P<ts_rfc3339>)", "(?P<ts_deltasecs>)", "(?P<ts_now>.)", "(?P<ts_deltasecs>\\d+)"}

func (g *gen) sigRe(typ string) string {
	ts := g.pick(tsGroups)
	var val string
	switch typ {
	case "event":
		val = g.pick([]string{"(?P<event>\\d+%s)%%", "(?P<event>medecine)", "(?P<event>.*)", "(?P<event>#\\w+)", "(?P<event>a|b\\\\)", "(?P<event>[^ ]+) ~p~"})
	case "scalar":
		val = g.pick([]string{"(?P<scalar>\\d+)%", "(?P<scalar>\\d+)", "(?P<scalar>[0-9.]+)ms", "v=(?P<scalar>\\S+)  # x"})
	default:
		val = g.pick([]string{"(?P<delta>\\d+)", "n:(?P<delta>[0-9]+)$"})
	}
	switch g.r.Intn(4) {
	case 0:
		return ts + val
	case 1:
		return "^" + ts + " " + val
	case 2:
		return val + " at " + ts
	}
	return ts + ".*?" + val
}

// ---------------------------------------------------------------------------
// items

func (g *gen) addRole() {
	r := &gRole{name: g.fresh(roleNamePool)}
	c := Clause{K: "role", Name: r.name}
	ownSig := map[string]bool{}
	var withSigs []*gRole
	for _, x := range g.roles {
		if len(x.sigs) > 0 {
			withSigs = append(withSigs, x)
		}
	}
	if g.risk == "inherit-signal" && len(withSigs) > 0 {
		par := withSigs[g.r.Intn(len(withSigs))]
		c.Name2 = par.name
		r.actions = append(r.actions, par.actions...)
		r.sigs = append(r.sigs, par.sigs...)
		r.spotlight = par.spotlight
	} else if len(g.roles) > 0 && g.p(0.4) {
		par := g.roles[g.r.Intn(len(g.roles))]
		c.Name2 = par.name
		r.actions = append(r.actions, par.actions...)
		r.sigs = append(r.sigs, par.sigs...)
		r.spotlight = par.spotlight
	}
	hasAct := func(n string) bool {
		for _, a := range r.actions {
			if a == n {
				return true
			}
		}
		return false
	}
	hasSig := func(n string) bool {
		for _, s := range r.sigs {
			if s.name == n {
				return true
			}
		}
		return false
	}
	n := g.r.Intn(6)
	if len(g.roles) == 0 {
		n += 2
	}
	firstSig := g.risk == "inherit-signal" && len(g.roles) == 0
	forceSig := g.risk == "inherit-signal" && len(r.sigs) > 0
	if forceSig {
		n++
	}
	for i := 0; i < n; i++ {
		k := g.r.Intn(7)
		if (forceSig || firstSig) && i == 0 {
			k = 6
		}
		switch k {
		case 0, 1, 2:
			a := g.pick(actionNamePool)
			if hasAct(a) {
				continue
			}
			r.actions = append(r.actions, a)
			c.Lines = append(c.Lines, RoleLine{K: "action", Name: a, Text: g.cmd()})
		case 3:
			c.Lines = append(c.Lines, RoleLine{K: "cleanup", Text: g.cmd()})
		case 4:
			r.spotlight = true
			c.Lines = append(c.Lines, RoleLine{K: "spotlight", Text: g.cmd()})
		default:
			s := g.pick(sigNamePool)
			if forceSig && i == 0 {
				s = r.sigs[g.r.Intn(len(r.sigs))].name
			}
			if ownSig[s] {
				continue
			}
			if hasSig(s) && !forceSig {
				continue // redefining an inherited signal is refused
			}
			typ := g.pick([]string{"event", "scalar", "delta"})
			re := g.sigRe(typ)
			if g.risk == "ts-twice" && g.p(0.7) {
				re = "(?P<ts_log>)" + g.pick([]string{"(?P<event>a)", "(?P<scalar>\\d)", "(?P<delta>\\d)"}) + "|(?P<ts_log>)"
				typ = map[byte]string{'e': "event", 's': "scalar", 'd': "delta"}[re[16]]
			}
			if g.risk == "newline-field" && g.p(0.3) {
				re = re + " \n x"
				g.notes = append(g.notes, "newline in regexp")
			}
			if forceSig && i == 0 {
				g.notes = append(g.notes, "inherited signal declared again")
			}
			ownSig[s] = true
			if !hasSig(s) {
				r.sigs = append(r.sigs, gSig{s, typ})
			}
			c.Lines = append(c.Lines, RoleLine{K: "signal", Name: s, Typ: typ, Text: re})
			if !r.spotlight {
				r.spotlight = true
				c.Lines = append(c.Lines, RoleLine{K: "spotlight", Text: g.cmd()})
			}
		}
	}
	g.r.Shuffle(len(c.Lines), func(i, j int) { c.Lines[i], c.Lines[j] = c.Lines[j], c.Lines[i] })
	g.roles = append(g.roles, r)
	g.cl = append(g.cl, c)
}

func (g *gen) role(name string) *gRole {
	for _, r := range g.roles {
		if r.name == name {
			return r
		}
	}
	return nil
}

func (g *gen) env() string {
	if g.p(0.45) {
		return ""
	}
	if g.p(0.2) {
		return g.pick(multiEnvPool)
	}
	return g.pick(envPool)
}

func (g *gen) addCast() {
	r := g.roles[g.r.Intn(len(g.roles))]
	base := g.fresh(actorNamePool)
	c := Clause{K: "cast", Name: base, Name2: r.name, Text: g.env()}
	if g.p(0.3) {
		n := g.r.Intn(4)
		if g.p(0.8) && n == 0 {
			n = 2
		}
		c.Star = true
		c.Text2 = strconv.Itoa(n)
		if g.p(0.15) {
			c.Text2 = "+" + c.Text2
		}
		if g.p(0.5) && g.role(r.name+"s") == nil && !strings.HasSuffix(r.name, "s") {
			c.Name2 = r.name + "s" // plural for readability
		}
		for i := 1; i <= n; i++ {
			an := base + strconv.Itoa(i)
			g.names[an] = true
			g.actors = append(g.actors, gActor{an, r.name})
		}
	} else {
		g.actors = append(g.actors, gActor{base, r.name})
	}
	g.cl = append(g.cl, c)
}

func (g *gen) actorsOf(role string) []gActor {
	var l []gActor
	for _, a := range g.actors {
		if a.role == role {
			l = append(l, a)
		}
	}
	return l
}

func (g *gen) freeScene() (byte, bool) {
	const alphabet = "abcdefghijkmnopqrstuvwxyzABCDXYZ0123456789"
	for i := 0; i < 30; i++ {
		c := alphabet[g.r.Intn(len(alphabet))]
		if strings.IndexByte(string(g.scenes), c) < 0 {
			return c, true
		}
	}
	return 0, false
}

func (g *gen) sceneChar() byte {
	if len(g.scenes) > 0 && (g.p(0.45) || len(g.scenes) > 7) {
		return g.scenes[g.r.Intn(len(g.scenes))]
	}
	c, ok := g.freeScene()
	if !ok {
		return g.scenes[g.r.Intn(len(g.scenes))]
	}
	return c
}

func (g *gen) addEntails() bool {
	// pick a target with at least one actor and a role with actions
	var cands []gActor
	for _, a := range g.actors {
		if len(g.role(a.role).actions) > 0 {
			cands = append(cands, a)
		}
	}
	if len(cands) == 0 {
		return false
	}
	a := cands[g.r.Intn(len(cands))]
	r := g.role(a.role)
	c := Clause{K: "entails", Name2: a.name}
	if g.p(0.35) {
		c.Every, c.Name2 = true, r.name
	}
	n := 1 + g.r.Intn(3)
	if g.p(0.05) {
		n = 0
	}
	for i := 0; i < n; i++ {
		act := g.pick(r.actions)
		if g.p(0.3) {
			act += "?"
		}
		c.List = append(c.List, act)
	}
	ch := g.sceneChar()
	c.Name = string(ch)
	if strings.IndexByte(string(g.scenes), ch) < 0 {
		g.scenes = append(g.scenes, ch)
	}
	g.cl = append(g.cl, c)
	return true
}

func (g *gen) addMood() {
	ch := g.sceneChar()
	if strings.IndexByte(string(g.scenes), ch) < 0 {
		g.scenes = append(g.scenes, ch)
	}
	k := "moodstart"
	if g.p(0.5) {
		k = "moodend"
	}
	g.cl = append(g.cl, Clause{K: k, Name: string(ch), Text: g.pick(moodPool)})
}

func (g *gen) act() string {
	n := 1 + g.r.Intn(5)
	var b strings.Builder
	for i := 0; i < n; i++ {
		if g.p(0.2) {
			b.WriteByte('.')
			continue
		}
		k := 1
		if g.p(0.25) {
			k = 2 + g.r.Intn(2)
		}
		for j := 0; j < k; j++ {
			if j > 0 {
				b.WriteByte('+')
			}
			c := g.scenes[g.r.Intn(len(g.scenes))]
			b.WriteByte(c)
			if strings.IndexByte(string(g.used), c) < 0 {
				g.used = append(g.used, c)
			}
		}
		if g.p(0.1) {
			b.WriteByte('_')
		}
	}
	return b.String()
}

func (g *gen) addStoryline() bool {
	if len(g.scenes) == 0 {
		return false
	}
	n := 1 + g.r.Intn(4)
	var parts []string
	for i := 0; i < n; i++ {
		parts = append(parts, g.act())
	}
	sep := " "
	if g.p(0.2) {
		sep = "  "
	}
	g.cl = append(g.cl, Clause{K: "storyline", Text: strings.Join(parts, sep)})
	g.hasStory = true
	return true
}

func (g *gen) addEdit() bool {
	if !g.hasStory || len(g.used) == 0 {
		return false
	}
	pat := string(g.used[g.r.Intn(len(g.used))])
	var repl string
	switch g.r.Intn(4) {
	case 0:
		repl = "."
	case 1:
		repl = pat + string(g.scenes[g.r.Intn(len(g.scenes))])
	case 2:
		repl = string(g.scenes[g.r.Intn(len(g.scenes))])
	default:
		repl = string(g.scenes[g.r.Intn(len(g.scenes))]) + "." + pat
	}
	for i := 0; i < len(repl); i++ {
		if repl[i] != '.' && strings.IndexByte(string(g.used), repl[i]) < 0 {
			g.used = append(g.used, repl[i])
		}
	}
	flag := g.pick([]string{"/", "/", ",", "|", "/g", "#g"})
	g.cl = append(g.cl, Clause{K: "edit", Text: pat, Text2: repl, Flag: flag})
	return true
}

func (g *gen) addRepeat() bool {
	switch g.r.Intn(5) {
	case 0, 1:
		if len(g.scenes) == 0 {
			return false
		}
		pool := g.used
		if len(pool) == 0 || g.p(0.15) {
			pool = g.scenes
		}
		re := string(pool[g.r.Intn(len(pool))])
		g.cl = append(g.cl, Clause{K: "repeatfrom", Text: re})
		g.hasFrom = true
		if g.risk == "stale-repeat" && g.hasStory {
			// remove every occurrence of the scene from the storyline
			g.cl = append(g.cl, Clause{K: "edit", Text: re, Text2: ".", Flag: "/"})
		}
	case 2:
		g.cl = append(g.cl, Clause{K: "repeatcount", Text: g.pick([]string{"5", "1", "0", "12", "-3", "007"})})
	case 3:
		if g.p(0.3) {
			g.cl = append(g.cl, Clause{K: "repeatalways"})
		} else {
			g.cl = append(g.cl, Clause{K: "repeattime", Text: g.pick([]string{"unconstrained", "5m", "1s", "90s", "0s", "-5s", "1h30m"})})
		}
	default:
		g.cl = append(g.cl, Clause{K: "tempo", Text: g.pick(durPool)})
	}
	return true
}

// ---------------------------------------------------------------------------
// audience

func (g *gen) member(newOk bool) *gMember {
	if len(g.members) > 0 && (!newOk || g.p(0.65)) {
		return g.members[g.r.Intn(len(g.members))]
	}
	if len(g.members) >= 6 {
		return g.members[g.r.Intn(len(g.members))]
	}
	m := &gMember{name: g.fresh(memberNamePool), idx: len(g.members), watching: map[string]bool{}}
	g.members = append(g.members, m)
	return m
}

// usable variables for member m
func (g *gen) usableVars(m *gMember) (nums, arrays []string) {
	for _, v := range g.vars {
		ok := g.risk == "order" || v.definer <= m.idx
		if !ok {
			continue
		}
		if v.array {
			arrays = append(arrays, v.name)
		} else {
			nums = append(nums, v.name)
		}
	}
	return
}

type sigRef struct{ actor, sig, typ string }

func (g *gen) sigRefs() []sigRef {
	var l []sigRef
	for _, a := range g.actors {
		for _, s := range g.role(a.role).sigs {
			l = append(l, sigRef{a.name, s.name, s.typ})
		}
	}
	return l
}

// exprSigRefs: the signals an expression may mention (expressions are
// preprocessed, so a name like ~z~ would be taken for a parameter)
func (g *gen) exprSigRefs() []sigRef {
	var l []sigRef
	for _, s := range g.sigRefs() {
		if !strings.Contains(s.sig, "~") && !strings.Contains(s.actor, "~") {
			l = append(l, s)
		}
	}
	return l
}

func (g *gen) num() string {
	return g.pick([]string{"0", "1", "5", "10", "2.5", "100", "0.25", "3"})
}

// numeric atom; deps collects the variable names used
func (g *gen) numAtom(m *gMember, deps *[]string) string {
	nums, arrays := g.usableVars(m)
	refs := g.exprSigRefs()
	switch g.r.Intn(7) {
	case 0, 1:
		v := g.pick(nums)
		*deps = append(*deps, v)
		return v
	case 2:
		if len(refs) > 0 {
			for i := 0; i < 4; i++ {
				s := refs[g.r.Intn(len(refs))]
				if s.typ != "event" {
					*deps = append(*deps, s.actor+" "+s.sig)
					return "[" + s.actor + " " + s.sig + "]"
				}
			}
		}
		return g.num()
	case 3:
		if len(arrays) > 0 {
			a := g.pick(arrays)
			*deps = append(*deps, a)
			return g.pick([]string{"count", "sum", "avg", "med", "min", "max", "first", "last"}) + "(" + a + ")"
		}
		return g.num()
	case 4:
		v := g.pick(nums)
		*deps = append(*deps, v)
		return g.pick([]string{"abs", "floor", "ceil", "round", "sqrt", "log"}) + "(" + v + " - " + g.num() + ")"
	}
	return g.num()
}

func (g *gen) numExpr(m *gMember, deps *[]string) string {
	a := g.numAtom(m, deps)
	switch g.r.Intn(6) {
	case 0:
		return a + " " + g.pick([]string{"+", "-", "*", "/", "%"}) + " " + g.numAtom(m, deps)
	case 1:
		return "(" + a + " + " + g.numAtom(m, deps) + ") / 2"
	case 2:
		return g.boolAtom(m, deps) + " ? " + a + " : " + g.num()
	case 3:
		return "ndiff(" + a + ", " + g.numAtom(m, deps) + ")"
	}
	return a
}

func (g *gen) boolAtom(m *gMember, deps *[]string) string {
	refs := g.exprSigRefs()
	switch g.r.Intn(8) {
	case 0:
		*deps = append(*deps, "mood")
		return "mood " + g.pick([]string{"==", "!="}) + " '" + g.pick([]string{"blue", "red", "clear", "%s", "50%%", "%d%[1]v"}) + "'"
	case 1:
		if len(refs) > 0 {
			s := refs[g.r.Intn(len(refs))]
			*deps = append(*deps, s.actor+" "+s.sig)
			if s.typ == "event" {
				return "[" + s.actor + " " + s.sig + "] " + g.pick([]string{"==", "!=", "=~"}) + " 'x'"
			}
			return "[" + s.actor + " " + s.sig + "] " + g.pick([]string{"<", ">", "<=", ">=", "=="}) + " " + g.num()
		}
	case 2:
		return g.pick([]string{"true", "false", "!false"})
	}
	return g.numAtom(m, deps) + " " + g.pick([]string{"<", ">", "<=", ">=", "==", "!="}) + " " + g.numAtom(m, deps)
}

func (g *gen) boolExpr(m *gMember, deps *[]string) string {
	a := g.boolAtom(m, deps)
	switch g.r.Intn(5) {
	case 0:
		return a + " && " + g.boolAtom(m, deps)
	case 1:
		return a + " || " + g.boolAtom(m, deps)
	case 2:
		return "!(" + a + ")"
	case 3:
		return "(" + a + " && " + g.boolAtom(m, deps) + ") || " + g.boolAtom(m, deps)
	}
	return a
}

func (g *gen) maybeNewline(e string) string {
	if g.risk == "newline-field" && g.p(0.3) && strings.Contains(e, " ") {
		g.notes = append(g.notes, "newline in expression")
		i := strings.Index(e, " ")
		return e[:i] + " \n" + e[i:]
	}
	return e
}

func (g *gen) varDefined(n string) bool {
	for _, v := range g.vars {
		if v.name == n {
			return true
		}
	}
	return false
}

func (g *gen) addAudience() bool {
	m := g.member(true)
	refs := g.sigRefs()
	for try := 0; try < 8; try++ {
		switch g.r.Intn(12) {
		case 0, 1: // watches signal
			if len(refs) == 0 {
				continue
			}
			s := refs[g.r.Intn(len(refs))]
			c := Clause{K: "watches", M: m.name, Name2: s.actor, Name: s.sig}
			if g.p(0.3) {
				var role string
				for _, a := range g.actors {
					if a.name == s.actor {
						role = a.role
					}
				}
				c.Every, c.Name2 = true, role
				for _, a := range g.actorsOf(role) {
					m.watching[a.name+" "+s.sig] = true
				}
			} else {
				m.watching[s.actor+" "+s.sig] = true
			}
			g.cl = append(g.cl, c)
			return true
		case 2: // watches var
			nums, arrays := g.usableVars(m)
			l := append(nums, arrays...)
			v := g.pick(l)
			m.watching[v] = true
			g.cl = append(g.cl, Clause{K: "watchvar", M: m.name, Name: v})
			return true
		case 3:
			l := g.pick(labelPool)
			if g.risk == "newline-field" && g.p(0.3) {
				l = "two \n lines"
				g.notes = append(g.notes, "newline in label")
			}
			g.cl = append(g.cl, Clause{K: "measures", M: m.name, Text: l})
			return true
		case 4:
			if g.p(0.5) {
				continue
			}
			g.cl = append(g.cl, Clause{K: "onlyhelps", M: m.name})
			return true
		case 5: // audits
			if m.hasCond {
				continue
			}
			m.hasCond = true
			if g.p(0.3) {
				g.cl = append(g.cl, Clause{K: "auditsall", M: m.name})
				return true
			}
			var deps []string
			e := g.boolExpr(m, &deps)
			g.cl = append(g.cl, Clause{K: "audits", M: m.name, Text: g.maybeNewline(e), Flag: g.pick([]string{"while", "when"})})
			return true
		case 6, 7: // expects
			if m.hasExpect {
				continue
			}
			likeP := 0.45
			if g.risk == "like-unshielded" {
				likeP = 0.9
			}
			if g.p(likeP) {
				// expects like
				var cands []*gMember
				for _, t := range g.members {
					if t.hasExpect && t != m && (g.risk == "order" || t.idx < m.idx) {
						cands = append(cands, t)
					}
				}
				if len(cands) == 0 {
					continue
				}
				t := cands[g.r.Intn(len(cands))]
				if g.risk != "like-unshielded" && g.p(0.5) {
					// make m watch everything the copied predicate depends on,
					// so that the known `expects like` defect does not show
					for _, d := range t.expectDeps {
						if m.watching[d] {
							continue
						}
						m.watching[d] = true
						if i := strings.Index(d, " "); i >= 0 {
							g.cl = append(g.cl, Clause{K: "watches", M: m.name, Name2: d[:i], Name: d[i+1:]})
						} else {
							g.cl = append(g.cl, Clause{K: "watchvar", M: m.name, Name: d})
						}
					}
				}
				m.hasExpect, m.hasCond = true, true
				m.expectDeps = t.expectDeps
				g.cl = append(g.cl, Clause{K: "expectslike", M: m.name, Name2: t.name})
				return true
			}
			var deps []string
			e := g.boolExpr(m, &deps)
			m.hasExpect, m.hasCond = true, true
			m.expectDeps = deps
			for _, d := range deps {
				m.watching[d] = true
			}
			g.cl = append(g.cl, Clause{K: "expects", M: m.name, Text2: g.pick(modalities), Text: g.maybeNewline(e)})
			return true
		case 8, 9: // computes
			v := g.pick(varNamePool)
			if g.varDefined(v) {
				continue
			}
			var deps []string
			e := g.numExpr(m, &deps)
			for _, d := range deps {
				m.watching[d] = true
			}
			m.hasCond = true
			g.vars = append(g.vars, gVar{v, false, m.idx})
			g.cl = append(g.cl, Clause{K: "computes", M: m.name, Name: v, Text: g.maybeNewline(e)})
			return true
		case 10: // collects
			v := g.pick(varNamePool)
			if g.varDefined(v) {
				continue
			}
			var deps []string
			e := g.numExpr(m, &deps)
			for _, d := range deps {
				m.watching[d] = true
			}
			m.hasCond = true
			g.vars = append(g.vars, gVar{v, true, m.idx})
			g.cl = append(g.cl, Clause{K: "collects", M: m.name, Name: v, Text2: g.pick([]string{"first", "last", "top", "bottom"}),
				N: g.pick([]string{"1", "3", "5", "10", "02"}), Text: e})
			return true
		}
	}
	g.cl = append(g.cl, Clause{K: "measures", M: m.name, Text: g.pick(labelPool)})
	return true
}

func (g *gen) addInterp() bool {
	res := g.pick([]string{"disappointment", "satisfaction"})
	if g.p(0.25) {
		g.cl = append(g.cl, Clause{K: "ignoreall", Text2: res})
		return true
	}
	if len(g.members) == 0 {
		return false
	}
	m := g.members[g.r.Intn(len(g.members))]
	g.cl = append(g.cl, Clause{K: "interp", Text: g.pick([]string{"ignore", "foul", "require"}), Name2: m.name, Text2: res})
	return true
}

func (g *gen) addTop() {
	switch g.r.Intn(3) {
	case 0:
		t := g.pick(titlePool)
		if g.risk == "newline-field" && g.p(0.5) {
			t = "foo \n  bar"
			g.notes = append(g.notes, "newline in title")
		}
		g.cl = append(g.cl, Clause{K: "title", Text: t})
	case 1:
		g.cl = append(g.cl, Clause{K: "author", Text: g.pick(authorPool)})
	default:
		g.cl = append(g.cl, Clause{K: "attention", Text: g.pick(attentionPool)})
	}
}

// generate builds one configuration: a list of clauses (final values, no
// parameters yet).
func generate(r *rand.Rand, risk string, size int) *gen {
	g := &gen{r: r, risk: risk, names: map[string]bool{}}
	g.vars = []gVar{{"t", false, -1}, {"mood", false, -1}, {"moodt", false, -1}}
	g.addRole()
	for len(g.cl) < size {
		w := g.r.Intn(100)
		switch {
		case w < 8:
			g.addTop()
		case w < 16:
			if len(g.roles) < 4 {
				g.addRole()
			}
		case w < 28:
			g.addCast()
		case w < 42:
			if !g.addEntails() {
				g.addCast()
			}
		case w < 47:
			g.addMood()
		case w < 57:
			g.addStoryline()
		case w < 61:
			g.addEdit()
		case w < 68:
			g.addRepeat()
		case w < 93:
			if len(g.actors) == 0 && g.p(0.7) {
				g.addCast()
			} else {
				g.addAudience()
			}
		default:
			g.addInterp()
		}
	}
	if risk == "order" {
		// an observer declared before the member that computes what it uses
		if len(g.members) == 0 {
			m := g.member(true)
			g.cl = append(g.cl, Clause{K: "measures", M: m.name, Text: g.pick(labelPool)})
		}
		m0 := g.members[g.r.Intn(len(g.members))]
		def := &gMember{name: g.fresh(memberNamePool), idx: len(g.members), watching: map[string]bool{}}
		g.members = append(g.members, def)
		v := "late_" + g.pick(varNamePool)
		if g.p(0.5) {
			g.cl = append(g.cl, Clause{K: "computes", M: def.name, Name: v, Text: "t * 2"})
		} else {
			g.cl = append(g.cl, Clause{K: "collects", M: def.name, Name: v, Text2: "last", N: "3", Text: "moodt"})
		}
		g.vars = append(g.vars, gVar{v, false, def.idx})
		switch {
		case g.p(0.5):
			g.cl = append(g.cl, Clause{K: "watchvar", M: m0.name, Name: v})
		case !m0.hasExpect && g.p(0.5):
			g.cl = append(g.cl, Clause{K: "expects", M: m0.name, Text2: "always", Text: "count(" + v + ") >= 0 || " + v + " > 0"})
		default:
			g.cl = append(g.cl, Clause{K: "computes", M: m0.name, Name: "use_" + v, Text: v + " ?? 0"})
		}
	}
	if risk == "inherit-signal" && len(g.notes) == 0 {
		g.addRole()
	}
	if risk == "like-unshielded" {
		var t *gMember
		for _, m := range g.members {
			if m.hasExpect {
				t = m
			}
		}
		if t == nil {
			t = &gMember{name: g.fresh(memberNamePool), idx: len(g.members), watching: map[string]bool{}}
			g.members = append(g.members, t)
			var deps []string
			e := g.boolExpr(t, &deps)
			t.hasExpect, t.hasCond, t.expectDeps = true, true, deps
			g.cl = append(g.cl, Clause{K: "expects", M: t.name, Text2: g.pick(modalities), Text: e})
		}
		a := &gMember{name: g.fresh(memberNamePool), idx: len(g.members), watching: map[string]bool{}, hasExpect: true, hasCond: true}
		g.members = append(g.members, a)
		g.cl = append(g.cl, Clause{K: "expectslike", M: a.name, Name2: t.name})
	}
	// most configurations should have a play
	if !g.hasStory && g.p(0.8) {
		if len(g.actors) == 0 {
			g.addCast()
		}
		if len(g.scenes) == 0 {
			if !g.addEntails() {
				g.addMood()
			}
		}
		g.addStoryline()
	}
	return g
}
