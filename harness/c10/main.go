// Harness for C10: generates accepted configurations covering the documented
// syntax, runs the real reader + parser + compiler + printer on them
// (cmd.VerifC10Parse), feeds the printed configuration back, and compares.
// Writes the cases as Coq terms (cases_<shard>.v), as JSON (cases.json) and a
// summary.
package main

import (
	"encoding/json"
	"flag"
	"fmt"
	"hash/fnv"
	"html"
	"io/ioutil"
	"math/rand"
	"os"
	"regexp"
	"sort"
	"strings"

	"github.com/knz/shakespeare/pkg/cmd"
)

type obs struct {
	Accepted bool
	Printed  string
	Full     string `json:"-"`
	Annot    string `json:"-"`
	Steps    string
	Err      string `json:",omitempty"`
	Panic    string `json:",omitempty"`
	Hash     uint32
	Cfg      *cmd.VerifC10Cfg `json:"-"`
	// what the real assemble() stores in result.js (first load only)
	Asm *cmd.VerifC10Assembled `json:"-"`
}

func parse(files map[string]string, main string, defines, incPath []string) obs {
	r := cmd.VerifC10Parse(files, main, defines, incPath)
	o := obs{Printed: r.Printed, Full: r.PrintedFull, Annot: r.PrintedAnnot, Steps: r.Steps, Err: r.ErrShort, Panic: r.Panic, Hash: r.Hash, Cfg: r.Cfg}
	o.Accepted = r.Err == "" && r.Panic == "" && r.Cfg != nil
	return o
}

func parseText(text string) obs {
	return parse(map[string]string{"m.cfg": text}, "m.cfg", nil, []string{""})
}

type Case struct {
	Id       int
	Risk     string   `json:",omitempty"`
	Notes    []string `json:",omitempty"`
	Final    []Clause // generated clauses, values inlined
	Raw      []Clause // with ~parameters~ and `parameter` clauses: what the files contain
	Params   []param  `json:",omitempty"`
	Defines  []string `json:",omitempty"`
	Files    map[string]string
	Main     string
	IncPath  []string
	Plain    string   // Final rendered plainly
	A        obs      // the files
	B        obs      `json:"-"` // Plain
	R2       obs      // A.Printed again
	R3       obs      `json:"-"` // A.Full (the -p text with its comments) again
	PrintedA []Clause `json:"-"`
	Printed2 []Clause `json:"-"`
	TextRisk bool     `json:",omitempty"`
	Fail     string   `json:",omitempty"` // which oracle failed ("" = none)
	Sig      string   `json:",omitempty"` // narrow signature of the failure
	Why      string   `json:",omitempty"`
	InCoq    bool
}

// ---------------------------------------------------------------------------
// normalisation of the exported configuration before comparing two loads

func normCfg(c *cmd.VerifC10Cfg) string {
	if c == nil {
		return "null"
	}
	b, _ := json.Marshal(c)
	var d cmd.VerifC10Cfg
	_ = json.Unmarshal(b, &d)
	d.PVars = nil
	if d.RepeatCount < 0 {
		d.RepeatCount = -1
	}
	if d.RepeatTimeout < 0 {
		d.RepeatTimeout = -1
	}
	if len(d.StoryLine) == 0 || !d.HasRepeatFrom {
		// not printed: no play or no repetition point, the limits have no effect
		d.HasRepeatFrom, d.RepeatFrom, d.RepeatCount, d.RepeatTimeout = false, "", -1, -1
	}
	for i := range d.Audience {
		m := &d.Audience[i]
		if !m.HasExpect {
			// interpretation clauses of a member without `expects` are not
			// printed; they have no effect (only `expects` produces the
			// reports the foul conditions count)
			m.FoulOnBad, m.FoulOnGood = 1, 0
		}
		idx := make([]int, len(m.ObsVars))
		for k := range idx {
			idx[k] = k
		}
		sort.Slice(idx, func(a, b int) bool {
			x, y := m.ObsVars[idx[a]], m.ObsVars[idx[b]]
			if x[0] != y[0] {
				return x[0] < y[0]
			}
			return x[1] < y[1]
		})
		ov := make([][2]string, len(idx))
		de := make([]bool, len(idx))
		for k, j := range idx {
			ov[k], de[k] = m.ObsVars[j], m.DrawEvents[j]
		}
		m.ObsVars, m.DrawEvents = ov, de
	}
	sort.Slice(d.Vars, func(a, b int) bool {
		if d.Vars[a].Actor != d.Vars[b].Actor {
			return d.Vars[a].Actor < d.Vars[b].Actor
		}
		return d.Vars[a].Sig < d.Vars[b].Sig
	})
	for i := range d.Vars {
		sort.Strings(d.Vars[i].Watchers)
	}
	out, _ := json.Marshal(&d)
	return string(out)
}

var spanRe = regexp.MustCompile(`<span class=[a-z]+>([^<]*)</span>`)

func stripAnnot(s string) string {
	return spanRe.ReplaceAllStringFunc(s, func(m string) string {
		return html.UnescapeString(spanRe.FindStringSubmatch(m)[1])
	})
}

// ---------------------------------------------------------------------------
// classification of a failed reload into a narrow signature

var paramRefRe = regexp.MustCompile(`~\w+~`)
var undefVarRe = regexp.MustCompile(`variable not defined: "([^"]*)"`)

func usesIn(deps [][2]string, v string) bool {
	for _, d := range deps {
		if d[0] == "" && d[1] == v {
			return true
		}
	}
	return false
}

func firstMatchAct(c *cmd.VerifC10Cfg) int {
	if !c.HasRepeatFrom {
		return 0
	}
	re, err := regexp.Compile(c.RepeatFrom)
	if err != nil {
		return -1
	}
	for i, a := range c.StoryLine {
		if re.MatchString(a) {
			return i + 1
		}
	}
	return 0
}

func hasNewlineField(c *cmd.VerifC10Cfg) bool {
	nl := func(s string) bool { return strings.Contains(s, "\n") }
	for _, l := range [][]string{c.Titles, c.Authors, c.SeeAlso} {
		for _, s := range l {
			if nl(s) {
				return true
			}
		}
	}
	for _, r := range c.Roles {
		for _, s := range r.Sigs {
			if nl(s.Re) {
				return true
			}
		}
	}
	if nl(c.RepeatFrom) {
		return true
	}
	for _, m := range c.Audience {
		if nl(m.ActiveCond) || nl(m.ExpectExpr) || nl(m.YLabel) {
			return true
		}
		for _, a := range m.Assignments {
			if nl(a.Expr) {
				return true
			}
		}
	}
	return false
}

func substitutedTexts(c *cmd.VerifC10Cfg) []string {
	var l []string
	l = append(l, c.Titles...)
	l = append(l, c.SeeAlso...)
	for _, r := range c.Roles {
		l = append(l, r.Name)
	}
	for _, a := range c.Actors {
		l = append(l, a.ExtraEnv)
	}
	for _, m := range c.Audience {
		l = append(l, m.ActiveCond, m.ExpectExpr)
		for _, a := range m.Assignments {
			l = append(l, a.Expr)
		}
	}
	return l
}

func dupSignal(c *cmd.VerifC10Cfg) bool {
	for _, r := range c.Roles {
		seen := map[string]bool{}
		for _, s := range r.Sigs {
			if seen[s.Name] {
				return true
			}
			seen[s.Name] = true
		}
	}
	return false
}

var emptyPseudo = []string{"(?P<ts_rfc3339>)", "(?P<ts_log>)", "(?P<ts_deltasecs>)"}

func pseudoLeft(c *cmd.VerifC10Cfg) bool {
	for _, r := range c.Roles {
		for _, s := range r.Sigs {
			for _, p := range emptyPseudo {
				if strings.Contains(s.Re, p) {
					return true
				}
			}
		}
	}
	return false
}

func edgeSpace(c *cmd.VerifC10Cfg) bool {
	for _, l := range [][]string{c.Titles, c.SeeAlso} {
		for _, s := range l {
			if strings.TrimSpace(s) != s {
				return true
			}
		}
	}
	for _, a := range c.Actors {
		if strings.TrimSpace(a.ExtraEnv) != a.ExtraEnv {
			return true
		}
	}
	return false
}

func emptyText(c *cmd.VerifC10Cfg) bool {
	for _, l := range [][]string{c.Titles, c.SeeAlso} {
		for _, s := range l {
			if s == "" {
				return true
			}
		}
	}
	return false
}

// dropLike removes what the `expects like` defect changes: the watches of the
// members that have an `expects like` clause.
func dropLike(c *cmd.VerifC10Cfg, like map[string]bool) string {
	b, _ := json.Marshal(c)
	var d cmd.VerifC10Cfg
	_ = json.Unmarshal(b, &d)
	for i := range d.Audience {
		if like[d.Audience[i].Name] {
			d.Audience[i].ObsVars, d.Audience[i].DrawEvents = nil, nil
		}
	}
	for i := range d.Vars {
		var w []string
		for _, x := range d.Vars[i].Watchers {
			if !like[x] {
				w = append(w, x)
			}
		}
		d.Vars[i].Watchers = w
	}
	return normCfg(&d)
}

func dropLikeLines(text string, like map[string]bool) string {
	var out []string
	for _, l := range strings.Split(text, "\n") {
		if m := watchLineRe.FindStringSubmatch(l); m != nil && like[m[1]] {
			continue
		}
		out = append(out, l)
	}
	return strings.Join(out, "\n")
}

func classifyReload(c *Case) (sig, why string) {
	a := c.A.Cfg
	if !c.R2.Accepted {
		e := c.R2.Err + c.R2.Panic
		if c.R2.Panic != "" {
			return "reload-panics", e
		}
		if m := undefVarRe.FindStringSubmatch(e); m != nil {
			v := m[1]
			def := -1
			for i, mem := range a.Audience {
				for _, as := range mem.Assignments {
					if as.Var == v {
						def = i
					}
				}
			}
			for i, mem := range a.Audience {
				if i >= def {
					break
				}
				inExpr := usesIn(mem.ActiveDeps, v) || usesIn(mem.ExpectDeps, v)
				for _, as := range mem.Assignments {
					inExpr = inExpr || usesIn(as.Deps, v)
				}
				if inExpr {
					return "uses-before-computes", fmt.Sprintf("member %q (declared before %q, which computes %q) uses %q in an expression: %s", mem.Name, a.Audience[def].Name, v, v, e)
				}
				for _, ov := range mem.ObsVars {
					if ov[0] == "" && ov[1] == v {
						return "watches-before-computes", fmt.Sprintf("member %q (declared before %q, which computes %q) watches %q: %s", mem.Name, a.Audience[def].Name, v, v, e)
					}
				}
			}
		}
		if strings.Contains(e, "undefined parameter") {
			for _, s := range substitutedTexts(a) {
				if paramRefRe.MatchString(s) {
					return "substituted-value-contains-parameter-reference", fmt.Sprintf("substituted text %q: %s", s, e)
				}
			}
		}
		if strings.Contains(e, "duplicate signal name") && dupSignal(a) {
			return "inherited-signal-redefined", e
		}
		if hasNewlineField(a) {
			return "continuation-line-in-unescaped-field", e
		}
		if emptyText(a) {
			return "substituted-value-empty", e
		}
		return "reload-rejected-other", e
	}
	// accepted, but something differs
	if fm := firstMatchAct(a); fm >= 0 && fm != a.RepeatActNum {
		b, _ := json.Marshal(a)
		var d cmd.VerifC10Cfg
		_ = json.Unmarshal(b, &d)
		d.RepeatActNum = fm
		stepsFixed := strings.Replace(c.A.Steps, fmt.Sprintf("# -- REPEATING FROM ACT %d --\n", a.RepeatActNum), "", 1)
		if fm > 0 {
			stepsFixed = strings.Replace(c.A.Steps, fmt.Sprintf("FROM ACT %d --", a.RepeatActNum), fmt.Sprintf("FROM ACT %d --", fm), 1)
		}
		if normCfg(&d) == normCfg(c.R2.Cfg) && stepsFixed == c.R2.Steps && normWatches(dropRepeatComment(c.A.Printed)) == normWatches(dropRepeatComment(c.R2.Printed)) {
			return "stale-repeat-after-edit", fmt.Sprintf("repeatActNum %d but the first act matching %q in %v is %d", a.RepeatActNum, a.RepeatFrom, a.StoryLine, fm)
		}
	}
	if hasNewlineField(a) {
		return "continuation-line-in-unescaped-field", "a field printed without escaping holds a newline"
	}
	if edgeSpace(a) {
		return "substituted-value-edge-whitespace", "a substituted text starts or ends with white space"
	}
	if pseudoLeft(a) {
		return "ts-pseudo-pattern-twice", "a signal regexp still holds an empty time stamp pseudo-pattern after expansion"
	}
	like := map[string]bool{}
	for _, cl := range c.Final {
		if cl.K == "expectslike" {
			like[cl.M] = true
		}
	}
	if len(like) > 0 && dropLike(a, like) == dropLike(c.R2.Cfg, like) && c.A.Steps == c.R2.Steps &&
		normWatches(dropLikeLines(c.A.Printed, like)) == normWatches(dropLikeLines(c.R2.Printed, like)) {
		return "expects-like-drops-dependencies", "a member with `expects like` is not registered for the variables/signals of the copied predicate; after the reload it is"
	}
	return "reload-differs-other", ""
}

func dropRepeatComment(text string) string {
	var out []string
	for _, l := range strings.Split(text, "\n") {
		if strings.HasPrefix(l, "  # (") {
			continue
		}
		out = append(out, l)
	}
	return strings.Join(out, "\n")
}

func fnv32(s string) uint32 {
	h := fnv.New32()
	h.Write([]byte(s))
	return h.Sum32()
}

func firstDiff(a, b string) string {
	la, lb := strings.Split(a, "\n"), strings.Split(b, "\n")
	for i := 0; i < len(la) || i < len(lb); i++ {
		var x, y string
		if i < len(la) {
			x = la[i]
		}
		if i < len(lb) {
			y = lb[i]
		}
		if x != y {
			return fmt.Sprintf("line %d: %q vs %q", i+1, x, y)
		}
	}
	return "same"
}

// check runs the oracles on a case whose observations are filled in.
func check(c *Case) {
	if !c.A.Accepted {
		if c.A.Panic != "" {
			c.Fail, c.Sig, c.Why = "panic", "parser-panics", c.A.Panic
		} else if c.B.Accepted && c.Risk == "" {
			c.Fail, c.Sig, c.Why = "presentation", "presentation-changes-acceptance", "plain variant accepted, presented variant rejected: "+c.A.Err
		}
		return
	}
	nA := normCfg(c.A.Cfg)
	reloadOk := c.R2.Accepted && normWatches(c.R2.Printed) == normWatches(c.A.Printed) &&
		normCfg(c.R2.Cfg) == nA && c.R2.Steps == c.A.Steps
	if !reloadOk {
		c.Fail = "reload"
		c.Sig, c.Why = classifyReload(c)
		if c.R2.Accepted && c.Why == "" {
			c.Why = "print: " + firstDiff(normWatches(c.A.Printed), normWatches(c.R2.Printed)) + "; steps: " + firstDiff(c.A.Steps, c.R2.Steps)
			if normCfg(c.R2.Cfg) != nA {
				c.Why += "; configuration data differs"
			}
		}
		return
	}
	if !c.B.Accepted || normWatches(c.B.Printed) != normWatches(c.A.Printed) || normCfg(c.B.Cfg) != nA || c.B.Steps != c.A.Steps {
		c.Fail, c.Sig = "presentation", "presentation-changes-configuration"
		c.Why = "the configuration with parameters / includes / free layout does not print like the one with the values inlined: " + c.B.Err + " " + firstDiff(normWatches(c.A.Printed), normWatches(c.B.Printed))
		return
	}
	if !c.R3.Accepted || normWatches(c.R3.Printed) != normWatches(c.A.Printed) || normCfg(c.R3.Cfg) != nA {
		c.Fail, c.Sig = "commented", "commented-print-does-not-reload"
		c.Why = "the -p text (with its comments) does not load to the same configuration: " + c.R3.Err + " " + firstDiff(normWatches(c.A.Printed), normWatches(c.R3.Printed))
		return
	}
	if stripAnnot(c.A.Annot) != c.A.Printed {
		c.Fail, c.Sig = "annot", "annotated-print-differs"
		c.Why = firstDiff(stripAnnot(c.A.Annot), c.A.Printed)
		return
	}
	h := fnv.New32()
	h.Write([]byte(c.A.Printed))
	if h.Sum32() != c.A.Hash {
		c.Fail, c.Sig = "hash", "hash-not-of-printed-text"
		return
	}
	// result.js, as the real assemble() fills it: Config is the printed
	// configuration, ConfigHash its FNV-32 (so two configurations that print
	// differently get different ids, up to hash collisions), ConfigHTML the
	// annotated print, Steps the printSteps text
	if a := c.A.Asm; a != nil {
		switch {
		case a.Err != "" || a.Panic != "":
			c.Fail, c.Sig, c.Why = "result", "assemble-fails", a.Err+a.Panic
		case normWatches(a.Config) != normWatches(c.A.Printed):
			c.Fail, c.Sig, c.Why = "result", "result-config-is-not-the-printed-configuration", firstDiff(normWatches(a.Config), normWatches(c.A.Printed))
		case a.ConfigHash != fnv32(a.Config):
			c.Fail, c.Sig = "result", "result-config-hash-is-not-the-hash-of-config"
			c.Why = fmt.Sprintf("ConfigHash %d, FNV-32 of Config %d", a.ConfigHash, fnv32(a.Config))
		case normWatches(stripAnnot(a.ConfigHTML)) != normWatches(a.Config):
			c.Fail, c.Sig, c.Why = "result", "result-config-html-differs", firstDiff(stripAnnot(a.ConfigHTML), a.Config)
		case a.Steps != c.A.Steps:
			c.Fail, c.Sig, c.Why = "result", "result-steps-differ", firstDiff(a.Steps, c.A.Steps)
		}
	}
}

// ---------------------------------------------------------------------------

func buildCase(id int, r *rand.Rand, tier string) *Case {
	risk := ""
	if r.Float64() < 0.10 {
		risk = risks[r.Intn(len(risks))]
	}
	size := 6 + r.Intn(30)
	if r.Float64() < 0.1 {
		size = 2 + r.Intn(5)
	}
	g := generate(r, risk, size)
	c := &Case{Id: id, Risk: risk, Notes: g.notes}
	c.Final = g.cl
	raw := cloneClauses(g.cl)
	var ps []param
	switch risk {
	case "param-in-value", "param-empty", "param-space":
		raw, ps = riskyParam(r, raw, risk)
		// the final clauses hold the substituted value
		c.Final = cloneClauses(raw)
		for i := range c.Final {
			for _, f := range substFields(&c.Final[i]) {
				*f = strings.ReplaceAll(*f, "~p~", ps[0].Value)
			}
		}
	default:
		if r.Float64() < 0.6 {
			ps = parametrise(r, raw, risk)
		}
		if r.Float64() < 0.15 {
			// a parameter defined EMPTY with -D, with a non-empty in-file
			// default placed before its use: -D must still win.  Appended to a
			// substituted field, the empty value leaves the field as it was.
			var fields []*string
			for i := range raw {
				for _, f := range substFields(&raw[i]) {
					if !strings.Contains(*f, "~") && !strings.Contains(*f, "\n") && *f != "" {
						fields = append(fields, f)
					}
				}
			}
			if len(fields) > 0 {
				f := fields[r.Intn(len(fields))]
				*f = *f + "~e_~"
				ps = append(ps, param{Name: "e_", Value: "", Define: true, HasDefault: true, Default: "zz not empty"})
			}
		}
	}
	raw = insertParams(r, raw, ps)
	c.Raw, c.Params = raw, ps
	for _, p := range ps {
		if p.Define {
			c.Defines = append(c.Defines, p.Name+"="+p.Value)
		}
	}
	if r.Float64() < 0.2 {
		c.Defines = append(c.Defines, "unused=1", "flag")
	}
	r.Shuffle(len(c.Defines), func(i, j int) { c.Defines[i], c.Defines[j] = c.Defines[j], c.Defines[i] })
	lines := renderFancy(r, raw)
	fs := &fileSet{files: map[string]string{}, incPath: []string{""}, r: r}
	if r.Float64() < 0.45 {
		if r.Float64() < 0.5 {
			c.Defines = append(c.Defines, "incf=inc")
			fs.incName = func(ref string) string {
				if strings.HasPrefix(ref, "inc") && r.Float64() < 0.5 {
					return "~incf~" + ref[3:]
				}
				return ref
			}
		}
		fs.place("m.cfg", lines, 0)
	} else {
		fs.files["m.cfg"] = joinLines(lines, true)
	}
	c.Files, c.Main, c.IncPath = fs.files, "m.cfg", fs.incPath
	c.Plain = renderPlain(c.Final)
	c.TextRisk = risk == "param-empty" || risk == "param-space" || risk == "newline-field"
	observe(c)
	return c
}

func observe(c *Case) {
	c.A = parse(c.Files, c.Main, c.Defines, c.IncPath)
	if c.A.Accepted {
		asm := cmd.VerifC10Assemble(c.Files, c.Main, c.Defines, c.IncPath)
		c.A.Asm = &asm
	}
	c.B = parseText(c.Plain)
	if c.A.Accepted {
		c.R2 = parseText(c.A.Printed)
		c.R3 = parseText(c.A.Full)
		if cl, err := parsePrinted(c.A.Printed); err == nil && renderCanon(cl) == c.A.Printed {
			c.PrintedA = cl
		}
		if c.R2.Accepted {
			if cl, err := parsePrinted(c.R2.Printed); err == nil && renderCanon(cl) == c.R2.Printed {
				c.Printed2 = cl
			}
		}
	}
	check(c)
}

func main() {
	seed := flag.Int64("seed", 1, "seed")
	tier := flag.String("tier", "quick", "quick|thorough")
	out := flag.String("out", ".", "output directory")
	n := flag.Int("n", 0, "number of configurations (0 = by tier)")
	replay := flag.String("replay", "", "replay file: re-run its Input through the real code")
	dump := flag.Int("dump", -1, "print case i and exit")
	flag.Parse()
	// the reader runs `git diff <file>` on every file it opens (for the
	// report); irrelevant here and slow: make the lookup fail at once
	os.Setenv("PATH", "")
	// the real assemble() needs the log package pointed at a directory
	closeScope := cmd.VerifLogScope()
	if *replay != "" {
		code := doReplay(*replay, *out)
		closeScope()
		os.Exit(code)
	}
	defer closeScope()
	count := *n
	if count == 0 {
		count = 1500
		if *tier == "thorough" {
			count = 20000
		}
	}
	run(count, *seed, *tier, *out, *dump, nil)
}

func doReplay(path, out string) int {
	data, err := ioutil.ReadFile(path)
	if err != nil {
		fmt.Println(err)
		return 2
	}
	var rp struct{ Input *Case }
	if err := json.Unmarshal(data, &rp); err != nil || rp.Input == nil {
		fmt.Println("no Input in replay file", err)
		return 2
	}
	c := rp.Input
	c.Fail, c.Sig, c.Why = "", "", ""
	observe(c)
	fmt.Printf("first load: accepted=%v %s\nreload: accepted=%v %s\nfailing oracle: %q signature: %q\n%s\n",
		c.A.Accepted, c.A.Err, c.R2.Accepted, c.R2.Err, c.Fail, c.Sig, c.Why)
	run(1, 0, "replay", out, -1, []*Case{c})
	if c.Fail != "" {
		return 1
	}
	return 0
}
