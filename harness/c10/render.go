package main

import (
	"fmt"
	"math/rand"
	"regexp"
	"sort"
	"strings"
)

// ---------------------------------------------------------------------------
// Plain rendering: one clause per line, single blanks, one section per run of
// clauses of the same kind.  Used for the "inlined" variant of a generated
// configuration (values substituted, no parameters, no includes).

func esc(s string) string { return strings.ReplaceAll(s, "\n", "\\\n") }

func target(c Clause) string {
	if c.Every {
		return "every " + c.Name2
	}
	return c.Name2
}

func plainLine(c Clause) string {
	switch c.K {
	case "title", "author", "attention":
		return c.K + " " + esc(c.Text)
	case "param":
		return "parameter " + c.Name + " defaults to " + c.Text
	case "cast":
		s := c.Name
		if c.Star {
			s += "* play " + c.Text2 + " " + c.Name2
		} else {
			s += " plays " + c.Name2
		}
		if c.Text != "" {
			s += " with " + esc(c.Text)
		}
		return s
	case "tempo":
		return "tempo " + c.Text
	case "entails":
		return "scene " + c.Name + " entails for " + target(c) + ": " + strings.Join(c.List, "; ")
	case "moodstart":
		return "scene " + c.Name + " mood starts " + c.Text
	case "moodend":
		return "scene " + c.Name + " mood ends " + c.Text
	case "storyline":
		return "storyline " + c.Text
	case "edit":
		sep := "/"
		g := ""
		if c.Flag != "" {
			sep = c.Flag[:1]
			g = c.Flag[1:]
		}
		return "edit s" + sep + c.Text + sep + c.Text2 + sep + g
	case "repeatfrom":
		return "repeat from " + esc(c.Text)
	case "repeatcount":
		return "repeat " + c.Text + " times"
	case "repeattime":
		return "repeat time " + c.Text
	case "repeatalways":
		return "repeat always"
	case "watches":
		return c.M + " watches " + target(c) + " " + c.Name
	case "watchvar":
		return c.M + " watches " + c.Name
	case "measures":
		return c.M + " measures " + esc(c.Text)
	case "onlyhelps":
		return c.M + " only helps"
	case "audits":
		w := c.Flag
		if w == "" {
			w = "while"
		}
		return c.M + " audits only " + w + " " + esc(c.Text)
	case "auditsall":
		return c.M + " audits throughout"
	case "expects":
		return c.M + " expects " + c.Text2 + ": " + esc(c.Text)
	case "expectslike":
		return c.M + " expects like " + c.Name2
	case "collects":
		return c.M + " collects " + c.Name + " as " + c.Text2 + " " + c.N + " " + esc(c.Text)
	case "computes":
		return c.M + " computes " + c.Name + " as " + esc(c.Text)
	case "ignoreall":
		return "ignore " + c.Text2
	case "interp":
		m := c.Text
		if m == "foul" {
			m = "foul upon"
		}
		return m + " " + c.Name2 + " " + c.Text2
	}
	panic("plainLine: " + c.K)
}

func roleLinePlain(l RoleLine) string {
	switch l.K {
	case "action":
		return ":" + l.Name + " " + esc(l.Text)
	case "spotlight":
		return "spotlight " + esc(l.Text)
	case "cleanup":
		return "cleanup " + esc(l.Text)
	case "signal":
		return "signal " + l.Name + " " + l.Typ + " at " + esc(l.Text)
	}
	panic("roleLinePlain")
}

func renderPlain(cl []Clause) string {
	var b strings.Builder
	open := ""
	closeSec := func() {
		if open != "" {
			b.WriteString("end\n")
			open = ""
		}
	}
	for _, c := range cl {
		sec := c.section()
		if sec == "top" {
			closeSec()
			if c.K == "role" {
				b.WriteString("role " + c.Name)
				if c.Name2 != "" {
					b.WriteString(" extends " + c.Name2)
				}
				b.WriteString("\n")
				for _, l := range c.Lines {
					b.WriteString("  " + roleLinePlain(l) + "\n")
				}
				b.WriteString("end\n")
			} else {
				b.WriteString(plainLine(c) + "\n")
			}
			continue
		}
		if sec != open {
			closeSec()
			b.WriteString(sec + "\n")
			open = sec
		}
		b.WriteString("  " + plainLine(c) + "\n")
	}
	closeSec()
	return b.String()
}

// ---------------------------------------------------------------------------
// Fancy rendering: free white space, comments, blank lines, continuation
// lines between tokens, several sections of the same kind, empty sections.
// The result is a list of logical lines (each possibly several physical
// lines joined by backslash-newline), so that the include splitter never cuts
// inside a continuation.

type fancy struct {
	r     *rand.Rand
	lines []string
}

func (f *fancy) p(x float64) bool { return f.r.Float64() < x }

// white space between two tokens where the grammar has \s+
func (f *fancy) ws() string {
	switch f.r.Intn(14) {
	case 0:
		return "  "
	case 1:
		return "\t"
	case 2:
		return " \t "
	case 3:
		return " \\\n    "
	}
	return " "
}

// white space that must start with a blank (literal prefix in the parser)
func (f *fancy) sp() string {
	if f.p(0.15) {
		return "   "
	}
	return " "
}

func (f *fancy) indent() string {
	return []string{"", "  ", "  ", "    ", "\t", " "}[f.r.Intn(6)]
}

func (f *fancy) emit(s string) {
	if f.p(0.12) {
		f.lines = append(f.lines, []string{"", "# a comment", "   # indented comment", "\t", "#", "# continued \\\n   comment line", "#end", "# cast"}[f.r.Intn(8)])
	}
	tail := ""
	if f.p(0.1) {
		tail = "  "
	}
	f.lines = append(f.lines, f.indent()+s+tail)
}

func (f *fancy) target(c Clause) string {
	if c.Every {
		return "every" + f.sp() + c.Name2
	}
	return c.Name2
}

func (f *fancy) line(c Clause) string {
	w := f.ws
	switch c.K {
	case "title", "author", "attention":
		return c.K + f.sp() + esc(c.Text)
	case "param":
		return "parameter" + w() + c.Name + w() + "defaults" + w() + "to" + w() + c.Text
	case "cast":
		s := c.Name
		if c.Star {
			s += "*" + w() + "play" + w() + c.Text2 + w() + c.Name2
		} else {
			s += w() + "plays" + w() + c.Name2
		}
		if c.Text != "" {
			s += w() + "with" + w() + esc(c.Text)
		}
		return s
	case "tempo":
		return "tempo" + w() + c.Text
	case "entails":
		sep := ":"
		if f.p(0.3) {
			sep = " :"
		}
		if f.p(0.7) {
			sep += " "
		}
		var acts []string
		for _, a := range c.List {
			acts = append(acts, a)
			if f.p(0.1) {
				acts = append(acts, "")
			}
		}
		join := "; "
		if f.p(0.3) {
			join = ";"
		} else if f.p(0.2) {
			join = " ;  "
		}
		return "scene" + w() + c.Name + w() + "entails" + w() + "for" + w() + f.target(c) + sep + strings.Join(acts, join)
	case "moodstart":
		return "scene" + w() + c.Name + w() + "mood" + w() + "starts" + w() + c.Text
	case "moodend":
		return "scene" + w() + c.Name + w() + "mood" + w() + "ends" + w() + c.Text
	case "storyline":
		return "storyline" + w() + c.Text
	case "edit":
		sep, g := "/", ""
		if c.Flag != "" {
			sep, g = c.Flag[:1], c.Flag[1:]
		}
		return "edit" + w() + "s" + sep + c.Text + sep + c.Text2 + sep + g
	case "repeatfrom":
		return "repeat" + w() + "from" + w() + esc(c.Text)
	case "repeatcount":
		return "repeat" + w() + c.Text + w() + "times"
	case "repeattime":
		return "repeat" + w() + "time" + w() + c.Text
	case "repeatalways":
		return "repeat" + w() + "always"
	case "watches":
		return c.M + w() + "watches" + w() + f.target(c) + w() + c.Name
	case "watchvar":
		return c.M + w() + "watches" + w() + c.Name
	case "measures":
		return c.M + w() + "measures" + w() + esc(c.Text)
	case "onlyhelps":
		return c.M + w() + "only" + w() + "helps"
	case "audits":
		wh := c.Flag
		if wh == "" {
			wh = "while"
		}
		return c.M + w() + "audits" + w() + "only" + w() + wh + w() + esc(c.Text)
	case "auditsall":
		return c.M + w() + "audits" + w() + "throughout"
	case "expects":
		sep := ":"
		if f.p(0.3) {
			sep = " :"
		}
		if f.p(0.8) {
			sep += " "
		}
		return c.M + w() + "expects" + w() + c.Text2 + sep + esc(c.Text)
	case "expectslike":
		return c.M + w() + "expects" + w() + "like" + w() + c.Name2
	case "collects":
		return c.M + w() + "collects" + w() + c.Name + w() + "as" + w() + c.Text2 + w() + c.N + w() + esc(c.Text)
	case "computes":
		return c.M + w() + "computes" + w() + c.Name + w() + "as" + w() + esc(c.Text)
	case "ignoreall":
		return "ignore" + w() + c.Text2
	case "interp":
		m := c.Text
		if m == "foul" {
			m = "foul" + w() + "upon"
		}
		return m + w() + c.Name2 + w() + c.Text2
	}
	panic("fancy.line: " + c.K)
}

func (f *fancy) roleLine(l RoleLine) string {
	w := f.ws
	switch l.K {
	case "action":
		return ":" + l.Name + w() + esc(l.Text)
	case "spotlight":
		return "spotlight" + w() + esc(l.Text)
	case "cleanup":
		return "cleanup" + w() + esc(l.Text)
	case "signal":
		return "signal" + w() + l.Name + w() + l.Typ + w() + "at" + w() + esc(l.Text)
	}
	panic("fancy.roleLine")
}

func renderFancy(r *rand.Rand, cl []Clause) []string {
	f := &fancy{r: r}
	open := ""
	closeSec := func() {
		if open != "" {
			f.emit("end")
			open = ""
		}
	}
	for _, c := range cl {
		sec := c.section()
		if f.p(0.04) {
			closeSec()
			f.emit([]string{"cast", "script", "audience", "interpretation"}[f.r.Intn(4)])
			f.emit("end")
		}
		if sec == "top" {
			closeSec()
			if c.K == "role" {
				h := "role" + f.ws() + c.Name
				if c.Name2 != "" {
					h += f.ws() + "extends" + f.ws() + c.Name2
				}
				f.emit(h)
				for _, l := range c.Lines {
					f.emit(f.roleLine(l))
				}
				f.emit("end")
			} else {
				f.emit(f.line(c))
			}
			continue
		}
		if sec != open || f.p(0.25) {
			closeSec()
			f.emit(sec)
			open = sec
		}
		f.emit(f.line(c))
	}
	closeSec()
	return f.lines
}

// ---------------------------------------------------------------------------
// Includes: carve contiguous ranges of logical lines out into other files.

type fileSet struct {
	files   map[string]string
	incPath []string
	n       int
	r       *rand.Rand
	incName func(string) string // hook to parametrise an include file name
}

func joinLines(lines []string, finalNewline bool) string {
	s := strings.Join(lines, "\n")
	// a continuation at the very end of a file needs the final newline
	// (the reader refuses "EOF while expecting line continuation")
	if finalNewline || strings.HasSuffix(s, "\\") || (len(lines) > 0 && strings.Contains(lines[len(lines)-1], "\n")) {
		s += "\n"
	}
	return s
}

// place writes lines as file `name` (path relative to the root), carving out
// includes; dir is the directory of the file.
func (fs *fileSet) place(name string, lines []string, depth int) {
	out := []string{}
	i := 0
	for i < len(lines) {
		if depth < 3 && len(lines)-i >= 2 && fs.r.Float64() < 0.08 && fs.n < 5 {
			n := 1 + fs.r.Intn(len(lines)-i)
			if n > 12 {
				n = 12
			}
			fs.n++
			base := fmt.Sprintf("inc%d.cfg", fs.n)
			dir := dirOf(name)
			var path, ref string
			switch fs.r.Intn(3) {
			case 0: // sibling
				path, ref = dir+base, base
			case 1: // sub-directory of the including file, named with its relative path
				path, ref = dir+"sub/"+base, "sub/"+base
			default: // only found through -I lib
				path, ref = "lib/"+base, base
				if dir == "lib/" {
					path = "lib/" + base
				}
				fs.needLib()
			}
			fs.place(path, lines[i:i+n], depth+1)
			if fs.incName != nil {
				ref = fs.incName(ref)
			}
			// exactly one blank after the keyword: the rest of the line is the file name
			pre := "include "
			if fs.r.Float64() < 0.3 {
				pre = "  \tinclude "
			}
			out = append(out, pre+ref)
			i += n
			continue
		}
		out = append(out, lines[i])
		i++
	}
	fs.files[name] = joinLines(out, fs.r.Float64() < 0.85)
}

func (fs *fileSet) needLib() {
	for _, p := range fs.incPath {
		if p == "lib" {
			return
		}
	}
	fs.incPath = append(fs.incPath, "lib")
}

func dirOf(name string) string {
	if i := strings.LastIndex(name, "/"); i >= 0 {
		return name[:i+1]
	}
	return ""
}

// ---------------------------------------------------------------------------
// Parameters: replace parts of substituted fields by ~name~.

type param struct {
	Name, Value string
	Default     string // value of the in-file `parameter` clause ("" with HasDefault=false: none)
	HasDefault  bool
	Define      bool // passed with -D
}

// substFields returns pointers to the fields of c that the parser passes
// through preprocReplace.
func substFields(c *Clause) []*string {
	switch c.K {
	case "title", "attention":
		return []*string{&c.Text}
	case "role":
		if c.Name2 != "" {
			return []*string{&c.Name, &c.Name2}
		}
		return []*string{&c.Name}
	case "cast":
		l := []*string{&c.Name2}
		if c.Star {
			l = append(l, &c.Text2)
		}
		if c.Text != "" {
			l = append(l, &c.Text)
		}
		return l
	case "entails", "watches":
		if c.Every {
			return []*string{&c.Name2}
		}
	case "audits", "expects", "collects", "computes", "repeatcount", "repeattime":
		return []*string{&c.Text}
	}
	return nil
}

var tokenRe = regexp.MustCompile(`[A-Za-z0-9_]+(?:\.[0-9]+)?`)
var paramNames = []string{"p", "N", "role_1", "x", "Long_Name", "q9", "_"}

// parametrise rewrites cl in place (raw form) and returns the parameters.
// Fields already containing a `~` are left alone.
func parametrise(r *rand.Rand, cl []Clause, risk string) []param {
	var ps []param
	used := map[string]bool{}
	np := r.Intn(4)
	if risk == "param-in-value" || risk == "param-empty" || risk == "param-space" {
		np = 1
	}
	for k := 0; k < np; k++ {
		name := paramNames[r.Intn(len(paramNames))]
		if used[name] {
			continue
		}
		// candidate tokens
		var toks []string
		for i := range cl {
			for _, f := range substFields(&cl[i]) {
				if strings.Contains(*f, "~") {
					continue
				}
				toks = append(toks, tokenRe.FindAllString(*f, -1)...)
				if r.Float64() < 0.3 {
					toks = append(toks, *f) // the whole value
				}
			}
		}
		if len(toks) == 0 {
			break
		}
		val := toks[r.Intn(len(toks))]
		if strings.ContainsAny(val, "\n") {
			continue
		}
		used[name] = true
		p := param{Name: name, Value: val}
		n := 0
		for i := range cl {
			for _, f := range substFields(&cl[i]) {
				if strings.Contains(*f, "~") || r.Float64() < 0.35 {
					continue
				}
				if j := strings.Index(*f, val); j >= 0 {
					*f = (*f)[:j] + "~" + name + "~" + (*f)[j+len(val):]
					n++
				}
			}
		}
		_ = n
		switch r.Intn(4) {
		case 0:
			p.Define = true
		case 1:
			p.HasDefault, p.Default = true, val
		case 2: // both: -D wins over the in-file default
			p.Define, p.HasDefault, p.Default = true, true, val+"_not"
		default:
			p.Define = true
		}
		if strings.TrimSpace(val) != val || val == "" {
			p.Define, p.HasDefault = true, false
		}
		ps = append(ps, p)
	}
	return ps
}

// riskyParam plants the parameter shapes that are known to break the reload.
func riskyParam(r *rand.Rand, cl []Clause, risk string) ([]Clause, []param) {
	p := param{Name: "p", Define: true}
	switch risk {
	case "param-in-value":
		p.Value = []string{"a~p~b", "~q~", "x ~zz~"}[r.Intn(3)]
	case "param-empty":
		p.Value = ""
	case "param-space":
		p.Value = []string{" x", "x ", " x "}[r.Intn(3)]
	}
	c := Clause{K: []string{"title", "attention"}[r.Intn(2)], Text: "~p~"}
	if risk == "param-space" && r.Float64() < 0.5 {
		if r.Float64() < 0.5 {
			c.Text = "~p~ tail"
		} else {
			c.Text = "head ~p~"
		}
	}
	if risk == "param-empty" && r.Float64() < 0.5 {
		// an in-file default that the empty -D value must still override
		p.HasDefault, p.Default = true, "not empty"
	}
	i := r.Intn(len(cl) + 1)
	out := append([]Clause{}, cl[:i]...)
	out = append(out, c)
	out = append(out, cl[i:]...)
	return out, []param{p}
}

// insertParams adds the `parameter` clauses: the effective one before the
// first use (top level), sometimes a later duplicate that must be ignored.
func insertParams(r *rand.Rand, cl []Clause, ps []param) []Clause {
	for _, p := range ps {
		if !p.HasDefault {
			if p.Define && r.Float64() < 0.3 {
				// an in-file default that -D overrides, anywhere
				i := r.Intn(len(cl) + 1)
				cl = insertAt(cl, i, Clause{K: "param", Name: p.Name, Text: "unused default"})
			}
			continue
		}
		first := len(cl)
		for i := range cl {
			c := cl[i]
			for _, f := range substFields(&c) {
				if strings.Contains(*f, "~"+p.Name+"~") && i < first {
					first = i
				}
			}
		}
		i := r.Intn(first + 1)
		cl = insertAt(cl, i, Clause{K: "param", Name: p.Name, Text: p.Default})
		if r.Float64() < 0.3 {
			j := i + 1 + r.Intn(len(cl)-i)
			cl = insertAt(cl, j, Clause{K: "param", Name: p.Name, Text: "second definition is ignored"})
		}
	}
	return cl
}

func insertAt(cl []Clause, i int, c Clause) []Clause {
	out := append([]Clause{}, cl[:i]...)
	out = append(out, c)
	return append(out, cl[i:]...)
}

func cloneClauses(cl []Clause) []Clause {
	out := make([]Clause, len(cl))
	for i, c := range cl {
		c.List = append([]string(nil), c.List...)
		c.Lines = append([]RoleLine(nil), c.Lines...)
		out[i] = c
	}
	return out
}

// ---------------------------------------------------------------------------
// "up to the order of one observer's watches": sort every maximal run of
// consecutive `<name> watches ...` lines of the same member.

var watchLineRe = regexp.MustCompile(`^  (\S+) watches `)

func normWatches(text string) string {
	lines := strings.Split(text, "\n")
	i := 0
	for i < len(lines) {
		m := watchLineRe.FindStringSubmatch(lines[i])
		if m == nil {
			i++
			continue
		}
		j := i
		for j < len(lines) {
			m2 := watchLineRe.FindStringSubmatch(lines[j])
			if m2 == nil || m2[1] != m[1] {
				break
			}
			j++
		}
		sort.Strings(lines[i:j])
		i = j
	}
	return strings.Join(lines, "\n")
}
