package main

import (
	"fmt"
	"regexp"
	"sort"
	"strings"
	"time"

	"github.com/knz/shakespeare/pkg/cmd"
	"github.com/knz/shakespeare/verifharness/vh"
)

// ---------------------------------------------------------------------------
// Coq terms

// B prints a Go string as a Coq byte list: runs of printable ASCII as
// `bs "..."`, everything else as explicit byte constructors.
func B(s string) string {
	if s == "" {
		return "[]"
	}
	var parts []string
	i := 0
	for i < len(s) {
		j := i
		for j < len(s) && s[j] >= 0x20 && s[j] < 0x7f {
			j++
		}
		if j > i {
			parts = append(parts, `bq "`+strings.ReplaceAll(s[i:j], `"`, `""`)+`"`)
			i = j
			continue
		}
		for j < len(s) && (s[j] < 0x20 || s[j] >= 0x7f) {
			j++
		}
		parts = append(parts, vh.Bytes([]byte(s[i:j])))
		i = j
	}
	if len(parts) == 1 {
		if strings.HasPrefix(parts[0], "bq") {
			return "(" + parts[0] + ")"
		}
		return parts[0]
	}
	return "(" + strings.Join(parts, " ++ ") + ")"
}

func BL(l []string) string {
	var items []string
	for _, s := range l {
		items = append(items, B(s))
	}
	return vh.List(items)
}

func coqTarget(c Clause) string {
	if c.Every {
		return "(TEvery " + B(c.Name2) + ")"
	}
	return "(TActor " + B(c.Name2) + ")"
}

func coqRoleLine(l RoleLine) string {
	switch l.K {
	case "action":
		return "RAction " + B(l.Name) + " " + B(l.Text)
	case "spotlight":
		return "RSpotlight " + B(l.Text)
	case "cleanup":
		return "RCleanup " + B(l.Text)
	case "signal":
		return "RSignal " + B(l.Name) + " " + B(l.Typ) + " " + B(l.Text)
	}
	panic("coqRoleLine")
}

func coqClause(c Clause) string {
	switch c.K {
	case "title":
		return "CTitle " + B(c.Text)
	case "author":
		return "CAuthor " + B(c.Text)
	case "attention":
		return "CAttention " + B(c.Text)
	case "param":
		return "CParam " + B(c.Name) + " " + B(c.Text)
	case "role":
		var ls []string
		for _, l := range c.Lines {
			ls = append(ls, coqRoleLine(l))
		}
		return "CRole " + B(c.Name) + " " + vh.Option(c.Name2 != "", B(c.Name2)) + " " + vh.List(ls)
	case "cast":
		return "CCast " + B(c.Name) + " " + vh.Bool(c.Star) + " " + vh.Option(c.Star || c.Text2 != "", B(c.Text2)) + " " + B(c.Name2) + " " + B(c.Text)
	case "tempo":
		return "CTempo " + B(c.Text)
	case "entails":
		return "CEntails " + B(c.Name) + " " + coqTarget(c) + " " + BL(c.List)
	case "moodstart":
		return "CMoodStart " + B(c.Name) + " " + B(c.Text)
	case "moodend":
		return "CMoodEnd " + B(c.Name) + " " + B(c.Text)
	case "storyline":
		return "CStoryline " + B(c.Text)
	case "edit":
		return "CEdit " + B(c.Text) + " " + B(c.Text2)
	case "repeatfrom":
		return "CRepeatFrom " + B(c.Text)
	case "repeatcount":
		return "CRepeatCount " + B(c.Text)
	case "repeatalways":
		return "CRepeatAlways"
	case "repeattime":
		return "CRepeatTime " + B(c.Text)
	case "watches":
		return "CWatches " + B(c.M) + " " + coqTarget(c) + " " + B(c.Name)
	case "watchvar":
		return "CWatchVar " + B(c.M) + " " + B(c.Name)
	case "measures":
		return "CMeasures " + B(c.M) + " " + B(c.Text)
	case "onlyhelps":
		return "COnlyHelps " + B(c.M)
	case "audits":
		return "CAudits " + B(c.M) + " " + B(c.Text)
	case "auditsall":
		return "CAuditsAll " + B(c.M)
	case "expects":
		return "CExpects " + B(c.M) + " " + B(c.Text2) + " " + B(c.Text)
	case "expectslike":
		return "CExpectsLike " + B(c.M) + " " + B(c.Name2)
	case "collects":
		return "CCollects " + B(c.M) + " " + B(c.Name) + " " + B(c.Text2) + " " + B(c.N) + " " + B(c.Text)
	case "computes":
		return "CComputes " + B(c.M) + " " + B(c.Name) + " " + B(c.Text)
	case "ignoreall":
		return "CIgnoreAll " + B(c.Text2)
	case "interp":
		return "CInterp " + B(c.Text) + " " + B(c.Name2) + " " + B(c.Text2)
	}
	panic("coqClause: " + c.K)
}

func coqClauses(cl []Clause) string {
	var items []string
	for _, c := range cl {
		items = append(items, coqClause(c))
	}
	return vh.ListNL(items)
}

// ---------------------------------------------------------------------------
// oracle tables: what the real libraries say about the texts of one case

type tables struct {
	exprs   map[string][]string
	regexps map[string][]string
	durs    map[string]int64
	durstr  map[int64]string
}

func (t *tables) addExpr(src string) {
	if _, ok := t.exprs[src]; ok {
		return
	}
	if vars, e := cmd.VerifC10ExprVars(src); e == "" {
		if vars == nil {
			vars = []string{}
		}
		t.exprs[src] = vars
	}
}

func (t *tables) addRegexp(re string) {
	if r, err := regexp.Compile(re); err == nil {
		t.regexps[re] = r.SubexpNames()
	}
}

func (t *tables) addDur(s string) {
	if d, ok := parseDur(s); ok {
		t.durs[s] = d
	}
}

func (t *tables) addNs(ns int64) {
	s := time.Duration(ns).String()
	t.durstr[ns] = s
	t.addDur(s)
}

func (t *tables) addCfg(c *cmd.VerifC10Cfg) {
	if c == nil {
		return
	}
	for _, r := range c.Roles {
		for _, s := range r.Sigs {
			t.addRegexp(s.Re)
		}
	}
	for _, m := range c.Audience {
		if m.ActiveCond != "" {
			t.addExpr(m.ActiveCond)
		}
		if m.HasExpect {
			t.addExpr(m.ExpectExpr)
		}
		for _, a := range m.Assignments {
			t.addExpr(a.Expr)
		}
	}
	t.addNs(c.TempoNs)
	if c.RepeatTimeout >= 0 {
		t.addNs(c.RepeatTimeout)
	}
}

func buildTables(c *Case) *tables {
	t := &tables{exprs: map[string][]string{}, regexps: map[string][]string{}, durs: map[string]int64{}, durstr: map[int64]string{}}
	t.addExpr("true")
	t.addCfg(c.A.Cfg)
	t.addCfg(c.R2.Cfg)
	for _, cl := range c.Final {
		switch cl.K {
		case "tempo", "repeattime":
			t.addDur(cl.Text)
		}
	}
	return t
}

func sortedKeys(m map[string][]string) []string {
	var l []string
	for k := range m {
		l = append(l, k)
	}
	sort.Strings(l)
	return l
}

func (t *tables) coq() (exprs, regexps, durs, durstr string) {
	var a, b, c, d []string
	for _, k := range sortedKeys(t.exprs) {
		a = append(a, "("+B(k)+", "+BL(t.exprs[k])+")")
	}
	for _, k := range sortedKeys(t.regexps) {
		// SubexpNames()[0] is the whole match
		b = append(b, "("+B(k)+", "+BL(t.regexps[k][1:])+")")
	}
	var dk []string
	for k := range t.durs {
		dk = append(dk, k)
	}
	sort.Strings(dk)
	for _, k := range dk {
		c = append(c, "("+B(k)+", "+vh.Z(t.durs[k])+")")
	}
	var nk []int64
	for k := range t.durstr {
		nk = append(nk, k)
	}
	sort.Slice(nk, func(i, j int) bool { return nk[i] < nk[j] })
	for _, k := range nk {
		d = append(d, "("+vh.Z(k)+", "+B(t.durstr[k])+")")
	}
	return vh.List(a), vh.List(b), vh.List(c), vh.List(d)
}

// ---------------------------------------------------------------------------

var litRe = regexp.MustCompile(`^[A-Za-z0-9]+$`)

// inCoqDomain: the case is inside what the Coq side can evaluate: accepted,
// its printed text read back into clauses, literal patterns only.
func inCoqDomain(c *Case) bool {
	if !c.A.Accepted || c.PrintedA == nil {
		return false
	}
	if c.R2.Accepted && c.Printed2 == nil {
		return false
	}
	for _, cl := range c.Raw {
		if (cl.K == "edit" || cl.K == "repeatfrom") && !litRe.MatchString(cl.Text) {
			return false
		}
		if cl.K == "edit" && strings.Contains(cl.Text2, "$") {
			return false
		}
	}
	return true
}

func sameClauses(a, b []Clause) bool {
	if len(a) != len(b) {
		return false
	}
	for i := range a {
		if coqClause(a[i]) != coqClause(b[i]) {
			return false
		}
	}
	return true
}

func coqCase(name string, c *Case) string {
	t := buildTables(c)
	ex, re, du, ds := t.coq()
	var defs []string
	for _, d := range c.Defines {
		defs = append(defs, B(d))
	}
	p2 := "None"
	if c.R2.Accepted && !sameClauses(c.PrintedA, c.Printed2) {
		p2 = "(Some " + coqClauses(c.Printed2) + ")"
	}
	act2 := 0
	sameData, sameSteps := false, false
	if c.R2.Accepted {
		act2 = c.R2.Cfg.RepeatActNum
		sameData = normCfg(c.R2.Cfg) == normCfg(c.A.Cfg)
		sameSteps = c.R2.Steps == c.A.Steps
	}
	otherOk := c.Fail == "" || c.Fail == "reload"
	var b strings.Builder
	fmt.Fprintf(&b, "Definition %s : c10_case := mkCase\n %s\n %s\n %s\n %s\n %s\n %s\n", name,
		vh.List(defs), coqClauses(c.Raw), ex, re, du, ds)
	fmt.Fprintf(&b, " true %s\n %s %s\n %s %s %s\n %s %s %s %s.\n", coqClauses(c.PrintedA), B(c.A.Printed), vh.Z(int64(c.A.Cfg.RepeatActNum)),
		vh.Bool(c.R2.Accepted), p2, vh.Z(int64(act2)),
		vh.Bool(sameData), vh.Bool(sameSteps), vh.Bool(otherOk), vh.Bool(c.TextRisk))
	return b.String()
}

const shardSize = 200
