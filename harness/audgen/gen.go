// Package audgen generates audience configurations (as shakespeare
// configuration text AND as Coq terms of Model/Audit.v) and event histories
// for the audition round machine.  Shared by the C02, C03, C08 and C11
// harnesses.
package audgen

import (
	"fmt"
	"math/big"
	"math/rand"
	"sort"
	"strconv"
	"strings"
)

// ---------------------------------------------------------------- expressions

// Expr is the generator's expression AST; it prints itself in govaluate
// syntax and as a Coq term.
type Expr struct {
	Kind string // const-num const-bool const-str var not neg bin call
	Num  int64
	Den  int64
	Bool bool
	Str  string
	Var  [2]string
	Op   string
	Args []*Expr
}

// Typ is the static type the generator tracks.
type Typ int

// Types.
const (
	TNum Typ = iota
	TBool
	TStr
	TArr
)

func coqStr(s string) string { return "\"" + strings.ReplaceAll(s, "\"", "\"\"") + "\"" }

// CoqQ prints a rational as a Coq Q literal.
func CoqQ(num, den int64) string {
	if num < 0 {
		return fmt.Sprintf("((%d) # %d)", num, den)
	}
	return fmt.Sprintf("(%d # %d)", num, den)
}

// CoqQFloat prints a float64 exactly as a Coq Q literal.
func CoqQFloat(f float64) string {
	r := new(big.Rat)
	if r.SetFloat64(f) == nil {
		return "(0 # 1)"
	}
	n := r.Num().String()
	if r.Sign() < 0 {
		n = "(" + n + ")"
	}
	return "(" + n + " # " + r.Denom().String() + ")"
}

// CoqVar prints a variable.
func CoqVar(v [2]string) string { return "(" + coqStr(v[0]) + ", " + coqStr(v[1]) + ")" }

var opCoq = map[string]string{"+": "OAdd", "-": "OSub", "*": "OMul", "/": "ODiv", "<": "OLt", "<=": "OLe",
	">": "OGt", ">=": "OGe", "==": "OEq", "!=": "ONe", "&&": "OAnd", "||": "OOr"}

// Coq prints the expression as a term of Model/Expr.v.
func (e *Expr) Coq() string {
	switch e.Kind {
	case "const-num":
		return "(EConst (VNum " + CoqQ(e.Num, e.Den) + "))"
	case "const-bool":
		if e.Bool {
			return "(EConst (VBool true))"
		}
		return "(EConst (VBool false))"
	case "const-str":
		return "(EConst (VStr " + coqStr(e.Str) + "))"
	case "var":
		return "(EVar " + CoqVar(e.Var) + ")"
	case "not":
		return "(ENot " + e.Args[0].Coq() + ")"
	case "neg":
		return "(ENeg " + e.Args[0].Coq() + ")"
	case "bin":
		return "(EBin " + opCoq[e.Op] + " " + e.Args[0].Coq() + " " + e.Args[1].Coq() + ")"
	case "call":
		var as []string
		for _, a := range e.Args {
			as = append(as, a.Coq())
		}
		return "(ECall " + coqStr(e.Op) + " [" + strings.Join(as, "; ") + "])"
	}
	panic("bad expr")
}

// Src prints the expression in govaluate syntax.
func (e *Expr) Src() string {
	switch e.Kind {
	case "const-num":
		if e.Den == 1 {
			return strconv.FormatInt(e.Num, 10)
		}
		return strconv.FormatFloat(float64(e.Num)/float64(e.Den), 'f', -1, 64)
	case "const-bool":
		if e.Bool {
			return "true"
		}
		return "false"
	case "const-str":
		return "'" + e.Str + "'"
	case "var":
		if e.Var[0] == "" {
			return e.Var[1]
		}
		return "[" + e.Var[0] + " " + e.Var[1] + "]"
	case "not":
		return "!(" + e.Args[0].Src() + ")"
	case "neg":
		return "-(" + e.Args[0].Src() + ")"
	case "bin":
		return "(" + e.Args[0].Src() + " " + e.Op + " " + e.Args[1].Src() + ")"
	case "call":
		var as []string
		for _, a := range e.Args {
			as = append(as, a.Src())
		}
		return e.Op + "(" + strings.Join(as, ", ") + ")"
	}
	panic("bad expr")
}

// Num makes a numeric constant.
func Num(n int64) *Expr { return &Expr{Kind: "const-num", Num: n, Den: 1} }

// V makes a variable reference.
func V(actor, sig string) *Expr { return &Expr{Kind: "var", Var: [2]string{actor, sig}} }

// Bin makes a binary operation.
func Bin(op string, a, b *Expr) *Expr { return &Expr{Kind: "bin", Op: op, Args: []*Expr{a, b}} }

// Call makes a function call.
func Call(f string, args ...*Expr) *Expr { return &Expr{Kind: "call", Op: f, Args: args} }

// Str makes a string constant.
func Str(s string) *Expr { return &Expr{Kind: "const-str", Str: s} }

// BoolC makes a boolean constant.
func BoolC(b bool) *Expr { return &Expr{Kind: "const-bool", Bool: b} }

// Not negates.
func Not(a *Expr) *Expr { return &Expr{Kind: "not", Args: []*Expr{a}} }

// ---------------------------------------------------------------- configuration

// Assign is one collects / computes clause.
type Assign struct {
	Target string
	Mode   string // single first last top bottom
	N      int
	E      *Expr
	Typ    Typ // type of the resulting variable
}

// Member is one audience member.
type Member struct {
	Name     string
	CondKind string // none throughout mood sig t comp other
	Cond     *Expr  // nil for none / throughout
	CondMood string
	CondVar  [2]string
	CondK    int64
	Assigns  []Assign
	Modality string
	Expect   *Expr
	// ExpKind "sig": the predicate is `[ExpVar] > ExpK` (ExpGt) or `[ExpVar] < ExpK`
	ExpKind    string
	ExpVar     [2]string
	ExpK       int64
	ExpGt      bool
	WatchSigs  [][2]string
	WatchVars  []string
	FoulBad    string // "", ignore, foul upon, require
	FoulGood   string
	ClauseOrdr []string // rendered audience clauses in order
}

// Config is a generated configuration.
type Config struct {
	Actors  []string
	Members []*Member
	Interp  []string // interpretation clauses of the last section, in order
	// InterpSplit members are declared in a first audience section, followed
	// by an interpretation section Interp1; the other members and Interp follow.
	InterpSplit int
	Interp1     []string
	// InterpBlank is the white space the interpretation clauses are rendered
	// with between their words (the grammar accepts any blank run).
	InterpBlank string
	// EarlyMention names a member that is first mentioned at the very top of
	// the audience section (so it precedes the others in the audience order)
	// although its auditing clauses come later.
	EarlyMention string
	// CloseErr: see Gen.ClosingError; the bound is Members[0].CondK, the actor Actors[0]
	CloseErr bool
	VarTypes map[string]Typ
	VarOrder     []string
}

// Gen holds generator settings.
type Gen struct {
	R          *rand.Rand
	Modalities []string
	// knobs
	PErrExpr    float64 // probability of an ill-typed predicate
	PErrOther   float64 // probability of an ill-typed activation condition / assignment (aborts the audition)
	MaxMembers  int
	WithCollect bool
	WithInterp  bool
	// C03 knobs: favour `require` clauses, members that watch something, members
	// whose condition never holds, and `expects like` members declared after
	// the first interpretation section.
	VerdictBias bool
	// probability that an `expects` predicate is a plain `[actor s] > k` / `< k`
	SimpleExpect float64
	// conditions without variables (`2 == 2`, `1 == 2`)
	ConstConds bool
	// samples whose time stamps go backwards
	LateStamps bool
	// member names that differ only by the case of their letters
	CaseNames bool
	// a plain `expects` predicate may go through a variable that the member
	// itself computes as the signal (ExpKind "comp")
	ExpectViaComputed bool
	// now and then: three members, the second one computes a variable as a
	// signal, the first and the third audit under the SAME condition text over
	// that variable (visited before and after it is recomputed in a round)
	SharedConds bool
	// now and then: the first member audits while a signal is above a bound and
	// has a clause that fails to evaluate exactly in the rounds whose sample
	// closes the period (the event signal it needs is only sampled together
	// with a low value)
	ClosingError bool
}

func (g *Gen) pick(xs []string) string { return xs[g.R.Intn(len(xs))] }

var moods = []string{"red", "blue"}
var evVals = []string{"up", "down", "mid"}

// numExpr generates a numeric expression over the variables available.
func (g *Gen) numExpr(c *Config, depth int, allowT bool) *Expr {
	var numVars [][2]string
	for _, a := range c.Actors {
		numVars = append(numVars, [2]string{a, "s"})
	}
	if allowT {
		numVars = append(numVars, [2]string{"", "t"}, [2]string{"", "moodt"})
	}
	var arrVars []string
	for _, v := range c.VarOrder {
		switch c.VarTypes[v] {
		case TNum:
			numVars = append(numVars, [2]string{"", v})
		case TArr:
			arrVars = append(arrVars, v)
		}
	}
	r := g.R.Intn(10)
	switch {
	case depth <= 0 || r < 4:
		if g.R.Intn(3) == 0 {
			return Num(int64(g.R.Intn(7)))
		}
		v := numVars[g.R.Intn(len(numVars))]
		return V(v[0], v[1])
	case r < 7:
		return Bin(g.pick([]string{"+", "-", "*"}), g.numExpr(c, depth-1, allowT), g.numExpr(c, depth-1, allowT))
	case r < 9 && len(arrVars) > 0:
		f := g.pick([]string{"count", "sum", "max", "min", "avg", "med", "first", "last"})
		return Call(f, V("", arrVars[g.R.Intn(len(arrVars))]))
	default:
		f := g.pick([]string{"abs", "floor", "ceil", "round"})
		return Call(f, g.numExpr(c, depth-1, allowT))
	}
}

// boolExpr generates a boolean expression.
func (g *Gen) boolExpr(c *Config, depth int, allowT bool) *Expr {
	r := g.R.Intn(12)
	switch {
	case depth <= 0 || r < 5:
		switch g.R.Intn(6) {
		case 0:
			return Bin("==", V("", "mood"), Str(g.pick(append(moods, "clear"))))
		case 1:
			a := c.Actors[g.R.Intn(len(c.Actors))]
			return Bin(g.pick([]string{"==", "!="}), V(a, "e"), Str(g.pick(evVals)))
		default:
			return Bin(g.pick([]string{"<", "<=", ">", ">=", "==", "!="}), g.numExpr(c, 1, allowT), Num(int64(g.R.Intn(7))))
		}
	case r < 7:
		return Bin("&&", g.boolExpr(c, depth-1, allowT), g.boolExpr(c, depth-1, allowT))
	case r < 9:
		return Bin("||", g.boolExpr(c, depth-1, allowT), g.boolExpr(c, depth-1, allowT))
	case r < 10:
		return Not(g.boolExpr(c, depth-1, allowT))
	case r < 11:
		var bvars []string
		for _, v := range c.VarOrder {
			if c.VarTypes[v] == TBool {
				bvars = append(bvars, v)
			}
		}
		if len(bvars) > 0 {
			return V("", bvars[g.R.Intn(len(bvars))])
		}
		return BoolC(g.R.Intn(2) == 0)
	default:
		return Bin(g.pick([]string{"<", ">"}), g.numExpr(c, 2, allowT), g.numExpr(c, 1, allowT))
	}
}

// illTyped makes an expression whose evaluation fails.
func (g *Gen) illTyped(c *Config) *Expr {
	switch g.R.Intn(3) {
	case 0:
		return Bin(">", V("", "mood"), Num(3))
	case 1:
		a := c.Actors[g.R.Intn(len(c.Actors))]
		return Bin("&&", V(a, "s"), BoolC(true))
	default:
		a := c.Actors[g.R.Intn(len(c.Actors))]
		return Bin("<", Bin("-", V(a, "e"), Num(1)), Num(2))
	}
}

// Config generates a configuration.
func (g *Gen) Config() *Config {
	c := &Config{VarTypes: map[string]Typ{}}
	c.Actors = []string{"x"}
	if g.R.Intn(2) == 0 {
		c.Actors = append(c.Actors, "y")
	}
	nm := 1 + g.R.Intn(g.MaxMembers)
	names := []string{"al", "bo", "cy", "di"}
	if g.CaseNames && g.R.Intn(3) == 0 {
		names = []string{"Al", "al", "BO", "bo"}
	}
	nvar := 0
	early := -1
	if nm > 1 && g.R.Intn(3) == 0 {
		early = 1 + g.R.Intn(nm-1)
		c.EarlyMention = names[early]
	}
	forceShared := g.SharedConds && g.R.Intn(12) == 0
	if forceShared {
		nm, early = 3, 1
		c.EarlyMention = names[early]
	}
	c.CloseErr = g.ClosingError && !forceShared && g.R.Intn(12) == 0
	for i := 0; i < nm; i++ {
		m := &Member{Name: names[i]}
		// activation condition
		kind := g.R.Intn(8)
		if c.CloseErr && i == 0 {
			kind = 300
		}
		if forceShared && i == 1 {
			kind = 6
		}
		if forceShared && i == 2 {
			kind = 200
		}
		if g.VerdictBias && g.R.Intn(4) == 0 {
			kind = 100 // a mood that never occurs: the member never audits
		}
		if i == early && g.R.Intn(5) < 3 {
			kind = 6 // prefer a condition over a variable computed by a member that comes later in the audience order
		}
		switch kind {
		case 300:
			m.CondKind = "sig"
			m.CondVar = [2]string{c.Actors[0], "s"}
			m.CondK = int64(1 + g.R.Intn(4))
			m.Cond = Bin(">", V(c.Actors[0], "s"), Num(m.CondK))
		case 200:
			// the same condition text as the member mentioned first
			prev := c.Members[1]
			m.CondKind, m.Cond, m.CondK = prev.CondKind, prev.Cond, prev.CondK
		case 100:
			m.CondKind = "other"
			m.Cond = Bin("==", V("", "mood"), Str("green"))
		case 0:
			m.CondKind = "none"
		case 1, 2:
			m.CondKind = "throughout"
			m.ClauseOrdr = append(m.ClauseOrdr, m.Name+" audits throughout")
		case 3, 4:
			m.CondKind = "mood"
			m.CondMood = g.pick(moods)
			m.Cond = Bin("==", V("", "mood"), Str(m.CondMood))
		case 5:
			m.CondKind = "sig"
			a := c.Actors[g.R.Intn(len(c.Actors))]
			m.CondVar = [2]string{a, "s"}
			m.CondK = int64(1 + g.R.Intn(4))
			m.Cond = Bin(">", V(a, "s"), Num(m.CondK))
		case 6:
			var nv []string
			for _, v := range c.VarOrder {
				if c.VarTypes[v] == TNum {
					nv = append(nv, v)
				}
			}
			if len(nv) > 0 && (i == early || g.R.Intn(2) == 0) {
				m.CondKind = "comp"
				m.CondK = int64(g.R.Intn(5))
				m.Cond = Bin(g.pick([]string{">", "<="}), V("", nv[g.R.Intn(len(nv))]), Num(m.CondK))
				break
			}
			m.CondKind = "t"
			m.CondK = int64(1 + g.R.Intn(5))
			m.Cond = Bin(g.pick([]string{">", "<"}), V("", "t"), Num(m.CondK))
		default:
			if g.ConstConds && g.R.Intn(3) == 0 {
				// a condition without any variable (what `audits only while ~strict~ == 1` becomes)
				if g.R.Intn(2) == 0 {
					m.CondKind = "consttrue"
					m.Cond = Bin("==", Num(2), Num(2))
				} else {
					m.CondKind = "constfalse"
					m.Cond = Bin("==", Num(1), Num(2))
				}
				break
			}
			m.CondKind = "other"
			m.Cond = g.boolExpr(c, 2, true)
			if g.R.Float64() < g.PErrOther {
				m.Cond = g.illTyped(c)
			}
		}
		if m.Cond != nil {
			kw := g.pick([]string{"while", "when"})
			m.ClauseOrdr = append(m.ClauseOrdr, m.Name+" audits only "+kw+" "+m.Cond.Src())
		}
		// assignments
		na := 0
		if g.WithCollect {
			na = g.R.Intn(3)
		} else if g.R.Intn(4) == 0 {
			na = 1
		}
		for j := 0; j < na; j++ {
			nvar++
			tgt := fmt.Sprintf("v%d", nvar)
			var as Assign
			if g.R.Intn(3) == 0 {
				if g.R.Intn(3) == 0 {
					as = Assign{Target: tgt, Mode: "single", E: g.boolExpr(c, 1, g.R.Intn(3) == 0), Typ: TBool}
				} else {
					as = Assign{Target: tgt, Mode: "single", E: g.numExpr(c, 2, g.R.Intn(3) == 0), Typ: TNum}
					if g.R.Float64() < g.PErrOther {
						as.E = Bin("-", g.illTyped(c), Num(1))
					}
				}
				m.ClauseOrdr = append(m.ClauseOrdr, fmt.Sprintf("%s computes %s as %s", m.Name, tgt, as.E.Src()))
			} else {
				mode := g.pick([]string{"first", "last", "top", "bottom"})
				n := 1 + g.R.Intn(4)
				as = Assign{Target: tgt, Mode: mode, N: n, E: g.numExpr(c, 1, g.R.Intn(4) == 0), Typ: TArr}
				m.ClauseOrdr = append(m.ClauseOrdr, fmt.Sprintf("%s collects %s as %s %d %s", m.Name, tgt, mode, n, as.E.Src()))
			}
			m.Assigns = append(m.Assigns, as)
			c.VarTypes[tgt] = as.Typ
			c.VarOrder = append(c.VarOrder, tgt)
		}
		if c.CloseErr && i == 0 {
			nvar++
			tgt := fmt.Sprintf("y%d", nvar)
			as := Assign{Target: tgt, Mode: "single", E: Bin("*", V(c.Actors[0], "e"), Num(2)), Typ: TNum}
			m.ClauseOrdr = append(m.ClauseOrdr, fmt.Sprintf("%s computes %s as %s", m.Name, tgt, as.E.Src()))
			m.Assigns = append(m.Assigns, as)
			c.VarTypes[tgt] = as.Typ
			c.VarOrder = append(c.VarOrder, tgt)
		}
		if forceShared && i == 0 {
			hasNum := false
			for _, as := range m.Assigns {
				hasNum = hasNum || (as.Typ == TNum && as.Mode == "single")
			}
			if !hasNum {
				nvar++
				tgt := fmt.Sprintf("v%d", nvar)
				as := Assign{Target: tgt, Mode: "single", E: V(c.Actors[g.R.Intn(len(c.Actors))], "s"), Typ: TNum}
				m.ClauseOrdr = append(m.ClauseOrdr, fmt.Sprintf("%s computes %s as %s", m.Name, tgt, as.E.Src()))
				m.Assigns = append(m.Assigns, as)
				c.VarTypes[tgt] = as.Typ
				c.VarOrder = append(c.VarOrder, tgt)
			}
		}
		// expects
		if len(m.Assigns) == 0 || g.R.Intn(4) != 0 {
			m.Modality = g.pick(g.Modalities)
			if g.R.Float64() < g.PErrExpr {
				m.Expect = g.illTyped(c)
			} else if g.SimpleExpect > 0 && g.R.Float64() < g.SimpleExpect {
				// a plain comparison of one scalar signal with a constant: the observations of a
				// period can then be read off the events
				m.ExpKind = "sig"
				m.ExpVar = [2]string{c.Actors[g.R.Intn(len(c.Actors))], "s"}
				m.ExpK = int64(1 + g.R.Intn(4))
				m.ExpGt = g.R.Intn(2) == 0
				op := "<"
				if m.ExpGt {
					op = ">"
				}
				m.Expect = Bin(op, V(m.ExpVar[0], "s"), Num(m.ExpK))
				if g.ExpectViaComputed && g.R.Intn(3) == 0 {
					nvar++
					tgt := fmt.Sprintf("w%d", nvar)
					as := Assign{Target: tgt, Mode: "single", E: V(m.ExpVar[0], "s"), Typ: TNum}
					m.ClauseOrdr = append(m.ClauseOrdr, fmt.Sprintf("%s computes %s as %s", m.Name, tgt, as.E.Src()))
					m.Assigns = append(m.Assigns, as)
					c.VarTypes[tgt] = as.Typ
					c.VarOrder = append(c.VarOrder, tgt)
					m.ExpKind = "comp"
					m.Expect = Bin(op, V("", tgt), Num(m.ExpK))
				}
			} else {
				// signals only, or also t / mood / moodt / computed variables
				m.Expect = g.boolExpr(c, 2, g.R.Intn(2) == 0)
			}
			m.ClauseOrdr = append(m.ClauseOrdr, fmt.Sprintf("%s expects %s: %s", m.Name, m.Modality, m.Expect.Src()))
		}
		// watches
		if g.R.Intn(3) == 0 || (g.VerdictBias && g.R.Intn(2) == 0) {
			a := c.Actors[g.R.Intn(len(c.Actors))]
			sg := g.pick([]string{"s", "e"})
			m.WatchSigs = append(m.WatchSigs, [2]string{a, sg})
			m.ClauseOrdr = append(m.ClauseOrdr, fmt.Sprintf("%s watches %s %s", m.Name, a, sg))
		}
		if len(c.VarOrder) > 0 && g.R.Intn(3) == 0 {
			v := c.VarOrder[g.R.Intn(len(c.VarOrder))]
			m.WatchVars = append(m.WatchVars, v)
			m.ClauseOrdr = append(m.ClauseOrdr, fmt.Sprintf("%s watches %s", m.Name, v))
		}
		c.Members = append(c.Members, m)
	}
	if g.WithInterp {
		// Two interpretation sections: one after the first K members (its
		// auditor-less shorthand only touches those), one at the end.
		c.InterpSplit = 1 + g.R.Intn(len(c.Members))
		gen := func(avail []*Member) []string {
			var out []string
			nc := g.R.Intn(4)
			for i := 0; i < nc; i++ {
				res := g.pick([]string{"disappointment", "satisfaction"})
				if g.R.Intn(4) == 0 {
					out = append(out, "ignore "+res)
					for _, m := range avail {
						if res == "disappointment" {
							m.FoulBad = "ignore"
						} else {
							m.FoulGood = "ignore"
						}
					}
					continue
				}
				m := avail[g.R.Intn(len(avail))]
				mode := g.pick([]string{"ignore", "foul upon", "require"})
				if g.VerdictBias && g.R.Intn(3) == 0 {
					mode = "require"
				}
				out = append(out, mode+" "+m.Name+" "+res)
				if res == "disappointment" {
					m.FoulBad = mode
				} else {
					m.FoulGood = mode
				}
			}
			return out
		}
		avail1 := append([]*Member(nil), c.Members[:c.InterpSplit]...)
		for _, m := range c.Members[c.InterpSplit:] {
			if m.Name == c.EarlyMention {
				avail1 = append(avail1, m) // already declared by its early mention
			}
		}
		c.Interp1 = gen(avail1)
		if g.VerdictBias && c.InterpSplit < len(c.Members) {
			// `X expects like Y` for a member declared after the first
			// interpretation section, Y being an earlier member with an expects
			for _, m := range c.Members[c.InterpSplit:] {
				if m.Name == c.EarlyMention || g.R.Intn(2) == 0 {
					continue
				}
				var cands []*Member
				for _, y := range c.Members[:c.InterpSplit] {
					if y.Expect != nil {
						cands = append(cands, y)
					}
				}
				if len(cands) == 0 {
					break
				}
				y := cands[g.R.Intn(len(cands))]
				// the copy takes Y's condition (unless X has its own), modality and predicate
				m.Assigns = nil
				m.WatchSigs, m.WatchVars = nil, nil
				m.Modality, m.Expect = y.Modality, y.Expect
				m.ExpKind, m.ExpVar, m.ExpK, m.ExpGt = y.ExpKind, y.ExpVar, y.ExpK, y.ExpGt
				m.CondKind, m.Cond, m.CondMood, m.CondVar, m.CondK = y.CondKind, y.Cond, y.CondMood, y.CondVar, y.CondK
				m.ClauseOrdr = []string{m.Name + " expects like " + y.Name}
			}
		}
		c.Interp = gen(c.Members)
		c.InterpBlank = []string{" ", " ", "  ", "\t", " \t "}[g.R.Intn(5)]
	}
	return c
}

// Text renders the configuration file.
func (c *Config) Text() string {
	var b strings.Builder
	b.WriteString("role r\n  :noop true\n  spotlight true\n")
	b.WriteString("  signal s scalar at (?P<ts_now>)s=(?P<scalar>\\d+)\n")
	b.WriteString("  signal e event at (?P<ts_now>)e=(?P<event>\\w+)\n")
	b.WriteString("end\ncast\n")
	for _, a := range c.Actors {
		b.WriteString("  " + a + " plays r\n")
	}
	b.WriteString("end\n")
	first := c.Members
	var rest []*Member
	if c.InterpSplit > 0 && c.InterpSplit < len(c.Members) {
		first, rest = c.Members[:c.InterpSplit], c.Members[c.InterpSplit:]
	}
	b.WriteString("audience\n")
	if c.EarlyMention != "" {
		b.WriteString("  " + c.EarlyMention + " measures things\n")
	}
	for _, m := range first {
		for _, cl := range m.ClauseOrdr {
			b.WriteString("  " + cl + "\n")
		}
	}
	b.WriteString("end\n")
	if len(c.Interp1) > 0 {
		b.WriteString("interpretation\n")
		for _, cl := range c.Interp1 {
			b.WriteString("  " + c.blank(cl) + "\n")
		}
		b.WriteString("end\n")
	}
	if len(rest) > 0 {
		b.WriteString("audience\n")
		for _, m := range rest {
			for _, cl := range m.ClauseOrdr {
				b.WriteString("  " + cl + "\n")
			}
		}
		b.WriteString("end\n")
	}
	if len(c.Interp) > 0 {
		b.WriteString("interpretation\n")
		for _, cl := range c.Interp {
			b.WriteString("  " + c.blank(cl) + "\n")
		}
		b.WriteString("end\n")
	}
	return b.String()
}

func (c *Config) blank(cl string) string {
	if c.InterpBlank == "" {
		return cl
	}
	return strings.Join(strings.Fields(cl), c.InterpBlank)
}

var modeCoq = map[string]string{"single": "ASingle", "first": "AFirst", "last": "ALast", "top": "ATop", "bottom": "ABottom"}

// HasState tells whether the member gets an auditor state.
func (m *Member) HasState() bool { return m.Expect != nil || len(m.Assigns) > 0 }

// CoqMember prints the member as a term of Model/Audit.v; T is the Coq
// function from modality names to tables.
func (m *Member) CoqMember() string {
	cond := "(EConst (VBool true))"
	if m.Cond != nil {
		cond = m.Cond.Coq()
	}
	var as []string
	for _, a := range m.Assigns {
		as = append(as, fmt.Sprintf("{| as_target := %s; as_mode := %s; as_n := %d; as_expr := %s |}",
			coqStr(a.Target), modeCoq[a.Mode], a.N, a.E.Coq()))
	}
	exp := "None"
	if m.Expect != nil {
		exp = "(Some (T " + coqStr(m.Modality) + ", " + m.Expect.Coq() + "))"
	}
	return fmt.Sprintf("{| m_name := %s; m_cond := %s; m_assigns := [%s]; m_expect := %s |}",
		coqStr(m.Name), cond, strings.Join(as, "; "), exp)
}

// ParseVarString splits "actor sig" / "name" as varName.String() prints it.
func ParseVarString(s string) [2]string {
	parts := strings.SplitN(s, " ", 2)
	if len(parts) == 2 {
		return [2]string{parts[0], parts[1]}
	}
	return [2]string{"", s}
}

// CoqCfg prints the acfg given the watchers and array variables exported by
// the real parsed configuration.
func (c *Config) CoqCfg(members []string, watchers map[string][]string, arrayVars []string) string {
	var ms []string
	for _, n := range members {
		for _, m := range c.Members {
			if m.Name == n {
				ms = append(ms, m.CoqMember())
			}
		}
	}
	var keys []string
	for k := range watchers {
		keys = append(keys, k)
	}
	sort.Strings(keys)
	var ws []string
	for _, k := range keys {
		var ns []string
		for _, n := range watchers[k] {
			ns = append(ns, coqStr(n))
		}
		ws = append(ws, "("+CoqVar(ParseVarString(k))+", ["+strings.Join(ns, "; ")+"])")
	}
	var init []string
	for _, v := range arrayVars {
		init = append(init, "("+CoqVar(ParseVarString(v))+", VArr [])")
	}
	return fmt.Sprintf("{| c_members := [%s];\n     c_watchers := [%s];\n     c_init := [%s] |}",
		strings.Join(ms, ";\n       "), strings.Join(ws, "; "), strings.Join(init, "; "))
}

// ---------------------------------------------------------------- events

// Sample is one signal value.
type Sample struct {
	Actor, Sig string
	IsNum      bool
	Num        int64
	Str        string
}

// Event is one input of the audit loop.
type Event struct {
	Kind    string // mood sig final
	TsHalf  int64  // time stamp in half seconds (exact dyadic)
	Mood    string
	Samples []Sample
}

// Ts returns the time stamp in seconds.
func (e *Event) Ts() float64 {
	if e.Kind == "final" {
		return float64(e.TsHalf)/2 + 0.2871
	}
	return float64(e.TsHalf) / 2
}

// CoqTs prints the time stamp.
func (e *Event) CoqTs() string {
	if e.Kind == "final" {
		return CoqQ(5000*e.TsHalf+2871, 10000)
	}
	return CoqQ(e.TsHalf, 2)
}

// Coq prints the event as a term of Model/Audit.v.
func (e *Event) Coq() string {
	switch e.Kind {
	case "mood":
		return "(EMood " + e.CoqTs() + " " + coqStr(e.Mood) + ")"
	case "final":
		return "(EFinal " + e.CoqTs() + ")"
	}
	var vs []string
	for _, s := range e.Samples {
		v := "(VStr " + coqStr(s.Str) + ")"
		if s.IsNum {
			v = "(VNum " + CoqQ(s.Num, 1) + ")"
		}
		vs = append(vs, "("+CoqVar([2]string{s.Actor, s.Sig})+", "+v+")")
	}
	return "(ESig " + e.CoqTs() + " [" + strings.Join(vs, "; ") + "])"
}

// History generates an event history ending with the final event.
func (g *Gen) History(c *Config, maxLen int) []Event {
	n := g.R.Intn(maxLen + 1)
	var es []Event
	ts := int64(0)
	last := map[string]int64{}
	for i := 0; i < n; i++ {
		ts += int64(g.R.Intn(3)) // equal time stamps happen
		if g.R.Intn(4) == 0 {
			es = append(es, Event{Kind: "mood", TsHalf: ts, Mood: g.pick(append(moods, "clear", "red"))})
			continue
		}
		ev := Event{Kind: "sig", TsHalf: ts}
		if g.LateStamps && g.R.Intn(6) == 0 {
			// a sample that carries an older time stamp than the events before it (a line stamped by
			// the monitored program itself, or one queued behind a mood change)
			ev.TsHalf = ts - int64(1+g.R.Intn(3))
			if ev.TsHalf < 0 {
				ev.TsHalf = 0
			}
		}
		for ai, a := range c.Actors {
			low := false
			if g.R.Intn(3) != 0 {
				k := a + " s"
				v := int64(g.R.Intn(7))
				if g.R.Intn(3) == 0 {
					v = last[k] // repeated value
				}
				last[k] = v
				ev.Samples = append(ev.Samples, Sample{Actor: a, Sig: "s", IsNum: true, Num: v})
				low = len(c.Members) > 0 && v <= c.Members[0].CondK
			}
			if c.CloseErr && ai == 0 {
				if low && g.R.Intn(2) == 0 {
					ev.Samples = append(ev.Samples, Sample{Actor: a, Sig: "e", Str: g.pick(evVals)})
				}
				continue
			}
			if g.R.Intn(4) == 0 {
				ev.Samples = append(ev.Samples, Sample{Actor: a, Sig: "e", Str: g.pick(evVals)})
			}
		}
		es = append(es, ev)
	}
	es = append(es, Event{Kind: "final", TsHalf: ts + 2})
	return es
}

// CoqItems renders the verdict-relevant items of the configuration file in
// file order, as terms of Model/Verdict.v.
func (c *Config) CoqItems() string {
	var items []string
	clause := func(cl string) string {
		f := strings.Fields(cl)
		res := "RBad"
		if f[len(f)-1] == "satisfaction" {
			res = "RGood"
		}
		if len(f) == 2 {
			return "IIgnoreAll " + res
		}
		mode := "FIgnore"
		name := f[1]
		switch f[0] {
		case "foul":
			mode = "FNonZero"
			name = f[2]
		case "require":
			mode = "FZero"
		}
		return "ISet " + mode + " " + coqStr(name) + " " + res
	}
	split := c.InterpSplit
	if split <= 0 || split > len(c.Members) {
		split = len(c.Members)
	}
	if c.EarlyMention != "" {
		items = append(items, "IMember "+coqStr(c.EarlyMention))
	}
	for _, m := range c.Members[:split] {
		items = append(items, "IMember "+coqStr(m.Name))
	}
	for _, cl := range c.Interp1 {
		items = append(items, clause(cl))
	}
	for _, m := range c.Members[split:] {
		items = append(items, "IMember "+coqStr(m.Name))
	}
	for _, cl := range c.Interp {
		items = append(items, clause(cl))
	}
	return "[" + strings.Join(items, "; ") + "]"
}

// FoulOf returns the generator's own computation of the final (bad, good)
// foul conditions of a member: defaults overridden by the last clause.
func (m *Member) FoulOf() (string, string) {
	b, gd := "FNonZero", "FIgnore"
	conv := func(s string) string {
		switch s {
		case "ignore":
			return "FIgnore"
		case "foul upon":
			return "FNonZero"
		case "require":
			return "FZero"
		}
		return ""
	}
	if x := conv(m.FoulBad); x != "" {
		b = x
	}
	if x := conv(m.FoulGood); x != "" {
		gd = x
	}
	return b, gd
}
