package audgen

import (
	"fmt"
	"strconv"
	"strings"

	"github.com/knz/shakespeare/pkg/cmd"
)

// FilterSinks drops the samples of signals nobody listens to, as
// detectSignals does (a.sinks lookup) before anything reaches the audition.
func FilterSinks(es []Event, sinks []string) []Event {
	ok := map[string]bool{}
	for _, s := range sinks {
		ok[s] = true
	}
	var out []Event
	for _, e := range es {
		if e.Kind == "sig" {
			var keep []Sample
			for _, s := range e.Samples {
				if ok[s.Actor+" "+s.Sig] {
					keep = append(keep, s)
				}
			}
			e.Samples = keep
		}
		out = append(out, e)
	}
	return out
}

// ToVerifEvents converts a history for the hook.
func ToVerifEvents(es []Event) []cmd.VerifEvent {
	var out []cmd.VerifEvent
	for i := range es {
		e := &es[i]
		ve := cmd.VerifEvent{Kind: e.Kind, Ts: e.Ts(), Mood: e.Mood}
		for _, s := range e.Samples {
			ve.Values = append(ve.Values, cmd.VerifValue{Actor: s.Actor, Sig: s.Sig, IsNum: s.IsNum, Num: float64(s.Num), Str: s.Str})
		}
		out = append(out, ve)
	}
	return out
}

// parseScalar renders one %v-formatted element as a Coq value.
func parseScalar(s string) string {
	if s == "true" {
		return "(VBool true)"
	}
	if s == "false" {
		return "(VBool false)"
	}
	if s == "<nil>" {
		return "VNil"
	}
	if f, err := strconv.ParseFloat(s, 64); err == nil {
		return "(VNum " + CoqQFloat(f) + ")"
	}
	return "(VStr " + coqStr(s) + ")"
}

// CoqObsValue renders the string the collector received as a Coq value.
// typ 1 (scalar) is a number; otherwise "[a b c]" is an array, true/false a
// bool, anything else a string (the generator never uses strings that look
// like numbers, booleans or arrays).
func CoqObsValue(typ int, s string) string {
	if typ == 1 {
		if f, err := strconv.ParseFloat(s, 64); err == nil {
			return "(VNum " + CoqQFloat(f) + ")"
		}
	}
	if strings.HasPrefix(s, "[") && strings.HasSuffix(s, "]") {
		inner := strings.TrimSpace(s[1 : len(s)-1])
		var items []string
		if inner != "" {
			for _, f := range strings.Fields(inner) {
				items = append(items, parseScalar(f))
			}
		}
		return "(VArr [" + strings.Join(items, "; ") + "])"
	}
	return parseScalar(s)
}

// CoqOuts renders the outputs of the real audition, per round (index 0 is the
// initial round, then one per event), split into collector events and
// start/stop judgements.
func CoqOuts(outs []cmd.VerifOut, nEvents int) (coll []string, judge []string) {
	c := make([][]string, nEvents+1)
	j := make([][]string, nEvents+1)
	for _, o := range outs {
		r := o.Round + 1
		switch o.Kind {
		case "report":
			c[r] = append(c[r], fmt.Sprintf("IReport %s %d", coqStr(o.Auditor), o.Result))
		case "obs":
			c[r] = append(c[r], "IObs "+CoqVar(ParseVarString(o.Var))+" "+CoqObsValue(o.Typ, o.Val))
		case "judge":
			if strings.HasSuffix(o.Text, " starts auditing") {
				j[r] = append(j[r], "IStart "+coqStr(strings.TrimSuffix(o.Text, " starts auditing")))
			} else if strings.HasSuffix(o.Text, " stops auditing") {
				j[r] = append(j[r], "IStop "+coqStr(strings.TrimSuffix(o.Text, " stops auditing")))
			}
		}
	}
	for i := range c {
		coll = append(coll, "["+strings.Join(c[i], "; ")+"]")
		judge = append(judge, "["+strings.Join(j[i], "; ")+"]")
	}
	return coll, judge
}

// Status maps the hook's result to the model's status code.
func Status(res *cmd.VerifAuditionResult) int {
	if res.Panic != "" {
		return 2
	}
	if res.AuditErr != "" {
		return 1
	}
	return 0
}
