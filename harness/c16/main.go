// Harness for C16: runs the real log entry codec (Entry.Format /
// NewEntryDecoder) on generated entries and streams, and the real file
// rotation / garbage collection of the main logger and of secondary loggers in
// temporary directories; writes inputs and observations as Coq terms
// (cases.v), as JSON (cases.json, for replays) and a summary (summary.json).
//
// The log package has global state (the main logger, LogFileMaxSize,
// LogFilesCombinedMaxSize): everything here runs sequentially on the main
// goroutine and every changed global is restored.
package main

import (
	"bytes"
	"context"
	"encoding/json"
	"flag"
	"fmt"
	"io"
	"io/ioutil"
	"math"
	"math/rand"
	"os"
	"path/filepath"
	"runtime/debug"
	"sort"
	"strconv"
	"strings"
	"sync/atomic"
	"testing/iotest"
	"time"

	"github.com/knz/shakespeare/pkg/crdb/log"
	"github.com/knz/shakespeare/verifharness/vh"
)

// ---------------------------------------------------------------------------
// codec

type jEntry struct {
	Sev   int64
	Time  int64
	Civil [7]int64 // year month day hour minute second microsecond (UTC)
	Gid   int64
	File  string // %q
	FileB []byte
	Line  int64
	Msg   string // %q
	MsgB  []byte
}

type codecCase struct {
	Class   string
	Reader  string // how the decoder is fed: "whole", "one", "half", "dataerr", "chunk-<k>"
	In      []jEntry
	Stream  string // %q
	StreamB []byte
	Out     []jEntry
	Err     int // 0 none (EOF), 1 time.Parse, 2 strconv, 3 other
	ErrText string
	Note    string
}

func civilOf(ns int64) [7]int64 {
	t := time.Unix(0, ns).UTC()
	return [7]int64{int64(t.Year()), int64(t.Month()), int64(t.Day()), int64(t.Hour()),
		int64(t.Minute()), int64(t.Second()), int64(t.Nanosecond() / 1000)}
}

func jOf(e log.Entry) jEntry {
	return jEntry{Sev: int64(e.Severity), Time: e.Time, Civil: civilOf(e.Time), Gid: e.Goroutine,
		File: fmt.Sprintf("%q", e.File), FileB: []byte(e.File), Line: e.Line,
		Msg: fmt.Sprintf("%q", e.Message), MsgB: []byte(e.Message)}
}

func coqEntry(j jEntry) string {
	c := j.Civil
	return fmt.Sprintf("(mkEntry %s %s %s %s %s %s %s %s %s %s %s %s)",
		vh.Z(j.Sev), vh.Z(c[0]), vh.Z(c[1]), vh.Z(c[2]), vh.Z(c[3]), vh.Z(c[4]), vh.Z(c[5]), vh.Z(c[6]),
		vh.Z(j.Gid), vh.Bytes(j.FileB), vh.Z(j.Line), vh.Bytes(j.MsgB))
}

func coqEntries(js []jEntry) string {
	var items []string
	for _, j := range js {
		items = append(items, coqEntry(j))
	}
	return vh.List(items)
}

func formatAll(es []log.Entry) []byte {
	var buf bytes.Buffer
	for _, e := range es {
		if err := e.Format(&buf); err != nil {
			panic(err)
		}
	}
	return buf.Bytes()
}

// chunkReader returns at most k bytes per Read: every k-th byte of the stream
// is a read boundary for bufio.Scanner.
type chunkReader struct {
	r io.Reader
	k int
}

func (c chunkReader) Read(p []byte) (int, error) {
	if len(p) > c.k {
		p = p[:c.k]
	}
	return c.r.Read(p)
}

func readerFor(mode string, b []byte) io.Reader {
	var r io.Reader = bytes.NewReader(b)
	switch {
	case mode == "one":
		return iotest.OneByteReader(r)
	case mode == "half":
		return iotest.HalfReader(r)
	case mode == "dataerr":
		return iotest.DataErrReader(r)
	case strings.HasPrefix(mode, "chunk-"):
		k, err := strconv.Atoi(mode[len("chunk-"):])
		if err != nil || k <= 0 {
			panic("bad reader mode " + mode)
		}
		return chunkReader{r, k}
	}
	return r
}

var readerModes = []string{"whole", "one", "half", "dataerr", "chunk-2", "chunk-3", "chunk-7", "chunk-13", "chunk-24", "chunk-25",
	"chunk-31", "chunk-64", "chunk-100", "chunk-1000", "chunk-4095", "chunk-4097"}

func decodeAll(b []byte) ([]log.Entry, int, string) { return decodeVia("whole", b) }

// decodeFile decodes the content of a log file. A file that may hold an entry
// beyond bufio's 64 KiB token limit (the decoder truncates those and may then
// skip what follows; outside the model) is decoded line by line, each line by a
// decoder of its own: the harness's messages are single lines.
func decodeFile(b []byte) ([]log.Entry, int, string) {
	if len(b) < 60000 {
		return decodeAll(b)
	}
	var res []log.Entry
	for len(b) > 0 {
		n := bytes.IndexByte(b, '\n')
		line := b
		if n >= 0 {
			line, b = b[:n+1], b[n+1:]
		} else {
			b = nil
		}
		es, k, txt := decodeAll(line)
		res = append(res, es...)
		if k != 0 {
			return res, k, txt
		}
	}
	return res, 0, ""
}

func decodeVia(mode string, b []byte) ([]log.Entry, int, string) {
	d := log.NewEntryDecoder(readerFor(mode, b))
	var res []log.Entry
	for {
		var e log.Entry
		if err := d.Decode(&e); err != nil {
			if err == io.EOF {
				return res, 0, ""
			}
			kind := 3
			switch err.(type) {
			case *time.ParseError:
				kind = 1
			case *strconv.NumError:
				kind = 2
			}
			return res, kind, err.Error()
		}
		res = append(res, e)
	}
}

func mkCodecCase(class string, in []log.Entry, stream []byte, note string) codecCase {
	return mkCodecCaseVia("whole", class, in, stream, note)
}

func mkCodecCaseVia(mode, class string, in []log.Entry, stream []byte, note string) codecCase {
	c := codecCase{Class: class, Reader: mode, Note: note, StreamB: stream}
	s := string(stream)
	if len(s) > 400 {
		s = s[:300] + "..." + s[len(s)-80:]
	}
	c.Stream = fmt.Sprintf("%q", s)
	for _, e := range in {
		c.In = append(c.In, jOf(e))
	}
	out, k, txt := decodeVia(mode, stream)
	for _, e := range out {
		c.Out = append(c.Out, jOf(e))
	}
	c.Err, c.ErrText = k, txt
	return c
}

// The stream goes out in chunks of at most 2000 bytes: one literal list of
// several ten thousand elements overflows the stack of Coq's parser.
func coqCodecCase(c codecCase) string {
	var chunks []string
	for b := c.StreamB; len(b) > 0; {
		n := len(b)
		if n > 2000 {
			n = 2000
		}
		chunks = append(chunks, vh.Bytes(b[:n]))
		b = b[n:]
	}
	return fmt.Sprintf("(%s, %s, %s, %d)", coqEntries(c.In), vh.List(chunks), coqEntries(c.Out), c.Err)
}

func coqRawCase(c codecCase) string {
	return fmt.Sprintf("(%s, %s, %d)", vh.Bytes(c.StreamB), coqEntries(c.Out), c.Err)
}

// --- generators

var (
	tLo = time.Date(2000, 1, 1, 0, 0, 0, 0, time.UTC).UnixNano()
	tHi = time.Date(2069, 1, 1, 0, 0, 0, 0, time.UTC).UnixNano()
)

func genTime(rng *rand.Rand) int64 {
	var t int64
	switch rng.Intn(12) {
	case 0:
		t = tLo
	case 1:
		t = tHi - 1000
	case 2:
		t = time.Date(2000, 2, 29, 23, 59, 59, 999999000, time.UTC).UnixNano()
	case 3:
		t = time.Date(2068, 2, 29, 0, 0, 0, 0, time.UTC).UnixNano()
	case 4:
		// the last microsecond of a random month
		y, m := 2000+rng.Intn(69), time.Month(1+rng.Intn(12))
		t = time.Date(y, m+1, 1, 0, 0, 0, 0, time.UTC).UnixNano() - 1000
	case 5:
		// microsecond 0 / 999999 of a random second
		t = tLo + rng.Int63n((tHi-tLo)/1e9)*1e9
		if rng.Intn(2) == 0 {
			t += 999999000
		}
	default:
		t = tLo + rng.Int63n((tHi-tLo)/1000)*1000
	}
	if rng.Intn(10) == 0 {
		t += rng.Int63n(1000) // sub-microsecond remainder: dropped by the format
	}
	return t
}

func genGid(rng *rand.Rand) int64 {
	switch rng.Intn(10) {
	case 0, 1, 2:
		return 0
	case 3:
		return math.MaxInt64
	case 4:
		return rng.Int63()
	case 5:
		return 1 + rng.Int63n(3) // the smallest ids that are still printed
	default:
		return 1 + rng.Int63n(300)
	}
}

func genLine(rng *rand.Rand) int64 {
	switch rng.Intn(10) {
	case 0:
		return 0
	case 1:
		return math.MaxInt64
	case 2:
		return rng.Int63()
	default:
		return 1 + rng.Int63n(5000)
	}
}

func isDigit(c byte) bool { return c >= '0' && c <= '9' }

// ambiguousFile: digits, a space, and at least one more byte.
func ambiguousFile(f string) bool {
	i := 0
	for i < len(f) && isDigit(f[i]) {
		i++
	}
	return i > 0 && i+1 < len(f) && f[i] == ' '
}

var fileTemplates = []string{
	"a.go", "verif/main.go", "pkg/cmd/run.go", "x y.go", "12a.go", "a12 b.go", "12 ", "007", " 12 a.go",
	"\xc3\xa9.go", "file.with.dots.go", "a", ".", " ", "1", "12", "a 12 b.go", "12\ta.go", "I190304", "-", "9 ",
}

const fileAlphabet = "abcXYZ019._-/ \t#[]()%\xc3\xa9"

func genFile(rng *rand.Rand, gid int64) string {
	var f string
	if rng.Intn(14) == 0 {
		// a long path: the header alone is well over a hundred bytes
		f = strings.Repeat("some dir/", 8+rng.Intn(14)) + "file.go"
		return f[rng.Intn(9):]
	}
	if rng.Intn(2) == 0 {
		f = fileTemplates[rng.Intn(len(fileTemplates))]
	} else {
		n := 1 + rng.Intn(12)
		b := make([]byte, n)
		for i := range b {
			b[i] = fileAlphabet[rng.Intn(len(fileAlphabet))]
		}
		f = string(b)
	}
	if gid <= 0 && ambiguousFile(f) {
		f = "f" + f
	}
	return f
}

var words = []string{"hello", "world", "a:1", "b:2", ":5", "x", "file.go:12", "17 a.go:3", "rotation", "gc",
	"\xc3\xa9t\xc3\xa9", "\xe2\x9c\x93", "[n1]", "k=v", "12", "I", "W190304", "0", "%d", "\"q\"", "\\n"}

var innerSeps = []string{" ", " ", " ", "  ", "\t", ": ", "\r", "\xc2\xa0", "\xe2\x80\x83", ",", ""}

// byte strings that are not white space although they look close to it
var edgeNonSpace = []string{"\x85", "\xa0", "\xc2", "\xe2\x80", "\xe2\x80\xa7", "\xe2\x81\xa0", "\xe1\x9a\x81", "\xe3\x80\x81", "\xc2\x86", "\x00", "\x1f", "\x7f"}

func genHeaderLike(rng *rand.Rand) string {
	e := log.Entry{Severity: log.Severity(1 + rng.Intn(4)), Time: genTime(rng), Goroutine: genGid(rng),
		File: "z.go", Line: genLine(rng), Message: "inner"}
	if rng.Intn(3) == 0 {
		e.Message = ""
	}
	s := string(formatAll([]log.Entry{e}))
	s = strings.TrimRight(s, "\n ")
	return s
}

func genMsg(rng *rand.Rand) string {
	k := rng.Intn(20)
	if k == 5 && rng.Intn(8) != 0 {
		k = 19 // long messages are rare: they dominate the size of the case file
	}
	switch {
	case k == 0:
		return ""
	case k <= 3:
		// header-like text, at the start, in the middle or at the end
		h := genHeaderLike(rng)
		switch rng.Intn(3) {
		case 0:
			return h
		case 1:
			return "before " + h + " after"
		default:
			return words[rng.Intn(len(words))] + " " + h
		}
	case k == 4:
		// bytes that are almost white space at the edges
		a, b := edgeNonSpace[rng.Intn(len(edgeNonSpace))], edgeNonSpace[rng.Intn(len(edgeNonSpace))]
		return a + " mid " + b
	case k == 5:
		// long: crosses bufio's initial 4096-byte buffer
		n := 500 + rng.Intn(6000)
		b := make([]byte, n)
		for i := range b {
			b[i] = "abc def:g1"[rng.Intn(10)]
		}
		b[0], b[n-1] = 'L', 'l'
		return string(b)
	}
	n := 1 + rng.Intn(6)
	var sb strings.Builder
	for i := 0; i < n; i++ {
		if i > 0 {
			sb.WriteString(innerSeps[rng.Intn(len(innerSeps))])
		}
		sb.WriteString(words[rng.Intn(len(words))])
	}
	return sb.String()
}

func genEntry(rng *rand.Rand) log.Entry {
	g := genGid(rng)
	return log.Entry{Severity: log.Severity(1 + rng.Intn(4)), Time: genTime(rng), Goroutine: g,
		File: genFile(rng, g), Line: genLine(rng), Message: genMsg(rng)}
}

// --- perturbed streams (decoder only)

func setAt(b []byte, off int, s string) []byte {
	r := append([]byte(nil), b...)
	if off+len(s) <= len(r) {
		copy(r[off:], s)
	}
	return r
}

func genRaw(rng *rand.Rand) (string, []byte) {
	n := 1 + rng.Intn(3)
	var es []log.Entry
	for i := 0; i < n; i++ {
		e := genEntry(rng)
		if len(e.Message) > 300 {
			e.Message = "shortened"
		}
		es = append(es, e)
	}
	s := formatAll(es)
	type pert struct {
		name string
		f    func() []byte
	}
	firstGid := es[0].Goroutine
	ps := []pert{
		{"sep-comma", func() []byte { return setAt(s, 16, ",") }},
		{"sep-x", func() []byte { return setAt(s, 16, "x") }},
		{"sep-space", func() []byte { return setAt(s, 16, " ") }},
		{"sep-newline", func() []byte { return setAt(s, 16, "\n") }},
		{"month-13", func() []byte { return setAt(s, 3, "13") }},
		{"month-00", func() []byte { return setAt(s, 3, "00") }},
		{"day-00", func() []byte { return setAt(s, 5, "00") }},
		{"day-32", func() []byte { return setAt(s, 5, "32") }},
		{"feb-30", func() []byte { return setAt(s, 3, "0230") }},
		{"feb-29-nonleap", func() []byte { return setAt(s, 1, "190229") }},
		{"feb-29-leap", func() []byte { return setAt(s, 1, "200229") }},
		{"apr-31", func() []byte { return setAt(s, 3, "0431") }},
		{"hour-24", func() []byte { return setAt(s, 8, "24") }},
		{"min-60", func() []byte { return setAt(s, 11, "60") }},
		{"sec-60", func() []byte { return setAt(s, 14, "60") }},
		{"year-69", func() []byte { return setAt(s, 1, "69") }},
		{"year-99", func() []byte { return setAt(s, 1, "99") }},
		{"sev-X", func() []byte { return setAt(s, 0, "X") }},
		{"sev-lower", func() []byte { return setAt(s, 0, "i") }},
		{"truncate", func() []byte { return append([]byte(nil), s[:rng.Intn(len(s)+1)]...) }},
		{"garbage-line", func() []byte { return append([]byte("garbage line: 12\n"), s...) }},
		{"junk-prefix", func() []byte { return append([]byte("junk"), s...) }},
		{"double-sev", func() []byte { return append([]byte("I"), s...) }},
		{"leading-newline", func() []byte { return append([]byte("\n\n"), s...) }},
		{"no-final-newline", func() []byte { return append([]byte(nil), s[:len(s)-1]...) }},
		{"crlf", func() []byte { return bytes.Replace(s, []byte("\n"), []byte("\r\n"), -1) }},
		{"huge-gid", func() []byte {
			if firstGid <= 0 {
				return append(append(append([]byte(nil), s[:24]...), []byte("99999999999999999999 ")...), s[24:]...)
			}
			return append(append(append([]byte(nil), s[:24]...), []byte("9999999999999999999")...), s[24:]...)
		}},
		{"zero-padded-gid", func() []byte {
			if firstGid <= 0 {
				return append(append(append([]byte(nil), s[:24]...), []byte("00017 ")...), s[24:]...)
			}
			return append(append(append([]byte(nil), s[:24]...), []byte("000")...), s[24:]...)
		}},
		{"huge-line", func() []byte {
			i := bytes.IndexByte(s, ':')           // hh:mm
			i += 1 + bytes.IndexByte(s[i+1:], ':') // mm:ss
			i += 1 + bytes.IndexByte(s[i+1:], ':') // file:line
			return append(append(append([]byte(nil), s[:i+1]...), []byte("99999999999999999999")...), s[i+1:]...)
		}},
		{"intact", func() []byte { return append([]byte(nil), s...) }},
	}
	p := ps[rng.Intn(len(ps))]
	return p.name, p.f()
}

// --- probes outside the guards of the round-trip theorem (model agreement only)

func genProbe(rng *rand.Rand, i int) (string, log.Entry) {
	e := genEntry(rng)
	if len(e.Message) > 200 {
		e.Message = "m"
	}
	type pr struct {
		name string
		f    func()
	}
	spaces := []string{" ", "\t", "\r", "\v", "\f", "\xc2\xa0", "\xc2\x85", "\xe2\x80\x83", "\xe3\x80\x80", "\xe1\x9a\x80", "\xe2\x80\xa8", "\xe2\x80\xaf", "\xe2\x81\x9f", "\xe2\x80\x8a"}
	sp := func() string { return spaces[rng.Intn(len(spaces))] }
	ps := []pr{
		{"msg-leading-space", func() { e.Message = sp() + "lead " + e.Message + "x" }},
		{"msg-trailing-space", func() { e.Message = "x" + e.Message + " trail" + sp() }},
		{"msg-both-space", func() { e.Message = sp() + sp() + "both" + sp() + sp() }},
		{"msg-only-space", func() { e.Message = sp() + sp() }},
		{"msg-trailing-newline", func() { e.Message = "x" + e.Message + "\n" }},
		{"msg-multiline-plain", func() { e.Message = "first\nsecond line\n  third" }},
		{"msg-multiline-header", func() { e.Message = "first\n" + genHeaderLike(rng) }},
		{"file-colon", func() { e.File = "c:" + e.File }},
		{"file-colon-digit", func() { e.File = "a:3" + e.File }},
		{"file-empty", func() { e.File = "" }},
		{"file-newline", func() { e.File = "a\nb.go" }},
		{"file-newline-header", func() { e.File = "a\n" + genHeaderLike(rng)[:24] + "b.go" }},
		{"line-negative", func() { e.Line = -1 - rng.Int63n(100) }},
		{"gid-negative", func() { e.Goroutine = -1 - rng.Int63n(100); e.File = "g.go" }},
		{"sev-0", func() { e.Severity = 0 }},
		{"sev-5", func() { e.Severity = 5 }},
		{"sev-6", func() { e.Severity = 6 }},
		{"year-1999", func() { e.Time = tLo - 1000 - rng.Int63n(1e15)/1000*1000 }},
		{"year-2069", func() { e.Time = tHi + rng.Int63n(1e15)/1000*1000 }},
		{"year-2100", func() { e.Time = time.Date(2100+rng.Intn(100), 5, 6, 7, 8, 9, 0, time.UTC).UnixNano() }},
	}
	p := ps[i%len(ps)]
	p.f()
	return p.name, e
}

// ---------------------------------------------------------------------------
// rotation and GC

type shim struct{}

func (shim) Fatal(a ...interface{})            { panic(fmt.Sprint(a...)) }
func (shim) Failed() bool                      { return false }
func (shim) Error(a ...interface{})            { panic(fmt.Sprint(a...)) }
func (shim) Errorf(f string, a ...interface{}) { panic(fmt.Sprintf(f, a...)) }
func (shim) Name() string                      { return "verifc16" }
func (shim) Log(...interface{})                {}
func (shim) Logf(string, ...interface{})       {}

type snapFile struct {
	Stamp     int64
	Size      int64
	Ids       []int64
	Other     int // decoded entries that are not user messages (the per-file header)
	Name      string
	Raw       string `json:",omitempty"` // %q of the content, only when the size is not header + entries
	DecodeErr string `json:",omitempty"` // the decoder stopped with this error (entries before it are kept)
}

type histOp struct {
	Op  string // "log", "setmax", "gc", "snap", "setsync" (Arg 1/0), "peek" (list without flushing; sync mode only), "close"
	Now int64  // "log": the time stamp of the file written to after the call (syncBuffer.lastRotation)
	Id  int64
	Len int64 // bytes of the formatted entry
	Arg int64 // setmax / gc argument
}

// plantedFile is a file put in the directory before the logger runs: as if
// written earlier by the same program, possibly on a machine or under a user
// with another name (the name is program.host.user.timestamp.pid.log; only the
// time stamp decides the order).
// otherPid: the process id field of a planted file's name: this process's, or
// that of an earlier run (the listing and GC do not look at it).
func otherPid(rng *rand.Rand, own string) string {
	switch rng.Intn(5) {
	case 0, 1:
		return own
	case 2:
		return "000001"
	case 3:
		return fmt.Sprintf("%06d", 2+rng.Intn(4000000))
	default:
		return "4194304"
	}
}

type plantedFile struct {
	Pid   string
	Stamp int64
	Size  int64
	Ids   []int64 // user messages it holds (formatted entries), oldest first
	Host  string
	User  string
	Name  string
}

type histCase struct {
	Logger   string // "main" or "secondary"
	H        int64  // bytes of the header entries of every new file
	Max0     int64
	Planted  []plantedFile
	Ops      []histOp
	Snaps    [][]snapFile
	Fetch    []int64 // FetchEntriesFromFiles, put back in chronological order (main logger only)
	HasWin   bool    // a fetch from a time mark on was made
	WinWant  []int64 // the messages logged after the mark
	WinGot   []int64 // FetchEntriesFromFiles(mark, max), chronological
	HasFetch bool
	Note     string
}

// the single call sites of the user messages (constant header width)
func logMain(msg string) { log.Infof(context.Background(), "%s", msg) }

func logSecondary(l *log.SecondaryLogger, msg string) { l.Logf(context.Background(), "%s", msg) }

const marker = "m#"

func mkMsg(id int64, pad int) string {
	s := marker + strconv.FormatInt(id, 10) + "#"
	if len(s) < pad {
		s += strings.Repeat("p", pad-len(s))
	}
	return s
}

// idOf extracts the identifier from a decoded message ("m#12#ppp" or, on a
// secondary logger, "7 m#12#ppp").
func idOf(msg string) (int64, bool) {
	i := strings.Index(msg, marker)
	if i < 0 {
		return 0, false
	}
	if i > 0 {
		// only a counter and a space may precede
		pre := msg[:i]
		if pre[len(pre)-1] != ' ' {
			return 0, false
		}
		if _, err := strconv.ParseUint(pre[:len(pre)-1], 10, 64); err != nil {
			return 0, false
		}
	}
	rest := msg[i+len(marker):]
	j := strings.IndexByte(rest, '#')
	if j < 0 {
		return 0, false
	}
	id, err := strconv.ParseInt(rest[:j], 10, 64)
	if err != nil {
		return 0, false
	}
	return id, true
}

type runner struct {
	kind    string
	vl      log.VerifLogger
	sec     *log.SecondaryLogger
	counter int64 // messages logged on the secondary logger so far
	dir     string
	planted map[string]bool
	gids    map[int64]bool // goroutine ids seen in the decoded files
}

func (r *runner) log(msg string) {
	if r.kind == "main" {
		logMain(msg)
	} else {
		r.counter++
		logSecondary(r.sec, msg)
	}
}

// fullMsg is the message text as it reaches the log file.
func (r *runner) fullMsg(msg string) string {
	if r.kind == "main" {
		return msg
	}
	return strconv.FormatInt(r.counter+1, 10) + " " + msg
}

func (r *runner) snapshot() []snapFile { return r.snapshotLens(nil, 0) }

// snapshotLens is snapshot; with the lengths of the logged entries it also
// records the raw content of any file whose size is not what its decoded
// content explains (diagnostic only).
func (r *runner) snapshotLens(lens map[int64]int64, h int64) []snapFile {
	log.Flush()
	return r.look(lens, h)
}

// look lists and decodes the files as they are, without flushing.
func (r *runner) look(lens map[int64]int64, h int64) []snapFile {
	fis, err := r.vl.ListFiles()
	if err != nil {
		panic(err)
	}
	var res []snapFile
	for _, fi := range fis {
		sf := snapFile{Stamp: fi.Details.Time / 1e9, Name: fi.Name}
		st, err := os.Stat(filepath.Join(r.dir, fi.Name))
		if err != nil {
			panic(err)
		}
		sf.Size = st.Size()
		{
			planted := r.planted[fi.Name]
			b, err := ioutil.ReadFile(filepath.Join(r.dir, fi.Name))
			if err != nil {
				panic(err)
			}
			es, k, txt := decodeFile(b)
			if k != 0 {
				sf.DecodeErr = txt
			}
			for _, e := range es {
				if !planted {
					r.gids[e.Goroutine] = true
				}
				if id, ok := idOf(e.Message); ok {
					sf.Ids = append(sf.Ids, id)
				} else {
					sf.Other++
				}
			}
			if lens != nil && !planted {
				want := h
				if sf.Other > 4 {
					want = h * int64(sf.Other/4) // re-opened under the same name: one more header
				}
				for _, id := range sf.Ids {
					want += lens[id]
				}
				if want != sf.Size {
					raw := string(b)
					if len(raw) > 6000 {
						raw = raw[:6000]
					}
					sf.Raw = fmt.Sprintf("%q", raw)
				}
			}
		}
		res = append(res, sf)
	}
	sort.SliceStable(res, func(i, j int) bool { return res[i].Stamp < res[j].Stamp })
	return res
}

type calib struct{ overhead, h int64 }

// The header widths are constant only if the goroutine id the logger prints
// is. With the vendored petermattis/goid (2018) on a current Go runtime,
// goid.Get() does not read the goroutine id but a status word that changes
// while the garbage collector scans the stack (2 -> 4098). The harness
// therefore switches the collector off while it drives the loggers and, as a
// safety net, discards and redoes any history in whose files more than one
// goroutine id appears (counted in the summary).
func (r *runner) glitch() bool { return len(r.gids) > 1 }

func calibrate(kind string, seq *int) calib {
	for i := 0; i < 20; i++ {
		if c, ok := calibrateOnce(kind, seq); ok {
			return c
		}
	}
	panic("calibration: goroutine id never stable")
}

// calibrate measures, on a throw-away directory, the number of bytes a user
// message costs beyond its own text and the size of the per-file header.
func calibrateOnce(kind string, seq *int) (calib, bool) {
	sc := log.ScopeWithoutShowLogs(shim{})
	defer sc.Close(shim{})
	old := atomic.LoadInt64(&log.LogFileMaxSize)
	atomic.StoreInt64(&log.LogFileMaxSize, 1<<30)
	defer atomic.StoreInt64(&log.LogFileMaxSize, old)
	r := newRunner(kind, seq)
	defer r.close()
	m1 := mkMsg(1, 20)
	full := r.fullMsg(m1)
	// the byte counts are the logger's own (syncBuffer.nbytes): they do not
	// depend on whether Flush() reaches this logger
	r.log(m1)
	_, nb1, _ := r.vl.State()
	m2 := mkMsg(2, 33)
	full2 := r.fullMsg(m2)
	r.log(m2)
	_, nb2, _ := r.vl.State()
	if s := r.snapshot(); len(s) != 1 { // also collects the goroutine ids
		panic("calibration: expected one file")
	}
	// nb2 - nb1 = overhead + len(full2)
	ov := nb2 - nb1 - int64(len(full2))
	h := nb1 - ov - int64(len(full))
	if r.glitch() {
		return calib{}, false
	}
	if ov <= 0 || h <= 0 {
		panic(fmt.Sprintf("calibration failed: overhead %d header %d", ov, h))
	}
	return calib{ov, h}, true
}

func newRunner(kind string, seq *int) *runner {
	r := &runner{kind: kind, planted: map[string]bool{}, gids: map[int64]bool{}}
	r.dir = log.VerifLogDir()
	if kind == "main" {
		r.vl = log.VerifMainLogger()
	} else {
		*seq++
		r.sec = log.NewSecondaryLogger(context.Background(), nil, fmt.Sprintf("v%d", *seq), false /*enableGc*/, false)
		r.vl = log.VerifSecondaryLogger(r.sec)
	}
	return r
}

func (r *runner) close() {
	if r.kind != "main" {
		if err := r.vl.CloseFile(); err != nil {
			panic(err)
		}
	}
}

func runHist(rng *rand.Rand, kind string, cal calib, seq *int, gcOnly, reopen bool) (histCase, bool) {
	sc := log.ScopeWithoutShowLogs(shim{})
	defer sc.Close(shim{})
	oldMax := atomic.LoadInt64(&log.LogFileMaxSize)
	oldComb := atomic.LoadInt64(&log.LogFilesCombinedMaxSize)
	defer log.SetSync(false)
	defer atomic.StoreInt64(&log.LogFileMaxSize, oldMax)
	defer atomic.StoreInt64(&log.LogFilesCombinedMaxSize, oldComb)

	// another user name (periods, backslashes: they must not reach the file
	// names) and the machine's name with a domain; the main logger's file
	// threshold raised before a secondary logger is created (its own stays INFO)
	hostNow, userNow := log.VerifHostUser()
	note := ""
	if rng.Intn(3) == 0 {
		u := []string{"jane.doe", "dom\\jane", "a.b.c", "x.", ".y", "first.last\\z", userNow}[rng.Intn(7)]
		restore := log.VerifSetHostUser(hostNow+[]string{".example.org", ".lan", ""}[rng.Intn(3)], u)
		defer restore()
		note = fmt.Sprintf("user %q", u)
	}
	if kind == "secondary" && rng.Intn(2) == 0 {
		th := []string{"WARNING", "ERROR", "FATAL", "3"}[rng.Intn(4)]
		if err := flag.Set("log-file-verbosity", th); err != nil {
			panic(err)
		}
		defer flag.Set("log-file-verbosity", "INFO")
		note += " main logger's file threshold " + th
	}
	r := newRunner(kind, seq)
	defer r.close()
	hc := histCase{Logger: kind, H: cal.h, Note: strings.TrimSpace(note)}

	maxChoices := []int64{64, 128, 300, cal.h - 10, cal.h + 1, cal.h + cal.overhead + 12, cal.h + cal.overhead + 60,
		cal.h + 200, 1024, 2048, 4096}
	pickMax := func() int64 { return maxChoices[rng.Intn(len(maxChoices))] }
	hc.Max0 = pickMax()
	if reopen {
		// few rotations: the file names must not run ahead of the clock
		hc.Max0 = []int64{2048, 4096, 1 << 20}[rng.Intn(3)]
	}
	atomic.StoreInt64(&log.LogFileMaxSize, hc.Max0)
	curMax := hc.Max0

	// planted files: older than anything the logger creates now, some of them
	// named after another host / user (sorting before and after the real
	// names), some holding messages of their own
	nPlant := 0
	if gcOnly {
		nPlant = rng.Intn(9)
	} else if rng.Intn(2) == 0 {
		nPlant = 1 + rng.Intn(4)
	}
	base := int64(1000000000 + rng.Intn(1000000))
	stamps := map[int64]bool{}
	hosts := []string{"", "", "aaahost", "zzzoldname", "Zhost", "0host", "~host"}
	users := []string{"", "", "aaa", "zzzuser", "Root", "_u"}
	plantedID := int64(1000000)
	for i := 0; i < nPlant; i++ {
		st := base + int64(rng.Intn(100000))
		if stamps[st] {
			continue
		}
		stamps[st] = true
		pf := plantedFile{Stamp: st, Host: hosts[rng.Intn(len(hosts))], User: users[rng.Intn(len(users))]}
		var content []byte
		switch rng.Intn(6) {
		case 0:
		case 1:
			content = make([]byte, rng.Intn(10))
		case 2, 3:
			content = make([]byte, rng.Intn(5000))
		default:
			// entries of an earlier run
			var es []log.Entry
			for j := 1 + rng.Intn(3); j > 0; j-- {
				plantedID++
				pf.Ids = append(pf.Ids, plantedID)
				es = append(es, log.Entry{Severity: log.Severity_INFO, Time: st*1e9 + int64(len(es))*1000, Goroutine: 7,
					File: "old/run.go", Line: 42, Message: mkMsg(plantedID, 8+rng.Intn(200))})
			}
			content = formatAll(es)
		}
		pf.Size = int64(len(content))
		parts := strings.Split(r.vl.FileName(st), ".")
		if len(parts) == 6 {
			if pf.Host != "" {
				parts[1] = pf.Host
			}
			if pf.User != "" {
				parts[2] = pf.User
			}
			pf.Host, pf.User = parts[1], parts[2]
			pf.Pid = otherPid(rng, parts[4])
			parts[4] = pf.Pid
		}
		// (a generated name that does not have six fields is left as it is: the
		// logger itself will not find its files, which the read-back reports)
		pf.Name = strings.Join(parts, ".")
		if err := ioutil.WriteFile(filepath.Join(r.dir, pf.Name), content, 0644); err != nil {
			panic(err)
		}
		r.planted[pf.Name] = true
		hc.Planted = append(hc.Planted, pf)
	}

	nextID := int64(1)
	lens := map[int64]int64{}
	doSnap := func() []snapFile {
		s := r.snapshotLens(lens, cal.h)
		hc.Ops = append(hc.Ops, histOp{Op: "snap"})
		hc.Snaps = append(hc.Snaps, s)
		return s
	}
	doGC := func() {
		s := doSnap() // also flushes: GC then sees the sizes the snapshot saw
		// bound: around the cumulative sizes counted from the newest
		var sums []int64
		var sum int64
		for i := len(s) - 1; i >= 0; i-- {
			sum += s[i].Size
			sums = append(sums, sum)
		}
		var b int64
		switch k := rng.Intn(10); {
		case k == 0:
			b = 0
		case k == 1:
			b = math.MaxInt64
		case k == 2:
			b = sum + 1
		case len(sums) > 0:
			b = sums[rng.Intn(len(sums))] + int64(rng.Intn(3)) - 1
		default:
			b = int64(rng.Intn(100))
		}
		atomic.StoreInt64(&log.LogFilesCombinedMaxSize, b)
		r.vl.GCNow()
		hc.Ops = append(hc.Ops, histOp{Op: "gc", Arg: b})
		hc.Snaps = append(hc.Snaps, r.snapshotLens(lens, cal.h))
	}
	forceSmall := false
	doLog := func() {
		// choose the size of the entry relative to what is left in the file
		open, nb, _ := r.vl.State()
		if !open {
			nb = cal.h
		}
		room := curMax - nb // the write rotates iff len >= room
		var want int64
		switch k := rng.Intn(10); {
		case k <= 3:
			want = room + int64(rng.Intn(5)) - 2 // around the threshold
		case k == 4:
			want = curMax + int64(rng.Intn(40)) // larger than a whole file
		case k == 5:
			want = 2*curMax + 7
		default:
			want = cal.overhead + 5 + int64(rng.Intn(80))
		}
		if forceSmall || (reopen && rng.Intn(8) != 0) {
			want = cal.overhead + 5 + int64(rng.Intn(80))
		}
		id := nextID
		nextID++
		minLen := cal.overhead + int64(len(r.fullMsg(mkMsg(id, 0))))
		if want < minLen {
			want = minLen
		}
		if want > 20000 {
			want = 20000
		}
		// pad the bare message so that the full entry has `want` bytes
		pad := len(mkMsg(id, 0)) + int(want-minLen)
		msg := mkMsg(id, pad)
		length := cal.overhead + int64(len(r.fullMsg(msg)))
		r.log(msg)
		lens[id] = length
		_, _, stamp := r.vl.State()
		hc.Ops = append(hc.Ops, histOp{Op: "log", Id: id, Len: length, Now: stamp})
	}
	// Close the file and write again at once: within the same second create()
	// generates the name the file already has. Only when the newest file's name
	// is not ahead of the clock (each rotation within one second bumps the
	// stamp by one), and with room for the next entry, so that the re-open is
	// the only rotation of that write.
	doReopen := func() bool {
		open, _, stamp := r.vl.State()
		if !open || stamp > time.Now().Unix() || curMax < cal.h+cal.overhead+120 {
			return false
		}
		if err := r.vl.CloseFile(); err != nil {
			panic(err)
		}
		hc.Ops = append(hc.Ops, histOp{Op: "close"})
		forceSmall = true
		doLog()
		forceSmall = false
		return true
	}

	syncOn := false
	// SetSync(true) (shakespeare does this when asked to terminate), then a
	// flush and a look at the files: what was buffered before must be there.
	doSync := func(on bool) {
		log.SetSync(on)
		syncOn = on
		v := int64(0)
		if on {
			v = 1
		}
		hc.Ops = append(hc.Ops, histOp{Op: "setsync", Arg: v})
		if on {
			doSnap()
		}
	}
	doPeek := func() {
		hc.Ops = append(hc.Ops, histOp{Op: "peek"})
		hc.Snaps = append(hc.Snaps, r.look(lens, cal.h))
	}
	if reopen {
		for n := 5 + rng.Intn(20); n > 0; n-- {
			switch k := rng.Intn(10); {
			case k <= 2:
				if !doReopen() {
					doLog()
				}
			case k == 3:
				doSnap()
			case k == 4 && rng.Intn(3) == 0:
				doSync(!syncOn)
			default:
				doLog()
			}
		}
	} else if gcOnly {
		if rng.Intn(3) == 0 {
			doLog()
		}
		doGC()
		if rng.Intn(4) == 0 {
			doGC()
		}
	} else {
		n := 4 + rng.Intn(30)
		for i := 0; i < n; i++ {
			switch k := rng.Intn(20); {
			case k == 0:
				curMax = pickMax()
				atomic.StoreInt64(&log.LogFileMaxSize, curMax)
				hc.Ops = append(hc.Ops, histOp{Op: "setmax", Arg: curMax})
			case k == 1:
				doSnap()
			case k == 2:
				doGC()
			case k == 3:
				doSync(!syncOn)
			case k == 4 && syncOn:
				doPeek() // in sync mode every write is in the file already
			case k == 5 && doReopen():
			default:
				doLog()
				if syncOn && rng.Intn(3) == 0 {
					doPeek()
				}
			}
		}
		if !syncOn && rng.Intn(2) == 0 {
			doLog()
			doSync(true)
		}
	}
	doSnap()
	var winMark int64
	if kind == "main" && rng.Intn(2) == 0 {
		// a time mark in the middle of the current file's life, then more messages:
		// FetchEntriesFromFiles from the mark on must return exactly those
		time.Sleep(2 * time.Millisecond) // entry times are kept to the microsecond
		winMark = time.Now().UnixNano()
		time.Sleep(2 * time.Millisecond)
		forceSmall = true
		for n := 1 + rng.Intn(3); n > 0; n-- {
			hc.WinWant = append(hc.WinWant, nextID)
			doLog()
		}
		forceSmall = false
		doSnap()
	}
	if kind == "main" {
		if winMark != 0 {
			es, err := log.FetchEntriesFromFiles(winMark, math.MaxInt64, 1<<30, nil)
			if err != nil {
				panic(err)
			}
			hc.HasWin = true
			for i := len(es) - 1; i >= 0; i-- {
				if id, ok := idOf(es[i].Message); ok {
					hc.WinGot = append(hc.WinGot, id)
				}
			}
		}
		es, err := log.FetchEntriesFromFiles(0, math.MaxInt64, 1<<30, nil)
		if err != nil {
			panic(err)
		}
		hc.HasFetch = true
		for i := len(es) - 1; i >= 0; i-- {
			if id, ok := idOf(es[i].Message); ok {
				hc.Fetch = append(hc.Fetch, id)
			}
		}
		// the same with a limit on the number of entries: whatever part is
		// returned, it is in the same (newest first) order, each entry once
		if len(es) >= 2 {
			lim, err := log.FetchEntriesFromFiles(0, math.MaxInt64, 1+len(es)/2, nil)
			if err != nil {
				panic(err)
			}
			// lim must be a subsequence of the unlimited listing, in its order
			okOrder, j := len(lim) > 0, 0
			for _, e := range lim {
				for j < len(es) && !(es[j].Message == e.Message && es[j].Time == e.Time) {
					j++
				}
				if j == len(es) {
					okOrder = false
					break
				}
				j++
			}
			if !okOrder {
				// reported through the history oracle: an entry no history contains
				hc.Fetch = append(hc.Fetch, -1)
				hc.Note += " [FetchEntriesFromFiles with a limit returned entries out of order or none]"
			}
		}
	}
	return hc, !r.glitch()
}

// ---------------------------------------------------------------------------
// an entry as large as the logger's bufio buffer, after small unflushed ones

const logBufferSize = 256 * 1024 // bufferSize of clog.go

func runBig(rng *rand.Rand, kind string, cal calib, seq *int) (histCase, bool) {
	sc := log.ScopeWithoutShowLogs(shim{})
	defer sc.Close(shim{})
	oldMax := atomic.LoadInt64(&log.LogFileMaxSize)
	defer atomic.StoreInt64(&log.LogFileMaxSize, oldMax)
	r := newRunner(kind, seq)
	defer r.close()
	hc := histCase{Logger: kind, H: cal.h, Max0: 1 << 20, Note: "entry of the size of the write buffer"}
	atomic.StoreInt64(&log.LogFileMaxSize, hc.Max0) // no rotation
	nextID := int64(1)
	logN := func(want int64) {
		id := nextID
		nextID++
		minLen := cal.overhead + int64(len(r.fullMsg(mkMsg(id, 0))))
		if want < minLen {
			want = minLen
		}
		msg := mkMsg(id, len(mkMsg(id, 0))+int(want-minLen))
		length := cal.overhead + int64(len(r.fullMsg(msg)))
		r.log(msg)
		_, _, stamp := r.vl.State()
		hc.Ops = append(hc.Ops, histOp{Op: "log", Id: id, Len: length, Now: stamp})
	}
	small := func() { logN(cal.overhead + 5 + int64(rng.Intn(80))) }
	for n := 1 + rng.Intn(3); n > 0; n-- {
		small()
	}
	logN(logBufferSize + []int64{-1, 0, 1, 57, 4096}[rng.Intn(5)])
	for n := rng.Intn(3); n > 0; n-- {
		small()
	}
	hc.Ops = append(hc.Ops, histOp{Op: "snap"})
	hc.Snaps = append(hc.Snaps, r.snapshot())
	return hc, !r.glitch()
}

// ---------------------------------------------------------------------------
// secondary loggers with a directory of their own while the main logger has none

func runOwnDir(rng *rand.Rand, cal calib, seq *int) ([]histCase, bool) {
	if d := log.VerifLogDir(); d != "" {
		panic("the main logger has a directory outside a scope: " + d)
	}
	oldMax := atomic.LoadInt64(&log.LogFileMaxSize)
	defer atomic.StoreInt64(&log.LogFileMaxSize, oldMax)
	gids := map[int64]bool{}
	n := 1 + rng.Intn(2)
	var rs []*runner
	var hcs []histCase
	if rng.Intn(2) == 0 {
		if err := flag.Set("log-file-verbosity", []string{"WARNING", "ERROR"}[rng.Intn(2)]); err != nil {
			panic(err)
		}
		defer flag.Set("log-file-verbosity", "INFO")
	}
	maxChoices := []int64{300, cal.h + cal.overhead + 40, cal.h + 250, 2048, 1 << 20}
	curMax := maxChoices[rng.Intn(len(maxChoices))]
	atomic.StoreInt64(&log.LogFileMaxSize, curMax)
	for i := 0; i < n; i++ {
		dir, err := ioutil.TempDir("", "logverifc16own")
		if err != nil {
			panic(err)
		}
		defer os.RemoveAll(dir)
		dn := &log.DirName{}
		if err := dn.Set(dir); err != nil {
			panic(err)
		}
		*seq++
		sec := log.NewSecondaryLogger(context.Background(), dn, fmt.Sprintf("own%d", *seq), false /*enableGc*/, false)
		r := &runner{kind: "secondary", sec: sec, vl: log.VerifSecondaryLogger(sec), dir: dir, planted: map[string]bool{}, gids: gids}
		rs = append(rs, r)
		hcs = append(hcs, histCase{Logger: "secondary-own-dir", H: cal.h, Max0: curMax, Note: "main logger without a directory"})
	}
	defer func() {
		for _, r := range rs {
			r.close()
		}
	}()
	// listLogFiles reads the main logger's directory: scan the logger's own
	scan := func(r *runner) []snapFile {
		prog := strings.SplitN(r.vl.FileName(1000000000), ".", 2)[0]
		infos, err := ioutil.ReadDir(r.dir)
		if err != nil {
			panic(err)
		}
		var res []snapFile
		for _, info := range infos {
			if !info.Mode().IsRegular() {
				continue
			}
			fprog, unix, okName := parseName(info.Name())
			if !okName || fprog != prog {
				panic("unexpected file in a logger's own directory: " + info.Name())
			}
			sf := snapFile{Stamp: unix, Size: info.Size(), Name: info.Name()}
			b, err := ioutil.ReadFile(filepath.Join(r.dir, info.Name()))
			if err != nil {
				panic(err)
			}
			es, k, txt := decodeFile(b)
			if k != 0 {
				sf.DecodeErr = txt
			}
			for _, e := range es {
				gids[e.Goroutine] = true
				if id, ok := idOf(e.Message); ok {
					sf.Ids = append(sf.Ids, id)
				} else {
					sf.Other++
				}
			}
			res = append(res, sf)
		}
		sort.SliceStable(res, func(a, b int) bool { return res[a].Stamp < res[b].Stamp })
		return res
	}
	snapAll := func() {
		log.Flush()
		for i, r := range rs {
			hcs[i].Ops = append(hcs[i].Ops, histOp{Op: "snap"})
			hcs[i].Snaps = append(hcs[i].Snaps, scan(r))
		}
	}
	nextID := int64(1)
	for k := 3 + rng.Intn(15); k > 0; k-- {
		switch c := rng.Intn(12); {
		case c == 0:
			curMax = maxChoices[rng.Intn(len(maxChoices))]
			atomic.StoreInt64(&log.LogFileMaxSize, curMax)
			for i := range hcs {
				hcs[i].Ops = append(hcs[i].Ops, histOp{Op: "setmax", Arg: curMax})
			}
		case c == 1:
			snapAll()
		default:
			i := rng.Intn(n)
			r := rs[i]
			open, nb, _ := r.vl.State()
			if !open {
				nb = cal.h
			}
			want := cal.overhead + 5 + int64(rng.Intn(80))
			if rng.Intn(3) == 0 {
				want = curMax - nb + int64(rng.Intn(5)) - 2
			}
			id := nextID
			nextID++
			minLen := cal.overhead + int64(len(r.fullMsg(mkMsg(id, 0))))
			if want < minLen {
				want = minLen
			}
			if want > 8000 {
				want = 8000
			}
			msg := mkMsg(id, len(mkMsg(id, 0))+int(want-minLen))
			length := cal.overhead + int64(len(r.fullMsg(msg)))
			r.log(msg)
			_, _, stamp := r.vl.State()
			hcs[i].Ops = append(hcs[i].Ops, histOp{Op: "log", Id: id, Len: length, Now: stamp})
		}
	}
	snapAll()
	return hcs, len(gids) <= 1
}

// ---------------------------------------------------------------------------
// the public logging calls store the message they are given

type apiCase struct {
	Call    string // e.g. Infof/0: Infof without arguments
	Sev     int64
	NArgs   int
	Format  string // %q
	FormatB []byte
	Fmt     string // %q of what package fmt makes of format and arguments (Sprintf, or Sprint for Info/Warning/Error)
	FmtB    []byte
	ObsSev  int64 // -1: not read back
	Obs     string
	ObsB    []byte
}

var apiFragments = []string{"progress: 100% done", "%s", "%d items", "100%%", "%!", "%!d(MISSING)", "a%", "%v %v", "plain text", "50%x",
	"%", "%%%", "rate=%.2f", "%q and %T", "%[2]d", "%+v|%#v", "ends with %"}

func runAPI(rng *rand.Rand, n int) []apiCase {
	sc := log.ScopeWithoutShowLogs(shim{})
	defer sc.Close(shim{})
	oldMax := atomic.LoadInt64(&log.LogFileMaxSize)
	defer atomic.StoreInt64(&log.LogFileMaxSize, oldMax)
	atomic.StoreInt64(&log.LogFileMaxSize, 1<<20)
	ctx := context.Background()
	var cases []apiCase
	for i := 0; i < n; i++ {
		frag := apiFragments[rng.Intn(len(apiFragments))]
		if rng.Intn(4) == 0 {
			frag += " " + apiFragments[rng.Intn(len(apiFragments))]
		}
		sev := int64(1 + rng.Intn(3))
		c := apiCase{Sev: sev, ObsSev: -1}
		format := fmt.Sprintf("A%d|%s", i, frag)
		var args []interface{}
		switch rng.Intn(5) {
		case 0, 1: // format only: stored verbatim
		case 2:
			args = []interface{}{"k", 7}
		case 3:
			args = []interface{}{3.5}
		default: // Info / Warning / Error: operands, no format
			args = []interface{}{format, 7, frag}
			format = ""
		}
		c.NArgs = len(args)
		c.Format, c.FormatB = fmt.Sprintf("%q", format), []byte(format)
		want := ""
		if format == "" {
			want = fmt.Sprint(args...)
		} else {
			want = fmt.Sprintf(format, args...)
		}
		c.Fmt, c.FmtB = fmt.Sprintf("%q", want), []byte(want)
		name := []string{"", "Info", "Warning", "Error"}[sev]
		switch {
		case format == "":
			c.Call = name
			switch sev {
			case 1:
				log.Info(ctx, args...)
			case 2:
				log.Warning(ctx, args...)
			default:
				log.Error(ctx, args...)
			}
		default:
			c.Call = fmt.Sprintf("%sf/%d", name, len(args))
			switch sev {
			case 1:
				log.Infof(ctx, format, args...)
			case 2:
				log.Warningf(ctx, format, args...)
			default:
				log.Errorf(ctx, format, args...)
			}
		}
		cases = append(cases, c)
	}
	log.Flush()
	vl := log.VerifMainLogger()
	fis, err := vl.ListFiles()
	if err != nil {
		panic(err)
	}
	sort.Slice(fis, func(a, b int) bool { return fis[a].Details.Time < fis[b].Details.Time })
	k := 0
	for _, fi := range fis {
		b, err := ioutil.ReadFile(filepath.Join(log.VerifLogDir(), fi.Name))
		if err != nil {
			panic(err)
		}
		es, _, _ := decodeAll(b)
		for _, e := range es {
			if !strings.HasPrefix(e.Message, "A") || k >= len(cases) {
				continue
			}
			cases[k].ObsSev, cases[k].Obs, cases[k].ObsB = int64(e.Severity), fmt.Sprintf("%q", e.Message), []byte(e.Message)
			k++
		}
	}
	return cases
}

func coqAPI(c apiCase) string {
	return fmt.Sprintf("(%d, %d, %s, %s, %s, %s)", c.Sev, c.NArgs, vh.Bytes(c.FormatB), vh.Bytes(c.FmtB), vh.Z(c.ObsSev), vh.Bytes(c.ObsB))
}

// parseName reads program and time stamp off a log file name
// (program.host.user.timestamp.pid.log) without the package's own pattern.
func parseName(name string) (prog string, unix int64, ok bool) {
	parts := strings.Split(name, ".")
	if len(parts) != 6 || parts[5] != "log" {
		return "", 0, false
	}
	t, err := time.Parse(log.FileTimeFormat, parts[3])
	if err != nil {
		return "", 0, false
	}
	if _, err := strconv.ParseUint(parts[4], 10, 63); err != nil {
		return "", 0, false
	}
	return parts[0], t.Unix(), true
}

// ---------------------------------------------------------------------------
// several loggers sharing one directory

type multiOp struct {
	Op  string // "log", "setmax", "gc", "snap"
	Lg  int    // logger (= program) index for "log" and "gc"
	Id  int64
	Len int64
	Arg int64
}

// progView is what is seen of one program at a snapshot: its files, found by
// scanning the directory and parsing the names (not through listLogFiles),
// oldest first; and for every file the logger's own listLogFiles returned, the
// index of the program that file belongs to (-1: none of the known programs).
type progView struct {
	Files  []snapFile
	Listed []int64
}

type multiPlanted struct {
	Pid   string
	Prog  int
	Stamp int64
	Size  int64
	Ids   []int64
	Name  string
}

type multiCase struct {
	H        int64
	Max0     int64
	Progs    []string // program names (file name prefixes); index 0 is the main logger
	Loggers  int      // programs 0..Loggers-1 have a logger, the rest only planted files
	Planted  []multiPlanted
	Ops      []multiOp
	Snaps    [][]progView
	Fetch    []int64
	HasFetch bool
}

func runMulti(rng *rand.Rand, calMain, calSec calib) (multiCase, bool) {
	sc := log.ScopeWithoutShowLogs(shim{})
	defer sc.Close(shim{})
	oldMax := atomic.LoadInt64(&log.LogFileMaxSize)
	oldComb := atomic.LoadInt64(&log.LogFilesCombinedMaxSize)
	defer atomic.StoreInt64(&log.LogFileMaxSize, oldMax)
	defer atomic.StoreInt64(&log.LogFilesCombinedMaxSize, oldComb)

	dir := log.VerifLogDir()
	gids := map[int64]bool{}
	planted := map[string]bool{}
	// the main logger and one or two secondary loggers; with two, the name of
	// the first is a prefix of the name of the second, as the main logger's
	// program name is a prefix of both
	base := []string{"audit", "a", "spotlight", "x"}[rng.Intn(4)]
	names := []string{base}
	if rng.Intn(4) != 0 {
		names = append(names, base+[]string{"-x", "2", "-" + base, "or"}[rng.Intn(4)])
	}
	var rs []*runner
	rs = append(rs, &runner{kind: "main", vl: log.VerifMainLogger(), dir: dir, planted: planted, gids: gids})
	for _, n := range names {
		sec := log.NewSecondaryLogger(context.Background(), nil, n, false /*enableGc*/, false)
		rs = append(rs, &runner{kind: "secondary", sec: sec, vl: log.VerifSecondaryLogger(sec), dir: dir, planted: planted, gids: gids})
	}
	defer func() {
		for _, r := range rs {
			r.close()
		}
	}()
	mc := multiCase{H: calMain.h, Loggers: len(rs)}
	if calSec.h != calMain.h {
		panic("header sizes of main and secondary loggers differ")
	}
	progOf := func(name string) string { return strings.SplitN(name, ".", 2)[0] }
	for _, r := range rs {
		mc.Progs = append(mc.Progs, progOf(r.vl.FileName(1000000000)))
	}
	if rng.Intn(2) == 0 {
		// a program nobody logs for here, whose name extends the main logger's
		mc.Progs = append(mc.Progs, mc.Progs[0]+[]string{"x", "-old", "2"}[rng.Intn(3)])
	}
	progIdx := map[string]int{}
	for i, p := range mc.Progs {
		if _, dup := progIdx[p]; dup {
			panic("duplicate program name " + p)
		}
		progIdx[p] = i
	}

	maxChoices := []int64{64, 300, calMain.h + 1, calMain.h + calMain.overhead + 40, calMain.h + 250, 1024, 2048}
	mc.Max0 = maxChoices[rng.Intn(len(maxChoices))]
	atomic.StoreInt64(&log.LogFileMaxSize, mc.Max0)
	curMax := mc.Max0

	// older files of any of the programs
	plantedID := int64(2000000)
	stamps := map[int64]bool{}
	for n := rng.Intn(5); n > 0; n-- {
		pi := rng.Intn(len(mc.Progs))
		if len(mc.Progs) > len(rs) && rng.Intn(2) == 0 {
			pi = len(mc.Progs) - 1
		}
		st := int64(1000000000 + rng.Intn(1000000))
		if stamps[st] {
			continue
		}
		stamps[st] = true
		pf := multiPlanted{Prog: pi, Stamp: st}
		var content []byte
		if rng.Intn(3) == 0 {
			content = make([]byte, rng.Intn(3000))
		} else {
			var es []log.Entry
			for j := 1 + rng.Intn(3); j > 0; j-- {
				plantedID++
				pf.Ids = append(pf.Ids, plantedID)
				es = append(es, log.Entry{Severity: log.Severity_INFO, Time: st*1e9 + int64(len(es))*1000, Goroutine: 7,
					File: "old/run.go", Line: 42, Message: mkMsg(plantedID, 8+rng.Intn(200))})
			}
			content = formatAll(es)
		}
		pf.Size = int64(len(content))
		parts := strings.Split(rs[0].vl.FileName(st), ".")
		parts[0] = mc.Progs[pi]
		pf.Pid = otherPid(rng, parts[4])
		parts[4] = pf.Pid
		pf.Name = strings.Join(parts, ".")
		if err := ioutil.WriteFile(filepath.Join(dir, pf.Name), content, 0644); err != nil {
			panic(err)
		}
		planted[pf.Name] = true
		mc.Planted = append(mc.Planted, pf)
	}

	look := func() []progView {
		log.Flush()
		views := make([]progView, len(mc.Progs))
		infos, err := ioutil.ReadDir(dir)
		if err != nil {
			panic(err)
		}
		for _, info := range infos {
			if !info.Mode().IsRegular() {
				continue
			}
			prog, unix, okName := parseName(info.Name())
			if !okName {
				panic("unexpected file in the log directory: " + info.Name())
			}
			pi, ok := progIdx[prog]
			if !ok {
				panic("file of an unknown program in the log directory: " + info.Name())
			}
			sf := snapFile{Stamp: unix, Size: info.Size(), Name: info.Name()}
			b, err := ioutil.ReadFile(filepath.Join(dir, info.Name()))
			if err != nil {
				panic(err)
			}
			es, k, txt := decodeAll(b)
			if k != 0 {
				sf.DecodeErr = txt
			}
			for _, e := range es {
				if !planted[info.Name()] {
					gids[e.Goroutine] = true
				}
				if id, ok := idOf(e.Message); ok {
					sf.Ids = append(sf.Ids, id)
				} else {
					sf.Other++
				}
			}
			views[pi].Files = append(views[pi].Files, sf)
		}
		for i := range views {
			fs := views[i].Files
			sort.SliceStable(fs, func(a, b int) bool { return fs[a].Stamp < fs[b].Stamp })
			if i < len(rs) {
				fis, err := rs[i].vl.ListFiles()
				if err != nil {
					panic(err)
				}
				for _, fi := range fis {
					pi, ok := progIdx[fi.Details.Program]
					if !ok {
						pi = -1
					}
					views[i].Listed = append(views[i].Listed, int64(pi))
				}
				sort.Slice(views[i].Listed, func(a, b int) bool { return views[i].Listed[a] < views[i].Listed[b] })
			} else {
				for range fs {
					views[i].Listed = append(views[i].Listed, int64(i))
				}
			}
		}
		return views
	}
	doSnap := func() []progView {
		v := look()
		mc.Ops = append(mc.Ops, multiOp{Op: "snap"})
		mc.Snaps = append(mc.Snaps, v)
		return v
	}
	nextID := int64(1)
	doLog := func(li int) {
		r := rs[li]
		cal := calMain
		if li > 0 {
			cal = calSec
		}
		open, nb, _ := r.vl.State()
		if !open {
			nb = cal.h
		}
		room := curMax - nb
		var want int64
		switch k := rng.Intn(10); {
		case k <= 2:
			want = room + int64(rng.Intn(5)) - 2
		case k == 3:
			want = curMax + int64(rng.Intn(40))
		default:
			want = cal.overhead + 5 + int64(rng.Intn(80))
		}
		id := nextID
		nextID++
		minLen := cal.overhead + int64(len(r.fullMsg(mkMsg(id, 0))))
		if want < minLen {
			want = minLen
		}
		if want > 8000 {
			want = 8000
		}
		msg := mkMsg(id, len(mkMsg(id, 0))+int(want-minLen))
		length := cal.overhead + int64(len(r.fullMsg(msg)))
		r.log(msg)
		mc.Ops = append(mc.Ops, multiOp{Op: "log", Lg: li, Id: id, Len: length})
	}
	doGC := func(li int) {
		v := doSnap()
		var sums []int64
		var sum int64
		fs := v[li].Files
		for i := len(fs) - 1; i >= 0; i-- {
			sum += fs[i].Size
			sums = append(sums, sum)
		}
		var b int64
		switch k := rng.Intn(10); {
		case k <= 2:
			b = int64(rng.Intn(2)) // small: everything but the newest goes
		case k == 3:
			b = math.MaxInt64
		case len(sums) > 0:
			b = sums[rng.Intn(len(sums))] + int64(rng.Intn(3)) - 1
		default:
			b = int64(rng.Intn(100))
		}
		atomic.StoreInt64(&log.LogFilesCombinedMaxSize, b)
		rs[li].vl.GCNow()
		mc.Ops = append(mc.Ops, multiOp{Op: "gc", Lg: li, Arg: b})
		mc.Snaps = append(mc.Snaps, look())
	}
	for n := 6 + rng.Intn(30); n > 0; n-- {
		switch k := rng.Intn(20); {
		case k == 0:
			curMax = maxChoices[rng.Intn(len(maxChoices))]
			atomic.StoreInt64(&log.LogFileMaxSize, curMax)
			mc.Ops = append(mc.Ops, multiOp{Op: "setmax", Arg: curMax})
		case k == 1:
			doSnap()
		case k <= 5:
			doGC(rng.Intn(len(rs)))
		default:
			doLog(rng.Intn(len(rs)))
		}
	}
	doGC(0) // the main logger's GC at the end, whatever came before
	doSnap()
	es, err := log.FetchEntriesFromFiles(0, math.MaxInt64, 1<<30, nil)
	if err != nil {
		panic(err)
	}
	mc.HasFetch = true
	for i := len(es) - 1; i >= 0; i-- {
		if id, ok := idOf(es[i].Message); ok {
			mc.Fetch = append(mc.Fetch, id)
		}
	}
	return mc, len(gids) <= 1
}

func coqMulti(m multiCase) string {
	var progs, pl, ops, snaps []string
	for _, p := range m.Progs {
		progs = append(progs, vh.Str(p))
	}
	for _, p := range m.Planted {
		pl = append(pl, fmt.Sprintf("(%d, %s, %s, %s)", p.Prog, vh.Z(p.Stamp), vh.Z(p.Size), zs(p.Ids)))
	}
	for _, o := range m.Ops {
		switch o.Op {
		case "log":
			ops = append(ops, fmt.Sprintf("XLog %d %s %s", o.Lg, vh.Z(o.Id), vh.Z(o.Len)))
		case "setmax":
			ops = append(ops, "XSetMax "+vh.Z(o.Arg))
		case "gc":
			ops = append(ops, fmt.Sprintf("XGc %d %s", o.Lg, vh.Z(o.Arg)))
		case "snap":
			ops = append(ops, "XSnap")
		}
	}
	for _, s := range m.Snaps {
		var vs []string
		for _, v := range s {
			var fs []string
			for _, f := range v.Files {
				fs = append(fs, fmt.Sprintf("(%s, %s, %s)", vh.Z(f.Stamp), vh.Z(f.Size), zs(f.Ids)))
			}
			vs = append(vs, fmt.Sprintf("(%s, %s)", vh.List(fs), zs(v.Listed)))
		}
		snaps = append(snaps, vh.List(vs))
	}
	fetch := "None"
	if m.HasFetch {
		fetch = "(Some " + zs(m.Fetch) + ")"
	}
	return fmt.Sprintf("(mkMulti %s %s %s %s %s %s %s)", vh.Z(m.H), vh.Z(m.Max0), vh.List(progs), vh.List(pl), vh.List(ops), vh.List(snaps), fetch)
}

func zs(l []int64) string {
	var it []string
	for _, x := range l {
		it = append(it, vh.Z(x))
	}
	return vh.List(it)
}

func coqHist(h histCase) string {
	var pl, ops, snaps []string
	for _, p := range h.Planted {
		pl = append(pl, fmt.Sprintf("(%s, %s, %s)", vh.Z(p.Stamp), vh.Z(p.Size), zs(p.Ids)))
	}
	for _, o := range h.Ops {
		switch o.Op {
		case "log":
			ops = append(ops, fmt.Sprintf("HLog %s %s %s", vh.Z(o.Id), vh.Z(o.Len), vh.Z(o.Now)))
		case "setmax":
			ops = append(ops, "HSetMax "+vh.Z(o.Arg))
		case "gc":
			ops = append(ops, "HGc "+vh.Z(o.Arg))
		case "snap":
			ops = append(ops, "HSnap")
		case "peek":
			ops = append(ops, "HPeek")
		case "close":
			ops = append(ops, "HClose")
		case "setsync":
			ops = append(ops, "HSetSync "+vh.Bool(o.Arg != 0))
		}
	}
	for _, s := range h.Snaps {
		var fs []string
		for _, f := range s {
			fs = append(fs, fmt.Sprintf("(%s, %s, %s)", vh.Z(f.Stamp), vh.Z(f.Size), zs(f.Ids)))
		}
		snaps = append(snaps, vh.List(fs))
	}
	fetch := "None"
	if h.HasFetch {
		fetch = "(Some " + zs(h.Fetch) + ")"
	}
	return fmt.Sprintf("(mkHist %s %s %s %s %s %s)", vh.Z(h.H), vh.Z(h.Max0), vh.List(pl), vh.List(ops), vh.List(snaps), fetch)
}

// ---------------------------------------------------------------------------

// doReplay re-runs Entry.Format / Decode on the entries of a replay file.
func doReplay(path string) int {
	b, err := ioutil.ReadFile(path)
	if err != nil {
		fmt.Println(err)
		return 2
	}
	var r struct {
		Input struct {
			In     []jEntry
			Reader string
		}
	}
	if err := json.Unmarshal(b, &r); err != nil {
		fmt.Println(err)
		return 2
	}
	if len(r.Input.In) == 0 {
		fmt.Println("not a codec replay (no input entries); re-run ./check C16 with the recorded seed and tier")
		return 2
	}
	var es []log.Entry
	for _, j := range r.Input.In {
		es = append(es, log.Entry{Severity: log.Severity(j.Sev), Time: j.Time, Goroutine: j.Gid,
			File: string(j.FileB), Line: j.Line, Message: string(j.MsgB)})
	}
	s := formatAll(es)
	if r.Input.Reader == "" {
		r.Input.Reader = "whole"
	}
	outs, k, txt := decodeVia(r.Input.Reader, s)
	if len(s) > 2000 {
		fmt.Printf("formatted: %d bytes, read through %q: %q ...\n", len(s), r.Input.Reader, s[:600])
	} else {
		fmt.Printf("formatted (read through %q): %q\n", r.Input.Reader, s)
	}
	bad := k != 0 || len(outs) != len(es)
	shown := 0
	for i, e := range outs {
		differs := i >= len(es) || e != func() log.Entry { w := es[i]; w.Time = w.Time / 1000 * 1000; return w }()
		if len(outs) <= 20 || (differs && shown < 10) {
			shown++
			fmt.Printf("decoded[%d]: severity=%d time=%d goroutine=%d file=%q line=%d message=%q\n", i, e.Severity, e.Time, e.Goroutine, e.File, e.Line, e.Message)
		} else {
			continue
		}
		if i < len(es) {
			want := es[i]
			want.Time = want.Time / 1000 * 1000
			if e != want {
				fmt.Printf("   differs from input[%d]: severity=%d time=%d goroutine=%d file=%q line=%d message=%q\n", i, want.Severity, want.Time, want.Goroutine, want.File, want.Line, want.Message)
				bad = true
			}
		}
	}
	if k != 0 {
		fmt.Printf("decoder error: %s\n", txt)
	}
	for i, e := range outs {
		if i >= len(es) || e != func() log.Entry { w := es[i]; w.Time = w.Time / 1000 * 1000; return w }() {
			bad = true
		}
	}
	fmt.Printf("%d entries formatted, %d decoded\n", len(es), len(outs))
	if bad {
		fmt.Println("ROUND TRIP FAILS")
		return 1
	}
	fmt.Println("round trip holds")
	return 0
}

func main() {
	seed := flag.Int64("seed", 1, "")
	tier := flag.String("tier", "quick", "")
	out := flag.String("out", ".", "")
	replay := flag.String("replay", "", "replay file of a codec failing input (written by checks/c16.py)")
	flag.Parse()
	if *replay != "" {
		os.Exit(doReplay(*replay))
	}
	rng := vh.Rng(*seed)

	// The process's local zone is never UTC here: the header must be written
	// in UTC whatever the zone (the decoder parses it as UTC). A fixed zone
	// needs no tz database. The harness itself converts with .UTC() only.
	zones := []int{5*3600 + 1800, -(9*3600 + 1800), 13*3600 + 2700, -3600, 8 * 3600}
	zoneOff := zones[int(uint64(*seed)%uint64(len(zones)))]
	time.Local = time.FixedZone("VERIF", zoneOff)

	nCodec, nRaw, nProbe, nHist, nGC, nMulti, nReopen := 600, 260, 120, 80, 180, 70, 40
	nBig, nOwn, nAPI := 6, 25, 160
	if *tier == "thorough" {
		nCodec, nRaw, nProbe, nHist, nGC, nMulti, nReopen = 8000, 3000, 600, 800, 1800, 700, 400
		nBig, nOwn, nAPI = 40, 250, 1600
	}

	// ---- codec: well-formed entries and concatenations
	var codec []codecCase
	witness := log.Entry{Severity: log.Severity_INFO, Time: time.Date(2019, 3, 4, 5, 6, 7, 123456000, time.UTC).UnixNano(),
		Goroutine: 0, File: "12 a.go", Line: 12, Message: "hello"}
	codec = append(codec, mkCodecCase("witness", []log.Entry{witness}, formatAll([]log.Entry{witness}), "goroutine 0, file name starting with digits and a space"))
	for i := 0; i < nCodec; i++ {
		n := 1
		if rng.Intn(5) >= 2 {
			n = 2 + rng.Intn(5)
		}
		if i%350 == 349 {
			n = 60 // a stream well beyond bufio's initial buffer
		}
		var es []log.Entry
		for j := 0; j < n; j++ {
			e := genEntry(rng)
			if n > 10 && len(e.Message) > 200 {
				e.Message = "short"
			}
			es = append(es, e)
		}
		class := "wf"
		if i%150 == 7 {
			// the known ambiguous shape, inside a sequence
			k := rng.Intn(len(es))
			es[k].Goroutine = 0
			es[k].File = fmt.Sprintf("%d %s", rng.Intn(100000), []string{"a.go", "x", "b c.go", "7"}[rng.Intn(4)])
			class = "witness"
		}
		codec = append(codec, mkCodecCaseVia(readerModes[i%len(readerModes)], class, es, formatAll(es), ""))
	}
	// read boundaries swept over every offset of a header: the reader returns 64
	// bytes at a time and the first entry has 128-off bytes, so that a boundary
	// falls off bytes into the (long) header of the second entry
	{
		t0 := time.Date(2031, 7, 9, 10, 11, 12, 131415000, time.UTC).UnixNano()
		e2 := log.Entry{Severity: log.Severity_WARNING, Time: t0 + 1000, Goroutine: 1234567890123, File: "some/long dir/file name.go", Line: 98765, Message: "second: a:1"}
		e3 := log.Entry{Severity: log.Severity_ERROR, Time: t0 + 2000, Goroutine: 0, File: "9 ", Line: 3, Message: "third"}
		hdr2 := len(formatAll([]log.Entry{e2})) - len(e2.Message) - 1
		for off := 0; off <= hdr2+2; off++ {
			e1 := log.Entry{Severity: log.Severity_INFO, Time: t0, Goroutine: 5, File: "a.go", Line: 1}
			base := len(formatAll([]log.Entry{e1}))
			want := 128 - off
			if want < base {
				want += 64
			}
			e1.Message = strings.Repeat("s", want-base)
			es := []log.Entry{e1, e2, e3}
			mode := []string{"chunk-64", "chunk-32", "chunk-16"}[off%3]
			codec = append(codec, mkCodecCaseVia(mode, "wf", es, formatAll(es), fmt.Sprintf("boundary sweep, offset %d", off)))
		}
	}
	// headers of every length around 128 bytes, with many line digits
	for fl := 80; fl <= 140; fl++ {
		g := int64(0)
		if fl%2 == 0 {
			g = 17
		}
		e := log.Entry{Severity: log.Severity(1 + fl%4), Time: genTime(rng) / 1000 * 1000, Goroutine: g,
			File: strings.Repeat("p/", fl/2)[:fl-4] + "f.go", Line: 123456789, Message: "after a long header: 7 x"}
		es := []log.Entry{e, {Severity: log.Severity_INFO, Time: e.Time, Goroutine: 3, File: "n.go", Line: 1, Message: "next"}}
		codec = append(codec, mkCodecCaseVia(readerModes[fl%len(readerModes)], "wf", es, formatAll(es), fmt.Sprintf("file name of %d bytes", len(e.File))))
	}
	// long streams: beyond bufio.Scanner's 4 KiB first buffer and its 64 KiB limit
	bigs := []struct {
		n    int
		mode string
	}{{1700, "whole"}, {200, "half"}, {150, "chunk-4095"}}
	if *tier == "thorough" {
		bigs = append(bigs, struct {
			n    int
			mode string
		}{5000, "whole"}, struct {
			n    int
			mode string
		}{3000, "chunk-4097"}, struct {
			n    int
			mode string
		}{3000, "one"})
	}
	for _, bg := range bigs {
		var es []log.Entry
		t0 := genTime(rng) / 1000 * 1000
		for j := 0; j < bg.n; j++ {
			g := int64(0)
			if j%3 != 0 {
				g = 1 + rng.Int63n(100000)
			}
			es = append(es, log.Entry{Severity: log.Severity(1 + j%4), Time: t0, Goroutine: g,
				File: []string{"b.go", "dir/c.go", "x"}[rng.Intn(3)], Line: int64(j), Message: "m" + strconv.Itoa(j)})
		}
		codec = append(codec, mkCodecCaseVia(bg.mode, "wf", es, formatAll(es), "long stream"))
	}

	// ---- raw: perturbed streams, decoder only
	var raw []codecCase
	for i := 0; i < nRaw; i++ {
		name, s := genRaw(rng)
		raw = append(raw, mkCodecCase("raw", nil, s, name))
	}

	// ---- probes outside the theorem's guards
	var probe []codecCase
	for i := 0; i < nProbe; i++ {
		name, e := genProbe(rng, i)
		es := []log.Entry{e}
		if rng.Intn(2) == 0 {
			es = append(es, genEntry(rng))
			if len(es[1].Message) > 200 {
				es[1].Message = "after"
			}
		}
		probe = append(probe, mkCodecCase("probe", es, formatAll(es), name))
	}

	// ---- rotation / GC histories on real loggers
	var hist, extraHist []histCase
	var api []apiCase
	var multi []multiCase
	discarded := 0
	var calMain, calSec calib
	histErr := ""
	func() {
		defer func() {
			if r := recover(); r != nil {
				// the loggers could not be driven at all (e.g. calibration impossible):
				// the codec cases are still written; the check reports this separately
				histErr = fmt.Sprint(r)
				hist, multi, api = nil, nil, nil
			}
		}()
		seq := 0
		oldGC := debug.SetGCPercent(-1) // see the comment on glitch()
		defer debug.SetGCPercent(oldGC)
		// nothing on stderr, and stderr is not redirected into a log file, also
		// outside the test scopes (the documented flags)
		if err := flag.Set("logtostderr", "NONE"); err != nil {
			panic(err)
		}
		if err := flag.Set("no-redirect-stderr", "true"); err != nil {
			panic(err)
		}
		calMain = calibrate("main", &seq)
		calSec = calibrate("secondary", &seq)
		for i := 0; i < nBig; i++ {
			kind, cal := "main", calMain
			if i%2 == 1 {
				kind, cal = "secondary", calSec
			}
			for try := 0; ; try++ {
				h, ok := runBig(rng, kind, cal, &seq)
				if ok {
					extraHist = append(extraHist, h)
					break
				}
				discarded++
				if try > 20 {
					panic("goroutine id never stable")
				}
			}
		}
		for i := 0; i < nOwn; i++ {
			for try := 0; ; try++ {
				hs, ok := runOwnDir(rng, calSec, &seq)
				if ok {
					extraHist = append(extraHist, hs...)
					break
				}
				discarded++
				if try > 20 {
					panic("goroutine id never stable")
				}
			}
		}
		api = runAPI(rng, nAPI)
		for i := 0; i < nHist+nGC+nReopen; i++ {
			kind, cal := "main", calMain
			if i%2 == 1 {
				kind, cal = "secondary", calSec
			}
			for try := 0; ; try++ {
				h, ok := runHist(rng, kind, cal, &seq, i >= nHist && i < nHist+nGC, i >= nHist+nGC)
				if ok {
					hist = append(hist, h)
					break
				}
				discarded++
				if try > 20 {
					panic("goroutine id never stable")
				}
			}
		}
		for i := 0; i < nMulti; i++ {
			for try := 0; ; try++ {
				m, ok := runMulti(rng, calMain, calSec)
				if ok {
					multi = append(multi, m)
					break
				}
				discarded++
				if try > 20 {
					panic("goroutine id never stable")
				}
			}
		}
		hist = append(hist, extraHist...) // after the others: the samples index the first three kinds
		// the calibration must still hold at the end (constant header widths)
		if c := calibrate("main", &seq); c != calMain {
			panic(fmt.Sprintf("calibration drifted: %v then %v", calMain, c))
		}
		if c := calibrate("secondary", &seq); c != calSec {
			panic(fmt.Sprintf("calibration drifted: %v then %v", calSec, c))
		}
	}()

	// ---- output
	var sb strings.Builder
	var it []string
	for _, c := range codec {
		it = append(it, coqCodecCase(c))
	}
	sb.WriteString("Definition codec_cases : list codec_case := " + vh.ListNL(it) + ".\n\n")
	it = nil
	for _, c := range raw {
		it = append(it, coqRawCase(c))
	}
	sb.WriteString("Definition raw_cases : list raw_case := " + vh.ListNL(it) + ".\n\n")
	it = nil
	for _, c := range probe {
		it = append(it, coqCodecCase(c))
	}
	sb.WriteString("Definition probe_cases : list codec_case := " + vh.ListNL(it) + ".\n\n")
	it = nil
	for _, h := range hist {
		it = append(it, coqHist(h))
	}
	sb.WriteString("Definition hist_cases : list hist_case := " + vh.ListNL(it) + ".\n\n")
	it = nil
	for _, m := range multi {
		it = append(it, coqMulti(m))
	}
	sb.WriteString("Definition multi_cases : list multi_case := " + vh.ListNL(it) + ".\n\n")
	it = nil
	for _, c := range api {
		it = append(it, coqAPI(c))
	}
	sb.WriteString("Definition api_cases : list api_case := " + vh.ListNL(it) + ".\n\n")
	it = nil
	var fetchWin []histCase
	for _, h := range hist {
		if h.HasWin {
			fetchWin = append(fetchWin, h)
			it = append(it, fmt.Sprintf("(%s, %s)", zs(h.WinWant), zs(h.WinGot)))
		}
	}
	sb.WriteString("Definition fetch_cases : list fetch_case := " + vh.ListNL(it) + ".\n")
	vh.WriteFile(*out, "cases.v", sb.String())
	vh.WriteJSON(*out, "cases.json", map[string]interface{}{"codec": codec, "raw": raw, "probe": probe, "hist": hist, "multi": multi, "api": api, "fetch": fetchWin})

	// ---- summary
	distinct := map[string]bool{}
	nontrivial := 0
	entries := 0
	classCount := map[string]int{}
	readerCount := map[string]int{}
	longest := 0
	for _, c := range codec {
		readerCount[c.Reader]++
		if len(c.StreamB) > longest {
			longest = len(c.StreamB)
		}
		classCount[c.Class]++
		entries += len(c.In)
		headerLike := false
		for _, e := range c.In {
			if bytes.Contains(e.MsgB, []byte(" z.go:")) {
				headerLike = true
			}
		}
		if len(c.In) >= 2 || headerLike || len(c.In) == 1 && c.In[0].Gid == 0 {
			if !distinct["c"+string(c.StreamB)] {
				distinct["c"+string(c.StreamB)] = true
				nontrivial++
			}
		}
	}
	rawKinds := map[string]int{}
	for _, c := range raw {
		rawKinds[c.Note]++
		if !distinct["r"+string(c.StreamB)] {
			distinct["r"+string(c.StreamB)] = true
			nontrivial++
		}
	}
	probeKinds := map[string]int{}
	probeFail := map[string]int{}
	for _, c := range probe {
		probeKinds[c.Note]++
		ok := c.Err == 0 && len(c.In) == len(c.Out)
		if ok {
			for i := range c.In {
				a, b := c.In[i], c.Out[i]
				if a.Sev != b.Sev || a.Civil != b.Civil || a.Gid != b.Gid || string(a.FileB) != string(b.FileB) || a.Line != b.Line || string(a.MsgB) != string(b.MsgB) {
					ok = false
				}
			}
		}
		if !ok {
			probeFail[c.Note]++
		}
	}
	rotations, gcs, logs, histNontrivial := 0, 0, 0, 0
	closes, sameName := 0, 0
	for _, h := range hist {
		nl, ng := 0, 0
		for _, o := range h.Ops {
			switch o.Op {
			case "log":
				nl++
			case "gc":
				ng++
			case "close":
				closes++
			}
		}
		if len(h.Snaps) > 0 {
			for _, f := range h.Snaps[len(h.Snaps)-1] {
				if f.Other > 4 {
					sameName += f.Other/4 - 1
				}
			}
		}
		logs += nl
		gcs += ng
		files := 0
		if len(h.Snaps) > 0 {
			files = len(h.Snaps[len(h.Snaps)-1])
		}
		rotations += files
		key := fmt.Sprintf("h%v%v%v", h.Ops, h.Planted, h.Max0)
		if (files >= 2 || ng > 0) && !distinct[key] {
			distinct[key] = true
			histNontrivial++
		}
	}
	nBigSeen, nOwnSeen := 0, 0
	nUser, nThreshold := 0, 0
	for _, h := range hist {
		if strings.Contains(h.Note, "user ") {
			nUser++
		}
		if strings.Contains(h.Note, "file threshold") {
			nThreshold++
		}
		if h.Logger == "secondary-own-dir" {
			nOwnSeen++
		} else if strings.HasPrefix(h.Note, "entry of the size") {
			nBigSeen++
		}
	}
	apiCalls := map[string]int{}
	apiNontrivial := 0
	for _, c := range api {
		apiCalls[c.Call]++
		if bytes.Contains(c.FormatB, []byte("%")) && !distinct["a"+c.Call+string(c.FormatB[bytes.IndexByte(c.FormatB, '|')+1:])] {
			distinct["a"+c.Call+string(c.FormatB[bytes.IndexByte(c.FormatB, '|')+1:])] = true
			apiNontrivial++
		}
	}
	multiGcs, multiLogs, multiNontrivial := 0, 0, 0
	for _, m := range multi {
		ng, active := 0, map[int]bool{}
		for _, o := range m.Ops {
			switch o.Op {
			case "log":
				multiLogs++
				active[o.Lg] = true
			case "gc":
				ng++
			}
		}
		multiGcs += ng
		key := fmt.Sprintf("m%v%v%v%v", m.Progs, m.Ops, m.Planted, m.Max0)
		if len(active) >= 2 && ng > 0 && !distinct[key] {
			distinct[key] = true
			multiNontrivial++
		}
	}
	samples := []interface{}{codec[0], codec[1+rng.Intn(len(codec)-1)], raw[rng.Intn(len(raw))], probe[rng.Intn(len(probe))]}
	if len(hist) >= nHist+nGC+nReopen {
		samples = append(samples, hist[rng.Intn(nHist)], hist[nHist+rng.Intn(nGC)], hist[nHist+nGC+rng.Intn(nReopen)])
	}
	if len(multi) > 0 {
		samples = append(samples, multi[rng.Intn(len(multi))])
	}
	vh.WriteJSON(*out, "summary.json", map[string]interface{}{
		"codec": len(codec), "codec_entries": entries, "codec_classes": classCount,
		"raw": len(raw), "raw_kinds": rawKinds,
		"probe": len(probe), "probe_kinds": probeKinds, "probe_roundtrip_failures": probeFail,
		"local_zone_offset_s": zoneOff,
		"hist":                len(hist), "hist_error": histErr, "hist_discarded_goid_glitch": discarded, "hist_log_ops": logs, "hist_gc_ops": gcs, "hist_files_at_end": rotations,
		"calibration":          map[string]interface{}{"main": []int64{calMain.overhead, calMain.h}, "secondary": []int64{calSec.overhead, calSec.h}},
		"fetch_windows":        len(fetchWin),
		"hist_other_user_name": nUser, "hist_main_file_threshold_raised": nThreshold,
		"hist_buffer_sized_entry": nBigSeen, "hist_own_directory_loggers": nOwnSeen, "api": len(api), "api_calls": apiCalls,
		"hist_close_reopen_ops": closes, "hist_reopens_under_same_name": sameName, "codec_readers": readerCount, "codec_longest_stream": longest,
		"multi": len(multi), "multi_log_ops": multiLogs, "multi_gc_ops": multiGcs,
		"distinct_nontrivial": nontrivial + histNontrivial + multiNontrivial + apiNontrivial,
		"samples":             samples,
	})
}
