// Generator for C08: roles with signal parsers of every kind and time-stamp
// group, audiences watching them, and line sequences built token by token so
// that the generator knows BY CONSTRUCTION (no regexp, no strconv, no
// time.Parse involved) which signal every line matches, what is captured and
// whether the captures are well-formed.  That knowledge is the oracle's
// expectation; the hook's facts (Go's regexp, strconv, time.Parse) feed the
// model.
package main

import (
	"fmt"
	"math/big"
	"math/rand"
	"strings"
	"time"

	"github.com/knz/shakespeare/verifharness/audgen"
)

// EpochSec is the play start used by the in-process cases: 2020-01-01T00:00:00Z.
const EpochSec = 1577836800

// SigDef is one `signal` clause.
type SigDef struct {
	Name     string
	Kind     int    // 0 event, 1 scalar, 2 delta
	Group    string // now deltasecs rfc3339 log
	CustomTs bool   // the time-stamp group is spelled out as \S+ instead of the expandable empty group
	Key      string
	ValRe    string // \S+  \d+  [-+.0-9eE]+  \w+  rest  whole
	// Alt: the field is written `KEY=value` or `KEY:value`, and the pattern has
	// one alternative for each, BOTH naming the value group the same (Go's
	// regexp accepts that; `${name}` expands to the one that took part).
	Alt bool
	// NoNoise (end-to-end plays): a whole-line ts_now pattern that leaves out
	// what the shell itself prints on stderr.
	NoNoise bool
	// Skip: the time stamp is the (Skip+1)-th token of the line (deltasecs
	// only): two signals of one role can then read two different stamps off
	// the same line.
	Skip int
}

var kindNames = []string{"event", "scalar", "delta"}

// Pattern renders the regular expression: it describes whole lines.
func (s *SigDef) Pattern() string {
	var ts string
	switch s.Group {
	case "now":
		ts = `(?P<ts_now>)`
	case "deltasecs":
		ts = `(?P<ts_deltasecs>) `
		if s.CustomTs {
			ts = `(?P<ts_deltasecs>\S+) `
		}
	case "rfc3339":
		ts = `(?P<ts_rfc3339>) `
		if s.CustomTs {
			ts = `(?P<ts_rfc3339>\S+) `
		}
	case "log":
		ts = `(?P<ts_log>) `
		if s.CustomTs {
			ts = `(?P<ts_log>\S+ \S+) `
		}
	}
	ts = strings.Repeat(`\S+ `, s.Skip) + ts
	if s.ValRe == "whole" {
		// the shipped examples' shape: everything (after the time stamp) is
		// the event text - possibly nothing at all
		if s.NoNoise && s.Group == "now" {
			// real shells also print `+ cmd` (xtrace), Hangup, Killed
			return `^` + ts + `(?P<event>|[^+HK].*)$`
		}
		return `^` + ts + `(?P<event>.*)$`
	}
	if s.ValRe == "rest" {
		return `^` + ts + `(?:.* )?` + s.Key + `=(?P<` + kindNames[s.Kind] + `>.*)$`
	}
	if s.Alt {
		g := `(?P<` + kindNames[s.Kind] + `>` + s.ValRe + `)`
		return `^` + ts + `(?:.* )?(?:` + s.Key + `=` + g + `|` + s.Key + `:` + g + `)(?: .*)?$`
	}
	return `^` + ts + `(?:.* )?` + s.Key + `=(?P<` + kindNames[s.Kind] + `>` + s.ValRe + `)(?: .*)?$`
}

// RoleDef is one role with its cast.
type RoleDef struct {
	Name   string
	Sigs   []SigDef
	Actors []string
	// Extends: `role <Name> extends <Extends>`; the first NInherited signals
	// (and the spotlight, the actions) come from there, the role's own
	// clauses are Sigs[NInherited:].
	Extends    string
	NInherited int
	// Multi: the actors are <Multi>1 .. <Multi>N, defined by the single
	// cast line `<Multi>* play N <role>`.
	Multi string
}

// Watch is one `watches` clause.
type Watch struct {
	Observer, Target, Sig string
}

// CfgGen is a generated configuration.
type CfgGen struct {
	Roles   []RoleDef
	Watches []Watch
	Auditor *audgen.Member // optional: an auditor mentioning a numeric signal
	AudVar  [2]string
	// OnlyHelps lists audience members marked `<name> only helps` (no plot;
	// they still watch, so they still get their data points).
	OnlyHelps []string
	// OnlyHelpsFirst: the clause comes before the member's other clauses.
	OnlyHelpsFirst map[string]bool
	// Sentinel adds to every role a signal `zend` matching the line THE-END,
	// watched by o9 (end-to-end plays: tells that an actor's lines were all read).
	Sentinel bool
	// WithMe gives every actor its own name in the environment (`with
	// me=<actor>`; multiplied actors have $i from shakespeare itself).
	WithMe bool
}

// Text renders the configuration; spot maps a role to its spotlight command
// ("true" in-process).
func (c *CfgGen) Text(spot map[string]string, script string) string {
	var b strings.Builder
	for _, r := range c.Roles {
		if r.Extends != "" {
			b.WriteString("role " + r.Name + " extends " + r.Extends + "\n")
		} else {
			b.WriteString("role " + r.Name + "\n  :noop true\n")
			sp := "true"
			if spot != nil {
				sp = spot[r.Name]
			}
			b.WriteString("  spotlight " + sp + "\n")
		}
		for i := range r.Sigs {
			if i < r.NInherited {
				continue
			}
			s := &r.Sigs[i]
			b.WriteString("  signal " + s.Name + " " + kindNames[s.Kind] + " at " + s.Pattern() + "\n")
		}
		if c.Sentinel {
			b.WriteString("  signal zend event at ^(?P<ts_now>)(?P<event>THE-END)$\n")
		}
		b.WriteString("end\n")
	}
	b.WriteString("cast\n")
	for _, r := range c.Roles {
		if r.Multi != "" {
			b.WriteString(fmt.Sprintf("  %s* play %d %s\n", r.Multi, len(r.Actors), r.Name))
			continue
		}
		for _, a := range r.Actors {
			if c.WithMe {
				b.WriteString("  " + a + " plays " + r.Name + " with me=" + a + "\n")
			} else {
				b.WriteString("  " + a + " plays " + r.Name + "\n")
			}
		}
	}
	b.WriteString("end\n")
	b.WriteString(script)
	b.WriteString("audience\n")
	for _, o := range c.OnlyHelps {
		if c.OnlyHelpsFirst[o] {
			b.WriteString("  " + o + " only helps\n")
		}
	}
	for _, w := range c.Watches {
		b.WriteString("  " + w.Observer + " watches " + w.Target + " " + w.Sig + "\n")
	}
	if c.Auditor != nil {
		for _, cl := range c.Auditor.ClauseOrdr {
			b.WriteString("  " + cl + "\n")
		}
	}
	if c.Sentinel {
		for _, r := range c.Roles {
			b.WriteString("  o9 watches every " + r.Name + " zend\n")
		}
	}
	for _, o := range c.OnlyHelps {
		if !c.OnlyHelpsFirst[o] {
			b.WriteString("  " + o + " only helps\n")
		}
	}
	b.WriteString("end\n")
	return b.String()
}

func (c *CfgGen) roleOf(actor string) *RoleDef {
	for i := range c.Roles {
		for _, a := range c.Roles[i].Actors {
			if a == actor {
				return &c.Roles[i]
			}
		}
	}
	return nil
}

// Watchers returns, by construction, who watches (actor, sig), in clause
// order without duplicates.
func (c *CfgGen) Watchers(actor, sig string) []string {
	var out []string
	add := func(o string) {
		for _, x := range out {
			if x == o {
				return
			}
		}
		out = append(out, o)
	}
	r := c.roleOf(actor)
	for _, w := range c.Watches {
		if w.Sig != sig {
			continue
		}
		if w.Target == actor || w.Target == "every "+r.Name {
			add(w.Observer)
		}
	}
	if c.Auditor != nil && c.AudVar == [2]string{actor, sig} {
		add(c.Auditor.Name)
	}
	return out
}

// Gen holds the PRNG.
type Gen struct {
	R          *rand.Rand
	Modalities []string
	// knobs for the end-to-end plays
	MinActors  int // at least this many actors in the cast
	ForceRoles int // 0: 1-2 roles at random
	ForceMulti int // 0: at random; 1: never; 2: the first role is a multiplied cast line
	// NonFinite: scalar fields may spell infinity / NaN (real plays only: the
	// model's numbers are rationals).
	NonFinite bool
}

func (g *Gen) pick(xs []string) string { return xs[g.R.Intn(len(xs))] }

// sigDef generates one signal clause.
func (g *Gen) sigDef(name, key string) SigDef {
	s := SigDef{Name: name, Kind: g.R.Intn(3), Key: key}
	s.Group = g.pick([]string{"now", "deltasecs", "deltasecs", "rfc3339", "log"})
	if s.Group != "now" && g.R.Intn(3) == 0 {
		s.CustomTs = true
	}
	if s.Kind == 0 {
		s.ValRe = g.pick([]string{`\S+`, `\S+`, `\w+`, "rest", "whole"})
	} else {
		s.ValRe = g.pick([]string{`\S+`, `\S+`, `\S+`, `[-+.0-9eE]+`, `\d+`})
	}
	if s.ValRe != "rest" && s.ValRe != "whole" && g.R.Intn(4) == 0 {
		s.Alt = true
	}
	return s
}

// Config generates roles, cast and audience.
func (g *Gen) Config() *CfgGen {
	c := &CfgGen{}
	nroles := 1 + g.R.Intn(2)
	if g.ForceRoles > 0 {
		nroles = g.ForceRoles
	}
	actorNames := []string{"x", "y", "z", "w"}
	na := 0
	if g.ForceRoles == 0 && g.R.Intn(4) == 0 {
		// a base role and two sibling roles extending it, each adding a
		// signal of the SAME name with its own line format; the base has 3
		// or 5-7 signals (the sizes at which its parser list has spare
		// capacity after parsing)
		nroles = 0
		base := RoleDef{Name: "r1"}
		nb := []int{3, 3, 5, 6, 7}[g.R.Intn(5)]
		for si := 0; si < nb; si++ {
			base.Sigs = append(base.Sigs, g.sigDef(fmt.Sprintf("s%d", si+1), string(rune('a'+si))))
		}
		if g.R.Intn(2) == 0 {
			base.Actors = []string{actorNames[na]}
			na++
		}
		c.Roles = append(c.Roles, base)
		for k := 0; k < 2; k++ {
			r := RoleDef{Name: fmt.Sprintf("r%d", k+2), Extends: "r1", NInherited: nb}
			r.Sigs = append(r.Sigs, base.Sigs...)
			r.Sigs = append(r.Sigs, g.sigDef("sx", string(rune('a'+nb+k))))
			r.Actors = []string{actorNames[na]}
			na++
			c.Roles = append(c.Roles, r)
		}
	}
	for ri := 0; ri < nroles; ri++ {
		r := RoleDef{Name: fmt.Sprintf("r%d", ri+1)}
		nsig := 1 + g.R.Intn(4)
		for si := 0; si < nsig; si++ {
			s := g.sigDef(fmt.Sprintf("s%d", si+1), string(rune('a'+si)))
			r.Sigs = append(r.Sigs, s)
		}
		multi := g.R.Intn(3) == 0
		if g.ForceMulti == 1 {
			multi = false
		} else if g.ForceMulti == 2 {
			multi = ri == 0
		}
		if multi {
			// siblings of one cast line: `p* play 2 r1`
			r.Multi = string(rune('p' + ri))
			n := 2 + g.R.Intn(2)
			for k := 0; k < n; k++ {
				r.Actors = append(r.Actors, fmt.Sprintf("%s%d", r.Multi, k+1))
				na++
			}
		} else {
			nact := 1 + g.R.Intn(2)
			for k := 0; k < nact && na < len(actorNames); k++ {
				r.Actors = append(r.Actors, actorNames[na])
				na++
			}
		}
		c.Roles = append(c.Roles, r)
	}
	for ri := 0; na < g.MinActors; ri = (ri + 1) % len(c.Roles) {
		r := &c.Roles[ri]
		if r.Multi != "" {
			r.Actors = append(r.Actors, fmt.Sprintf("%s%d", r.Multi, len(r.Actors)+1))
		} else {
			r.Actors = append(r.Actors, actorNames[na%len(actorNames)]+strings.Repeat("x", na/len(actorNames)))
		}
		na++
	}
	// observers: an observer watches events only or numbers only (the parser
	// rejects a mix).
	obsEvent := map[string]bool{"o1": false, "o2": true, "o3": g.R.Intn(2) == 0}
	for ri := range c.Roles {
		r := &c.Roles[ri]
		if len(r.Actors) == 0 {
			continue // a base role nobody plays
		}
		for si := range r.Sigs {
			s := &r.Sigs[si]
			if g.R.Intn(7) == 0 {
				continue // nobody watches: no sink
			}
			var compat []string
			for _, o := range []string{"o1", "o2", "o3"} {
				if obsEvent[o] == (s.Kind == 0) {
					compat = append(compat, o)
				}
			}
			nobs := 1 + g.R.Intn(3)
			for k := 0; k < nobs; k++ {
				o := g.pick(compat)
				target := "every " + r.Name
				if g.R.Intn(2) == 0 {
					target = g.pick(r.Actors)
				}
				c.Watches = append(c.Watches, Watch{Observer: o, Target: target, Sig: s.Name})
			}
		}
	}
	g.R.Shuffle(len(c.Watches), func(i, j int) { c.Watches[i], c.Watches[j] = c.Watches[j], c.Watches[i] })
	if g.R.Intn(2) == 0 {
		// an auditor that mentions a signal in an expression is a watcher
		// too (checkExpr registers it) and gets its own file - whether or
		// not it is auditing when the line arrives: its activation period
		// may be conditional (on that very signal, on the mood, on t), and
		// it may well be the ONLY watcher of the signal
		var cands [][2]string
		kindOf := map[[2]string]int{}
		for _, r := range c.Roles {
			for _, s := range r.Sigs {
				for _, a := range r.Actors {
					cands = append(cands, [2]string{a, s.Name})
					kindOf[[2]string{a, s.Name}] = s.Kind
				}
			}
		}
		v := cands[g.R.Intn(len(cands))]
		m := &audgen.Member{Name: "au", CondKind: "none", Modality: g.pick(g.Modalities)}
		if kindOf[v] == 0 {
			m.Expect = audgen.Bin(g.pick([]string{"==", "!="}), audgen.V(v[0], v[1]), audgen.Str(g.pick([]string{"up", "down", "ok"})))
		} else {
			m.Expect = audgen.Bin(g.pick([]string{">", "<", ">=", "=="}), audgen.V(v[0], v[1]), audgen.Num(int64(g.R.Intn(5))))
		}
		switch g.R.Intn(5) {
		case 0: // throughout (no clause)
		case 1:
			m.CondKind = "throughout"
			m.ClauseOrdr = append(m.ClauseOrdr, "au audits throughout")
		case 2: // by the same signal
			m.CondKind = "other"
			if kindOf[v] == 0 {
				m.Cond = audgen.Bin("==", audgen.V(v[0], v[1]), audgen.Str(g.pick([]string{"up", "down", "mid"})))
			} else {
				m.Cond = audgen.Bin(g.pick([]string{">=", "<", ">"}), audgen.V(v[0], v[1]), audgen.Num(int64(g.R.Intn(6))))
			}
		case 3: // by the mood
			m.CondKind = "other"
			m.Cond = audgen.Bin(g.pick([]string{"==", "!="}), audgen.V("", "mood"), audgen.Str(g.pick([]string{"red", "blue", "clear"})))
		default: // by the time
			m.CondKind = "other"
			m.Cond = audgen.Bin(g.pick([]string{">", "<"}), audgen.V("", "t"), audgen.Num(int64(g.R.Intn(40))))
		}
		if m.Cond != nil {
			m.ClauseOrdr = append(m.ClauseOrdr, "au audits only "+g.pick([]string{"while", "when"})+" "+m.Cond.Src())
		}
		m.ClauseOrdr = append(m.ClauseOrdr, fmt.Sprintf("au expects %s: %s", m.Modality, m.Expect.Src()))
		c.Auditor = m
		c.AudVar = v
		if g.R.Intn(2) == 0 {
			// nobody else watches that signal of that actor
			r := c.roleOf(v[0])
			var keep []Watch
			for _, w := range c.Watches {
				if w.Sig == v[1] && (w.Target == v[0] || w.Target == "every "+r.Name) {
					continue
				}
				keep = append(keep, w)
			}
			c.Watches = keep
		}
	}
	// `only helps`: plotting is switched off for the member, nothing else
	c.OnlyHelpsFirst = map[string]bool{}
	members := map[string]bool{}
	for _, w := range c.Watches {
		members[w.Observer] = true
	}
	for _, o := range []string{"o1", "o2", "o3"} {
		if members[o] && g.R.Intn(3) == 0 {
			c.OnlyHelps = append(c.OnlyHelps, o)
			c.OnlyHelpsFirst[o] = g.R.Intn(2) == 0
		}
	}
	if c.Auditor != nil && g.R.Intn(2) == 0 {
		c.OnlyHelps = append(c.OnlyHelps, c.Auditor.Name)
		c.OnlyHelpsFirst[c.Auditor.Name] = g.R.Intn(2) == 0
	}
	return c
}

// ------------------------------------------------------------------ values

// NumTok is a number rendering with what it means.
type NumTok struct {
	S     string
	Valid bool
	Val   *big.Rat
	// NonFinite: what the CSV shows for a spelling of infinity / NaN
	// (ParseFloat accepts those without error; scalar signals only).
	NonFinite string
}

var badNums = []string{"1e", "--3", "0x1", "1.2.3", "e5", "+", "1e400", "abc", "1,5", ".", "-", "1e+", "3-", "-NaN", "0x1p", "0x.p1", "-1e400", "0x1p1024"}

// edgeNums: numerals at the edges of what ParseFloat accepts - magnitudes of
// 2^63 and beyond (int64 conversions overflow there), the largest and the
// smallest float64, underflow to zero, integers too long to be exact,
// hexadecimal floats.  Each with its exact meaning.
var edgeNums = func() []NumTok {
	mk := func(s, exact string) NumTok {
		r, ok := new(big.Rat).SetString(exact)
		if !ok {
			panic("edgeNums: " + exact)
		}
		return NumTok{S: s, Valid: true, Val: r}
	}
	dec := func(s string) NumTok { return mk(s, s) }
	return []NumTok{
		dec("1e19"), dec("-1e19"), dec("1e300"), dec("-1e300"), dec("9223372036854775808"), dec("-9223372036854775809"),
		dec("18446744073709551616"), dec("6e18"), dec("-6e18"), dec("1e308"), dec("4.9e-324"), dec("1e-400"),
		dec("123456789012345678901234567890"), dec("1.5e19"), mk("-0", "0"),
		mk("0x1p-2", "1/4"), mk("0X1.8p1", "3"), mk("-0x10p0", "-16"), mk("0x1p63", "9223372036854775808"),
		mk("0x1p64", "18446744073709551616"), mk("0x.8P1", "1"),
	}
}()

// edgeNumsCheap: the edge numerals whose exact value is short.
func edgeNumsCheap() []NumTok {
	var out []NumTok
	for _, n := range edgeNums {
		if len(n.Val.Num().String())+len(n.Val.Denom().String()) < 40 {
			out = append(out, n)
		}
	}
	return out
}

// nonFiniteNums: spellings ParseFloat turns into +Inf / -Inf / NaN.
var nonFiniteNums = []NumTok{
	{S: "Inf", Valid: true, NonFinite: "+Inf"}, {S: "+Inf", Valid: true, NonFinite: "+Inf"}, {S: "-inf", Valid: true, NonFinite: "-Inf"},
	{S: "infinity", Valid: true, NonFinite: "+Inf"}, {S: "NaN", Valid: true, NonFinite: "NaN"}, {S: "nan", Valid: true, NonFinite: "NaN"},
}

func ratEighths(k int64) *big.Rat { return big.NewRat(k, 8) }

// renderNum renders k/8 in one of several syntaxes ParseFloat accepts.
func (g *Gen) renderNum(k int64) NumTok {
	v := ratEighths(k)
	f, _ := v.Float64()
	plain := fmtPlain(f)
	var s string
	switch g.R.Intn(9) {
	case 0:
		s = "+" + strings.TrimPrefix(plain, "-")
		if k < 0 {
			s = plain
		}
	case 1:
		if strings.Contains(plain, ".") {
			s = plain + "0"
		} else {
			s = plain + ".0"
		}
	case 2:
		if k >= 0 {
			s = "00" + plain
		} else {
			s = plain
		}
	case 3:
		// exponent form: shift the decimal point by one
		g10 := fmtPlain(f * 10)
		s = g10 + "e-1"
	case 4:
		if f > -1 && f < 1 && f != 0 && strings.HasPrefix(strings.TrimPrefix(plain, "-"), "0.") {
			s = strings.Replace(plain, "0.", ".", 1)
		} else {
			s = plain
		}
	case 5:
		if !strings.Contains(plain, ".") {
			s = plain + "."
		} else {
			s = plain
		}
	case 6:
		s = fmtRat(new(big.Rat).Mul(v, big.NewRat(1, 100))) + "E2"
	default:
		s = plain
	}
	return NumTok{S: s, Valid: true, Val: v}
}

// fmtRat prints a rational whose decimal expansion terminates, exactly, in
// plain decimal notation (by hand: integer part, then fraction digits by
// repeated multiplication).
func fmtRat(r0 *big.Rat) string {
	r := new(big.Rat).Set(r0)
	neg := r.Sign() < 0
	if neg {
		r.Neg(r)
	}
	ip := new(big.Int).Quo(r.Num(), r.Denom())
	frac := new(big.Rat).Sub(r, new(big.Rat).SetInt(ip))
	s := ip.String()
	if frac.Sign() != 0 {
		s += "."
		ten := big.NewRat(10, 1)
		for i := 0; i < 40 && frac.Sign() != 0; i++ {
			frac.Mul(frac, ten)
			d := new(big.Int).Quo(frac.Num(), frac.Denom())
			s += d.String()
			frac.Sub(frac, new(big.Rat).SetInt(d))
		}
		if frac.Sign() != 0 {
			panic("fmtRat: non-terminating expansion")
		}
	}
	if neg {
		s = "-" + s
	}
	return s
}

// fmtPlain prints a dyadic float exactly.
func fmtPlain(f float64) string { return fmtRat(new(big.Rat).SetFloat64(f)) }

var evTexts = []string{"up", "down", "mid", "a<b", "x&y", `q"t`, "it's", "caf\u00e9", "ok", "<tag>", "&amp;", "100%", "a\\b", "up"}
var restTexts = []string{"all is well", "disk <full> & hot", `say "hi"`, "", "one", "two  spaces"}

// ------------------------------------------------------------------ lines

// Field is one key=value token.
type Field struct {
	Key, Val string
	Num      *NumTok // for numeric values
}

// LineGen is a generated line, as tokens.
type LineGen struct {
	Actor    string
	TsKind   string // none delta deltaX deltabad rfc rfcbad log logbad junk
	TsTokens []string
	TsNs     int64 // intended time stamp minus epoch (valid kinds)
	Body     []string
	Text     string
}

func (l *LineGen) tokens() []string { return append(append([]string{}, l.TsTokens...), l.Body...) }

var epochTime = time.Unix(EpochSec, 0).UTC()

// sixteenths of a second -> ns
func nsOf16(t int64) int64 { return t * 62500000 }

func isDigits(s string) bool {
	if s == "" {
		return false
	}
	for i := 0; i < len(s); i++ {
		if s[i] < '0' || s[i] > '9' {
			return false
		}
	}
	return true
}

// deltaShape: \d+(\.\d+)? | \.\d+
func deltaShape(s string) bool {
	i := strings.IndexByte(s, '.')
	if i < 0 {
		return isDigits(s)
	}
	if i == 0 {
		return isDigits(s[1:])
	}
	return isDigits(s[:i]) && isDigits(s[i+1:])
}

// rfcShape: \d\d\d\d-\d\d-\d\dT\d\d:\d\d:\d\d(\.\d+)?Z
func rfcShape(s string) bool {
	if len(s) < 20 || s[len(s)-1] != 'Z' {
		return false
	}
	tmpl := "dddd-dd-ddTdd:dd:dd"
	for i := 0; i < len(tmpl); i++ {
		if tmpl[i] == 'd' {
			if s[i] < '0' || s[i] > '9' {
				return false
			}
		} else if s[i] != tmpl[i] {
			return false
		}
	}
	rest := s[len(tmpl) : len(s)-1]
	if rest == "" {
		return true
	}
	return rest[0] == '.' && isDigits(rest[1:])
}

// logShape: \d{6} and \d\d:\d\d:\d\d\.\d{6}
func logShape(a, b string) bool {
	if len(a) != 6 || !isDigits(a) || len(b) != 15 {
		return false
	}
	tmpl := "dd:dd:dd.dddddd"
	for i := 0; i < len(tmpl); i++ {
		if tmpl[i] == 'd' {
			if b[i] < '0' || b[i] > '9' {
				return false
			}
		} else if b[i] != tmpl[i] {
			return false
		}
	}
	return true
}

// decimalNs converts a deltaShape string to ns exactly (truncating).
func decimalNs(s string) (int64, bool) {
	if strings.HasPrefix(s, ".") {
		s = "0" + s
	}
	r, ok := new(big.Rat).SetString(s)
	if !ok {
		return 0, false
	}
	r.Mul(r, big.NewRat(1000000000, 1))
	q := new(big.Int).Quo(r.Num(), r.Denom())
	if !q.IsInt64() {
		return 0, false
	}
	return q.Int64(), true
}

// Intent is what a line means for one signal, by construction.
type Intent struct {
	Match  bool
	TsCap  string
	ValCap string
	TsOK   bool
	Now    bool
	Ns     int64
	ValOK  bool
	Num    *big.Rat
	Text   string
}

func valConforms(re, v string) bool {
	if v == "" {
		return false
	}
	switch re {
	case `\S+`:
		return !strings.ContainsAny(v, " \t")
	case `\d+`:
		return isDigits(v)
	case `[-+.0-9eE]+`:
		for i := 0; i < len(v); i++ {
			if !strings.ContainsRune("-+.0123456789eE", rune(v[i])) {
				return false
			}
		}
		return true
	case `\w+`:
		for i := 0; i < len(v); i++ {
			c := v[i]
			if !(c == '_' || (c >= '0' && c <= '9') || (c >= 'a' && c <= 'z') || (c >= 'A' && c <= 'Z')) {
				return false
			}
		}
		return true
	}
	return false
}

// IntentFor computes what line l means for signal s.
func (l *LineGen) IntentFor(s *SigDef, nums map[string]*NumTok) Intent {
	toks := l.tokens()
	var it Intent
	var body []string
	if s.Skip > 0 {
		if len(toks) <= s.Skip {
			return it
		}
		toks = toks[s.Skip:]
	}
	switch s.Group {
	case "now":
		body = toks
		it.TsOK, it.Now = true, true
	case "deltasecs":
		if len(toks) < 2 {
			return it
		}
		if !s.CustomTs && !deltaShape(toks[0]) {
			return it
		}
		it.TsCap = toks[0]
		body = toks[1:]
		if deltaShape(toks[0]) {
			ns, ok := decimalNs(toks[0])
			it.TsOK, it.Ns = ok, ns
		} else if l.TsKind == "deltaX" && len(l.TsTokens) == 1 {
			it.TsOK, it.Ns = true, l.TsNs
		}
	case "rfc3339":
		if len(toks) < 2 {
			return it
		}
		if !s.CustomTs && !rfcShape(toks[0]) {
			return it
		}
		it.TsCap = toks[0]
		body = toks[1:]
		if l.TsKind == "rfc" {
			it.TsOK, it.Ns = true, l.TsNs
		}
	case "log":
		if len(toks) < 3 {
			return it
		}
		if !s.CustomTs && !logShape(toks[0], toks[1]) {
			return it
		}
		it.TsCap = toks[0] + " " + toks[1]
		body = toks[2:]
		if l.TsKind == "log" {
			it.TsOK, it.Ns = true, l.TsNs
		}
	}
	if s.ValRe == "whole" {
		// everything after the time stamp (and its blank) is the text
		it.ValCap = strings.Join(body, " ")
		if s.NoNoise && s.Group == "now" && it.ValCap != "" && strings.ContainsRune("+HK", rune(it.ValCap[0])) {
			return Intent{}
		}
		it.Match = true
		it.ValOK = true
		it.Text = it.ValCap
		return it
	}
	// the field: a whole token KEY=value (the LAST one, were there several)
	idx := -1
	for i, t := range body {
		if strings.HasPrefix(t, s.Key+"=") || (s.Alt && strings.HasPrefix(t, s.Key+":")) {
			idx = i
		}
	}
	if idx < 0 {
		return Intent{}
	}
	var val string
	if s.ValRe == "rest" {
		val = strings.Join(body[idx:], " ")[len(s.Key)+1:]
	} else {
		val = body[idx][len(s.Key)+1:]
		if !valConforms(s.ValRe, val) {
			return Intent{}
		}
	}
	it.Match = true
	it.ValCap = val
	if s.Kind == 0 {
		it.ValOK = true
		it.Text = val
	} else if nt, ok := nums[val]; ok && nt.Valid {
		it.ValOK = true
		it.Num = nt.Val
		it.Text = nt.NonFinite
	}
	return it
}

// LineSeq generates the items of one case.
type ItemGen struct {
	Kind   string // line mood final
	Line   *LineGen
	MoodTs float64
	Mood   string
}

// Lines generates a sequence of items; nums collects every numeric token
// rendered, with its meaning.
func (g *Gen) Lines(c *CfgGen, n int, nums map[string]*NumTok) []ItemGen {
	var items []ItemGen
	var actors []string
	for _, r := range c.Roles {
		actors = append(actors, r.Actors...)
	}
	t16 := int64(16 + g.R.Intn(64)) // current time in 1/16 s
	lastK := map[string]int64{}
	moodT := int64(0)
	for i := 0; i < n; i++ {
		if g.R.Intn(10) == 0 {
			moodT += int64(g.R.Intn(4))
			items = append(items, ItemGen{Kind: "mood", MoodTs: float64(moodT) / 2, Mood: g.pick([]string{"red", "blue", "clear", "red"})})
			continue
		}
		a := g.pick(actors)
		r := c.roleOf(a)
		l := &LineGen{Actor: a}
		if g.R.Intn(10) == 0 {
			// a blank line: empty once trimmed; a pattern that matches the
			// empty string still yields its point (with an empty text)
			l.TsKind = "none"
			items = append(items, ItemGen{Kind: "line", Line: l})
			continue
		}
		// time: mostly advancing, sometimes equal, sometimes going back
		switch g.R.Intn(8) {
		case 0:
		case 1:
			t16 -= int64(g.R.Intn(24))
		default:
			t16 += int64(1 + g.R.Intn(40))
		}
		t := t16
		switch g.R.Intn(30) {
		case 0:
			// far in the future: later than "now"; whole and half seconds only,
			// so that delta*1e9 is still exact in float64 (rounding is not modelled)
			t = 16*300000000 + 8*int64(g.R.Intn(16))
		case 1:
			t = -int64(g.R.Intn(400)) // before the epoch (date groups)
		}
		// which stamp shape: prefer the groups this role's signals use
		var kinds []string
		for _, s := range r.Sigs {
			switch s.Group {
			case "deltasecs":
				kinds = append(kinds, "delta", "delta", "delta")
				if s.CustomTs {
					kinds = append(kinds, "deltaX", "deltabad")
				}
			case "rfc3339":
				kinds = append(kinds, "rfc", "rfc", "rfc", "rfcbad")
			case "log":
				kinds = append(kinds, "log", "log", "log", "logbad")
			case "now":
				kinds = append(kinds, "none")
			}
		}
		kinds = append(kinds, "junk", "none")
		if g.R.Intn(6) == 0 {
			kinds = []string{"delta", "rfc", "log", "deltaX"}
		}
		for _, s := range r.Sigs {
			if s.Skip > 0 && g.R.Intn(4) != 0 {
				kinds = []string{"delta2"}
			}
		}
		l.TsKind = g.pick(kinds)
		if t < 0 && (l.TsKind == "delta" || l.TsKind == "delta2") {
			t = -t
		}
		l.TsNs = nsOf16(t)
		tm := epochTime.Add(time.Duration(l.TsNs))
		secs := fmtPlain(float64(t) / 16)
		switch l.TsKind {
		case "none":
		case "junk":
			l.TsTokens = []string{g.pick([]string{"yesterday", "n/a", "--", "12:30", "T+5"})}
		case "delta":
			s := secs
			switch g.R.Intn(5) {
			case 0:
				if strings.Contains(s, ".") {
					s += "0"
				}
			case 1:
				if strings.HasPrefix(s, "0.") {
					s = s[1:]
				}
			case 2:
				s = "0" + s
			}
			l.TsTokens = []string{s}
		case "delta2":
			// two stamps on one line, a fraction of a millisecond to 1/16 s
			// apart (or equal); dyadic, so that delta*1e9 stays exact
			off := []float64{1.0 / 4096, 1.0 / 8192, 3.0 / 4096, -1.0 / 4096, 1.0 / 16, 0, 1.0 / 4096}[g.R.Intn(7)]
			if t > 16*1000000 {
				off = 0.5
			}
			if float64(t)/16+off < 0 {
				off = 0
			}
			l.TsTokens = []string{secs, fmtPlain(float64(t)/16 + off)}
		case "deltaX":
			switch g.R.Intn(3) {
			case 0:
				if t >= 0 {
					l.TsTokens = []string{"+" + secs}
				} else {
					l.TsTokens = []string{secs}
				}
			case 1:
				l.TsTokens = []string{fmtPlain(float64(t)/16*10) + "e-1"}
			default:
				l.TsTokens = []string{secs + "e0"}
			}
		case "deltabad":
			l.TsTokens = []string{g.pick([]string{"12.5.1", "1e", "3s", "--2", "1,5"})}
		case "rfc":
			f := tm.Format("2006-01-02T15:04:05.9999Z")
			l.TsTokens = []string{f}
		case "rfcbad":
			l.TsTokens = []string{g.pick([]string{"2020-13-01T00:00:01Z", "2020-02-30T10:00:00.5Z", "2020-01-01T25:00:00Z", "2020-01-01T00:61:00Z", "2020-00-10T00:00:00Z"})}
		case "log":
			l.TsTokens = strings.Split(tm.Format("060102 15:04:05.000000"), " ")
		case "logbad":
			l.TsTokens = strings.Split(g.pick([]string{"201301 00:00:01.000000", "200230 10:00:00.500000", "200101 24:00:00.000000", "200100 00:00:00.000000", "200101 00:00:61.000000"}), " ")
		}
		// fields: a random subset of the role's keys, plus noise
		var fields []string
		var rest string
		hasRest := false
		for si := range r.Sigs {
			s := &r.Sigs[si]
			if g.R.Intn(5) < 2 {
				continue
			}
			var v string
			if s.Kind == 0 {
				if s.ValRe == "rest" && !hasRest && g.R.Intn(2) == 0 {
					hasRest = true
					rest = s.Key + "=" + g.pick(restTexts)
					continue
				}
				v = g.pick(evTexts)
				if g.R.Intn(12) == 0 {
					v = ""
				}
			} else {
				key := a + " " + s.Name
				var nt NumTok
				switch r := g.R.Intn(10); {
				case r < 2:
					nt = NumTok{S: g.pick(badNums)}
					if g.NonFinite && s.Kind == 1 && g.R.Intn(2) == 0 {
						nt = nonFiniteNums[g.R.Intn(len(nonFiniteNums))]
					}
				case r < 3:
					// mostly the moderately huge ones (2^63 .. 1e19, hex);
					// the 300-digit rationals are costly to evaluate
					nt = edgeNums[g.R.Intn(len(edgeNums))]
					if cheap := edgeNumsCheap(); g.R.Intn(4) != 0 {
						nt = cheap[g.R.Intn(len(cheap))]
					}
					if g.R.Intn(2) == 0 {
						nt = g.renderNum(lastK[key])
					}
				case r < 5:
					nt = g.renderNum(lastK[key]) // repeated value
				default:
					k := int64(g.R.Intn(120) - 40)
					if g.R.Intn(3) == 0 {
						k = int64(g.R.Intn(12)) * 8
					}
					lastK[key] = k
					nt = g.renderNum(k)
				}
				if old, ok := nums[nt.S]; ok {
					nt = *old
				} else {
					cp := nt
					nums[nt.S] = &cp
				}
				v = nt.S
			}
			sep := "="
			if s.Alt && g.R.Intn(2) == 0 {
				sep = ":"
			}
			fields = append(fields, s.Key+sep+v)
		}
		if g.R.Intn(4) == 0 {
			fields = append(fields, g.pick([]string{"zz=1", "noise", "q", "x9=abc", "=", "aa=3"}))
		}
		g.R.Shuffle(len(fields), func(i, j int) { fields[i], fields[j] = fields[j], fields[i] })
		if hasRest {
			fields = append(fields, strings.Split(rest, " ")...)
		}
		l.Body = fields
		text := strings.Join(l.tokens(), " ")
		if strings.TrimSpace(text) != text {
			// lines reach detectSignals trimmed
			l.Body = append(l.Body, "end")
			text = strings.Join(l.tokens(), " ")
		}
		l.Text = text
		items = append(items, ItemGen{Kind: "line", Line: l})
	}
	items = append(items, ItemGen{Kind: "final"})
	return items
}

// linePrefixes: what a spotlight line may well begin with - punctuation, and
// prefixes that look like a shell's execution trace.  The line is the actor's
// all the same.
var linePrefixes = []string{"+", "++", "+++", "#", ">", "$", "-", "=", "*", "+x", "++x", "%", ":", "!", "[1]+"}

// PrefixLines generates lines `<prefix> p=<number> q=<word>` (either field
// may be missing) for the signals with keys p and q that writeE2E adds to
// every role.
func (g *Gen) PrefixLines(actors []string, nums map[string]*NumTok, n int) []ItemGen {
	var items []ItemGen
	for i := 0; i < n; i++ {
		l := &LineGen{Actor: g.pick(actors), TsKind: "none"}
		l.Body = []string{linePrefixes[(i+g.R.Intn(3))%len(linePrefixes)]}
		if i%4 == 1 {
			l.Body[0] = "+" // the most trace-like one, often
		}
		if i%4 == 3 {
			l.Body[0] = "++"
		}
		switch g.R.Intn(3) {
		case 0:
			l.Body = append(l.Body, "q="+g.pick(evTexts))
		case 1:
			nt := g.renderNum(int64(g.R.Intn(80)))
			if old, ok := nums[nt.S]; ok {
				nt = *old
			} else {
				cp := nt
				nums[nt.S] = &cp
			}
			l.Body = append(l.Body, "p="+nt.S)
		default:
			nt := g.renderNum(int64(g.R.Intn(80)))
			if old, ok := nums[nt.S]; ok {
				nt = *old
			} else {
				cp := nt
				nums[nt.S] = &cp
			}
			l.Body = append(l.Body, "q="+g.pick(evTexts), "p="+nt.S)
		}
		l.Text = strings.Join(l.tokens(), " ")
		items = append(items, ItemGen{Kind: "line", Line: l})
	}
	return items
}

// ForceTwoStamps makes the first two signals of the first role read their
// time stamps off two different tokens of the line (the second signal skips
// one token): one line then yields two samples whose stamps differ by less
// than a millisecond, by more, or not at all.
func ForceTwoStamps(c *CfgGen) bool {
	r := &c.Roles[0]
	if r.Extends != "" || r.NInherited != 0 || len(r.Sigs) < 2 {
		return false
	}
	fix := func(sigs []SigDef) {
		for j := 0; j < 2 && j < len(sigs); j++ {
			sigs[j].Group = "deltasecs"
			sigs[j].CustomTs = false
		}
		sigs[1].Skip = 1
	}
	fix(r.Sigs)
	for i := range c.Roles {
		if c.Roles[i].Extends == r.Name && c.Roles[i].NInherited >= 2 {
			fix(c.Roles[i].Sigs)
		}
	}
	return true
}
