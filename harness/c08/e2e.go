package main

// End-to-end plays for C08 (thorough tier): the generated lines are printed by
// real spotlight processes (stdout and stderr alternating, at an uneven pace,
// with blanks around some lines), the real binary runs the play, and the CSV
// files it leaves behind are judged by the same oracle as the in-process
// cases (Corr/C08.v case_oracle_code).  No hook, no model here.

import (
	"crypto/sha256"
	"fmt"
	"io/ioutil"
	"math/big"
	"math/rand"
	"os"
	"path/filepath"
	"sort"
	"strings"

	"github.com/knz/shakespeare/pkg/cmd"
	"github.com/knz/shakespeare/verifharness/vh"
)

// E2EPoint is one expected data point of an end-to-end play.
type E2EPoint struct {
	Item int
	Now  bool
	Date bool   // time stamp from a date group: relative to the (unknown) real play start
	Log  bool   // ... from a ts_log group (no zone designator: read as UTC)
	Ns   int64  // relative to EpochSec
	Num  string // rational "n/d" for numbers
	Text string
}

// E2EFile is the expectation for one watched (actor, signal).
type E2EFile struct {
	Actor, Sig string
	Kind       int
	Watchers   []string
	Points     []E2EPoint
}

// E2EPlay is what writeE2E records about one play.
type E2EPlay struct {
	Name   string
	Cfg    string
	Actors []string
	// FinalItem: per actor, the item printed by the SIGHUP handler.
	FinalItem map[string]int
	// Immediate: actors whose handler exits right after its last line.
	Immediate map[string]bool
	Lines     map[string][]string
	Expect    []E2EFile
}

// writeE2E generates the plays.  immediate: every SIGHUP handler exits right
// after printing its last line (else all handlers linger 0.3 s, so that the
// line has certainly been read before the process is gone).  small: few lines.
// burst > 0: the first actor's SIGHUP handler prints that many short matching
// lines (`p=<k>`) in one go before its last line: they are still in the pipe
// when the process is gone, and every one of them must yield its row.
func writeE2E(rng *rand.Rand, dir string, n int, immediate, small bool, burst int) {
	g := &Gen{R: rng, Modalities: cmd.VerifModalities(), NonFinite: true}
	var plays []E2EPlay
	for i := 0; i < n; i++ {
		// several actors with a spotlight each - of one role, of different
		// roles, siblings of one `p* play N role` line: every actor prints
		// its OWN lines
		switch i % 4 {
		case 0:
			g.MinActors, g.ForceRoles, g.ForceMulti = 2, 1, 1
		case 1:
			g.MinActors, g.ForceRoles, g.ForceMulti = 3, 2, 2
		case 2:
			g.MinActors, g.ForceRoles, g.ForceMulti = 2, 1, 2
		default:
			g.MinActors, g.ForceRoles, g.ForceMulti = 4, 2, 1
		}
		c := g.Config()
		c.Auditor = nil // a disappointed auditor fouls the play: keep the exit status meaningful
		c.Sentinel = true
		c.WithMe = true
		if burst > 0 {
			// keep the burst's rows to one signal: no everything-is-the-text patterns
			for ri := range c.Roles {
				for si := range c.Roles[ri].Sigs {
					if c.Roles[ri].Sigs[si].ValRe == "whole" {
						c.Roles[ri].Sigs[si].ValRe = `\S+`
					}
				}
			}
		}
		// every role also has a scalar and an event signal on the reception
		// time, watched by o1 / o2, for the lines that begin with punctuation
		// or with what looks like a shell trace (`+ p=5`, `++ q=up`, `# ...`)
		for ri := range c.Roles {
			r := &c.Roles[ri]
			r.Sigs = append(r.Sigs,
				SigDef{Name: "sp", Kind: 1, Group: "now", Key: "p", ValRe: `\S+`},
				SigDef{Name: "sq", Kind: 0, Group: "now", Key: "q", ValRe: `\S+`})
			c.Watches = append(c.Watches,
				Watch{Observer: "o1", Target: "every " + r.Name, Sig: "sp"},
				Watch{Observer: "o2", Target: "every " + r.Name, Sig: "sq"})
		}
		for ri := range c.Roles {
			for si := range c.Roles[ri].Sigs {
				c.Roles[ri].Sigs[si].NoNoise = true
			}
		}
		nums := map[string]*NumTok{}
		var items []ItemGen
		nl := 40 + rng.Intn(60)
		if small {
			nl = 8 + rng.Intn(10)
		}
		for _, it := range g.Lines(c, nl, nums) {
			if it.Kind == "line" {
				items = append(items, it)
			}
		}
		var cast []string
		for _, r := range c.Roles {
			cast = append(cast, r.Actors...)
		}
		{
			var all []string
			for _, r := range c.Roles {
				all = append(all, r.Actors...)
			}
			items = append(items, g.PrefixLines(all, nums, 10+rng.Intn(8))...)
		}
		// very long lines (bufio.Reader.ReadString has no line limit): copies
		// of generated lines with 4 KiB / 8 KiB / 64 KiB+ of padding in front,
		// so that the fields - the values - are at the END of the line, and
		// with an event text of 5000 characters where the role has one
		var cands []int
		for k, it := range items {
			if it.Line.Text != "" && len(it.Line.Body) > 0 {
				cands = append(cands, k)
			}
		}
		for k, n := range []int{4100, 8200, 70000} {
			if len(cands) == 0 {
				break
			}
			src := items[cands[rng.Intn(len(cands))]].Line
			nl := *src
			nl.Body = append([]string{"pad" + strings.Repeat("x", n)}, src.Body...)
			if k != 1 {
				for _, sg := range c.roleOf(src.Actor).Sigs {
					if sg.Kind != 0 || (sg.ValRe != `\S+` && sg.ValRe != `\w+`) {
						continue
					}
					long := sg.Key + "=" + strings.Repeat("w", 4990) + "theEnd9"
					found := false
					for bi := 1; bi < len(nl.Body); bi++ {
						if strings.HasPrefix(nl.Body[bi], sg.Key+"=") || strings.HasPrefix(nl.Body[bi], sg.Key+":") {
							nl.Body[bi], found = long, true
						}
					}
					if !found {
						// in front of the other fields (a rest-of-line text stays last)
						nl.Body = append([]string{nl.Body[0], long}, nl.Body[1:]...)
					}
				}
			}
			nl.Text = strings.Join(nl.tokens(), " ")
			items = append(items, ItemGen{Kind: "line", Line: &nl})
		}
		// the sentinel line of every actor (a line like any other: the
		// whole-line patterns of its role match it)
		for _, a := range cast {
			items = append(items, ItemGen{Kind: "line", Line: &LineGen{Actor: a, TsKind: "none", Body: []string{"THE-END"}, Text: "THE-END"}})
		}
		nFinal := map[string]int{}
		for k := 0; k < burst; k++ {
			v := fmt.Sprintf("%d", k%97)
			if _, ok := nums[v]; !ok {
				nums[v] = &NumTok{S: v, Valid: true, Val: big.NewRat(int64(k%97), 1)}
			}
			items = append(items, ItemGen{Kind: "line", Line: &LineGen{Actor: cast[0], TsKind: "none", Body: []string{"p=" + v}, Text: "p=" + v}})
			nFinal[cast[0]]++
		}
		// the last word of every actor: printed by its spotlight when it is
		// told to stop (SIGHUP at the end of the play), i.e. while the
		// spotlight is being shut down.  Prefer a line that yields a point.
		extra := g.Lines(c, 60, nums)
		fs0 := intents(c, extra, nums)
		final := map[string]*LineGen{}
		finalItem := map[string]int{}
		for _, a := range cast {
			var fallback *LineGen
			for k, it := range extra {
				if it.Kind != "line" || it.Line.Actor != a || it.Line.Text == "" {
					continue
				}
				fallback = it.Line
				good := false
				for _, f := range fs0 {
					for _, pt := range f.Points {
						if f.Actor == a && pt.Item == k {
							good = true
						}
					}
				}
				if good {
					final[a] = it.Line
				}
			}
			if final[a] == nil {
				final[a] = fallback
			}
			if final[a] == nil {
				final[a] = &LineGen{Actor: a, TsKind: "none", Body: []string{"bye"}, Text: "bye"}
			}
			finalItem[a] = len(items)
			items = append(items, ItemGen{Kind: "line", Line: final[a]})
		}
		name := fmt.Sprintf("play%02d", i)
		pdir := filepath.Join(dir, name)
		if err := os.MkdirAll(pdir, 0755); err != nil {
			panic(err)
		}
		abs, err := filepath.Abs(pdir)
		if err != nil {
			panic(err)
		}
		// per-actor line files and printing scripts
		lines := map[string][]string{}
		for _, it := range items {
			lines[it.Line.Actor] = append(lines[it.Line.Actor], it.Line.Text)
		}
		spot := map[string]string{}
		for _, r := range c.Roles {
			if r.Multi != "" {
				spot[r.Name] = "exec sh " + abs + "/" + r.Multi + "$((i+1)).sh"
			} else {
				spot[r.Name] = "exec sh " + abs + "/$me.sh"
			}
		}
		immediateOf := map[string]bool{}
		for ai, a := range cast {
			var data strings.Builder
			ls := lines[a]
			linger := "sleep 0.3; "
			if immediate {
				linger = ""
				immediateOf[a] = true
			}
			nf := nFinal[a] + 1
			for k, l := range ls[:len(ls)-nf] {
				// blanks around some lines: the spotlight trims them; a
				// blank line is empty, or made of blanks only
				switch (k + len(a)) % 5 {
				case 1:
					data.WriteString("  " + l + " \n")
				case 2:
					data.WriteString("\t" + l + "\n")
				case 3:
					data.WriteString(l + "\t\n")
				default:
					data.WriteString(l + "\n")
				}
			}
			vh.WriteFile(pdir, a+".txt", data.String())
			// every second spotlight's output ends without a newline
			nl := "\n"
			if ai%2 == 0 {
				nl = ""
			}
			vh.WriteFile(pdir, a+".final", strings.Join(ls[len(ls)-nf:], "\n")+nl)
			script := "trap 'echo hup >> " + abs + "/" + a + ".hup; cat " + abs + "/" + a + ".final; echo ok >> " + abs + "/" + a + ".hupdone; " + linger + "exit 0' HUP\n" +
				"echo start >> " + abs + "/" + a + ".started\n" +
				"n=0\nwhile IFS= read -r l; do\n  n=$((n+1))\n" +
				"  if [ $((n%2)) = 0 ]; then printf '%s\\n' \"$l\"; else printf '%s\\n' \"$l\" >&2; fi\n" +
				"  if [ $((n%5)) = 0 ]; then sleep 0.02; fi\n" +
				"done < " + abs + "/" + a + ".txt\n" +
				"touch " + abs + "/" + a + ".done\n" +
				"while true; do sleep 0.05; done\n"
			vh.WriteFile(pdir, a+".sh", script)
		}
		// the scene `w` waits (at most 10 s) until every spotlight script has
		// printed all its lines; three more beats let the readers catch up
		firstActor := cast[0]
		wait := "i=0; while [ $i -lt 100 ]; do ok=1; for f in " + strings.Join(cast, " ") + "; do [ -e " + abs + "/$f.done ] || ok=0; done; [ $ok = 1 ] && break; i=$((i+1)); sleep 0.1; done"
		text := c.Text(spot, "script\n  tempo 100ms\n  scene a entails for "+firstActor+": noop\n  scene w entails for "+firstActor+": wait\n  storyline a..w...a\nend\n")
		text = strings.Replace(text, "  :noop true\n", "  :noop true\n  :wait "+wait+"\n", -1)
		vh.WriteFile(pdir, "play.cfg", text)
		var exp []E2EFile
		for _, f := range intents(c, items, nums) {
			ef := E2EFile{Actor: f.Actor, Sig: f.Sig, Kind: f.Kind, Watchers: f.Watchers}
			r := c.roleOf(f.Actor)
			var sd *SigDef
			for si := range r.Sigs {
				if r.Sigs[si].Name == f.Sig {
					sd = &r.Sigs[si]
				}
			}
			for _, p := range f.Points {
				ep := E2EPoint{Item: p.Item, Now: p.Now, Ns: p.Ns, Text: p.Text,
					Date: !p.Now && (sd.Group == "rfc3339" || sd.Group == "log"), Log: !p.Now && sd.Group == "log"}
				if p.Num != nil {
					ep.Num = p.Num.String()
				}
				ef.Points = append(ef.Points, ep)
			}
			exp = append(exp, ef)
		}
		plays = append(plays, E2EPlay{Name: name, Cfg: text, Actors: cast, FinalItem: finalItem, Immediate: immediateOf, Lines: lines, Expect: exp})
	}
	vh.WriteJSON(dir, "plays.json", plays)
}

// findCSV locates the csv directory of a play's output.
func findCSV(root string) string {
	var found string
	filepath.Walk(root, func(p string, info os.FileInfo, err error) error {
		if err == nil && info.IsDir() && info.Name() == "csv" && found == "" {
			found = p
		}
		return nil
	})
	return found
}

func checkE2E(dir, out string) {
	var plays []E2EPlay
	readJSON(filepath.Join(dir, "plays.json"), &plays)
	var itemsV []string
	cases := []map[string]interface{}{}
	stats := map[string]int{}
	for _, p := range plays {
		pdir := filepath.Join(dir, p.Name)
		var run struct {
			WallS float64
			Exit  int
			Tail  string
		}
		readJSON(filepath.Join(pdir, "run.json"), &run)
		csvDir := findCSV(filepath.Join(pdir, "out"))
		csv := map[string]string{}
		if csvDir != "" {
			fs, _ := ioutil.ReadDir(csvDir)
			for _, f := range fs {
				b, _ := ioutil.ReadFile(filepath.Join(csvDir, f.Name()))
				csv[f.Name()] = string(b)
			}
		}
		kinds := map[[2]string]int{}
		for _, f := range p.Expect {
			kinds[[2]string{f.Actor, f.Sig}] = f.Kind
		}
		keys0, rows := signalFiles(csv, kinds)
		// the sentinel: every actor's lines must have been read to the end
		// before the play ended, else the play says nothing
		var keys []FileKey
		seenEnd := map[string]bool{}
		for _, k := range keys0 {
			if k.Sig == "zend" {
				if len(rows[k]) > 0 {
					seenEnd[k.Actor] = true
				}
				continue
			}
			keys = append(keys, k)
		}
		complete := true
		for _, a := range p.Actors {
			if !seenEnd[a] {
				complete = false
			}
		}
		// how often each actor's spotlight script was started (once, says
		// the property's "an actor's spotlight")
		starts := map[string]int{}
		startsOK := true
		for _, a := range p.Actors {
			b, _ := ioutil.ReadFile(filepath.Join(pdir, a+".started"))
			starts[a] = strings.Count(string(b), "\n")
			if starts[a] != 1 {
				startsOK = false
			}
		}
		if !startsOK {
			stats["plays-with-a-spotlight-not-started-exactly-once"]++
		}
		// the last word: expected iff the SIGHUP handler is known to have
		// written it into the pipe (it then ran to its end before the 2 s
		// grace period was over)
		ambiguous := false
		for _, a := range p.Actors {
			_, e1 := os.Stat(filepath.Join(pdir, a+".hup"))
			_, e2 := os.Stat(filepath.Join(pdir, a+".hupdone"))
			if e2 == nil {
				stats["last-words-printed"]++
				continue
			}
			if e1 == nil {
				ambiguous = true
				continue
			}
			stats["last-words-not-printed"]++
			for fi := range p.Expect {
				if p.Expect[fi].Actor != a {
					continue
				}
				var keep []E2EPoint
				for _, pt := range p.Expect[fi].Points {
					if pt.Item != p.FinalItem[a] {
						keep = append(keep, pt)
					}
				}
				p.Expect[fi].Points = keep
			}
		}
		if ambiguous && startsOK && run.Exit == 0 {
			stats["inconclusive-handler-cut-short"]++
			continue
		}
		// a last line printed immediately before the spotlight process is
		// gone, and nothing else, missing: its own signature
		var lostLast []string
		for _, a := range p.Actors {
			if !p.Immediate[a] {
				continue
			}
			lost, other := false, false
			for fi := range p.Expect {
				f := &p.Expect[fi]
				if f.Actor != a || len(f.Points) == 0 || f.Points[len(f.Points)-1].Item != p.FinalItem[a] {
					continue
				}
				for _, w := range f.Watchers {
					n := len(rows[FileKey{w, f.Actor, f.Sig}])
					if n == len(f.Points)-1 {
						lost = true
					} else {
						other = true
					}
				}
			}
			if lost && !other {
				lostLast = append(lostLast, a)
				for fi := range p.Expect {
					f := &p.Expect[fi]
					if f.Actor == a && len(f.Points) > 0 && f.Points[len(f.Points)-1].Item == p.FinalItem[a] {
						f.Points = f.Points[:len(f.Points)-1]
					}
				}
			}
		}
		if len(lostLast) > 0 {
			stats["plays-with-a-lost-last-line"]++
		}
		allDone := true
		for _, a := range p.Actors {
			if _, e := os.Stat(filepath.Join(pdir, a+".done")); e != nil {
				allDone = false
			}
		}
		if !complete && !allDone && startsOK && run.Exit == 0 {
			// every script started once but one did not get to its end
			// before the play ended (the wait scene gave up after 10 s):
			// machine load; says nothing.  (When every script is done, a
			// missing sentinel row is not a matter of load: the play is
			// judged like any other.)
			stats["inconclusive-play-cut-short"]++
			continue
		}
		// the real play start relative to EpochSec, estimated from the rows of
		// date-stamped signals (median of expected - observed)
		// ... preferably of the ts_rfc3339 signals, whose stamps name their
		// zone: the ts_log stamps (no zone: UTC) are then judged against it
		var offs, offsLog []int64
		for _, f := range p.Expect {
			for _, w := range f.Watchers {
				rs := rows[FileKey{w, f.Actor, f.Sig}]
				if len(rs) != len(f.Points) {
					continue
				}
				for i, pt := range f.Points {
					if pt.Date && !rs[i].Bad {
						if pt.Log {
							offsLog = append(offsLog, pt.Ns-rs[i].T10k*100000)
						} else {
							offs = append(offs, pt.Ns-rs[i].T10k*100000)
						}
					}
				}
			}
		}
		if len(offs) == 0 {
			offs = offsLog
		}
		var off int64
		if len(offs) > 0 {
			sort.Slice(offs, func(i, j int) bool { return offs[i] < offs[j] })
			off = offs[len(offs)/2]
		}
		// a scalar file of more than 500 expected rows (the burst) goes to
		// Coq as ONE row on each side: the number of rows and the SHA-256 of
		// the values, expected vs observed, computed here (keeps the case
		// terms small; the times of those rows are not judged)
		for fi := range p.Expect {
			f := &p.Expect[fi]
			if f.Kind != 1 || len(f.Points) <= 500 {
				continue
			}
			var eb strings.Builder
			ok := true
			for _, pt := range f.Points {
				if pt.Num == "" { // a scalar spelled Inf / NaN
					fmt.Fprintf(&eb, "%s\n", pt.Text)
					continue
				}
				r, good := new(big.Rat).SetString(pt.Num)
				if !good {
					ok = false
					break
				}
				x, _ := r.Float64()
				fmt.Fprintf(&eb, "%v\n", x)
			}
			if !ok {
				continue
			}
			first := f.Points[0]
			first.Now, first.Num = true, ""
			first.Text = fmt.Sprintf("ROWS[%d rows, sha256 %x]", len(f.Points), sha256.Sum256([]byte(eb.String())))
			f.Points = []E2EPoint{first}
			for _, w := range f.Watchers {
				k := FileKey{w, f.Actor, f.Sig}
				rs := rows[k]
				var ob strings.Builder
				var t0 int64
				for ri, r := range rs {
					if ri == 0 {
						t0 = r.T10k
					}
					if r.IsNum && !r.Bad {
						fmt.Fprintf(&ob, "%v\n", r.Num)
					} else {
						fmt.Fprintf(&ob, "%s\n", r.Text)
					}
				}
				rows[k] = []CsvRow{{T10k: t0, Text: fmt.Sprintf("ROWS[%d rows, sha256 %x]", len(rs), sha256.Sum256([]byte(ob.String())))}}
			}
		}
		durNs := int64(run.WallS * 1e9)
		maxItem := 0
		var intV []string
		nPoints := 0
		for _, f := range p.Expect {
			var ws, ps []string
			for _, w := range f.Watchers {
				ws = append(ws, coqS(w))
			}
			for _, pt := range f.Points {
				t := "TNs " + coqZ(pt.Ns)
				if pt.Now {
					t = "TNow"
				} else if pt.Date {
					t = "TNsLoose " + coqZ(pt.Ns-off)
				}
				d := "DText " + coqS(shortText(escapeByHand(pt.Text)))
				if f.Kind != 0 && pt.Num != "" {
					r, _ := new(big.Rat).SetString(pt.Num)
					d = "DNum " + coqRat(r)
				} else if f.Kind != 0 {
					d = "DText " + coqS(pt.Text) // a scalar spelled Inf / NaN
				}
				// every item of a real play has the same bracket (the whole play)
				ps = append(ps, fmt.Sprintf("(0%%nat, %s, %s)", t, d))
			}
			nPoints += len(f.Points) * len(f.Watchers)
			intV = append(intV, fmt.Sprintf("{| i_var := (%s, %s); i_kind := %s; i_watchers := [%s]; i_points := [%s] |}",
				coqS(f.Actor), coqS(f.Sig), kindCoq[f.Kind], strings.Join(ws, "; "), strings.Join(ps, "; ")))
		}
		var brV []string
		for i := 0; i <= maxItem; i++ {
			brV = append(brV, "(0%Z, "+coqZ(durNs)+")")
		}
		var fileV []string
		nRows := 0
		for _, k := range keys {
			var rs []string
			for _, r := range rows[k] {
				rs = append(rs, "("+coqZ(r.T10k)+", "+coqCell(r)+")")
				nRows++
			}
			fileV = append(fileV, fmt.Sprintf("(%s, (%s, %s), [%s])", coqS(k.Observer), coqS(k.Actor), coqS(k.Sig), strings.Join(rs, "; ")))
		}
		status := 0
		if run.Exit != 0 {
			status = 1
		}
		itemsV = append(itemsV, fmt.Sprintf("{| k_cfg := {| c_members := []; c_watchers := []; c_init := [] |};\n     k_cast := [];\n     k_items := [];\n     k_events := [];\n     k_brackets := [%s];\n     k_files := [%s];\n     k_status := %d;\n     k_nums := [];\n     k_epoch := 0%%Z;\n     k_tslog := [];\n     k_intent := [%s] |}",
			strings.Join(brV, "; "), strings.Join(fileV, ";\n       "), status, strings.Join(intV, ";\n       ")))
		cases = append(cases, map[string]interface{}{"name": p.Name, "config": p.Cfg, "lines": p.Lines, "csv": csv,
			"exit": run.Exit, "wall_s": run.WallS, "output_tail": run.Tail, "expected": p.Expect, "play_start_offset_ns": off, "spotlight_starts": starts, "lost_last_lines": lostLast, "immediate_exit_actors": p.Immediate})
		stats["plays"]++
		stats["csv-rows"] += nRows
		stats["expected-rows"] += nPoints
		stats["files"] += len(keys)
		if run.Exit != 0 {
			stats["nonzero-exit"]++
		}
	}
	vh.WriteFile(out, "cases.v", "Definition cases : list c08_case := "+vh.ListNL(itemsV)+".\n")
	vh.WriteJSON(out, "cases.json", cases)
	vh.WriteJSON(out, "summary.json", map[string]interface{}{"cases": len(cases), "stats": stats})
}
