package main

// End-to-end plays for C08 (thorough tier): the generated lines are printed by
// real spotlight processes (stdout and stderr alternating, at an uneven pace,
// with blanks around some lines), the real binary runs the play, and the CSV
// files it leaves behind are judged by the same oracle as the in-process
// cases (Corr/C08.v case_oracle_code).  No hook, no model here.

import (
	"fmt"
	"io/ioutil"
	"math/big"
	"math/rand"
	"os"
	"path/filepath"
	"sort"
	"strings"

	"github.com/knz/shakespeare/pkg/cmd"
	"github.com/knz/shakespeare/verifharness/vh"
)

// E2EPoint is one expected data point of an end-to-end play.
type E2EPoint struct {
	Item int
	Now  bool
	Date bool   // time stamp from a date group: relative to the (unknown) real play start
	Ns   int64  // relative to EpochSec
	Num  string // rational "n/d" for numbers
	Text string
}

// E2EFile is the expectation for one watched (actor, signal).
type E2EFile struct {
	Actor, Sig string
	Kind       int
	Watchers   []string
	Points     []E2EPoint
}

// E2EPlay is what writeE2E records about one play.
type E2EPlay struct {
	Name   string
	Cfg    string
	Actors []string
	Lines  map[string][]string
	Expect []E2EFile
}

func writeE2E(rng *rand.Rand, dir string, n int) {
	g := &Gen{R: rng, Modalities: cmd.VerifModalities()}
	var plays []E2EPlay
	for i := 0; i < n; i++ {
		// several actors with a spotlight each, alternately of one role and
		// of different roles: every actor prints its OWN lines
		g.MinActors = 2 + i%2
		g.ForceRoles = 1 + i%2
		if i%4 == 3 {
			g.MinActors, g.ForceRoles = 4, 2
		}
		c := g.Config()
		c.Auditor = nil // a disappointed auditor fouls the play: keep the exit status meaningful
		c.Sentinel = true
		nums := map[string]*NumTok{}
		var items []ItemGen
		for _, it := range g.Lines(c, 40+rng.Intn(60), nums) {
			if it.Kind == "line" {
				items = append(items, it)
			}
		}
		name := fmt.Sprintf("play%02d", i)
		pdir := filepath.Join(dir, name)
		if err := os.MkdirAll(pdir, 0755); err != nil {
			panic(err)
		}
		abs, err := filepath.Abs(pdir)
		if err != nil {
			panic(err)
		}
		// per-actor line files and printing scripts
		lines := map[string][]string{}
		for _, it := range items {
			lines[it.Line.Actor] = append(lines[it.Line.Actor], it.Line.Text)
		}
		spot := map[string]string{}
		var castLines []string
		var firstActor string
		for _, r := range c.Roles {
			spot[r.Name] = "sh " + abs + "/$me.sh; sleep 60"
			for _, a := range r.Actors {
				if firstActor == "" {
					firstActor = a
				}
				castLines = append(castLines, a)
				var data strings.Builder
				for k, l := range lines[a] {
					// blanks around some lines: the spotlight trims them
					switch (k + len(a)) % 5 {
					case 1:
						data.WriteString("  " + l + " \n")
					case 3:
						data.WriteString(l + "\t\n")
					default:
						data.WriteString(l + "\n")
					}
					if k%7 == 3 {
						data.WriteString("\n") // an empty line must not end the reading
					}
				}
				data.WriteString("THE-END\n")
				vh.WriteFile(pdir, a+".txt", data.String())
				script := "echo start >> " + abs + "/" + a + ".started\n" +
					"n=0\nwhile IFS= read -r l; do\n  n=$((n+1))\n" +
					"  if [ $((n%2)) = 0 ]; then printf '%s\\n' \"$l\"; else printf '%s\\n' \"$l\" >&2; fi\n" +
					"  if [ $((n%5)) = 0 ]; then sleep 0.02; fi\n" +
					"done < " + abs + "/" + a + ".txt\n" +
					"touch " + abs + "/" + a + ".done\n"
				vh.WriteFile(pdir, a+".sh", script)
			}
		}
		// config: every actor gets `with me=<actor>`
		// the scene `w` waits (at most 10 s) until every spotlight script has
		// printed all its lines; three more beats let the readers catch up
		wait := "i=0; while [ $i -lt 100 ]; do ok=1; for f in " + strings.Join(castLines, " ") + "; do [ -e " + abs + "/$f.done ] || ok=0; done; [ $ok = 1 ] && break; i=$((i+1)); sleep 0.1; done"
		text := c.Text(spot, "script\n  tempo 100ms\n  scene a entails for "+firstActor+": noop\n  scene w entails for "+firstActor+": wait\n  storyline a..w...a\nend\n")
		text = strings.Replace(text, "  :noop true\n", "  :noop true\n  :wait "+wait+"\n", -1)
		for _, a := range castLines {
			r := c.roleOf(a)
			text = strings.Replace(text, "  "+a+" plays "+r.Name+"\n", "  "+a+" plays "+r.Name+" with me="+a+"\n", 1)
		}
		vh.WriteFile(pdir, "play.cfg", text)
		var exp []E2EFile
		for _, f := range intents(c, items, nums) {
			ef := E2EFile{Actor: f.Actor, Sig: f.Sig, Kind: f.Kind, Watchers: f.Watchers}
			r := c.roleOf(f.Actor)
			var sd *SigDef
			for si := range r.Sigs {
				if r.Sigs[si].Name == f.Sig {
					sd = &r.Sigs[si]
				}
			}
			for _, p := range f.Points {
				ep := E2EPoint{Item: p.Item, Now: p.Now, Ns: p.Ns, Text: p.Text,
					Date: !p.Now && (sd.Group == "rfc3339" || sd.Group == "log")}
				if p.Num != nil {
					ep.Num = p.Num.String()
				}
				ef.Points = append(ef.Points, ep)
			}
			exp = append(exp, ef)
		}
		plays = append(plays, E2EPlay{Name: name, Cfg: text, Actors: castLines, Lines: lines, Expect: exp})
	}
	vh.WriteJSON(dir, "plays.json", plays)
}

// findCSV locates the csv directory of a play's output.
func findCSV(root string) string {
	var found string
	filepath.Walk(root, func(p string, info os.FileInfo, err error) error {
		if err == nil && info.IsDir() && info.Name() == "csv" && found == "" {
			found = p
		}
		return nil
	})
	return found
}

func checkE2E(dir, out string) {
	var plays []E2EPlay
	readJSON(filepath.Join(dir, "plays.json"), &plays)
	var itemsV []string
	var cases []map[string]interface{}
	stats := map[string]int{}
	for _, p := range plays {
		pdir := filepath.Join(dir, p.Name)
		var run struct {
			WallS float64
			Exit  int
			Tail  string
		}
		readJSON(filepath.Join(pdir, "run.json"), &run)
		csvDir := findCSV(filepath.Join(pdir, "out"))
		csv := map[string]string{}
		if csvDir != "" {
			fs, _ := ioutil.ReadDir(csvDir)
			for _, f := range fs {
				b, _ := ioutil.ReadFile(filepath.Join(csvDir, f.Name()))
				csv[f.Name()] = string(b)
			}
		}
		kinds := map[[2]string]int{}
		for _, f := range p.Expect {
			kinds[[2]string{f.Actor, f.Sig}] = f.Kind
		}
		keys0, rows := signalFiles(csv, kinds)
		// the sentinel: every actor's lines must have been read to the end
		// before the play ended, else the play says nothing
		var keys []FileKey
		seenEnd := map[string]bool{}
		for _, k := range keys0 {
			if k.Sig == "zend" {
				if len(rows[k]) > 0 {
					seenEnd[k.Actor] = true
				}
				continue
			}
			keys = append(keys, k)
		}
		complete := true
		for _, a := range p.Actors {
			if !seenEnd[a] {
				complete = false
			}
		}
		// how often each actor's spotlight script was started (once, says
		// the property's "an actor's spotlight")
		starts := map[string]int{}
		startsOK := true
		for _, a := range p.Actors {
			b, _ := ioutil.ReadFile(filepath.Join(pdir, a+".started"))
			starts[a] = strings.Count(string(b), "\n")
			if starts[a] != 1 {
				startsOK = false
			}
		}
		if !startsOK {
			stats["plays-with-a-spotlight-not-started-exactly-once"]++
		}
		if !complete && startsOK && run.Exit == 0 {
			// every script started once but one did not get to its end (or
			// its last line was not read) before the play ended: machine
			// load; says nothing
			stats["inconclusive-play-cut-short"]++
			continue
		}
		// the real play start relative to EpochSec, estimated from the rows of
		// date-stamped signals (median of expected - observed)
		var offs []int64
		for _, f := range p.Expect {
			for _, w := range f.Watchers {
				rs := rows[FileKey{w, f.Actor, f.Sig}]
				if len(rs) != len(f.Points) {
					continue
				}
				for i, pt := range f.Points {
					if pt.Date && !rs[i].Bad {
						offs = append(offs, pt.Ns-rs[i].T10k*100000)
					}
				}
			}
		}
		var off int64
		if len(offs) > 0 {
			sort.Slice(offs, func(i, j int) bool { return offs[i] < offs[j] })
			off = offs[len(offs)/2]
		}
		durNs := int64(run.WallS * 1e9)
		maxItem := 0
		var intV []string
		nPoints := 0
		for _, f := range p.Expect {
			var ws, ps []string
			for _, w := range f.Watchers {
				ws = append(ws, coqS(w))
			}
			for _, pt := range f.Points {
				if pt.Item > maxItem {
					maxItem = pt.Item
				}
				t := "TNs " + coqZ(pt.Ns)
				if pt.Now {
					t = "TNow"
				} else if pt.Date {
					t = "TNsLoose " + coqZ(pt.Ns-off)
				}
				d := "DText " + coqS(escapeByHand(pt.Text))
				if f.Kind != 0 {
					r, _ := new(big.Rat).SetString(pt.Num)
					d = "DNum " + coqRat(r)
				}
				ps = append(ps, fmt.Sprintf("(%d%%nat, %s, %s)", pt.Item, t, d))
			}
			nPoints += len(f.Points) * len(f.Watchers)
			intV = append(intV, fmt.Sprintf("{| i_var := (%s, %s); i_kind := %s; i_watchers := [%s]; i_points := [%s] |}",
				coqS(f.Actor), coqS(f.Sig), kindCoq[f.Kind], strings.Join(ws, "; "), strings.Join(ps, "; ")))
		}
		var brV []string
		for i := 0; i <= maxItem; i++ {
			brV = append(brV, "(0%Z, "+coqZ(durNs)+")")
		}
		var fileV []string
		nRows := 0
		for _, k := range keys {
			var rs []string
			for _, r := range rows[k] {
				rs = append(rs, "("+coqZ(r.T10k)+", "+coqCell(r)+")")
				nRows++
			}
			fileV = append(fileV, fmt.Sprintf("(%s, (%s, %s), [%s])", coqS(k.Observer), coqS(k.Actor), coqS(k.Sig), strings.Join(rs, "; ")))
		}
		status := 0
		if run.Exit != 0 {
			status = 1
		}
		itemsV = append(itemsV, fmt.Sprintf("{| k_cfg := {| c_members := []; c_watchers := []; c_init := [] |};\n     k_cast := [];\n     k_items := [];\n     k_events := [];\n     k_brackets := [%s];\n     k_files := [%s];\n     k_status := %d;\n     k_nums := [];\n     k_epoch := 0%%Z;\n     k_tslog := [];\n     k_intent := [%s] |}",
			strings.Join(brV, "; "), strings.Join(fileV, ";\n       "), status, strings.Join(intV, ";\n       ")))
		cases = append(cases, map[string]interface{}{"name": p.Name, "config": p.Cfg, "lines": p.Lines, "csv": csv,
			"exit": run.Exit, "wall_s": run.WallS, "output_tail": run.Tail, "expected": p.Expect, "play_start_offset_ns": off, "spotlight_starts": starts})
		stats["plays"]++
		stats["csv-rows"] += nRows
		stats["expected-rows"] += nPoints
		stats["files"] += len(keys)
		if run.Exit != 0 {
			stats["nonzero-exit"]++
		}
	}
	vh.WriteFile(out, "cases.v", "Definition cases : list c08_case := "+vh.ListNL(itemsV)+".\n")
	vh.WriteJSON(out, "cases.json", cases)
	vh.WriteJSON(out, "summary.json", map[string]interface{}{"cases": len(cases), "stats": stats})
}
