// Harness for C08: generated roles / audiences / line sequences through the
// REAL spotlight detection, audition rounds and CSV collector
// (cmd.VerifSpotlightPlay), written out as Coq terms: the facts Go's regexp,
// strconv and time.Parse supply to the model, what the real code emitted
// (sigEvents, CSV rows), and the generator's own expectation for the oracle.
//
// With -e2e <dir> the harness instead writes configurations + line files for
// end-to-end plays through the real binary, and with -e2echeck evaluates the
// CSV files such a play left behind (see checks/c08.py).
package main

import (
	"crypto/sha256"
	"encoding/json"
	"flag"
	"fmt"
	"io/ioutil"
	"math"
	"math/big"
	"os"
	"sort"
	"strconv"
	"strings"

	"github.com/knz/shakespeare/pkg/cmd"
	"github.com/knz/shakespeare/verifharness/audgen"
	"github.com/knz/shakespeare/verifharness/vh"
)

// coqS prints a Go string as a Coq string literal.
func coqS(s string) string {
	for i := 0; i < len(s); i++ {
		if s[i] < 0x20 || s[i] == 0x7f {
			return "(string_of_list_byte " + vh.Str(s) + ")"
		}
	}
	return "\"" + strings.ReplaceAll(s, "\"", "\"\"") + "\""
}

func coqRat(r *big.Rat) string {
	n := r.Num().String()
	if r.Sign() < 0 {
		n = "(" + n + ")"
	}
	return "(" + n + " # " + r.Denom().String() + ")"
}

func coqZ(n int64) string { return fmt.Sprintf("(%d)%%Z", n) }

// nsOfFloat converts float seconds to the nearest integer number of ns,
// exactly (no float multiplication).
func nsOfFloat(f float64) int64 {
	r := new(big.Rat).SetFloat64(f)
	if r == nil {
		return math.MinInt64
	}
	r.Mul(r, big.NewRat(1000000000, 1))
	r.Add(r, big.NewRat(1, 2))
	q := new(big.Int).Div(r.Num(), r.Denom()) // floor
	return q.Int64()
}

// escapeByHand is the generator's own statement of how event text appears in
// a CSV file (the five characters html.EscapeString replaces).
func escapeByHand(s string) string {
	var b strings.Builder
	for i := 0; i < len(s); i++ {
		switch s[i] {
		case '<':
			b.WriteString("&lt;")
		case '>':
			b.WriteString("&gt;")
		case '&':
			b.WriteString("&amp;")
		case '\'':
			b.WriteString("&#39;")
		case '"':
			b.WriteString("&#34;")
		default:
			b.WriteByte(s[i])
		}
	}
	return b.String()
}

var groupCoq = map[string]string{"": "GNow", "ts_deltasecs": "GDeltaSecs", "ts_rfc3339": "GRfc3339", "ts_log": "GLog"}
var genGroupHook = map[string]string{"now": "", "deltasecs": "ts_deltasecs", "rfc3339": "ts_rfc3339", "log": "ts_log"}
var kindCoq = []string{"KEvent", "KScalar", "KDelta"}

// CsvRow is one parsed row of a CSV file.
type CsvRow struct {
	T10k  int64 // time in 1/10000 s as printed
	IsNum bool
	Num   float64
	Text  string // unquoted text for events; raw cell if it is neither
	Bad   bool
}

// parseCsv parses `<time %.4f> <value> <shuffle>` rows.
func parseCsv(content string, event bool) []CsvRow {
	var rows []CsvRow
	for _, ln := range strings.Split(content, "\n") {
		if ln == "" {
			continue
		}
		i := strings.IndexByte(ln, ' ')
		j := strings.LastIndexByte(ln, ' ')
		var r CsvRow
		if i < 0 || j <= i {
			r.Bad, r.Text = true, ln
			rows = append(rows, r)
			continue
		}
		ts := ln[:i]
		dot := strings.IndexByte(ts, '.')
		if dot < 0 || len(ts)-dot-1 != 4 {
			r.Bad = true
		} else {
			n, err := strconv.ParseInt(ts[:dot]+ts[dot+1:], 10, 64)
			if err != nil {
				r.Bad = true
			}
			r.T10k = n
		}
		cell := ln[i+1 : j]
		if event {
			u, err := strconv.Unquote(cell)
			if err != nil {
				r.Bad, r.Text = true, cell
			} else {
				r.Text = u
			}
		} else {
			f, err := strconv.ParseFloat(cell, 64)
			if err == nil && (math.IsInf(f, 0) || math.IsNaN(f)) {
				r.Text = cell // +Inf, -Inf, NaN: shown as they are
			} else if err != nil {
				r.Bad, r.Text = true, cell
			} else {
				r.IsNum, r.Num = true, f
			}
		}
		rows = append(rows, r)
	}
	return rows
}

// shortText keeps Coq terms small: a text of more than 512 bytes is replaced,
// on the expected and on the observed side alike, by its length and SHA-256
// (equal digests = equal byte for byte).
func shortText(s string) string {
	if len(s) <= 512 {
		return s
	}
	return fmt.Sprintf("LONG[%d bytes, sha256 %x]", len(s), sha256.Sum256([]byte(s)))
}

func coqCell(r CsvRow) string {
	if r.Bad {
		return "COther"
	}
	if r.IsNum {
		return "(CNum " + audgen.CoqQFloat(r.Num) + ")"
	}
	return "(CText " + coqS(shortText(r.Text)) + ")"
}

// FileKey identifies csv/<observer>.<actor>.<signal>.csv.
type FileKey struct{ Observer, Actor, Sig string }

// signalFiles picks the per-signal files out of the csv directory listing.
func signalFiles(csv map[string]string, kinds map[[2]string]int) (keys []FileKey, rows map[FileKey][]CsvRow) {
	rows = map[FileKey][]CsvRow{}
	var names []string
	for n := range csv {
		names = append(names, n)
	}
	sort.Strings(names)
	for _, n := range names {
		if !strings.HasSuffix(n, ".csv") || strings.HasPrefix(n, "audit-") {
			continue
		}
		parts := strings.Split(strings.TrimSuffix(n, ".csv"), ".")
		if len(parts) != 3 || parts[1] == "" {
			continue
		}
		k := FileKey{parts[0], parts[1], parts[2]}
		kind, known := kinds[[2]string{k.Actor, k.Sig}]
		keys = append(keys, k)
		rows[k] = parseCsv(csv[n], known && kind == 0)
	}
	return keys, rows
}

// IntentPoint is one expected data point.
type IntentPoint struct {
	Item int
	Now  bool
	Ns   int64
	Num  *big.Rat
	Text string
}

// IntentFile is the generator's expectation for one watched (actor, signal).
type IntentFile struct {
	Actor, Sig string
	Kind       int
	Watchers   []string
	Points     []IntentPoint
}

func (f *IntentFile) coq() string {
	var ws, ps []string
	for _, w := range f.Watchers {
		ws = append(ws, coqS(w))
	}
	for _, p := range f.Points {
		t := "TNs " + coqZ(p.Ns)
		if p.Now {
			t = "TNow"
		}
		d := ""
		if f.Kind == 0 {
			d = "DText " + coqS(shortText(escapeByHand(p.Text)))
		} else if p.Num == nil {
			d = "DText " + coqS(p.Text) // a scalar spelled Inf / NaN
		} else {
			d = "DNum " + coqRat(p.Num)
		}
		ps = append(ps, fmt.Sprintf("(%d%%nat, %s, %s)", p.Item, t, d))
	}
	return fmt.Sprintf("{| i_var := (%s, %s); i_kind := %s; i_watchers := [%s]; i_points := [%s] |}",
		coqS(f.Actor), coqS(f.Sig), kindCoq[f.Kind], strings.Join(ws, "; "), strings.Join(ps, "; "))
}

// intents computes the expectation of a whole case from the generator's data.
func intents(c *CfgGen, items []ItemGen, nums map[string]*NumTok) []IntentFile {
	var out []IntentFile
	for ri := range c.Roles {
		r := &c.Roles[ri]
		for _, a := range r.Actors {
			for si := range r.Sigs {
				s := &r.Sigs[si]
				ws := c.Watchers(a, s.Name)
				if len(ws) == 0 {
					continue
				}
				f := IntentFile{Actor: a, Sig: s.Name, Kind: s.Kind, Watchers: ws}
				for i, it := range items {
					if it.Kind != "line" || it.Line.Actor != a {
						continue
					}
					in := it.Line.IntentFor(s, nums)
					if in.Match && in.TsOK && in.ValOK {
						f.Points = append(f.Points, IntentPoint{Item: i, Now: in.Now, Ns: in.Ns, Num: in.Num, Text: in.Text})
					}
				}
				out = append(out, f)
			}
		}
	}
	return out
}

type caseJSON struct {
	Cfg      string
	Items    []cmd.VerifC08Item
	Result   cmd.VerifC08Result
	Expected []expJSON
}

type expJSON struct {
	File   string
	Kind   string
	Points []string
}

func expectedJSON(fs []IntentFile) []expJSON {
	var out []expJSON
	for _, f := range fs {
		for _, w := range f.Watchers {
			e := expJSON{File: fmt.Sprintf("%s.%s.%s.csv", w, f.Actor, f.Sig), Kind: kindNames[f.Kind]}
			for _, p := range f.Points {
				t := fmt.Sprintf("%.4f", float64(p.Ns)/1e9)
				if p.Now {
					t = "<reception time>"
				}
				v := p.Text
				if f.Kind != 0 && p.Num != nil {
					v = p.Num.FloatString(0)
					if !p.Num.IsInt() || len(v) < 25 {
						v = p.Num.RatString()
					}
				}
				e.Points = append(e.Points, fmt.Sprintf("item %d: t=%s raw=%s", p.Item, t, v))
			}
			out = append(out, e)
		}
	}
	return out
}

func main() {
	seed := flag.Int64("seed", 1, "")
	tier := flag.String("tier", "quick", "")
	out := flag.String("out", ".", "")
	e2e := flag.String("e2e", "", "write end-to-end play inputs into this directory")
	e2eN := flag.Int("e2e-n", 12, "")
	e2eCheck := flag.String("e2echeck", "", "evaluate the plays under this directory")
	e2eImm := flag.Bool("e2e-immediate", false, "every SIGHUP handler exits right after its last line")
	e2eSmall := flag.Bool("e2e-small", false, "plays with few lines")
	e2eBurst := flag.Int("e2e-burst", 0, "the first actor's SIGHUP handler prints this many matching lines at once")
	replay := flag.String("replay", "", "replay file written by the check (in-process cases)")
	flag.Parse()
	if *replay != "" {
		defer cmd.VerifLogScope()()
		os.Exit(doReplay(*replay))
	}
	rng := vh.Rng(*seed)
	if *e2e != "" {
		writeE2E(rng, *e2e, *e2eN, *e2eImm, *e2eSmall, *e2eBurst)
		return
	}
	if *e2eCheck != "" {
		checkE2E(*e2eCheck, *out)
		return
	}
	defer cmd.VerifLogScope()()

	n := 260
	if *tier == "thorough" {
		n = 4000
	}
	g := &Gen{R: rng, Modalities: cmd.VerifModalities()}
	var itemsV []string
	var cases []caseJSON
	stats := map[string]int{}
	distinct := map[string]bool{}
	nontriv := 0
	intentMismatch := []string{}
	declMismatch := []string{}
	for ci := 0; ci < n; ci++ {
		c := g.Config()
		if ci%7 == 3 && ForceTwoStamps(c) {
			stats["two-stamps-on-one-line-configs"]++
		}
		nums := map[string]*NumTok{}
		gitems := g.Lines(c, 4+rng.Intn(22), nums)
		text := c.Text(nil, "")
		var hitems []cmd.VerifC08Item
		for _, it := range gitems {
			switch it.Kind {
			case "line":
				hitems = append(hitems, cmd.VerifC08Item{Kind: "line", Actor: it.Line.Actor, Text: it.Line.Text})
			case "mood":
				hitems = append(hitems, cmd.VerifC08Item{Kind: "mood", Ts: it.MoodTs, Mood: it.Mood})
			default:
				hitems = append(hitems, cmd.VerifC08Item{Kind: "final"})
			}
		}
		res := cmd.VerifSpotlightPlay(text, int64(EpochSec)*1000000000, hitems)
		if res.ParseErr != "" {
			stats["parse-rejected"]++
			if stats["parse-rejected"] <= 3 {
				declMismatch = append(declMismatch, "config rejected: "+res.ParseErr+"\n"+text)
			}
			continue
		}
		// declarations as parsed vs as generated
		kinds := map[[2]string]int{}
		for ri := range c.Roles {
			r := &c.Roles[ri]
			for _, a := range r.Actors {
				ps := res.Parsers[a]
				if len(ps) != len(r.Sigs) {
					declMismatch = append(declMismatch, fmt.Sprintf("case %d actor %s: %d parsers for %d signal clauses", ci, a, len(ps), len(r.Sigs)))
					continue
				}
				for si := range r.Sigs {
					s := &r.Sigs[si]
					kinds[[2]string{a, s.Name}] = s.Kind
					p := ps[si]
					if p.Name != s.Name || p.Typ != s.Kind || p.Group != genGroupHook[s.Group] || p.HasSink != (len(c.Watchers(a, s.Name)) > 0) {
						declMismatch = append(declMismatch, fmt.Sprintf("case %d actor %s signal %s: parsed as %+v, written as %+v", ci, a, s.Name, p, *s))
					}
				}
			}
		}
		// cast
		var castV []string
		for _, r := range c.Roles {
			for _, a := range r.Actors {
				var ps []string
				for _, p := range res.Parsers[a] {
					ps = append(ps, fmt.Sprintf("{| p_name := %s; p_kind := %s; p_group := %s; p_sink := %s |}",
						coqS(p.Name), kindCoq[p.Typ%3], groupCoq[p.Group], vh.Bool(p.HasSink)))
				}
				castV = append(castV, "("+coqS(a)+", ["+strings.Join(ps, "; ")+"])")
			}
		}
		// items with facts; sigEvents; brackets; numeric captures
		var itV, evV, brV []string
		numCaps := map[string]bool{}
		logCaps := map[string]string{}
		nEvents, nLines, nMatches := 0, 0, 0
		for i, it := range gitems {
			o := res.Outs[i]
			switch it.Kind {
			case "mood":
				itV = append(itV, "IMood "+audgen.CoqQFloat(it.MoodTs)+" "+coqS(it.Mood))
				evV = append(evV, "[]")
				brV = append(brV, "(0%Z, 0%Z)")
				continue
			case "final":
				itV = append(itV, "IFinal 0")
				evV = append(evV, "[]")
				brV = append(brV, "(0%Z, 0%Z)")
				continue
			}
			nLines++
			l := it.Line
			role := c.roleOf(l.Actor)
			ps := res.Parsers[l.Actor]
			var facts []string
			for fi, f := range o.Facts {
				// generator's expectation vs Go's regexp / time.Parse
				if fi < len(role.Sigs) {
					in := l.IntentFor(&role.Sigs[fi], nums)
					bad := in.Match != f.Match
					if !bad && f.Match {
						bad = in.TsCap != f.TsCap || in.ValCap != f.ValCap
						if !bad && (ps[fi].Group == "ts_rfc3339" || ps[fi].Group == "ts_log") {
							bad = in.TsOK != f.DateOK || (f.DateOK && in.Ns != f.DateNs)
						}
					}
					if bad {
						intentMismatch = append(intentMismatch, fmt.Sprintf("case %d item %d signal %s pattern %s line %q: expected %+v, Go says %+v", ci, i, f.Signal, role.Sigs[fi].Pattern(), l.Text, in, f))
					}
				}
				if !f.Match {
					continue
				}
				nMatches++
				date := "None"
				if f.DateOK {
					date = "(Some " + coqZ(f.DateNs) + ")"
				}
				facts = append(facts, fmt.Sprintf("(%s, {| f_match := true; f_ts := %s; f_val := %s; f_date := %s |})",
					coqS(f.Signal), coqS(f.TsCap), coqS(f.ValCap), date))
				if fi < len(ps) {
					if ps[fi].Typ != 0 {
						numCaps[f.ValCap] = true
					}
					if ps[fi].Group == "ts_deltasecs" {
						numCaps[f.TsCap] = true
					}
					if ps[fi].Group == "ts_log" {
						if parts := strings.Split(f.TsCap, " "); len(parts) == 2 && logShape(parts[0], parts[1]) {
							logCaps[f.TsCap] = "None"
							if f.DateOK {
								logCaps[f.TsCap] = "Some " + coqZ(f.DateNs)
							}
						}
					}
				}
			}
			// reception instant: the sigEvent (if any) stamped inside the bracket
			now := o.BeforeNs
			for _, e := range o.Events {
				ns := nsOfFloat(e.Ts)
				if ns >= o.BeforeNs-2000 && ns <= o.AfterNs+2000 {
					now = ns
				}
			}
			itV = append(itV, fmt.Sprintf("ILine %s {| l_now := %s; l_facts := [%s] |}", coqS(l.Actor), coqZ(now), strings.Join(facts, "; ")))
			var es []string
			for _, e := range o.Events {
				nEvents++
				var vs []string
				for _, v := range e.Values {
					val := "VStr " + coqS(v.Str)
					if v.IsNum {
						if math.IsInf(v.Num, 0) || math.IsNaN(v.Num) {
							val = "VNil"
						} else {
							val = "VNum " + audgen.CoqQFloat(v.Num)
						}
					}
					vs = append(vs, fmt.Sprintf("((%s, %s), %s)", coqS(v.Actor), coqS(v.Sig), val))
				}
				es = append(es, "("+coqZ(nsOfFloat(e.Ts))+", ["+strings.Join(vs, "; ")+"])")
			}
			evV = append(evV, "["+strings.Join(es, "; ")+"]")
			brV = append(brV, "("+coqZ(o.BeforeNs)+", "+coqZ(o.AfterNs)+")")
		}
		var numV []string
		var capsSorted []string
		for s := range numCaps {
			capsSorted = append(capsSorted, s)
		}
		sort.Strings(capsSorted)
		for _, s := range capsSorted {
			f, err := strconv.ParseFloat(s, 64)
			switch {
			case err != nil:
				numV = append(numV, "("+coqS(s)+", None)")
			case math.IsInf(f, 0) || math.IsNaN(f):
				stats["non-finite-capture"]++
			default:
				numV = append(numV, "("+coqS(s)+", Some "+audgen.CoqQFloat(f)+")")
			}
		}
		var logV []string
		var logSorted []string
		for s := range logCaps {
			logSorted = append(logSorted, s)
		}
		sort.Strings(logSorted)
		for _, s := range logSorted {
			logV = append(logV, "("+coqS(s)+", "+logCaps[s]+")")
		}
		stats["ts-log-stamps"] += len(logV)
		stats["numerals"] += len(numV)
		// files
		keys, rows := signalFiles(res.CSV, kinds)
		var fileV []string
		nRows := 0
		for _, k := range keys {
			var rs []string
			for _, r := range rows[k] {
				rs = append(rs, "("+coqZ(r.T10k)+", "+coqCell(r)+")")
				nRows++
			}
			fileV = append(fileV, fmt.Sprintf("(%s, (%s, %s), [%s])", coqS(k.Observer), coqS(k.Actor), coqS(k.Sig), strings.Join(rs, "; ")))
		}
		// configuration of the audition
		ac := &audgen.Config{}
		if c.Auditor != nil {
			ac.Members = []*audgen.Member{c.Auditor}
		}
		cfgV := ac.CoqCfg(res.Members, res.Watchers, res.ArrayVars)
		status := 0
		if res.Panic != "" {
			status = 2
		} else if res.AuditErr != "" {
			status = 1
		}
		fs := intents(c, gitems, nums)
		var intV []string
		nPoints := 0
		for i := range fs {
			intV = append(intV, fs[i].coq())
			nPoints += len(fs[i].Points) * len(fs[i].Watchers)
		}
		itemsV = append(itemsV, fmt.Sprintf("{| k_cfg := %s;\n     k_cast := [%s];\n     k_items := [%s];\n     k_events := [%s];\n     k_brackets := [%s];\n     k_files := [%s];\n     k_status := %d;\n     k_nums := [%s];\n     k_epoch := %s;\n     k_tslog := [%s];\n     k_intent := [%s] |}",
			cfgV, strings.Join(castV, "; "), strings.Join(itV, ";\n       "), strings.Join(evV, "; "), strings.Join(brV, "; "),
			strings.Join(fileV, ";\n       "), status, strings.Join(numV, "; "), coqZ(int64(EpochSec)*1000000000), strings.Join(logV, "; "), strings.Join(intV, ";\n       ")))
		// JSON cannot carry non-finite floats (they only arise from defects)
		for oi := range res.Outs {
			for ei := range res.Outs[oi].Events {
				vs := res.Outs[oi].Events[ei].Values
				for vi := range vs {
					if math.IsInf(vs[vi].Num, 0) || math.IsNaN(vs[vi].Num) {
						vs[vi].Str = fmt.Sprintf("non-finite number %v", vs[vi].Num)
						vs[vi].Num = 0
					}
				}
				if math.IsInf(res.Outs[oi].Events[ei].Ts, 0) || math.IsNaN(res.Outs[oi].Events[ei].Ts) {
					res.Outs[oi].Events[ei].Ts = 0
				}
			}
		}
		for oi := range res.Obs {
			if math.IsInf(res.Obs[oi].Ts, 0) || math.IsNaN(res.Obs[oi].Ts) {
				res.Obs[oi].Ts = 0
			}
		}
		cases = append(cases, caseJSON{Cfg: text, Items: hitems, Result: res, Expected: expectedJSON(fs)})
		stats["lines"] += nLines
		stats["matches"] += nMatches
		stats["sig-events"] += nEvents
		stats["csv-rows"] += nRows
		stats["expected-rows"] += nPoints
		stats["files"] += len(keys)
		stats[fmt.Sprintf("status-%d", status)]++
		if c.Auditor != nil {
			stats["with-auditor"]++
		}
		if len(c.OnlyHelps) > 0 {
			stats["with-only-helps-watchers"]++
		}
		for _, r := range c.Roles {
			if r.Multi != "" {
				stats["multiplied-cast-lines"]++
			}
			if r.Extends != "" {
				stats["extending-roles"]++
			}
			for _, sg := range r.Sigs {
				if sg.Alt {
					stats["patterns-with-a-group-name-in-two-alternatives"]++
				}
			}
		}
		for _, it := range gitems {
			if it.Kind == "line" && it.Line.Text == "" {
				stats["blank-lines"]++
			}
		}
		for _, r := range c.Roles {
			for _, s := range r.Sigs {
				stats["sig-"+kindNames[s.Kind]+"-"+s.Group]++
			}
		}
		key := text + fmt.Sprint(hitems)
		if !distinct[key] {
			distinct[key] = true
			if nPoints >= 3 && nLines >= 3 {
				nontriv++
			}
		}
	}
	vh.WriteFile(*out, "cases.v", "Definition cases : list c08_case := "+vh.ListNL(itemsV)+".\n")
	vh.WriteJSON(*out, "cases.json", cases)
	var samples []interface{}
	if len(cases) > 0 {
		for _, i := range []int{0, len(cases) / 2} {
			samples = append(samples, map[string]interface{}{"config": cases[i].Cfg, "items": cases[i].Items,
				"csv": cases[i].Result.CSV, "expected": cases[i].Expected})
		}
	}
	if len(intentMismatch) > 20 {
		intentMismatch = intentMismatch[:20]
	}
	if len(declMismatch) > 20 {
		declMismatch = declMismatch[:20]
	}
	vh.WriteJSON(*out, "summary.json", map[string]interface{}{
		"cases": len(cases), "distinct_nontrivial": nontriv, "stats": stats, "samples": samples,
		"intent_mismatch": intentMismatch, "decl_mismatch": declMismatch,
	})
}

// ---------------------------------------------------------------------------
// end-to-end plays (thorough tier); see e2e.go

func readJSON(path string, v interface{}) {
	b, err := ioutil.ReadFile(path)
	if err != nil {
		fmt.Fprintln(os.Stderr, err)
		os.Exit(2)
	}
	if err := json.Unmarshal(b, v); err != nil {
		fmt.Fprintln(os.Stderr, err)
		os.Exit(2)
	}
}

// doReplay runs the configuration and items of a replay file through the real
// code again and compares the number of rows of every expected file.
func doReplay(path string) int {
	var r struct {
		Config   string             `json:"config"`
		Items    []cmd.VerifC08Item `json:"items"`
		Expected []expJSON          `json:"expected_points"`
	}
	readJSON(path, &r)
	if r.Config == "" || len(r.Items) == 0 {
		fmt.Println("replay file holds no in-process case (config/items)")
		return 2
	}
	res := cmd.VerifSpotlightPlay(r.Config, int64(EpochSec)*1000000000, r.Items)
	fmt.Printf("parse error: %q  audition error: %q  panic: %q\n", res.ParseErr, res.AuditErr, res.Panic)
	bad := 0
	for _, e := range r.Expected {
		got := res.CSV[e.File]
		n := 0
		if got != "" {
			n = len(strings.Split(strings.TrimRight(got, "\n"), "\n"))
		}
		mark := "ok"
		if n != len(e.Points) {
			mark = "MISMATCH"
			bad++
		}
		fmt.Printf("%s (%s): expected %d rows, got %d  %s\n", e.File, e.Kind, len(e.Points), n, mark)
		for _, p := range e.Points {
			fmt.Println("    expected " + p)
		}
		for _, l := range strings.Split(strings.TrimRight(got, "\n"), "\n") {
			if l != "" {
				fmt.Println("    got      " + l)
			}
		}
	}
	if bad > 0 || res.AuditErr != "" || res.Panic != "" {
		return 1
	}
	return 0
}
